package h2x

import (
	"bytes"
	"crypto/ecdsa"
	"crypto/elliptic"
	"crypto/rand"
	"crypto/tls"
	"crypto/x509"
	"crypto/x509/pkix"
	"fmt"
	"io"
	"math/big"
	"net"
	"net/url"
	"os"
	"strings"
	"sync"
	"time"

	"github.com/google/martian/v3/h2"
	"golang.org/x/net/http2"
	"verifharness/hx"
)

func winTok(p *h2.VerifRelayPair, dir h2.Direction, tag string) string {
	conn, ini, mf, ss := p.Windows(dir)
	var parts []string
	for _, s := range ss {
		parts = append(parts, fmt.Sprintf("%d.%d.%d", s.ID, s.Window, s.Queued))
	}
	return fmt.Sprintf("=%s:%d:%d:%d:%s", tag, conn, ini, mf, strings.Join(parts, ";"))
}

// RunStep drives the two real relays label by label through the verif hook.
func RunStep(labels []string) (out []string) {
	p := h2.VerifNewRelayPair(nil)
	defer p.Close()
	eps := [2]*Endpoint{NewEndpoint(), NewEndpoint()}
	for _, tok := range labels {
		y := sideIdx(tok[1])
		raw, _, ok := eps[y].Frame(tok)
		if !ok {
			return append(out, "|", "BADTOKEN")
		}
		dir := h2.ClientToServer
		if y == 1 {
			dir = h2.ServerToClient
		}
		toC, toS, err := p.Step(dir, raw)
		out = append(out, "|")
		out = append(out, ">c")
		out = append(out, eps[0].ReceiveBytes(toC)...)
		out = append(out, ">s")
		out = append(out, eps[1].ReceiveBytes(toS)...)
		if err != nil {
			if strings.HasPrefix(err.Error(), "PANIC") {
				out = append(out, "PANIC")
			} else if strings.Contains(err.Error(), "dynamic table size update MUST occur at the beginning") {
				out = append(out, "ERR2U") // the relay's decoder refused a second leading size update
			} else {
				out = append(out, "ERR")
			}
			if os.Getenv("VERIF_H2_DEBUG") != "" {
				fmt.Fprintln(os.Stderr, "step error:", tok, err)
			}
			return out
		}
		// flow toward the client = relay server->client
		out = append(out, winTok(p, h2.ServerToClient, "c"), winTok(p, h2.ClientToServer, "s"))
	}
	return out
}

// RunPreface runs the real forwardPreface over a transport that delivers the
// given chunks one per Read.
func RunPreface(chunks []string) []string {
	var cs [][]byte
	for _, c := range chunks {
		cs = append(cs, hx.MustUnHex(c))
	}
	r := &chunkReader{chunks: cs}
	var w bytes.Buffer
	err := func() (err error) {
		defer func() {
			if x := recover(); x != nil {
				err = fmt.Errorf("PANIC")
			}
		}()
		return h2.VerifForwardPreface(&w, r)
	}()
	if err != nil {
		if err.Error() == "PANIC" {
			return []string{"PANIC"}
		}
		return []string{"err"}
	}
	var rest []byte
	for _, c := range r.chunks {
		rest = append(rest, c...)
	}
	return []string{"ok", hx.Hex(w.Bytes()), hx.Hex(rest)}
}

type chunkReader struct{ chunks [][]byte }

func (c *chunkReader) Read(p []byte) (int, error) {
	for len(c.chunks) > 0 && len(c.chunks[0]) == 0 {
		c.chunks = c.chunks[1:]
	}
	if len(c.chunks) == 0 {
		return 0, io.EOF
	}
	n := copy(p, c.chunks[0])
	c.chunks[0] = c.chunks[0][n:]
	if len(c.chunks[0]) == 0 {
		c.chunks = c.chunks[1:]
	}
	return n, nil
}

// ---------------------------------------------------------------- end to end

var (
	tlsOnce   sync.Once
	srvCert   tls.Certificate
	rootPool  *x509.CertPool
	tlsSetupE error
)

func setupTLS() {
	caKey, err := ecdsa.GenerateKey(elliptic.P256(), rand.Reader)
	if err != nil {
		tlsSetupE = err
		return
	}
	caT := &x509.Certificate{SerialNumber: big.NewInt(1), Subject: pkix.Name{CommonName: "verif-ca"},
		NotBefore: time.Now().Add(-time.Hour), NotAfter: time.Now().Add(24 * time.Hour),
		IsCA: true, BasicConstraintsValid: true, KeyUsage: x509.KeyUsageCertSign | x509.KeyUsageDigitalSignature}
	caDER, err := x509.CreateCertificate(rand.Reader, caT, caT, &caKey.PublicKey, caKey)
	if err != nil {
		tlsSetupE = err
		return
	}
	ca, _ := x509.ParseCertificate(caDER)
	key, _ := ecdsa.GenerateKey(elliptic.P256(), rand.Reader)
	lt := &x509.Certificate{SerialNumber: big.NewInt(2), Subject: pkix.Name{CommonName: "127.0.0.1"},
		NotBefore: time.Now().Add(-time.Hour), NotAfter: time.Now().Add(24 * time.Hour),
		IPAddresses: []net.IP{net.ParseIP("127.0.0.1")}, KeyUsage: x509.KeyUsageDigitalSignature,
		ExtKeyUsage: []x509.ExtKeyUsage{x509.ExtKeyUsageServerAuth}}
	der, err := x509.CreateCertificate(rand.Reader, lt, ca, &key.PublicKey, caKey)
	if err != nil {
		tlsSetupE = err
		return
	}
	srvCert = tls.Certificate{Certificate: [][]byte{der}, PrivateKey: key}
	rootPool = x509.NewCertPool()
	rootPool.AddCert(ca)
}

const fenceStream = 0x7ffffff1

// dribbler writes in pieces of at most n bytes (n <= 0: whole).
type dribbler struct {
	w io.Writer
	n int
}

func (d dribbler) Write(p []byte) (int, error) {
	if d.n <= 0 {
		return d.w.Write(p)
	}
	t := 0
	for len(p) > 0 {
		k := d.n
		if k > len(p) {
			k = len(p)
		}
		m, err := d.w.Write(p[:k])
		t += m
		if err != nil {
			return t, err
		}
		p = p[k:]
	}
	return t, nil
}

type rx struct {
	f   http2.Frame
	err error
}

// reader copies frames off a connection into a channel (frames are copied
// because the Framer reuses its buffer).
func reader(r io.Reader, ch chan<- rx) {
	fr := http2.NewFramer(nil, r)
	fr.AllowIllegalReads = true
	for {
		f, err := fr.ReadFrame()
		if err != nil {
			ch <- rx{nil, err}
			return
		}
		ch <- rx{cloneFrame(f), nil}
	}
}

// cloneFrame re-parses the frame from its own bytes so that it survives the next ReadFrame.
func cloneFrame(f http2.Frame) http2.Frame {
	var b bytes.Buffer
	w := http2.NewFramer(&b, nil)
	w.AllowIllegalWrites = true
	h := f.Header()
	var payload []byte
	switch f := f.(type) {
	case *http2.DataFrame:
		if h.Flags.Has(http2.FlagDataPadded) {
			payload = append([]byte{byte(int(h.Length) - 1 - len(f.Data()))}, f.Data()...)
			payload = append(payload, make([]byte, int(h.Length)-1-len(f.Data()))...)
		} else {
			payload = f.Data()
		}
	case *http2.HeadersFrame:
		if h.Flags.Has(http2.FlagHeadersPadded) {
			return f // not produced by the relay; reported as ?:padded-headers from flags
		}
		if f.HasPriority() {
			p := f.Priority
			d := p.StreamDep
			if p.Exclusive {
				d |= 1 << 31
			}
			payload = []byte{byte(d >> 24), byte(d >> 16), byte(d >> 8), byte(d), p.Weight}
		}
		payload = append(payload, f.HeaderBlockFragment()...)
	case *http2.ContinuationFrame:
		payload = f.HeaderBlockFragment()
	case *http2.PushPromiseFrame:
		if h.Flags.Has(http2.FlagPushPromisePadded) {
			return f
		}
		payload = []byte{byte(f.PromiseID >> 24), byte(f.PromiseID >> 16), byte(f.PromiseID >> 8), byte(f.PromiseID)}
		payload = append(payload, f.HeaderBlockFragment()...)
	case *http2.PriorityFrame:
		d := f.StreamDep
		if f.Exclusive {
			d |= 1 << 31
		}
		payload = []byte{byte(d >> 24), byte(d >> 16), byte(d >> 8), byte(d), f.Weight}
	case *http2.RSTStreamFrame:
		c := uint32(f.ErrCode)
		payload = []byte{byte(c >> 24), byte(c >> 16), byte(c >> 8), byte(c)}
	case *http2.SettingsFrame:
		f.ForeachSetting(func(s http2.Setting) error {
			payload = append(payload, byte(s.ID>>8), byte(s.ID), byte(s.Val>>24), byte(s.Val>>16), byte(s.Val>>8), byte(s.Val))
			return nil
		})
	case *http2.PingFrame:
		payload = f.Data[:]
	case *http2.GoAwayFrame:
		c := uint32(f.ErrCode)
		payload = []byte{byte(f.LastStreamID >> 24), byte(f.LastStreamID >> 16), byte(f.LastStreamID >> 8), byte(f.LastStreamID),
			byte(c >> 24), byte(c >> 16), byte(c >> 8), byte(c)}
		payload = append(payload, f.DebugData()...)
	case *http2.WindowUpdateFrame:
		payload = []byte{byte(f.Increment >> 24), byte(f.Increment >> 16), byte(f.Increment >> 8), byte(f.Increment)}
	default:
		return f
	}
	w.WriteRawFrame(h.Type, h.Flags, h.StreamID, payload)
	r := http2.NewFramer(nil, &b)
	r.AllowIllegalReads = true
	g, err := r.ReadFrame()
	if err != nil {
		return f
	}
	return g
}

func isFence(f http2.Frame) bool {
	p, ok := f.(*http2.PriorityFrame)
	return ok && p.StreamID == fenceStream
}

// RunE2E drives h2.Config.Proxy: an in-memory client connection whose bytes
// (preface included) arrive in pieces of at most `dribble` bytes, and a local
// TLS endpoint speaking raw frames.  After every label the sender pushes a
// fence frame (PRIORITY on a reserved stream) through the relay and the other
// endpoint echoes one back, so that the frames each label caused are attributed
// to it; the fences are not reported.
func RunE2E(dribble int, prefaceWhole bool, labels []string, grace time.Duration) (out []string) {
	tlsOnce.Do(setupTLS)
	if tlsSetupE != nil {
		return []string{"|", "SETUPFAIL"}
	}
	ln, err := tls.Listen("tcp", "127.0.0.1:0", &tls.Config{Certificates: []tls.Certificate{srvCert}, NextProtos: []string{"h2"}})
	if err != nil {
		return []string{"|", "SETUPFAIL"}
	}
	defer ln.Close()
	type acc struct {
		c   net.Conn
		err error
	}
	accCh := make(chan acc, 1)
	go func() {
		c, err := ln.Accept()
		accCh <- acc{c, err}
	}()
	cHarness, cProxy := net.Pipe()
	defer cHarness.Close()
	u, _ := url.Parse("https://" + ln.Addr().String() + "/")
	cfg := &h2.Config{RootCAs: rootPool}
	closing := make(chan bool)
	proxyDone := make(chan error, 1)
	go func() { proxyDone <- cfg.Proxy(closing, cProxy, u) }()
	defer func() {
		close(closing)
		cProxy.Close()
	}()

	var sconn net.Conn
	select {
	case a := <-accCh:
		if a.err != nil {
			return []string{"|", "SETUPFAIL"}
		}
		sconn = a.c
	case <-time.After(grace):
		return []string{"|", "SETUPFAIL"}
	}
	defer sconn.Close()

	// client preface, dribbled
	cw := dribbler{cHarness, dribble}
	sw := dribbler{sconn, dribble}
	prefaceErr := make(chan error, 1)
	go func() {
		var w io.Writer = cw
		if prefaceWhole {
			w = cHarness
		}
		_, err := w.Write([]byte(http2.ClientPreface))
		prefaceErr <- err
	}()
	// the server endpoint must see exactly the preface
	pre := make(chan bool, 1)
	go func() {
		got := make([]byte, len(http2.ClientPreface))
		sconn.SetReadDeadline(time.Now().Add(grace))
		_, err := io.ReadFull(sconn, got)
		sconn.SetReadDeadline(time.Time{})
		pre <- err == nil && string(got) == http2.ClientPreface
	}()
	select {
	case ok := <-pre:
		if !ok {
			return []string{"|", "PREFACE"}
		}
	case <-proxyDone:
		return []string{"|", "PREFACE"}
	}
	select {
	case <-prefaceErr:
	case <-time.After(grace):
		return []string{"|", "PREFACE"}
	}

	chans := [2]chan rx{make(chan rx, 1024), make(chan rx, 1024)}
	go reader(cHarness, chans[0])
	go reader(sconn, chans[1])
	writers := [2]io.Writer{cw, sw}
	eps := [2]*Endpoint{NewEndpoint(), NewEndpoint()}
	var toks [2][]string
	dead := false
	var isOpen [2]bool

	// waitFence collects what endpoint z receives until the fence shows up.
	waitFence := func(z int) bool {
		t := time.NewTimer(grace)
		defer t.Stop()
		for {
			select {
			case r := <-chans[z]:
				if r.err != nil {
					return false
				}
				if isFence(r.f) {
					return true
				}
				if tk, ok := eps[z].Receive(r.f); ok {
					toks[z] = append(toks[z], tk)
				}
			case <-proxyDone:
				return false
			case <-t.C:
				return false
			}
		}
	}
	fenceRaw := func(e *Endpoint, n int) []byte {
		e.wbuf.Reset()
		e.fr.WritePriority(fenceStream, http2.PriorityParam{Weight: uint8(n)})
		return append([]byte(nil), e.wbuf.Bytes()...)
	}
	send := func(y int, raw []byte) bool {
		done := make(chan error, 1)
		go func() { _, err := writers[y].Write(raw); done <- err }()
		// keep draining both sides while the (synchronous) pipe write is in progress
		t := time.NewTimer(grace)
		defer t.Stop()
		select {
		case err := <-done:
			return err == nil
		case <-t.C:
			return false
		}
	}

	for i, tok := range labels {
		y := sideIdx(tok[1])
		z := 1 - y
		raw, open, ok := eps[y].Frame(tok)
		if !ok {
			return append(out, "|", "BADTOKEN")
		}
		toks = [2][]string{}
		out = append(out, "|")
		if !send(y, raw) {
			dead = true
		}
		isOpen[y] = open
		if !dead && !open && !isOpen[z] {
			if !send(y, fenceRaw(eps[y], i)) || !waitFence(z) || !send(z, fenceRaw(eps[z], i)) || !waitFence(y) {
				dead = true
			}
		}
		out = append(out, ">c")
		out = append(out, toks[0]...)
		out = append(out, ">s")
		out = append(out, toks[1]...)
		if dead {
			return append(out, "ERR")
		}
	}
	return out
}
