package h2x

import (
	"crypto/tls"
	"fmt"
	"io"
	"net"
	"net/url"
	"time"

	"github.com/google/martian/v3/h2"
	"golang.org/x/net/http2"
)

// slowReader delivers at most n octets per Read and pauses after each.
type slowReader struct {
	r     io.Reader
	n     int
	pause time.Duration
	cnt   *int
}

func (s slowReader) Read(p []byte) (int, error) {
	if s.n > 0 && len(p) > s.n {
		p = p[:s.n]
	}
	k, err := s.r.Read(p)
	*s.cnt++
	if s.pause > 0 && *s.cnt%8 == 0 {
		time.Sleep(s.pause) // timer granularity makes this ~0.1-1 ms
	}
	return k, err
}

var (
	asyPing1 = [8]byte{0xa5, 'e', 'n', 'd', '-', 's', 'r', 'v'}
	asyPing2 = [8]byte{0xa5, 'e', 'n', 'd', '-', 'c', 'l', 'i'}
)

// RunAsync drives h2.Config.Proxy with both endpoints sending their labels as
// fast as they can while the CLIENT reads what the relay writes to it `piece`
// octets at a time with pauses (net.Pipe is unbuffered, so the relay's writer
// goroutine sits inside a frame while further frames for the same destination
// arrive: queued DATA/HEADERS from the server, direct GOAWAY/PING/SETTINGS from
// the server, and the relay's own WINDOW_UPDATE credit for the client's DATA).
// Nothing is attributed to labels: all frames received are reported in the
// last step.  End of run: each side finishes with a fence PRIORITY frame; the
// server adds a PING after its script and another after it has seen the
// client's fence (all credit has then been written); these are not reported.
func RunAsync(piece int, labels []string, grace time.Duration) (out []string) {
	tlsOnce.Do(setupTLS)
	fail := func(t string) []string {
		var o []string
		for i := 0; i < len(labels)-1; i++ {
			o = append(o, "|", ">c", ">s")
		}
		return append(o, "|", t)
	}
	if len(labels) == 0 {
		return nil
	}
	if tlsSetupE != nil {
		return fail("SETUPFAIL")
	}
	ln, err := tls.Listen("tcp", "127.0.0.1:0", &tls.Config{Certificates: []tls.Certificate{srvCert}, NextProtos: []string{"h2"}})
	if err != nil {
		return fail("SETUPFAIL")
	}
	defer ln.Close()
	type acc struct {
		c   net.Conn
		err error
	}
	accCh := make(chan acc, 1)
	go func() {
		c, err := ln.Accept()
		accCh <- acc{c, err}
	}()
	cHarness, cProxy := net.Pipe()
	defer cHarness.Close()
	u, _ := url.Parse("https://" + ln.Addr().String() + "/")
	cfg := &h2.Config{RootCAs: rootPool}
	closing := make(chan bool)
	proxyDone := make(chan error, 1)
	go func() { proxyDone <- cfg.Proxy(closing, cProxy, u) }()
	defer func() {
		close(closing)
		cProxy.Close()
	}()
	var sconn net.Conn
	select {
	case a := <-accCh:
		if a.err != nil {
			return fail("SETUPFAIL")
		}
		sconn = a.c
	case <-time.After(grace):
		return fail("SETUPFAIL")
	}
	defer sconn.Close()
	go cHarness.Write([]byte(http2.ClientPreface))
	got := make([]byte, len(http2.ClientPreface))
	sconn.SetReadDeadline(time.Now().Add(grace))
	if _, err := io.ReadFull(sconn, got); err != nil {
		return fail("PREFACE")
	}
	sconn.SetReadDeadline(time.Time{})

	// serialise every frame first: the endpoints' state is then only touched by their readers
	eps := [2]*Endpoint{NewEndpoint(), NewEndpoint()}
	var raws [2][][]byte
	for _, tok := range labels {
		y := sideIdx(tok[1])
		raw, _, ok := eps[y].Frame(tok)
		if !ok {
			return fail("BADTOKEN")
		}
		raws[y] = append(raws[y], raw)
	}
	fence := func(e *Endpoint) []byte {
		e.wbuf.Reset()
		e.fr.WritePriority(fenceStream, http2.PriorityParam{Weight: 1})
		return append([]byte(nil), e.wbuf.Bytes()...)
	}
	ping := func(e *Endpoint, d [8]byte) []byte {
		e.wbuf.Reset()
		e.fr.WritePing(false, d)
		return append([]byte(nil), e.wbuf.Bytes()...)
	}
	cFence, sFence := fence(eps[0]), fence(eps[1])
	p1, p2 := ping(eps[1], asyPing1), ping(eps[1], asyPing2)

	type res struct {
		toks []string
		ok   bool
	}
	clientFenceSeen := make(chan struct{})
	resC, resS := make(chan res, 1), make(chan res, 1)
	// client reader: slow
	go func() {
		fr := http2.NewFramer(nil, slowReader{cHarness, piece, 30 * time.Microsecond, new(int)})
		fr.AllowIllegalReads = true
		var toks []string
		seenF, seen1, seen2 := false, false, false
		for !(seenF && seen1 && seen2) {
			f, err := fr.ReadFrame()
			if err != nil {
				resC <- res{append(toks, "?:unreadable-"+fmt.Sprintf("%T", err)), false}
				return
			}
			if isFence(f) {
				seenF = true
				continue
			}
			if p, ok := f.(*http2.PingFrame); ok && !p.IsAck() && p.Data == asyPing1 {
				seen1 = true
				continue
			}
			if p, ok := f.(*http2.PingFrame); ok && !p.IsAck() && p.Data == asyPing2 {
				seen2 = true
				continue
			}
			if t, ok := eps[0].Receive(f); ok {
				toks = append(toks, t)
			}
		}
		resC <- res{toks, true}
	}()
	// server reader
	go func() {
		fr := http2.NewFramer(nil, sconn)
		fr.AllowIllegalReads = true
		var toks []string
		nf := 0
		for {
			f, err := fr.ReadFrame()
			if err != nil {
				resS <- res{append(toks, "?:unreadable"), false}
				return
			}
			if isFence(f) {
				// first fence: the client's script is through; second: the client has received
				// everything, so all credit for the server's DATA has been written before it
				if nf++; nf == 1 {
					close(clientFenceSeen)
					continue
				}
				resS <- res{toks, true}
				return
			}
			if t, ok := eps[1].Receive(f); ok {
				toks = append(toks, t)
			}
		}
	}()
	// writers
	go func() {
		for _, r := range raws[0] {
			if _, err := cHarness.Write(r); err != nil {
				return
			}
		}
		cHarness.Write(cFence)
	}()
	go func() {
		for _, r := range raws[1] {
			if _, err := sconn.Write(r); err != nil {
				return
			}
		}
		sconn.Write(sFence)
		sconn.Write(p1)
		select {
		case <-clientFenceSeen:
			sconn.Write(p2)
		case <-time.After(grace):
		}
	}()
	var rc, rs res
	t := time.NewTimer(grace)
	defer t.Stop()
	for n := 0; n < 2; {
		select {
		case rc = <-resC:
			n++
			resC = nil
			if rc.ok {
				go cHarness.Write(cFence)
			}
		case rs = <-resS:
			n++
			resS = nil
		case <-t.C:
			n = 2
		}
	}
	for i := 0; i < len(labels)-1; i++ {
		out = append(out, "|", ">c", ">s")
	}
	out = append(out, "|", ">c")
	out = append(out, rc.toks...)
	out = append(out, ">s")
	out = append(out, rs.toks...)
	if !rc.ok || !rs.ok {
		out = append(out, "ERR")
	}
	return out
}

// GenAsync: the server streams DATA to the (slow) client and interleaves direct frames with
// large payloads; the client sends DATA (credit is written to the client) and PINGs.
func GenAsync(pickf func(...int) int, chance func(int, int) bool, rnd func(int) string) []string {
	var srv, cli []string
	srv = append(srv, "Hs:1:0:1:-:-:1:0")
	cli = append(cli, "Hc:1:0:1:-:-:0:0")
	total := 0
	for i := 0; i < 8 && total < 14000; i++ {
		n := pickf(900, 1500, 2500, 3000)
		total += n
		srv = append(srv, fmt.Sprintf("Ds:%d:0:-:z%d.%d", pickf(1, 1, 3), n, i*17))
		switch pickf(0, 1, 2, 3, 4) {
		case 0:
			srv = append(srv, fmt.Sprintf("Ys:%d:%d:%s", pickf(1, 3, 2147483647), pickf(0, 2), rnd(pickf(800, 2000))))
		case 1:
			srv = append(srv, "Gs:0:"+rnd(8))
		case 2:
			kv := ""
			for j := 0; j < pickf(100, 300); j++ {
				if j > 0 {
					kv += ","
				}
				kv += fmt.Sprintf("%d=%d", 16+j%200, j)
			}
			srv = append(srv, "Ss:"+kv)
		case 3:
			srv = append(srv, "As")
		}
		if chance(1, 3) {
			srv = append(srv, fmt.Sprintf("Hs:%d:0:1:-:-:%d:0", pickf(3, 5), pickf(2, 3, 7, 11)))
		}
	}
	srv = append(srv, "Ds:1:1:-:z10.1")
	for i := 0; i < pickf(4, 8, 12); i++ {
		cli = append(cli, fmt.Sprintf("Dc:1:0:%s:z%d.%d", []string{"-", "7", "255"}[pickf(0, 1, 2)], pickf(1, 10, 300), i))
		if chance(1, 3) {
			cli = append(cli, "Gc:0:"+rnd(8))
		}
	}
	// interleave the two sequences (the relative order across sides is irrelevant: they run concurrently)
	var out []string
	for len(srv) > 0 || len(cli) > 0 {
		if len(cli) == 0 || (len(srv) > 0 && chance(1, 2)) {
			out, srv = append(out, srv[0]), srv[1:]
		} else {
			out, cli = append(out, cli[0]), cli[1:]
		}
	}
	return out
}
