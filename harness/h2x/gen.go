package h2x

import (
	"fmt"
	"strconv"
	"strings"

	"verifharness/hx"
)

var sides = [2]string{"c", "s"}

type genState struct {
	r          *hx.RNG
	profile    string
	open       [2]bool // a header block is open in the frames of this side
	openSid    [2]int
	ended      [2]map[int]bool
	streams    []int
	nextSid    int
	big        bool
	noOpenPush bool
	lockstep   bool
	queue      []string  // labels that must come next
	unacked    [2]int    // SETTINGS frames sent by each side and not yet acknowledged by the other
	pendTab    [2][]bool // per SETTINGS frame a side has received and not acknowledged: carries HEADER_TABLE_SIZE
	changed    [2]bool   // the side's encoder changed its table size since its last complete block
}

func (g *genState) pick(xs ...int) int { return xs[g.r.Intn(len(xs))] }

func (g *genState) sid() int {
	if len(g.streams) == 0 || (len(g.streams) < 4 && g.r.Chance(1, 4)) {
		s := g.nextSid
		if g.r.Chance(1, 30) {
			s = 2147483645 // largest client-initiated id below the harness's fence stream
		}
		g.nextSid += 2
		g.streams = append(g.streams, s)
		return s
	}
	return g.streams[g.r.Intn(len(g.streams))]
}

func (g *genState) prio() string {
	if g.r.Chance(1, 40) {
		return "0.0.0" // known finding C08-K1: keep it rare
	}
	switch g.r.Intn(10) {
	case 1, 2:
		return fmt.Sprintf("%d.%d.%d", g.pick(0, 1, 3), g.r.Intn(2), g.pick(0, 15, 255))
	}
	return "-"
}

func (g *genState) pad() string {
	if g.r.Chance(2, 3) {
		return "-"
	}
	return fmt.Sprint(g.pick(0, 1, 7, 20, 255))
}

func (g *genState) data() string {
	if g.big && g.r.Chance(1, 3) {
		return fmt.Sprintf("z%d.%d", g.pick(16383, 16384, 16385, 20000, 32769, 40000), g.r.Intn(200))
	}
	n := g.pick(0, 0, 1, 1, 2, 3, 5, 5, 10, 10, 31, 31, 100, 255, 256, 1000)
	if n <= 32 {
		return hx.Hex(g.r.Bytes(n))
	}
	return fmt.Sprintf("z%d.%d", n, g.r.Intn(200))
}

// note keeps the SETTINGS / ACK bookkeeping: an ACK is only sent for an outstanding SETTINGS frame.
func (g *genState) note(l string) string {
	y := sideIdx(l[1])
	switch l[0] {
	case 'S':
		g.unacked[y]++
		g.pendTab[1-y] = append(g.pendTab[1-y], strings.Contains(l, ":1=") || strings.Contains(l, ",1="))
	case 'A':
		if g.unacked[1-y] == 0 {
			return fmt.Sprintf("G%s:1:%s", sides[y], hx.Hex(g.r.Bytes(8)))
		}
		if g.pendTab[y][0] && g.changed[y] && !g.open[y] {
			// a second table size change before the next block makes the sender emit two leading size
			// updates, which the pinned hpack decoder in the relay refuses (known finding C08-K5):
			// send a block first
			g.queue = append([]string{l}, g.queue...)
			g.changed[y] = false
			return fmt.Sprintf("H%s:%d:0:1:-:-:0:0", sides[y], g.sid())
		}
		g.unacked[1-y]--
		if g.pendTab[y][0] {
			g.changed[y] = true
		}
		g.pendTab[y] = g.pendTab[y][1:]
	case 'H', 'U', 'C':
		f := strings.Split(l, ":")
		eh := f[3]
		if l[0] != 'H' {
			eh = f[2]
		}
		if eh == "1" {
			g.changed[y] = false
		}
	}
	return l
}

func (g *genState) label() string { return g.note(g.label0()) }

func (g *genState) label0() string {
	if len(g.queue) > 0 && !g.open[sideIdx(g.queue[0][1])] && !(g.lockstep && g.open[1-sideIdx(g.queue[0][1])]) {
		l := g.queue[0]
		g.queue = g.queue[1:]
		return l
	}
	y := 0
	if g.r.Chance(2, 5) {
		y = 1
	}
	if g.lockstep && g.open[1-y] {
		y = 1 - y // end to end: the fence frames cannot be sent inside an open block
	}
	Y := sides[y]
	if g.open[y] {
		eh := g.r.Chance(1, 2)
		if eh {
			g.open[y] = false
		}
		return fmt.Sprintf("C%s:%d:%d:%d", Y, g.openSid[y], b2i(eh), g.pick(0, 1, 2, 7, 30, 100000))
	}
	k := g.r.Intn(100)
	c09 := g.profile == "c09"
	th := []int{25, 50, 56, 62, 68, 74, 78, 82, 92, 100} // H D P R U S A G/Y Wstream Wconn (c08)
	if c09 {
		th = []int{10, 50, 52, 55, 57, 70, 72, 74, 90, 100}
	}
	hdr := func(kind string) string {
		s := g.sid()
		es := g.r.Chance(1, 5) && kind == "H"
		eh := !g.r.Chance(2, 5)
		if c09 {
			eh = !g.r.Chance(1, 6)
		}
		fid := g.r.Intn(len(FieldLists))
		if fid == 5 && !g.big {
			fid = 2
		}
		if fid == 12 && !g.r.Chance(1, 4) {
			fid = 11
		}
		if fid == 6 && (g.noOpenPush || !g.r.Chance(1, 10)) {
			fid = 9 // known finding C08-K3 (empty fragment): keep it rare
		}
		if kind == "U" && fid == 6 {
			// an empty block carries no in-band table size update; HEADERS with an empty block never
			// gets through (C08-K3), so empty blocks are simply not generated for PUSH_PROMISE
			fid = 9
		}
		if kind == "U" && !eh {
			// known finding C08-K2: a continued PUSH_PROMISE stops the relay; keep it rare
			eh = g.noOpenPush || !g.r.Chance(1, 8)
		}
		if !eh {
			g.open[y], g.openSid[y] = true, s
		}
		cut := g.pick(1, 1, 2, 3, 9, 40, 100000)
		if !g.noOpenPush && g.r.Chance(1, 50) {
			cut = 0
		}
		if kind == "H" {
			if es {
				g.ended[y][s] = true
			}
			return fmt.Sprintf("H%s:%d:%d:%d:%s:%s:%d:%d", Y, s, b2i(es), b2i(eh), g.prio(), g.pad(), fid, cut)
		}
		return fmt.Sprintf("U%s:%d:%d:%d:%s:%d:%d", Y, s, b2i(eh), g.pick(2, 4, 6), g.pad(), fid, cut)
	}
	switch {
	case k < th[0]:
		return hdr("H")
	case k < th[1]:
		s := g.sid()
		if g.ended[y][s] {
			return fmt.Sprintf("W%s:%d:%d", Y, s, g.pick(1, 2, 10, 100, 1000, 70000))
		}
		es := g.r.Chance(1, 6)
		if es {
			g.ended[y][s] = true
		}
		return fmt.Sprintf("D%s:%d:%d:%s:%s", Y, s, b2i(es), g.pad(), g.data())
	case k < th[2]:
		return fmt.Sprintf("P%s:%d:%d.%d.%d", Y, g.sid(), g.pick(0, 1, 3, 5), g.r.Intn(2), g.pick(0, 1, 15, 255))
	case k < th[3]:
		return fmt.Sprintf("R%s:%d:%d", Y, g.sid(), g.pick(0, 1, 2, 8, 11, 4294967295))
	case k < th[4]:
		return hdr("U")
	case k < th[5]:
		if g.profile == "c08" && g.r.Chance(2, 5) {
			// HEADER_TABLE_SIZE (first in the frame), usually acknowledged at once by the peer;
			// an unacknowledged lowering with header blocks in flight is known finding C08-K4
			l := fmt.Sprintf("S%s:1=%d", Y, g.pick(0, 0, 64, 100, 4096, 8192, 65536))
			if g.r.Chance(1, 3) {
				l += fmt.Sprintf(",4=%d", g.pick(0, 10, 65535))
			}
			if g.r.Chance(9, 10) {
				g.queue = append(g.queue, "A"+sides[1-y])
			}
			return l
		}
		if g.r.Chance(1, 4) {
			return fmt.Sprintf("S%s:%s", Y, g.settingsList())
		}
		switch g.r.Intn(8) {
		case 0:
			return fmt.Sprintf("S%s:", Y)
		case 1:
			return fmt.Sprintf("S%s:5=%d", Y, g.pick(16384, 16385, 20000, 32768, 65536, 16777215))
		case 2:
			return fmt.Sprintf("S%s:3=100,5=%d,4=%d", Y, g.pick(16384, 20000, 32768), g.pick(0, 1, 10, 100, 65535, 70000))
		case 3:
			// ENABLE_PUSH, MAX_HEADER_LIST_SIZE, ENABLE_CONNECT_PROTOCOL, unknown identifiers, a repeated identifier
			return fmt.Sprintf("S%s:2=%d,6=4096,8=1,%d=%d,6=%d", Y, g.r.Intn(2), g.pick(16, 255, 61440, 65535), g.pick(0, 7, 4294967295), g.pick(0, 100000))
		default:
			return fmt.Sprintf("S%s:4=%d", Y, g.pick(0, 0, 1, 2, 10, 31, 100, 1000, 16384, 65535, 100000, 2147483647))
		}
	case k < th[6]:
		return "A" + Y
	case k < th[7]:
		if g.r.Chance(2, 3) {
			return fmt.Sprintf("G%s:%d:%s", Y, g.r.Intn(2), hx.Hex(g.r.Bytes(8)))
		}
		return fmt.Sprintf("Y%s:%d:%d:%s", Y, g.pick(0, 1, 3, 2147483647), g.pick(0, 2, 11), hx.Hex(g.r.Bytes(g.pick(0, 0, 3, 20))))
	case k < th[8]:
		return fmt.Sprintf("W%s:%d:%d", Y, g.sid(), g.pick(1, 1, 2, 5, 10, 31, 100, 1000, 16384, 70000))
	default:
		return fmt.Sprintf("W%s:0:%d", Y, g.pick(1, 1, 2, 10, 100, 1000, 16384, 65535, 100000))
	}
}

// Gen produces one script (labels only).
func Gen(r *hx.RNG, profile string, n int, big, lockstep bool) []string {
	noOpenPush := lockstep || profile == "c09"
	g := &genState{r: r, profile: profile, nextSid: 1, big: big, noOpenPush: noOpenPush, lockstep: lockstep}
	g.ended = [2]map[int]bool{{}, {}}
	var out []string
	// frequent opening: the receiver closes its windows first
	if r.Chance(1, 2) {
		out = append(out, g.note(fmt.Sprintf("S%s:4=%d", sides[r.Intn(2)], g.pick(0, 0, 1, 5, 10, 100))))
	}
	if profile == "c08" && r.Chance(1, 12) {
		// the receiver raises HEADER_TABLE_SIZE, the sender's encoder follows (size update above
		// 4096), sends ~7 KB of indexable fields and then the same list again as indexed references
		x := r.Intn(2)
		out = append(out, g.note(fmt.Sprintf("S%s:1=%d", sides[x], g.pick(8192, 65536, 65536))), g.note("A"+sides[1-x]))
		s1, s2 := g.sid(), g.sid()
		out = append(out, g.note(fmt.Sprintf("H%s:%d:0:1:-:-:12:0", sides[1-x], s1)), g.note(fmt.Sprintf("H%s:%d:0:1:-:-:12:0", sides[1-x], s2)))
	}
	for len(out) < n {
		out = append(out, g.label())
	}
	// close open blocks so that the script is complete
	for y := 0; y < 2; y++ {
		if g.open[y] {
			out = append(out, fmt.Sprintf("C%s:%d:1:0", sides[y], g.openSid[y]))
		}
	}
	return out
}

// GenPreface produces chunk tokens for a PRE case.
func GenPreface(r *hx.RNG) []string {
	pre := []byte("PRI * HTTP/2.0\r\n\r\nSM\r\n\r\n")
	tail := r.Bytes(r.Intn(12))
	all := append(append([]byte{}, pre...), tail...)
	switch r.Intn(8) {
	case 0:
		all[r.Intn(len(pre))] ^= 0x20 // wrong preface
	case 1:
		all = all[:r.Intn(len(pre))] // truncated
	}
	var out []string
	for len(all) > 0 {
		k := 1 + r.Intn(30)
		if r.Chance(1, 3) {
			k = 1 + r.Intn(3)
		}
		if k > len(all) {
			k = len(all)
		}
		out = append(out, hx.Hex(all[:k]))
		all = all[k:]
	}
	return out
}

// settingsList: a SETTINGS frame as an ordered LIST of (id, value) with repeated identifiers: each of
// the settings the relay interprets (MAX_FRAME_SIZE, HEADER_TABLE_SIZE, INITIAL_WINDOW_SIZE) up to
// three times with different values, unknown identifiers in between.  The receiver ends up with
// the LAST value of each (RFC 7540 6.5.3).  MAX_FRAME_SIZE / HEADER_TABLE_SIZE entries precede the
// first INITIAL_WINDOW_SIZE entry (frames released by an initial-window change are chunked and
// HPACK-encoded by the writer goroutine while the reader is still walking the list).
// A repeated HEADER_TABLE_SIZE makes the peer emit two size updates (known finding C08-K5 when it
// reaches the relay's decoder): only step-level scripts carry it.
func (g *genState) settingsList() string {
	var kv []string
	unk := func() {
		if g.r.Chance(1, 2) {
			kv = append(kv, fmt.Sprintf("%d=%d", g.pick(3, 6, 16, 61440), g.pick(0, 100, 4294967295)))
		}
	}
	for i, n := 0, g.pick(0, 1, 2, 2, 3); i < n; i++ {
		kv = append(kv, fmt.Sprintf("5=%d", g.pick(16384, 16385, 20000, 32768, 65536)))
		unk()
	}
	if g.profile == "c08" && !g.lockstep {
		for i, n := 0, g.pick(0, 0, 2, 3); i < n; i++ {
			kv = append(kv, fmt.Sprintf("1=%d", g.pick(0, 64, 100, 4096, 8192)))
			unk()
		}
	}
	for i, n := 0, g.pick(0, 1, 2, 2, 3); i < n; i++ {
		kv = append(kv, fmt.Sprintf("4=%d", g.pick(0, 1, 10, 30, 100, 1000, 65535, 100000)))
		unk()
	}
	return strings.Join(kv, ",")
}

// GenRegime produces a C09 script in one of three flow-control regimes with several DATA frames
// queued on ONE stream and grants in every relation to the queued sizes:
// a: only the connection window binds (stream window 1 MiB, connection window used up),
// b: only the stream window binds, c: both.
func GenRegime(r *hx.RNG, regime byte) []string {
	pick := func(xs ...int) int { return xs[r.Intn(len(xs))] }
	var out []string
	win, conn := 65535, 65535
	switch regime {
	case 'a', 'c':
		out = append(out, "Ss:5=65535,4=1048576", "Hc:1:0:1:-:-:0:0", fmt.Sprintf("Dc:1:0:-:z65535.%d", r.Intn(200)))
		win, conn = 1048576-65535, 0
		if regime == 'c' {
			w := pick(0, 1, 5, 20)
			out = append(out, fmt.Sprintf("Ss:4=%d", 65535+w))
			win = w
		}
	case 'b':
		w := pick(0, 0, 1, 5)
		out = append(out, fmt.Sprintf("Ss:4=%d", w), "Hc:1:0:1:-:-:0:0")
		win = w
	}
	var q []int
	emit := func() {
		for len(q) > 0 && q[0] <= win && q[0] <= conn {
			win -= q[0]
			conn -= q[0]
			q = q[1:]
		}
	}
	n := r.Range(2, 5)
	for i := 0; i < n; i++ {
		sz := pick(1, 2, 3, 5, 8, 13, 21)
		q = append(q, sz)
		out = append(out, fmt.Sprintf("Dc:1:%d:-:z%d.%d", b2i(i == n-1 && r.Chance(1, 2)), sz, r.Intn(200)))
		emit()
	}
	if r.Chance(1, 3) {
		out = append(out, fmt.Sprintf("Dc:3:0:-:z%d.1", pick(1, 4, 9)))
	}
	for g := 0; g < 7 && len(q) > 0; g++ {
		tot := 0
		for _, x := range q {
			tot += x
		}
		second := q[0]
		if len(q) > 1 {
			second += q[1]
		}
		k := pick(q[0]-1, q[0], q[0]+1, second-1, second, tot, tot+1, 1)
		if k < 1 {
			k = 1
		}
		onConn := regime == 'a' || (regime == 'c' && conn <= win) || (regime == 'c' && r.Chance(1, 3))
		if regime == 'a' && win < q[0] {
			onConn = false
		}
		if onConn && !(regime == 'b') {
			need := q[0] - conn
			if regime == 'c' && need <= 0 {
				onConn = false
			}
		}
		if regime == 'b' {
			onConn = false
		}
		if !onConn && regime != 'a' && r.Chance(1, 4) {
			// the stream window is changed by a SETTINGS frame carrying INITIAL_WINDOW_SIZE twice:
			// the LAST value counts (first: a decoy below or above it)
			cur := 0
			for _, l := range out {
				if strings.HasPrefix(l, "Ss:") {
					for _, e := range strings.Split(l[3:], ",") {
						if strings.HasPrefix(e, "4=") {
							cur, _ = strconv.Atoi(e[2:])
						}
					}
				}
			}
			decoy := cur + k + pick(-k, 1000)
			if decoy < 0 {
				decoy = 0
			}
			out = append(out, fmt.Sprintf("Ss:4=%d,16=1,4=%d", decoy, cur+k))
			win += k
			emit()
			continue
		}
		if onConn {
			out = append(out, fmt.Sprintf("Ws:0:%d", k))
			conn += k
		} else {
			out = append(out, fmt.Sprintf("Ws:1:%d", k))
			win += k
		}
		emit()
	}
	return out
}

// GenHdrBoundary: a header block whose re-encoded size is around a multiple of the receiver's max
// frame size (16384-12 .. 16384+8 once the few octets of field framing are added), with and
// without priority, as HEADERS and as PUSH_PROMISE, optionally after the receiver changed its
// MAX_FRAME_SIZE; the sender itself fragments at 9000 octets.
func GenHdrBoundary(r *hx.RNG, i int) []string {
	pick := func(xs ...int) int { return xs[r.Intn(len(xs))] }
	y := r.Intn(2)
	Y, X := sides[y], sides[1-y]
	var out []string
	maxf := 16384
	if r.Chance(1, 3) {
		maxf = pick(16385, 20000, 32768)
		out = append(out, fmt.Sprintf("S%s:5=%d", X, maxf))
	}
	mult := pick(1, 1, 1, 2)
	n := mult*maxf - 20 + i%29 // encoded block = n + 7 or so: sweeps across the boundary
	pr := "-"
	if r.Chance(2, 3) {
		pr = fmt.Sprintf("%d.%d.%d", pick(0, 3), r.Intn(2), pick(1, 15, 255))
	}
	sid := pick(1, 3, 5)
	if r.Chance(1, 3) {
		// known finding C08-K2 forbids continuing a PUSH_PROMISE: it is sent whole
		out = append(out, fmt.Sprintf("U%s:%d:1:%d:-:%d:0", Y, sid, pick(2, 4), 1000+n))
	} else {
		out = append(out, fmt.Sprintf("H%s:%d:%d:0:%s:%s:%d:9000", Y, sid, r.Intn(2), pr, []string{"-", "-", "7"}[r.Intn(3)], 1000+n))
		out = append(out, fmt.Sprintf("C%s:%d:0:9000", Y, sid), fmt.Sprintf("C%s:%d:1:0", Y, sid))
	}
	out = append(out, fmt.Sprintf("H%s:%d:1:1:-:-:4:0", Y, sid+2))
	return out
}

// GenInitWindow: the receiver changes INITIAL_WINDOW_SIZE (0, lowered, raised) BEFORE the first
// frame of a stream in that direction, then DATA beyond min(65535, announced) is sent on it.
func GenInitWindow(r *hx.RNG, i int) []string {
	pick := func(xs ...int) int { return xs[r.Intn(len(xs))] }
	y := i % 2
	Y, X := sides[y], sides[1-y]
	v := []int{0, 1, 10, 100, 20000, 70000, 1048576}[i%7]
	out := []string{fmt.Sprintf("S%s:4=%d", X, v)}
	if r.Chance(1, 2) {
		out = append(out, "A"+Y)
	}
	out = append(out, fmt.Sprintf("H%s:1:0:1:-:-:0:0", Y))
	if v <= 100 {
		for k := 0; k < 3; k++ {
			out = append(out, fmt.Sprintf("D%s:1:0:-:z%d.%d", Y, pick(1, 7, 60, 101), k))
		}
		out = append(out, fmt.Sprintf("W%s:1:%d", X, pick(1, 50, 200)))
	} else {
		// more than min(65535, announced) on the stream; the connection window is topped up first
		out = append(out, fmt.Sprintf("W%s:0:100000", X))
		for k := 0; k < 5; k++ {
			out = append(out, fmt.Sprintf("D%s:1:0:-:z16384.%d", Y, k))
		}
		out = append(out, fmt.Sprintf("W%s:1:%d", X, pick(1, 20000)))
	}
	out = append(out, fmt.Sprintf("D%s:3:1:-:z5.1", Y))
	return out
}

// GenRaisedMaxFrame (C09): the receiver raised MAX_FRAME_SIZE above 16384 and opened the stream
// windows; a DATA frame of size s > 16384 waits because the CONNECTION window c satisfies
// 16384 <= c < s; then connection-level grants below, at and above s - c.
func GenRaisedMaxFrame(r *hx.RNG, i int) []string {
	pick := func(xs ...int) int { return xs[r.Intn(len(xs))] }
	maxf := []int{32768, 32768, 40000, 65535}[i%4]
	out := []string{fmt.Sprintf("Ss:5=%d,4=1048576", maxf), "Hc:1:0:1:-:-:0:0"}
	f1 := pick(20000, 30000, 32768) // leaves c = 65535 - f1 in [32767, 45535]
	if f1 > maxf {
		f1 = maxf
	}
	c := 65535 - f1
	out = append(out, fmt.Sprintf("Dc:1:0:-:z%d.%d", f1, r.Intn(200)))
	s := c + pick(1, 1, 2, 1000) // the smallest sizes that do not fit c
	if s > maxf {
		// make c smaller instead: a second frame that still fits
		f2 := c - 16384 - pick(0, 1, 100)
		out = append(out, fmt.Sprintf("Dc:1:0:-:z%d.%d", f2, r.Intn(200)))
		c -= f2
		s = c + pick(1, 2, 1000)
		if s > maxf {
			s = maxf
		}
	}
	if s <= 16384 {
		s = 16385
	}
	out = append(out, fmt.Sprintf("Dc:%d:0:-:z%d.%d", pick(1, 1, 3), s, r.Intn(200)))
	if r.Chance(1, 2) {
		out = append(out, fmt.Sprintf("Dc:1:1:-:z%d.1", pick(1, 10)))
	}
	need := s - c
	for _, k := range []int{need - 1, 1, 1} {
		if k >= 1 {
			out = append(out, fmt.Sprintf("Ws:0:%d", k))
			need -= k
		}
		if need <= 0 {
			break
		}
	}
	out = append(out, fmt.Sprintf("Ws:0:%d", pick(1, 5, 100)))
	return out
}

// GenOtherSettings (C09): the identifiers the relay does NOT interpret carry large values
// (MAX_HEADER_LIST_SIZE, MAX_CONCURRENT_STREAMS, ENABLE_PUSH, ENABLE_CONNECT_PROTOCOL, unknown ids)
// and must not influence the frame size, the windows or the table size; or a real
// MAX_FRAME_SIZE change is followed by DATA larger than the old value.
func GenOtherSettings(r *hx.RNG, i int) []string {
	pick := func(xs ...int) int { return xs[r.Intn(len(xs))] }
	y := i % 2
	Y, X := sides[y], sides[1-y]
	var out []string
	maxf := 16384
	others := fmt.Sprintf("3=%d,6=%d,2=%d,8=1,%d=%d", pick(100, 4294967295), pick(100, 20000, 1048576, 16777215, 4294967295),
		r.Intn(2), pick(16, 61440, 65535), pick(0, 30000, 16777215))
	switch i % 3 {
	case 0:
		out = append(out, fmt.Sprintf("S%s:%s", X, others))
	case 1:
		maxf = pick(16385, 20000, 32768)
		out = append(out, fmt.Sprintf("S%s:5=%d", X, maxf), fmt.Sprintf("S%s:%s", X, others))
	case 2:
		maxf = pick(20000, 32768)
		out = append(out, fmt.Sprintf("S%s:6=%d,5=%d,6=%d", X, pick(100, 1048576), maxf, pick(100, 1048576)))
	}
	out = append(out, fmt.Sprintf("H%s:1:0:1:-:-:0:0", Y))
	// DATA larger than the old maximum (and around the new one)
	for _, n := range []int{16385, pick(maxf-1, maxf, maxf+1, 30000)} {
		out = append(out, fmt.Sprintf("D%s:1:0:%s:z%d.%d", Y, []string{"-", "-", "7"}[r.Intn(3)], n, r.Intn(200)))
	}
	out = append(out, fmt.Sprintf("W%s:0:70000", X), fmt.Sprintf("W%s:1:70000", X))
	return out
}

// GenBadMaxFrame (C09): SETTINGS_MAX_FRAME_SIZE outside [16384, 2^24-1] (RFC 7540 6.5.2: a
// connection error PROTOCOL_ERROR), alone, after legal entries, from either endpoint, then DATA
// from the other endpoint: the session must end at the SETTINGS frame, never spin or mis-split.
func GenBadMaxFrame(r *hx.RNG, i int) []string {
	pick := func(xs ...int) int { return xs[r.Intn(len(xs))] }
	y := i % 2
	Y, X := sides[y], sides[1-y]
	v := []int{0, 1, 100, 16383, 16777216, 4294967295}[i%6]
	var out []string
	if r.Chance(1, 2) {
		out = append(out, fmt.Sprintf("H%s:1:0:1:-:-:0:0", Y), fmt.Sprintf("D%s:1:0:-:z%d.1", Y, pick(1, 100)))
	}
	pre := []string{"", "3=100,", "5=32768,4=10,", "6=0,"}[r.Intn(4)]
	out = append(out, fmt.Sprintf("S%s:%s5=%d", X, pre, v), fmt.Sprintf("H%s:3:0:1:1.0.15:-:2:0", Y),
		fmt.Sprintf("D%s:3:0:-:z%d.2", Y, pick(1, 5, 300)))
	return out
}

// GenSweepOrder (C09): outcome depends on Go's map iteration order over the streams: seven streams
// whose head frame (1000 octets) does not fit and one stream whose head (10 octets) does, behind an
// exhausted connection window, then a connection grant that fits only the small one.  A sweep that
// stops at the first stream that does not fit delivers the small frame only if it is visited first
// (1/8): with 8 fresh sessions per run the miss probability is (1/8)^8 < 1e-7.
func GenSweepOrder(r *hx.RNG, i int) []string {
	// one session, many sweeps: every `range` over the map draws a fresh order, so each round (a new
	// 10-octet frame on a fresh stream + WINDOW_UPDATE(0,10)) is an independent 1/8 chance for a
	// stop-at-first-misfit sweep to look right; 9 rounds: (1/8)^9 < 1e-8 per session
	out := []string{"Ss:5=65535,4=1048576", fmt.Sprintf("Dc:1:0:-:z65535.%d", r.Intn(200))}
	// (driver cost grows with labels x streams x the 65535-octet frame: 3 waiting streams, one small
	// stream reused, 11 rounds: (1/4)^11 < 3e-7)
	for k := 0; k < 3; k++ {
		out = append(out, fmt.Sprintf("Dc:%d:0:-:z1000.%d", 3+2*k, k))
	}
	for k := 0; k < 11; k++ {
		out = append(out, fmt.Sprintf("Dc:%d:0:-:z10.%d", 101+2*(i%3), k), "Ws:0:10")
	}
	return out
}
