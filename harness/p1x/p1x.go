// Package p1x holds the raw-socket helpers shared by the C01 and C03
// harnesses: an origin on a bare net.Listener that records the exact request
// bytes it receives and answers with exact scripted bytes, a raw TCP client,
// and HTTP/1 message parsers written independently of net/http (so that the
// thing that judges the proxy's output is not the library that produced it).
package p1x

import (
	"bufio"
	"bytes"
	"context"
	"crypto/ecdsa"
	"crypto/elliptic"
	"crypto/rand"
	"crypto/sha256"
	"crypto/tls"
	"crypto/x509"
	"crypto/x509/pkix"
	"encoding/pem"
	"errors"
	"fmt"
	"io"
	"math/big"
	"net"
	"strconv"
	"strings"
	"sync"
	"syscall"
	"time"

	"verifharness/hx"
)

// Hdr is one header line, name as on the wire.
type Hdr struct{ Name, Value string }

// Digest is a 48-bit prefix of SHA-256 (fits an OCaml int).
func Digest(b []byte) uint64 {
	s := sha256.Sum256(b)
	var d uint64
	for i := 0; i < 6; i++ {
		d = d<<8 | uint64(s[i])
	}
	return d
}

// GenBody returns the deterministic pseudo-random body for (n, seed).
func GenBody(n int, seed uint64) []byte {
	b := make([]byte, n)
	s := seed*0x9e3779b97f4a7c15 + 0x1234567
	i := 0
	for i < n {
		s += 0x9e3779b97f4a7c15
		z := s
		z = (z ^ (z >> 30)) * 0xbf58476d1ce4e5b9
		z = (z ^ (z >> 27)) * 0x94d049bb133111eb
		z ^= z >> 31
		for k := 0; k < 8 && i < n; k++ {
			b[i] = byte(z >> (8 * uint(k)))
			i++
		}
	}
	return b
}

// HdrTok encodes a header list as one token part: hexname=hexvalue,... ("-" if empty).
func HdrTok(hs []Hdr, lower bool) string {
	if len(hs) == 0 {
		return "-"
	}
	var sb strings.Builder
	for i, h := range hs {
		if i > 0 {
			sb.WriteByte(',')
		}
		n := h.Name
		if lower {
			n = strings.ToLower(n)
		}
		sb.WriteString(hx.HexS(n)[1:])
		sb.WriteByte('=')
		sb.WriteString(hx.HexS(h.Value)[1:])
	}
	return sb.String()
}

func ParseHdrTok(s string) ([]Hdr, error) {
	if s == "-" || s == "" {
		return nil, nil
	}
	var hs []Hdr
	for _, p := range strings.Split(s, ",") {
		kv := strings.SplitN(p, "=", 2)
		if len(kv) != 2 {
			return nil, fmt.Errorf("bad header token %q", p)
		}
		n, e1 := hx.UnHex("x" + kv[0])
		v, e2 := hx.UnHex("x" + kv[1])
		if e1 != nil || e2 != nil {
			return nil, fmt.Errorf("bad header hex %q", p)
		}
		hs = append(hs, Hdr{string(n), string(v)})
	}
	return hs, nil
}

// ---------------------------------------------------------------- parsing

var ErrMalformed = errors.New("malformed")

// readHead reads up to and including the first CRLFCRLF. A clean EOF before
// any byte returns io.EOF; EOF later returns io.ErrUnexpectedEOF with what
// was read.
func readHead(br *bufio.Reader, max int) ([]byte, error) {
	var buf []byte
	for {
		c, err := br.ReadByte()
		if err != nil {
			if len(buf) == 0 {
				return nil, err
			}
			if err == io.EOF {
				err = io.ErrUnexpectedEOF
			}
			return buf, err
		}
		buf = append(buf, c)
		if c == '\n' && len(buf) >= 4 && bytes.Equal(buf[len(buf)-4:], []byte("\r\n\r\n")) {
			return buf, nil
		}
		if len(buf) > max {
			return buf, ErrMalformed
		}
	}
}

func trimOWS(s string) string { return strings.Trim(s, " \t") }

func parseHeaderLines(lines []string) ([]Hdr, error) {
	var hs []Hdr
	for _, l := range lines {
		if l == "" {
			continue
		}
		i := strings.IndexByte(l, ':')
		if i <= 0 {
			return nil, ErrMalformed
		}
		hs = append(hs, Hdr{l[:i], trimOWS(l[i+1:])})
	}
	return hs, nil
}

// Vals returns the values of every header line named name (case-insensitive).
func Vals(hs []Hdr, name string) []string {
	var vs []string
	for _, h := range hs {
		if strings.EqualFold(h.Name, name) {
			vs = append(vs, h.Value)
		}
	}
	return vs
}

// HasToken reports whether a comma-separated header contains the token.
func HasToken(hs []Hdr, name, tok string) bool {
	for _, v := range Vals(hs, name) {
		for _, t := range strings.Split(v, ",") {
			if strings.EqualFold(trimOWS(t), tok) {
				return true
			}
		}
	}
	return false
}

// Msg is a parsed request or response.
type Msg struct {
	// request
	Method, Target string
	// response
	Status int
	Proto  string
	Hdrs   []Hdr
	// body
	Framing  string // c=Content-Length k=chunked x=until-close n=none
	BodyLen  int
	BodyDg   uint64
	Body     []byte // kept only if keepBody
	Complete bool   // body framing terminated properly
	Chunks   []int  // chunk sizes seen (chunked only)
	Stray    int    // client side: blank lines (CRLF) skipped before the status line
	Early    bool   // origin side: the answer was sent before the whole body had been read
	Err      string // "" if parsed OK (possibly incomplete body)
	EOF      bool   // the peer closed (or reset) while/after this message
	Raw      int    // bytes consumed
}

// readBody reads a body with the given framing from br into m.
func readBody(br *bufio.Reader, m *Msg, keep bool) {
	h := sha256.New()
	sink := func(p []byte) {
		h.Write(p)
		m.BodyLen += len(p)
		if keep {
			m.Body = append(m.Body, p...)
		}
	}
	finish := func() {
		s := h.Sum(nil)
		var d uint64
		for i := 0; i < 6; i++ {
			d = d<<8 | uint64(s[i])
		}
		m.BodyDg = d
	}
	defer finish()
	buf := make([]byte, 32*1024)
	readN := func(n int) bool {
		for n > 0 {
			k := n
			if k > len(buf) {
				k = len(buf)
			}
			r, err := br.Read(buf[:k])
			sink(buf[:r])
			n -= r
			if err != nil && n > 0 {
				m.EOF = isClose(err)
				if !m.EOF {
					m.Err = errName(err)
				}
				return false
			}
		}
		return true
	}
	switch m.Framing {
	case "n":
		m.Complete = true
	case "c":
		cl, _ := strconv.Atoi(Vals(m.Hdrs, "Content-Length")[0])
		m.Complete = readN(cl)
	case "x":
		for {
			r, err := br.Read(buf)
			sink(buf[:r])
			if err != nil {
				if isClose(err) {
					m.EOF = true
					m.Complete = true
				} else {
					m.Err = errName(err)
				}
				return
			}
		}
	case "k":
		for {
			line, err := br.ReadString('\n')
			if err != nil {
				m.EOF = isClose(err)
				if !m.EOF {
					m.Err = errName(err)
				} else if line != "" {
					m.Err = "chunk-line-cut"
				}
				return
			}
			if !strings.HasSuffix(line, "\r\n") {
				m.Err = "chunk-line-malformed"
				return
			}
			sz := strings.TrimSuffix(line, "\r\n")
			if i := strings.IndexByte(sz, ';'); i >= 0 {
				sz = sz[:i]
			}
			n, perr := strconv.ParseUint(strings.TrimSpace(sz), 16, 31)
			if perr != nil {
				m.Err = "chunk-size-malformed"
				return
			}
			if n == 0 {
				// trailers until empty line
				for {
					tl, err := br.ReadString('\n')
					if err != nil {
						m.EOF = isClose(err)
						if !m.EOF {
							m.Err = errName(err)
						}
						return
					}
					if tl == "\r\n" {
						m.Complete = true
						return
					}
				}
			}
			m.Chunks = append(m.Chunks, int(n))
			if !readN(int(n)) {
				return
			}
			var crlf [2]byte
			if _, err := io.ReadFull(br, crlf[:]); err != nil {
				m.EOF = isClose(err)
				if !m.EOF {
					m.Err = errName(err)
				}
				return
			}
			if crlf != [2]byte{'\r', '\n'} {
				m.Err = "chunk-end-malformed"
				return
			}
		}
	}
}

func isClose(err error) bool {
	if err == nil {
		return false
	}
	if err == io.EOF || err == io.ErrUnexpectedEOF {
		return true
	}
	s := err.Error()
	return strings.Contains(s, "connection reset") || strings.Contains(s, "broken pipe") || strings.Contains(s, "closed network connection")
}

func errName(err error) string {
	if err == nil {
		return ""
	}
	if ne, ok := err.(net.Error); ok && ne.Timeout() {
		return "timeout"
	}
	if err == ErrMalformed {
		return "malformed"
	}
	if isClose(err) {
		return "eof"
	}
	return "ioerr"
}

// ReadRequest parses one request from br (origin side).
func ReadRequest(br *bufio.Reader, keep bool) (*Msg, error) {
	m, err := ReadRequestHead(br)
	if err != nil {
		return nil, err
	}
	readBody(br, m, keep)
	if m.Err != "" || !m.Complete {
		return m, fmt.Errorf("request body: %s eof=%v", m.Err, m.EOF)
	}
	return m, nil
}

// ReadRequestHead parses a request head and decides the body framing; the
// body is left unread.
func ReadRequestHead(br *bufio.Reader) (*Msg, error) {
	head, err := readHead(br, 32<<20)
	if err != nil {
		return nil, err
	}
	lines := strings.Split(strings.TrimSuffix(string(head), "\r\n\r\n"), "\r\n")
	rl := strings.SplitN(lines[0], " ", 3)
	if len(rl) != 3 {
		return nil, ErrMalformed
	}
	m := &Msg{Method: rl[0], Target: rl[1], Proto: rl[2], Raw: len(head)}
	m.Hdrs, err = parseHeaderLines(lines[1:])
	if err != nil {
		return nil, err
	}
	switch {
	case HasToken(m.Hdrs, "Transfer-Encoding", "chunked"):
		m.Framing = "k"
	case len(Vals(m.Hdrs, "Content-Length")) > 0:
		if _, err := strconv.Atoi(Vals(m.Hdrs, "Content-Length")[0]); err != nil {
			return nil, ErrMalformed
		}
		m.Framing = "c"
	default:
		m.Framing = "n"
	}
	return m, nil
}

// ReadResponse parses one response from br (client side); reqMethod decides
// HEAD. It never fails hard: problems are recorded in Msg.Err / Msg.EOF.
// A nil result means clean EOF (or reset) before any byte.
func ReadResponse(br *bufio.Reader, reqMethod string, keep bool) *Msg {
	// Blank lines before a status line: a robust client skips them, but they
	// are bytes no response accounts for; they are skipped AND reported.
	stray := 0
	for {
		b, err := br.Peek(2)
		if err != nil || b[0] != '\r' || b[1] != '\n' {
			break
		}
		br.Discard(2)
		stray++
	}
	m := readResponse(br, reqMethod, keep)
	if m != nil {
		m.Stray = stray
	}
	return m
}

func readResponse(br *bufio.Reader, reqMethod string, keep bool) *Msg {
	head, err := readHead(br, 32<<20)
	if err != nil && len(head) == 0 {
		if isClose(err) {
			return nil
		}
		return &Msg{Err: "head-" + errName(err)}
	}
	m := &Msg{Raw: len(head)}
	if err != nil {
		m.Err = "head-" + errName(err)
		m.EOF = isClose(err)
		m.Body = head
		return m
	}
	lines := strings.Split(strings.TrimSuffix(string(head), "\r\n\r\n"), "\r\n")
	sl := strings.SplitN(lines[0], " ", 3)
	if len(sl) < 2 || !strings.HasPrefix(sl[0], "HTTP/1.") || len(sl[1]) != 3 {
		m.Err = "status-line-malformed"
		m.Body = head
		return m
	}
	m.Proto = sl[0]
	m.Status, err = strconv.Atoi(sl[1])
	if err != nil {
		m.Err = "status-line-malformed"
		return m
	}
	m.Hdrs, err = parseHeaderLines(lines[1:])
	if err != nil {
		m.Err = "header-malformed"
		return m
	}
	switch {
	case reqMethod == "HEAD" || m.Status/100 == 1 || m.Status == 204 || m.Status == 304 ||
		(reqMethod == "CONNECT" && m.Status/100 == 2):
		m.Framing = "n"
	case HasToken(m.Hdrs, "Transfer-Encoding", "chunked"):
		m.Framing = "k"
	case len(Vals(m.Hdrs, "Content-Length")) > 0:
		if _, err := strconv.Atoi(Vals(m.Hdrs, "Content-Length")[0]); err != nil {
			m.Err = "content-length-malformed"
			return m
		}
		m.Framing = "c"
	default:
		m.Framing = "x"
	}
	readBody(br, m, keep)
	return m
}

// ---------------------------------------------------------------- origin

// Action is what the origin does after reading one request.
type Action struct {
	Bytes []byte // exact bytes to write (possibly a truncated response, possibly none)
	Close bool   // close the connection after writing
}

// Origin is an HTTP/1 origin on a raw listener.
type Origin struct {
	L      net.Listener
	Addr   string
	mu     sync.Mutex
	Seen   []*Msg
	Errs   []string
	Conns  int
	handle func(idx int, m *Msg) Action
	wg     sync.WaitGroup
	keep   bool
	// Early, if set, is asked after the head of a Content-Length request has
	// been read: -1 = read the whole body before answering (the default),
	// k >= 0 = answer after k bytes of the body; the rest is read and thrown
	// away afterwards.
	Early func(m *Msg) int
	// TLS, if set, makes the origin speak TLS on every accepted connection.
	TLS *tls.Config
	// Raw, if set, is called with a fresh connection instead of the HTTP loop.
	Raw func(c net.Conn)
}

// NewOrigin starts an origin; handle is called (serialised) for every request
// with its arrival index.
func NewOrigin(keepBodies bool, handle func(idx int, m *Msg) Action) (*Origin, error) {
	return NewOriginBuf(keepBodies, 0, handle)
}

// NewOriginBuf is NewOrigin with a receive buffer of rcvbuf bytes (0 = system
// default) on the listening socket, inherited by every accepted connection,
// so that an origin that does not read exerts back pressure after a few KiB.
func NewOriginBuf(keepBodies bool, rcvbuf int, handle func(idx int, m *Msg) Action) (*Origin, error) {
	lc := net.ListenConfig{}
	if rcvbuf > 0 {
		lc.Control = func(network, address string, c syscall.RawConn) error {
			return c.Control(func(fd uintptr) {
				syscall.SetsockoptInt(int(fd), syscall.SOL_SOCKET, syscall.SO_RCVBUF, rcvbuf)
			})
		}
	}
	l, err := lc.Listen(context.Background(), "tcp", "127.0.0.1:0")
	if err != nil {
		return nil, err
	}
	o := &Origin{L: l, Addr: l.Addr().String(), handle: handle, keep: keepBodies}
	go o.accept()
	return o, nil
}

func (o *Origin) accept() {
	for {
		c, err := o.L.Accept()
		if err != nil {
			return
		}
		o.mu.Lock()
		o.Conns++
		o.mu.Unlock()
		o.wg.Add(1)
		go func() {
			defer o.wg.Done()
			defer c.Close()
			if o.Raw != nil {
				o.Raw(c)
				return
			}
			if o.TLS != nil {
				tc := tls.Server(c, o.TLS)
				defer tc.Close()
				o.serve(tc)
				return
			}
			o.serve(c)
		}()
	}
}

func (o *Origin) serve(c net.Conn) {
	br := bufio.NewReaderSize(c, 64*1024)
	for {
		c.SetReadDeadline(time.Now().Add(60 * time.Second))
		m, err := ReadRequestHead(br)
		rest := 0
		if err == nil {
			k := -1
			if o.Early != nil && m.Framing == "c" {
				k = o.Early(m)
			}
			if k >= 0 {
				cl, _ := strconv.Atoi(Vals(m.Hdrs, "Content-Length")[0])
				if k > cl {
					k = cl
				}
				if _, e2 := io.CopyN(io.Discard, br, int64(k)); e2 != nil {
					return
				}
				m.Early, m.BodyLen, rest = true, k, cl-k
			} else {
				readBody(br, m, o.keep)
				if m.Err != "" || !m.Complete {
					err = fmt.Errorf("request body: %s eof=%v", m.Err, m.EOF)
				}
			}
		}
		if err != nil {
			if m != nil || (err != io.EOF && !isClose(err)) {
				o.mu.Lock()
				o.Errs = append(o.Errs, "origin-read:"+err.Error())
				o.mu.Unlock()
			}
			return
		}
		o.mu.Lock()
		idx := len(o.Seen)
		o.Seen = append(o.Seen, m)
		a := o.handle(idx, m)
		o.mu.Unlock()
		c.SetWriteDeadline(time.Now().Add(60 * time.Second))
		if len(a.Bytes) > 0 {
			if _, err := c.Write(a.Bytes); err != nil {
				return
			}
		}
		if a.Close {
			return
		}
		if rest > 0 {
			// the unread part of the upload; the proxy may give up on this
			// connection instead of finishing it
			c.SetReadDeadline(time.Now().Add(60 * time.Second))
			if _, err := io.CopyN(io.Discard, br, int64(rest)); err != nil {
				return
			}
		}
	}
}

// SetHandler installs the per-request handler (before the first request).
func (o *Origin) SetHandler(h func(idx int, m *Msg) Action) {
	o.mu.Lock()
	o.handle = h
	o.mu.Unlock()
}

// Snapshot returns the requests seen so far.
func (o *Origin) Snapshot() ([]*Msg, []string) {
	o.mu.Lock()
	defer o.mu.Unlock()
	return append([]*Msg(nil), o.Seen...), append([]string(nil), o.Errs...)
}

func (o *Origin) Close() {
	o.L.Close()
}

// ---------------------------------------------------------------- client

// WriteSlow writes b one byte per Write call for the first slowN bytes, the
// rest in one call.
func WriteSlow(c net.Conn, b []byte, slowN int) error {
	i := 0
	for ; i < len(b) && i < slowN; i++ {
		if _, err := c.Write(b[i : i+1]); err != nil {
			return err
		}
	}
	if i < len(b) {
		_, err := c.Write(b[i:])
		return err
	}
	return nil
}

// ChunkEncode frames body with the given chunk sizes (cycled; remaining bytes in a last chunk).
func ChunkEncode(body []byte, sizes []int) []byte {
	var out bytes.Buffer
	i, k := 0, 0
	for i < len(body) {
		n := len(body) - i
		if len(sizes) > 0 {
			s := sizes[k%len(sizes)]
			k++
			if s > 0 && s < n {
				n = s
			}
		}
		fmt.Fprintf(&out, "%x\r\n", n)
		out.Write(body[i : i+n])
		out.WriteString("\r\n")
		i += n
	}
	out.WriteString("0\r\n\r\n")
	return out.Bytes()
}

// SelfSigned returns a TLS server configuration with a throw-away certificate
// for 127.0.0.1 (clients are expected not to verify it).
func SelfSigned() (*tls.Config, error) {
	key, err := ecdsa.GenerateKey(elliptic.P256(), rand.Reader)
	if err != nil {
		return nil, err
	}
	tmpl := &x509.Certificate{
		SerialNumber: big.NewInt(1),
		Subject:      pkix.Name{CommonName: "verif origin"},
		NotBefore:    time.Now().Add(-time.Hour),
		NotAfter:     time.Now().Add(24 * time.Hour),
		KeyUsage:     x509.KeyUsageDigitalSignature,
		ExtKeyUsage:  []x509.ExtKeyUsage{x509.ExtKeyUsageServerAuth},
		IPAddresses:  []net.IP{net.IPv4(127, 0, 0, 1)},
	}
	der, err := x509.CreateCertificate(rand.Reader, tmpl, tmpl, &key.PublicKey, key)
	if err != nil {
		return nil, err
	}
	return &tls.Config{Certificates: []tls.Certificate{{Certificate: [][]byte{der}, PrivateKey: key}}}, nil
}

// CertPEM returns the (first) certificate of a server configuration in PEM form.
func CertPEM(c *tls.Config) []byte {
	return pem.EncodeToMemory(&pem.Block{Type: "CERTIFICATE", Bytes: c.Certificates[0].Certificate[0]})
}
