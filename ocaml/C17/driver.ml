(* C17 driver: parses histories + observed outputs, evaluates the extracted
   oracle c17_ok / c17_conc_ok. *)

let parse_op (t : string) : op =
  match t.[0] with
  | 'Q' -> RecReq (n_of_dec (String.sub t 1 (String.length t - 1)))
  | 'S' ->
      (match String.split_on_char ':' (String.sub t 1 (String.length t - 1)) with
       | [i; r] -> RecResp (n_of_dec i, n_of_dec r)
       | _ -> failwith "bad S")
  | 'E' -> Export
  | 'X' -> ExportReset
  | 'Z' -> Reset
  | _ -> failwith ("bad op " ^ t)

exception Unrepresentable of string

let parse_out (t : string) : out =
  if t = "d" then ODone
  else if t = "u" then ODup
  else if t.[0] = 'L' then
    OList (List.map (fun e ->
        match String.split_on_char ':' e with
        | [i; "-"] -> (n_of_dec i, None)
        | [i; r] ->
            if String.contains r '!' || i = "nil" then raise (Unrepresentable e);
            (n_of_dec i, Some (n_of_dec r))
        | _ -> raise (Unrepresentable e))
      (split_on ',' (String.sub t 1 (String.length t - 1))))
  else raise (Unrepresentable t)

let pr_out = function
  | ODone -> "d" | ODup -> "u"
  | OList es -> "L" ^ String.concat "," (List.map (fun (i, r) ->
        dec_of_n i ^ ":" ^ (match r with None -> "-" | Some x -> dec_of_n x)) es)

let nontrivial (ops : op list) : bool =
  (* at least one export that returns something and one mutation *)
  List.exists (function Export | ExportReset -> true | _ -> false) ops
  && List.exists (function RecReq _ -> true | _ -> false) ops

let rec split_threads (toks : string list) : string list list * string list =
  (* T a b T c F d -> ([[a;b];[c]], [d]) *)
  let rec go cur acc = function
    | [] -> (List.rev (match cur with None -> acc | Some c -> List.rev c :: acc), [])
    | "T" :: r -> go (Some []) (match cur with None -> acc | Some c -> List.rev c :: acc) r
    | "F" :: r -> (List.rev (match cur with None -> acc | Some c -> List.rev c :: acc), r)
    | x :: r -> (match cur with Some c -> go (Some (x :: c)) acc r | None -> failwith "tok before T") in
  ignore split_threads; go None [] toks

(* MOD cases: "Q3lr" / "S3lr:204" - exchange number, then flags (l = the
   context skips logging, r = it skips the round trip), then the status *)
let mod_flags (t : string) : string * string =
  let body = String.sub t 1 (String.length t - 1) in
  let idpart, rest = match String.index_opt body ':' with
    | Some i -> String.sub body 0 i, String.sub body i (String.length body - i)
    | None -> body, "" in
  let n = String.length idpart in
  let rec cut i = if i > 0 && (idpart.[i-1] = 'l' || idpart.[i-1] = 'r') then cut (i-1) else i in
  let c = cut n in
  (String.make 1 t.[0] ^ String.sub idpart 0 c ^ rest, String.sub idpart c (n - c))

let ends_with s suf =
  let n = String.length s and m = String.length suf in n >= m && String.sub s (n - m) m = suf

let rec judge _name ins outs =
  match ins with
  | "MOD" :: optoks0 ->
      (* an exchange whose context skips logging must answer "d" and leave the
         log alone: it is dropped from the history given to the model; skipping
         the round trip is not an input of the log at all *)
      let pairs = (try List.combine optoks0 outs with Invalid_argument _ -> []) in
      if pairs = [] && optoks0 <> [] then VDisagree "output-shape" else
      let stripped = List.map (fun (o, x) ->
          if o.[0] = 'Q' || o.[0] = 'S' then let (o', fl) = mod_flags o in (o', String.contains fl 'l', x)
          else (o, false, x)) pairs in
      (match List.find_opt (fun (_, skip, x) -> skip && x <> "d") stripped with
       | Some (o, _, x) -> VPropfail ("skipped_exchange_answer", Printf.sprintf "op=%s got=%s" o x)
       | None ->
         let kept = List.filter (fun (_, skip, _) -> not skip) stripped in
         judge _name ("SEQ" :: List.map (fun (o, _, _) -> o) kept) (List.map (fun (_, _, x) -> x) kept))
  | "SLOW" :: optoks0 ->
      (* B<id>:<st> starts a response whose body is still streaming (answer "b"),
         R ends it: the response is recorded at R.  Nothing in between may wait
         for that body. *)
      if List.mem "BLOCKED" outs then
        VPropfail ("log_not_blocked_by_streaming_body",
                   "an operation did not return while another connection's response body was still being read: " ^ String.concat "_" outs)
      else
      let pairs = (try List.combine optoks0 outs with Invalid_argument _ -> []) in
      if pairs = [] then VDisagree "output-shape" else
      let pending = ref "" in
      let kept = List.filter_map (fun (o, x) ->
          if o.[0] = 'B' then begin pending := "S" ^ String.sub o 1 (String.length o - 1); (if x = "b" then None else Some ("E", "badb")) end
          else if o = "R" then Some (!pending, x)
          else Some (o, x)) pairs in
      judge _name ("SEQ" :: List.map fst kept) (List.map snd kept)
  | ("SEQ" | "HTTP") :: optoks0 when List.exists (fun x -> ends_with x "!mutated") outs ->
      let k = ref (-1) in
      List.iteri (fun i x -> if !k < 0 && ends_with x "!mutated" then k := i) outs;
      ignore optoks0;
      VPropfail ("export_is_snapshot", Printf.sprintf "export-at-op=%d changed-by-later-operations got=%s" !k (List.nth outs !k))
  | ("SEQ" | "HTTP") :: optoks0 ->
      (* refused handler calls are no operations on the log: they must answer
         400 / 405 and are then dropped from the history given to the model *)
      let refused = [("Zb", "h400"); ("Zm", "h405"); ("Em", "h405")] in
      let pairs = (try List.combine optoks0 outs with Invalid_argument _ -> []) in
      let bad_refusal = List.find_opt (fun (o, x) -> List.mem_assoc o refused && List.assoc o refused <> x) pairs in
      let kept = List.filter (fun (o, _) -> not (List.mem_assoc o refused)) pairs in
      let optoks = List.map (fun (o, _) -> if o = "Zp" then "X" else o) kept in
      let outs = if pairs = [] then outs else List.map snd kept in
      let ops = List.map parse_op optoks in
      (match bad_refusal with
       | Some (o, x) -> VPropfail ("refused_call_status", Printf.sprintf "op=%s got=%s" o x)
       | None ->
      try
         let obs = List.map parse_out outs in
         if c17_ok ops obs then begin
           if not (impl_agrees ops) then VDisagree "heap-model-differs-from-spec(theorem C17_refines broken?)"
           else VOk (nontrivial ops)
         end else
           let want = spec_outputs ops in
           let k = match first_diff O want obs with Some k -> int_of_nat k | None -> -1 in
           VPropfail ("history_outputs",
                      Printf.sprintf "first-diff-at-op=%d want=%s got=%s" k
                        (String.concat "_" (List.map pr_out want)) (String.concat "_" outs))
       with Unrepresentable t -> VPropfail ("wellformed_output", "got=" ^ t))
  | "CONC" :: toks ->
      let (tin, fin) = split_threads toks in
      (match outs with
       | _ ->
         let (tout, fout) = split_threads outs in
         (try
            let zip a b = List.map2 (fun x y -> (parse_op x, parse_out y)) a b in
            let ths = List.map2 zip tin tout in
            let fin' = zip fin fout in
            if c17_conc_ok ths fin' then VOk (List.length ths >= 2)
            else VPropfail ("concurrent_linearizable", "no-interleaving-explains " ^ String.concat "_" outs)
          with Unrepresentable t -> VPropfail ("wellformed_output", "got=" ^ t)
             | Invalid_argument _ -> VDisagree "output-shape"))
  | _ -> VDisagree "unknown-case-kind"

let () = run_driver judge
