(* C04 driver: parses tunnel scripts + what the two ends measured, evaluates
   the extracted oracle c04_ok (proved equivalent to "every checkpoint shows
   the ideal tunnel", C04_oracle_is_the_property) and, for scripts small
   enough to hold as byte lists, runs the extracted LTS model of the repaired
   code (run_script repaired) and compares its checkpoints too. *)

let model_limit = 40000   (* total payload bytes up to which the byte-level model is executed *)

type sideact = { bytes : int; shut : char }   (* shut: ' ' 'h' 'f' 'a' 'u' *)

let parse_side (s : string) : sideact =
  (* S = streams until its write fails: counts as an end that is gone ('f') and unobserved *)
  if s = "S" then { bytes = 0; shut = 'S' } else
  let n = String.length s in
  let shut, body =
    if n > 0 && String.contains "hfau" s.[n-1] then s.[n-1], String.sub s 0 (n-1) else ' ', s in
  let total = ref 0 in
  List.iter (fun p ->
      if p = "I" || p = "L" then () else   (* a scripted idle period: no bytes *)
      let p = match String.index_opt p '~' with Some i -> String.sub p 0 i | None -> p in
      let sz, cnt = match String.index_opt p 'x' with
        | Some i -> int_of_string (String.sub p 0 i), int_of_string (String.sub p (i+1) (String.length p - i - 1))
        | None -> int_of_string p, 1 in
      total := !total + sz * cnt)
    (split_on ',' body);
  { bytes = !total; shut }

let parse_phase (t : string) : sideact * sideact =
  match String.index_opt t '/' with
  | Some i when t.[0] = 'c' && i + 1 < String.length t && t.[i+1] = 't' ->
      parse_side (String.sub t 1 (i-1)), parse_side (String.sub t (i+2) (String.length t - i - 2))
  | _ -> failwith ("bad phase " ^ t)

exception Bad_out of string

let bad_reset = ref false

let aborts (a : sideact) = a.shut = 'a' || a.shut = 'u'
(* after any full close of an end its peer may legitimately read a reset instead of EOF *)
let gone (a : sideact) = aborts a || a.shut = 'f' || a.shut = 'S'
let fin_of (a : sideact) : fin =
  if aborts a then FinAbort else if a.shut = 'S' then FinAbort   (* ends by closing a socket the proxy has reset *)
  else if a.shut <> ' ' then FinShut else FinNone

(* "t123+E" / "c#".  A read error X counts as end-of-stream only once the
   other end has aborted (allow_x); otherwise it is reported. *)
let parse_eobs (allow_x : bool) (pfx : char) (t : string) : eobs option =
  if String.length t < 2 || t.[0] <> pfx then raise (Bad_out t);
  if t = String.make 1 pfx ^ "#" then None
  else begin
    let n = String.length t in
    if n < 4 then raise (Bad_out t);
    let e = t.[n-1] and ok = t.[n-2] in
    if not ((e = 'E' || e = '-' || e = 'X') && (ok = '+' || ok = '!')) then raise (Bad_out t);
    let seen = match e with 'E' -> CleanEos | 'X' -> ResetEos | _ -> NoEos in
    (* extracted rule (C04_reset_rule): a reset is end-of-stream only once the peer is gone *)
    (match eos_flag allow_x seen with
     | None ->
         (* a reset where none is acceptable: remember it, but let the delivery / EOS oracle
            speak first (it usually names the earlier, more telling checkpoint) *)
         bad_reset := true;
         Some { o_n = n_of_dec (String.sub t 1 (n-3)); o_prefix = (ok = '+'); o_eos = true }
     | Some eos -> Some { o_n = n_of_dec (String.sub t 1 (n-3)); o_prefix = (ok = '+'); o_eos = eos })
  end

let parse_cobs ((cab, tab) : bool * bool) (t : string) : cobs =
  match String.index_opt t '/' with
  | Some i -> { ob_t = parse_eobs cab 't' (String.sub t 0 i);
                ob_c = parse_eobs tab 'c' (String.sub t (i+1) (String.length t - i - 1)) }
  | None -> raise (Bad_out t)

let stream (salt : int) (from : int) (len : int) : char list =
  List.init len (fun i -> let k = from + i in Char.chr (((k * 7 + salt) lxor (k lsr 8)) land 255))

let clause_name (endi : int) (cl : int) : string =
  let d = if endi = 0 then "c2t" else "t2c" in
  match cl with
  | 1 -> "delivery_" ^ d          (* quiescent but bytes missing (or surplus) *)
  | 2 -> "bytes_" ^ d             (* received bytes are not a prefix of what was sent *)
  | 3 -> "eos_" ^ d               (* sender shut, receiver saw no end of stream *)
  | 4 -> "premature_eos_" ^ d     (* receiver saw end of stream although the sender did not shut *)
  | _ -> "shape"

let eobs_eq (a : eobs option) (b : eobs option) =
  match a, b with
  | None, _ -> true           (* this end closed its socket: nothing was observed *)
  | Some x, Some y -> x.o_n = y.o_n && x.o_prefix = y.o_prefix && x.o_eos = y.o_eos
  | _ -> false

(* set while the tunnels of a MULTI case are judged: the proxy is shared, R is not taken *)
let multi_mode = ref false

let rec judge _name ins outs =
  match ins with
  | "MULTI" :: via :: "|" :: rest ->
      let split_bar l =
        let rec go cur acc = function
          | [] -> List.rev (List.rev cur :: acc)
          | "|" :: tl -> go [] (List.rev cur :: acc) tl
          | x :: tl -> go (x :: cur) acc tl in
        go [] [] l in
      let ins_l = split_bar rest and outs_l = split_bar outs in
      if List.length ins_l <> List.length outs_l then
        VPropfail ("wellformed_output", "got=" ^ String.concat "_" outs)
      else begin
        multi_mode := true;
        let vs = List.mapi (fun i (si, so) ->
            (i, try judge _name ("TUN" :: via :: si) so
                with e -> multi_mode := false; raise e)) (List.combine ins_l outs_l) in
        multi_mode := false;
        (* every tunnel is judged on its own: the first one that fails names the case *)
        let bad = List.filter (fun (_, v) -> match v with VOk _ -> false | _ -> true) vs in
        let pf = List.filter (fun (_, v) -> match v with VPropfail _ -> true | _ -> false) bad in
        match pf, bad with
        | (i, VPropfail (c, d)) :: _, _ -> VPropfail (c, Printf.sprintf "tunnel=%d-of-%d %s" i (List.length vs) d)
        | _, (i, VDisagree d) :: _ -> VDisagree (Printf.sprintf "tunnel=%d %s" i d)
        | _ -> VOk true
      end
  | ["FAIL"; _via] ->
      (match outs with
       | [s; w] when String.length s > 1 && s.[0] = 's' ->
           let st = n_of_dec (String.sub s 1 (String.length s - 1)) in
           let warn = (w = "W1") in
           if not (fail_ok st warn) then VPropfail ("connect_fail_502", "got=" ^ s ^ "," ^ w)
           else
             let r = connect_response DialErr in
             if r.status = st && r.warning = warn && not r.tunnel then VOk true
             else VDisagree "connect_response"
       | _ -> VPropfail ("connect_fail_502", "got=" ^ String.concat "_" outs))
  | ["DOWN"; arg] ->
      let n = String.length arg in
      let code = n_of_dec (String.sub arg 0 (n - 1)) in
      let body_sent = if arg.[n-1] = 'b' then n_of_int 13 else N0 in
      (match outs with
       | [s; b; e] when String.length s > 1 && s.[0] = 's' && String.length b > 2 && b.[0] = 'B' ->
           let got = n_of_dec (String.sub s 1 (String.length s - 1)) in
           let bl = String.length b in
           let body_got = n_of_dec (String.sub b 1 (bl - 2)) in
           if not (down_ok code got body_sent body_got (b.[bl-1] = '+') (e = "E1"))
           then VPropfail ("downstream_refusal_relayed", "got=" ^ String.concat "_" outs)
           else if (connect_downstream code).d_status = got && not (connect_downstream code).d_tunnel
           then VOk true else VDisagree "connect_downstream"
       | _ -> VPropfail ("downstream_refusal_relayed", "got=" ^ String.concat "_" outs))
  | "TUN" :: via :: e :: b :: phtoks ->
      (* via = D | M | F[<code>[c|r]] with an optional listener suffix +s | +w *)
      let via, lkind = match String.index_opt via '+' with
        | Some i -> String.sub via 0 i, (if via.[i+1] = 't' then 'w' else via.[i+1])
        | None -> via, 't' in
      let fcode =
        if String.length via > 1 && via.[0] = 'F' then begin
          let r = String.sub via 1 (String.length via - 1) in
          let r = if r.[String.length r - 1] = 'c' || r.[String.length r - 1] = 'r'
            then String.sub r 0 (String.length r - 1) else r in
          int_of_string r end
        else 200 in
      let via = if via.[0] = 'F' then "F" else via in
      (* extracted oracle (C04_status_oracle) *)
      let want_n = expected_status (if via = "F" then Some (n_of_int fcode) else None) in
      let want_status = "s" ^ dec_of_n want_n in
      let got_status (tok : string) : n option =
        let l = String.length tok in
        if l > 1 && tok.[0] = 's' && String.for_all (fun ch -> ch >= '0' && ch <= '9') (String.sub tok 1 (l - 1))
        then Some (n_of_dec (String.sub tok 1 (l - 1))) else None in
      let early_shut = e.[String.length e - 1] = 'h' in
      let e = if early_shut then String.sub e 0 (String.length e - 1) else e in
      let phtoks = if early_shut then "ch/t" :: phtoks else phtoks in
      (* reader speed and dialer choice are harness matters: the expectations do not depend on them *)
      let phtoks = List.filter (fun t -> not (List.mem t ["Zc"; "Zt"; "Zb"; "Kp"; "Kt"])) phtoks in
      let pre, phtoks = List.partition (fun t -> String.length t > 1 && t.[0] = 'G') phtoks in
      let want_pre = List.map (fun t -> "g200:" ^ String.sub t 1 (String.length t - 1)) pre in
      let probe, phtoks = match List.rev phtoks with
        | ("Pq" | "Pr") :: r -> true, List.rev r
        | _ -> false, phtoks in
      let early = int_of_string (String.sub e 1 (String.length e - 1)) in
      let banner = int_of_string (String.sub b 1 (String.length b - 1)) in
      let phases = List.map parse_phase phtoks in
      (* a client-side connection that cannot be half-closed: when the target shuts, the
         proxy closes it; for the rest of the tunnel that is an abort of the client's
         direction at that moment (modelled by the label ClientAbort in that phase) *)
      let phases =
        if lkind <> 'w' then phases
        else begin
          let cdone = ref false and inserted = ref false in
          List.map (fun (c, t) ->
              let c' =
                if !inserted then { c with shut = ' ' }   (* its own later shut meets a closed connection *)
                else if not !cdone && c.shut = ' ' && t.shut <> ' ' then (inserted := true; { c with shut = 'a' })
                else c in
              if c'.shut <> ' ' then cdone := true;
              (c', t)) phases
        end in
      let nphases = List.map (fun (c, t) ->
          { np_c = n_of_int c.bytes; np_cshut = (c.shut <> ' ');
            np_t = n_of_int t.bytes; np_tshut = (t.shut <> ' ') }) phases in
      let gouts, outs = List.partition (fun t -> String.length t > 1 && t.[0] = 'g' && t <> "g") outs in
      if gouts <> want_pre then
        (* the plain exchange before the CONNECT is not this property's subject, but without it
           the case says nothing *)
        VDisagree ("pre-exchange want=" ^ String.concat "_" want_pre ^ " got=" ^ String.concat "_" gouts)
      else
      (match outs with
       | "PANIC" :: _ -> VPropfail ("panic", "harness-recovered-panic")
       | s :: rest when not (status_ok want_n (got_status s)) || rest = [] ->
           VPropfail ("connect_status", "want=" ^ want_status ^ " got=" ^ String.concat "_" outs)
       | _ when via = "F" && not (connect_downstream (n_of_int fcode)).d_tunnel ->
           VDisagree "model-says-this-downstream-status-is-not-a-tunnel(Gen_Ret.downstream_any_2xx)"
       | _ :: rest ->
           (try
              let rec split acc = function
                | [r] -> List.rev acc, r
                | x :: tl -> split (x :: acc) tl
                | [] -> raise (Bad_out "empty") in
              if List.mem "BLOCKED" rest then VPropfail ("delivery_blocked", String.concat "_" outs) else
              let rest, ktok = split [] rest in
              let krel = match ktok with
                | "K1" -> Some true | "K0" -> Some false | "K-" -> None
                | t -> raise (Bad_out t) in
              let obtoks, rtok = split [] rest in
              (* S1/S0 follow the token of a phase with a streaming side *)
              let streams = List.filter (fun t -> t = "S1" || t = "S0") obtoks in
              let obtoks = List.filter (fun t -> t <> "S1" && t <> "S0") obtoks in
              (* post-mortem probe: ... W? Q? before the R token *)
              let obtoks, probe_res =
                if not probe then obtoks, None
                else match List.rev obtoks with
                  | q :: w :: r when (q = "Q0" || q = "Q1") && (w = "W0" || w = "W1") ->
                      List.rev r, Some (w = "W1", q = "Q1")
                  | _ -> raise (Bad_out "probe-tokens-missing") in
              if List.mem "BLOCKED" obtoks then VPropfail ("delivery_blocked", String.concat "_" outs) else
              (* per phase: has the client / the target aborted by now? *)
              let abflags =
                let ca = ref false and ta = ref false in
                List.map (fun (c, t) -> ca := !ca || gone c; ta := !ta || gone t; (!ca, !ta)) phases in
              if List.length obtoks <> List.length abflags then raise (Bad_out "shape");
              bad_reset := false;
              let obs = List.map2 parse_cobs abflags obtoks in
              let rel = match rtok with
                | "R1" -> Some true | "R0" -> Some false
                | "R-" -> if !multi_mode && all_shut nphases then Some true else None
                | t -> raise (Bad_out t) in
              let en, bn = n_of_int early, n_of_int banner in
              if not (c04_ok en bn nphases obs rel) then begin
                match c04_first_fail O en bn false false nphases obs with
                | Some ((k, endi), cl) ->
                    VPropfail (clause_name (int_of_nat endi) (int_of_nat cl),
                               Printf.sprintf "phase=%d got=%s" (int_of_nat k) (String.concat "_" outs))
                | None ->
                    VPropfail ("release", "got=" ^ String.concat "_" outs)
              end else if !bad_reset then
                VPropfail ("read_error", "an-end-saw-a-reset-instead-of-end-of-stream got=" ^ String.concat "_" outs)
              else if List.exists (fun t -> not (stream_ok (t = "S1"))) streams then
                VPropfail ("streaming_peer_not_cut_off",
                           "an-end-kept-writing-after-its-peer-aborted-and-its-write-never-failed got=" ^ String.concat "_" outs)
              else if not (target_release_ok krel) then
                VPropfail ("target_conn_not_closed",
                           "the-proxy-never-called-Close-on-the-connection-it-dialled got=" ^ String.concat "_" outs)
              else if not (target_release_agrees after_tunnel_here krel) then
                VDisagree "after-tunnel-model-differs(Gen_Ret.connect_defers_cconn_close vs observation)"
              else if (match probe_res with Some (w, q) -> not (probe_ok w q) | None -> false) then begin
                match probe_res with
                | Some (_, true) ->
                    VPropfail ("tunnel_bytes_parsed_as_http",
                               "a-request-written-into-the-dead-tunnel-reached-an-origin got=" ^ String.concat "_" outs)
                | _ ->
                    VPropfail ("client_conn_not_released",
                               "writes-into-the-dead-tunnel-keep-succeeding got=" ^ String.concat "_" outs)
              end else if (match probe_res with
                           | Some (w, q) -> not (probe_agrees after_tunnel_here w q) | None -> false) then
                VDisagree "after-tunnel-model-differs(Gen_Ret facts vs observation)"
              else begin
                let total = List.fold_left (fun a (c, t) -> a + c.bytes + t.bytes) (early + banner) phases in
                if total > model_limit then VOk (phases <> [])
                else begin
                  (* run the byte-level model of the repaired code *)
                  let cpos = ref early and tpos = ref banner in
                  let peeked_n, first_extra = if via = "F" then banner, 0 else 0, banner in
                  let pacts = List.mapi (fun i (c, t) ->
                      let cb = stream 3 !cpos c.bytes in
                      cpos := !cpos + c.bytes;
                      let tb =
                        if i = 0 && first_extra > 0
                        then stream 91 0 first_extra @ stream 91 !tpos t.bytes
                        else stream 91 !tpos t.bytes in
                      tpos := !tpos + t.bytes;
                      { pa_c = cb; pa_cfin = fin_of c; pa_t = tb; pa_tfin = fin_of t }) phases in
                  let csent = stream 3 0 !cpos and tsent = stream 91 0 !tpos in
                  let s0 = init (stream 3 0 early) (stream 91 0 peeked_n) in
                  match run_script repaired s0 pacts with
                  | None -> VDisagree "model-rejects-script-or-out-of-fuel"
                  | Some views ->
                      let mobs = List.map (measure_view csent tsent) views in
                      let same = List.length mobs = List.length obs &&
                                 List.for_all2 (fun (o : cobs) (m : cobs) ->
                                     eobs_eq o.ob_t m.ob_t && eobs_eq o.ob_c m.ob_c) obs mobs in
                      let closed_ok = match rel, List.rev views with
                        | Some b, v :: _ -> b = v.v_closed
                        | None, v :: _ -> not v.v_closed
                        | _, [] -> true in
                      if same && closed_ok then VOk (phases <> [])
                      else VDisagree ("model-checkpoints-differ got=" ^ String.concat "_" outs)
                end
              end
            with Bad_out "X" -> VPropfail ("read_error", "an-end-saw-a-reset-instead-of-end-of-stream got=" ^ String.concat "_" outs)
               | Bad_out t -> VPropfail ("wellformed_output", "got=" ^ t))
       | [] -> VPropfail ("connect_status", "no-output"))
  | _ -> VDisagree "unknown-case-kind"

let () = run_driver judge
