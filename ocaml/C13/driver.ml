(* C13 driver: parses configuration tree + history + observed answers,
   evaluates the extracted oracles c13_ok / c13_conc_ok. *)

exception Bad of string
exception Unrepresentable of string

(* ---- tree token:  L<id><t><s> | O<s> | G<s>(n,..) | F<id><ft><s>(n[;n]) ---- *)

let scope_flags = function
  | 'q' -> (true, false) | 's' -> (false, true) | 'b' | 'n' -> (true, true)
  | c -> raise (Bad (Printf.sprintf "scope %c" c))

let vtype_of = function
  | 's' -> VStatus | 'h' -> VHeader | 'm' -> VMethod | 'u' -> VUrl
  | 'q' -> VQuery | 'f' -> VFailure | 'p' -> VPingback
  | c -> raise (Bad (Printf.sprintf "vtype %c" c))

let parse_tree (s : string) : cfg =
  let i = ref 0 in
  let peek () = if !i < String.length s then s.[!i] else '\000' in
  let next () = let c = peek () in incr i; c in
  let num () =
    let j = !i in
    while (match peek () with '0' .. '9' -> true | _ -> false) do incr i done;
    if j = !i then raise (Bad "number");
    int_of_string (String.sub s j (!i - j)) in
  let expect c = if next () <> c then raise (Bad (Printf.sprintf "expected %c" c)) in
  let rec node () =
    match next () with
    | 'L' ->
        let id = num () in
        let vt = vtype_of (next ()) in
        let (sq, ss) = scope_flags (next ()) in
        CLeaf (nat_of_int id, vt, sq, ss)
    | 'O' -> let (sq, ss) = scope_flags (next ()) in COther (sq, ss)
    | 'W' -> COther (true, true)
    | 'G' ->
        let (sq, ss) = scope_flags (next ()) in
        expect '(';
        let kids = ref [] in
        while peek () <> ')' do
          kids := node () :: !kids;
          if peek () = ',' then incr i
        done;
        expect ')';
        CFifo (sq, ss, List.rev !kids)
    | 'F' ->
        let id = num () in
        let _ft = next () in
        let (sq, ss) = scope_flags (next ()) in
        expect '(';
        let tb = node () in
        let eb = if peek () = ';' then (incr i; Some (node ())) else None in
        expect ')';
        CFilt (nat_of_int id, sq, ss, tb, eb)
    | c -> raise (Bad (Printf.sprintf "node %c" c)) in
  let t = node () in
  if !i <> String.length s then raise (Bad "trailing");
  t

(* ---- OUT tokens ---- *)

type outs = {
  bits : (int, int list * int list) Hashtbl.t;      (* mid -> (conds, hits) *)
  answers : (string, string) Hashtbl.t;             (* "A5" / "FQ" -> payload *)
  mutable order : string list;                      (* answer/reset keys in emission order *)
  mutable cfgst : string;
  mutable flags : string list;                      (* PANIC, BADCASE, E.., RACE=.. *)
}

let ints_of (s : string) : int list =
  if s = "" then [] else List.map int_of_string (String.split_on_char '.' s)

let parse_outs (toks : string list) : outs =
  let o = { bits = Hashtbl.create 64; answers = Hashtbl.create 16; order = []; cfgst = ""; flags = [] } in
  List.iter (fun t ->
      if t = "" then ()
      else if String.length t > 4 && String.sub t 0 4 = "CFG=" then o.cfgst <- String.sub t 4 (String.length t - 4)
      else if t = "BADCASE" then o.flags <- t :: o.flags
      else if t.[0] = 'B' && not (String.contains t '=') then begin
        match String.split_on_char ':' (String.sub t 1 (String.length t - 1)) with
        | [m; c; h] -> Hashtbl.replace o.bits (int_of_string m) (ints_of c, ints_of h)
        | _ -> raise (Bad ("bits " ^ t))
      end
      else match String.index_opt t '=' with
        | Some k when (t.[0] = 'A' || t.[0] = 'Z' || t.[0] = 'F' || t.[0] = 'S' || t.[0] = 'X') ->
            let key = String.sub t 0 k in
            Hashtbl.replace o.answers key (String.sub t (k + 1) (String.length t - k - 1));
            o.order <- key :: o.order
        | _ -> o.flags <- t :: o.flags)
    toks;
  o.order <- List.rev o.order;
  o

let parse_failures (s : string) : failure list =
  if s = "" then []
  else List.map (fun e ->
      if String.length e > 0 && e.[0] = 'U' then
        raise (Unrepresentable (string_of_chars (chars_of_hex (String.sub e 1 (String.length e - 1)))));
      match String.split_on_char ':' e with
      | [v; "-"] -> (nat_of_int (int_of_string v), None)
      | [v; n] -> (nat_of_int (int_of_string v), Some (nat_of_int (int_of_string n)))
      | _ -> raise (Unrepresentable e))
      (String.split_on_char ',' s)

let pr_failure ((v, n) : failure) : string =
  string_of_int (int_of_nat v) ^ ":" ^ (match n with None -> "-" | Some x -> string_of_int (int_of_nat x))

let pr_failures (l : failure list) : string = "[" ^ String.concat "," (List.map pr_failure l) ^ "]"

(* ---- messages ---- *)

let mk_msg (o : outs) (tok : string) (idx : int) : kind * msg =
  if String.length tok < 3 then raise (Bad ("traffic " ^ tok));
  let k = (match tok.[1] with 'q' -> Req | 's' -> Res | _ -> raise (Bad ("traffic " ^ tok))) in
  let api = tok.[2] <> '0' in
  let (conds, hits) = (try Hashtbl.find o.bits idx with Not_found -> raise (Bad ("no bits for " ^ string_of_int idx))) in
  (k, { mid = nat_of_int idx; mapi = api;
        mcond = (fun f -> List.mem (int_of_nat f) conds);
        mhit = (fun v -> List.mem (int_of_nat v) hits) })

let label_of (o : outs) (tok : string) (idx : int) : label =
  match tok with
  | "Q" -> Query | "Qq" -> QueryK Req | "Qs" -> QueryK Res
  | "R" -> Reset | "Rq" -> ResetK Req | "Rs" -> ResetK Res
  | _ when tok.[0] = 'T' -> let (k, m) = mk_msg o tok idx in Traffic (k, m)
  | _ -> raise (Bad ("op " ^ tok))

(* one op token -> the labels of the model history.  An exchange with the
   proxy's own API through the proxy (A<Q|R|C><route>) is: its request (API
   traffic), what the API handler does, its response (API traffic). *)
let labels_of (o : outs) (tok : string) (idx : int) : label list =
  let api_msg = { mid = nat_of_int idx; mapi = true; mcond = (fun _ -> false); mhit = (fun _ -> true) } in
  if tok = "PX" then [Refused]
  else if String.length tok > 3 && String.sub tok 0 2 = "AP" then
    [Traffic (Req, api_msg); Configure (parse_tree (String.sub tok 3 (String.length tok - 3))); Traffic (Res, api_msg)]
  else if String.length tok > 1 && tok.[0] = 'P' then
    [Configure (parse_tree (String.sub tok 1 (String.length tok - 1)))]
  else if String.length tok = 3 && tok.[0] = 'A' then begin
    let inner = (match tok.[1] with 'Q' -> [Query] | 'R' -> [Reset] | 'C' -> [] | _ -> raise (Bad ("op " ^ tok))) in
    [Traffic (Req, api_msg)] @ inner @ [Traffic (Res, api_msg)]
  end
  else if String.length tok > 3 && (String.sub tok 0 3 = "XR:" || String.sub tok 0 3 = "XQ:") then [Refused]
  else [label_of o tok idx]

let is_query = function Query | QueryK _ -> true | _ -> false
let is_reset = function Reset | ResetK _ -> true | _ -> false

let sort_f (l : failure list) = List.sort compare (List.map (fun (v, n) -> (int_of_nat v, match n with None -> -1 | Some x -> int_of_nat x)) l)

(* clause of a wrong sequential answer: which sentence of the property the
   first wrong answer contradicts *)
let classify (labels : (int * label) list) (qpos : int) (want : failure list) (got : failure list) : string =
  let extra = List.filter (fun f -> not (List.mem f want)) got in
  let missing = List.filter (fun f -> not (List.mem f got)) want in
  let msg_of n = List.find_map (fun (_, l) -> match l with
      | Traffic (k, m) when int_of_nat m.mid = n -> Some (k, m) | _ -> None) labels in
  let pos_of n = List.find_map (fun (p, l) -> match l with
      | Traffic (_, m) when int_of_nat m.mid = n -> Some p | _ -> None) labels in
  let reset_between k p =
    List.exists (fun (p', l) -> p' > p && p' < qpos &&
                                (match l with Reset -> true | ResetK k' -> k' = k | _ -> false)) labels in
  let any_reset_before = List.exists (fun (p', l) -> p' < qpos && is_reset l) labels in
  let api_extra = List.exists (fun (_, n) -> match n with
      | Some n -> (match msg_of (int_of_nat n) with Some (_, m) -> m.mapi | None -> false)
      | None -> false) extra in
  let stale_extra = List.exists (fun (_, n) -> match n with
      | Some n -> (match msg_of (int_of_nat n), pos_of (int_of_nat n) with
          | Some (k, _), Some p -> reset_between k p | _ -> false)
      | None -> false) extra in
  let pb_missing = List.exists (fun (_, n) -> n = None) missing in
  if api_extra then "api_not_counted"
  else if stale_extra then "reset_all"
  else if pb_missing && any_reset_before then "reset_all"
  else "query_exact"

(* E<mid>=... : a modifier returned an error *)
let flag_err (o : outs) : string option =
  List.find_opt (fun t -> String.length t >= 2 && t.[0] = 'E' && t.[1] >= '0' && t.[1] <= '9') o.flags

let flag_with (o : outs) (p : string) : string option =
  List.find_opt (fun t -> String.length t >= String.length p && String.sub t 0 (String.length p) = p) o.flags

let crash_of (o : outs) : string option =
  match flag_with o "CRASH=" with
  | Some t ->
      let h = String.sub t 6 (String.length t - 6) in
      Some (try string_of_chars (chars_of_hex h) with _ -> h)
  | None -> None

let judge_seq (ins : string list) (outs : string list) : verdict =
  match ins with
  | _ :: tree :: ops ->
      let o = parse_outs outs in
      if List.mem "BADCASE" o.flags then VOk false
      else if crash_of o <> None then VPropfail ("no_panic", "the code under test took the process down: " ^ (match crash_of o with Some w -> w | None -> ""))
      else if List.mem "PANIC" o.flags then VPropfail ("no_panic", "panic in the code under test")
      else if o.cfgst <> "ok" then VDisagree ("configuration-rejected:" ^ o.cfgst)
      else begin
        let c = parse_tree tree in
        let labels = List.concat (List.mapi (fun i t -> List.map (fun l -> (i + 2, l)) (labels_of o t (i + 2))) ops) in
        let h = List.map snd labels in
        (* status of refused calls (405) and of GET /configure through the proxy (200) *)
        let bad_status = List.concat (List.mapi (fun i t ->
            let idx = i + 2 in
            let want = if t = "PX" then Some ("400", "refused_call_status")
              else if String.length t > 1 && t.[0] = 'P' then Some ("200", "api_call_status")
              else if String.length t > 3 && String.sub t 0 2 = "AP" then Some ("200", "api_call_status")
              else if String.length t > 3 && t.[0] = 'X' then Some ("405", "refused_call_status")
              else if String.length t = 3 && t.[0] = 'A' && t.[1] = 'C' then Some ("200", "api_call_status") else None in
            match want with
            | None -> []
            | Some (w, clause) ->
                let got = (try Hashtbl.find o.answers ("X" ^ string_of_int idx) with Not_found -> "missing") in
                if got = w then [] else [(clause, Printf.sprintf "op %d %s answered %s, want %s" idx t got w)]) ops) in
        match flag_err o with
        | Some e -> VDisagree ("modifier-returned-error:" ^ e)
        | None when bad_status <> [] -> let (c, d) = List.hd bad_status in VPropfail (c, d)
        | None ->
          (* reset handler status *)
          let bad_reset = List.find_opt (fun (p, l) -> is_reset l &&
              (try Hashtbl.find o.answers ("Z" ^ string_of_int p) <> "204" with Not_found -> true)) labels in
          (match bad_reset with
           | Some (p, _) -> VPropfail ("reset_status", "op " ^ string_of_int p)
           | None ->
             let qs = List.filter (fun (_, l) -> is_query l) labels in
             (try
                let obs = List.map (fun (p, _) ->
                    let a = (try Hashtbl.find o.answers ("A" ^ string_of_int p)
                             with Not_found -> raise (Bad ("no answer for op " ^ string_of_int p))) in
                    if String.length a > 0 && a.[0] = '!' then raise (Unrepresentable a);
                    parse_failures a) qs in
                if c13_ok c h obs then begin
                  if not (model_agrees c h) then VDisagree "state-machine-model-differs-from-spec(theorem C13_query_exact broken?)"
                  else
                    let want = spec_outputs c h in
                    VOk (List.exists (fun l -> l <> []) want
                         && List.exists (function Traffic _ -> true | _ -> false) h)
                end else begin
                  let want = spec_outputs c h in
                  let k = (match first_diff O want obs with Some k -> int_of_nat k | None -> 0) in
                  let (qp, _) = List.nth qs (min k (List.length qs - 1)) in
                  let w = (try List.nth want k with _ -> []) and g = (try List.nth obs k with _ -> []) in
                  (* a refused reset that was carried out all the same? *)
                  let h_refused_done = List.concat (List.mapi (fun i t ->
                      if String.length t > 3 && String.sub t 0 3 = "XR:" then [Reset] else labels_of o t (i + 2)) ops) in
                  (* verifiers configured when the wrong answer was given *)
                  let cur = List.fold_left (fun acc (p, l) -> match l with
                      | Configure c' when p < qp -> c' | _ -> acc) c labels in
                  let cur_ids = List.map int_of_nat (leaf_ids (root Req cur) @ leaf_ids (root Res cur)) in
                  let reconfigured = List.exists (fun (p, l) -> p < qp && (match l with Configure _ -> true | _ -> false)) labels in
                  let stale = List.exists (fun (v, _) -> not (List.mem (int_of_nat v) cur_ids)) g in
                  let clause =
                    if reconfigured && stale then "reconfigure_replaces_tree"
                    else if List.mem Refused h && c13_ok c h_refused_done obs then "refused_call_no_effect"
                    else classify labels qp w g in
                  let pin = if model_outputs pinned c h = obs then " (answers are those of the model of the pinned, unrepaired code)" else "" in
                  VPropfail (clause, Printf.sprintf "query-at-op=%d want=%s got=%s%s" qp (pr_failures w) (pr_failures g) pin)
                end
              with Unrepresentable t -> VPropfail ("wellformed_answer", "got=" ^ t)))
      end
  | _ -> VOk false

(* CONC tree, section P: pre-recorded traffic, sections T: racing traffic threads, section K: racing control ops *)
let judge_conc (ins : string list) (outs : string list) : verdict =
  match ins with
  | _ :: tree :: rest ->
      let o = parse_outs outs in
      if List.mem "BADCASE" o.flags then VOk false
      else if List.mem "CHILDLOST" o.flags then VDisagree "concurrent-child-produced-no-output"
      else if flag_with o "LOCKUP=" <> None then VPropfail ("query_terminates", "the case did not finish within the watchdog period")
      else if crash_of o <> None then VPropfail ("no_panic", "the code under test took the process down: " ^ (match crash_of o with Some w -> w | None -> ""))
      else if List.mem "PANIC" o.flags then VPropfail ("no_panic", "panic in the code under test")
      else if o.cfgst <> "ok" then VDisagree ("configuration-rejected:" ^ o.cfgst)
      else begin
        let c = parse_tree tree in
        let sect = ref ' ' in
        let pre = ref [] and thrs = ref [] and ctl = ref [] in
        List.iteri (fun i t ->
            let idx = i + 2 in
            match t with
            | "P" -> sect := 'P'
            | "T" -> sect := 'T'; thrs := [] :: !thrs
            | "K" | "KS" -> sect := 'K'
            | _ ->
              (match !sect with
               | 'P' -> pre := mk_msg o t idx :: !pre
               | 'T' -> (match !thrs with
                         | cur :: r -> thrs := (mk_msg o t idx :: cur) :: r
                         | [] -> raise (Bad "section"))
               | 'K' -> ctl := (idx, t) :: !ctl
               | _ -> raise (Bad "section"))) rest;
        let pre = List.rev !pre and thrs = List.rev (List.map List.rev !thrs) and ctl = List.rev !ctl in
        let thr = List.concat thrs in
        let all = pre @ thr in
        let rec take n l = if n <= 0 then [] else (match l with [] -> [] | x :: r -> x :: take (n - 1) r) in
        (* messages known to be through the chain before the query at [idx] began *)
        let before idx =
          match Hashtbl.find_opt o.answers ("S" ^ string_of_int idx) with
          | None -> pre
          | Some s ->
              let ds = ints_of s in
              if List.length ds <> List.length thrs then raise (Bad "snapshot arity");
              pre @ List.concat (List.map2 take ds thrs) in
        let of_kind k l = List.filter_map (fun (k', m) -> if k' = k then Some m else None) l in
        let e_pre = expected_both c (of_kind Req pre) (of_kind Res pre) in
        let e_all = expected_both c (of_kind Req all) (of_kind Res all) in
        let e_init = expected_both c [] [] in
        let has_reset = List.exists (fun (_, t) -> t = "R") ctl in
        let lo = if has_reset then List.filter (fun (_, n) -> n = None) e_init else e_pre in
        let api_of (f : failure) = match snd f with
          | Some n -> List.exists (fun (_, m) -> m.mid = n && m.mapi) all | None -> false in
        (match flag_err o with
         | Some e -> VDisagree ("modifier-returned-error:" ^ e)
         | None ->
           try
             let get key = (try Hashtbl.find o.answers key with Not_found -> raise (Bad ("no " ^ key))) in
             let fails key =
               let a = get key in
               if String.length a > 0 && a.[0] = '!' then raise (Unrepresentable a);
               parse_failures a in
             let check_sandwich key lo hi =
               let obs = fails key in
               if c13_conc_ok lo hi obs then None
               else begin
                 let lost = List.filter (fun f -> snd f <> None && not (List.mem f obs)) lo in
                 let spurious = List.filter (fun f -> if snd f <> None then not (List.mem f hi) else not (List.mem f lo)) obs in
                 let clause =
                   if lost <> [] then "concurrent_no_loss"
                   else if List.exists api_of spurious then "api_not_counted"
                   else if spurious <> [] then "concurrent_spurious"
                   else "concurrent_duplicate" in
                 Some (VPropfail (clause, Printf.sprintf "%s lost=%s spurious=%s got=%s" key
                                    (pr_failures lost) (pr_failures spurious) (pr_failures obs)))
               end in
             let rec first = function
               | [] -> None
               | f :: r -> (match f () with Some v -> Some v | None -> first r) in
             let ctl_checks = List.map (fun (idx, t) () ->
                 if t = "Q" then
                   (let lo_q = if has_reset then lo
                      else (let b = before idx in expected_both c (of_kind Req b) (of_kind Res b)) in
                    check_sandwich ("A" ^ string_of_int idx) lo_q e_all)
                 else if t = "R" then
                   (if get ("Z" ^ string_of_int idx) = "204" then None
                    else Some (VPropfail ("reset_status", "op " ^ string_of_int idx)))
                 else Some (VDisagree ("unsupported-control-op:" ^ t))) ctl in
             let final_checks = [
               (fun () ->
                  if has_reset then check_sandwich "FQ" lo e_all
                  else begin
                    let obs = fails "FQ" in
                    if c13_same_set_ok e_all obs then None
                    else begin
                      let spurious = List.filter (fun f -> not (List.mem f e_all)) obs in
                      let clause = if List.exists api_of spurious then "api_not_counted" else "concurrent_final" in
                      Some (VPropfail (clause, Printf.sprintf "after-join want(any order)=%s got=%s"
                                         (pr_failures e_all) (pr_failures obs)))
                    end
                  end);
               (fun () -> if get "FR" = "204" then None else Some (VPropfail ("reset_status", "FR")));
               (fun () ->
                  let obs = fails "FQ2" in
                  if c13_answer_ok e_init obs then None
                  else Some (VPropfail ("reset_all", Printf.sprintf "after-final-reset want=%s got=%s"
                                          (pr_failures e_init) (pr_failures obs))));
               (fun () ->
                  match flag_with o "RACE=" with
                  | Some r -> Some (VPropfail ("data_race", r))
                  | None -> None) ] in
             (match first (ctl_checks @ final_checks) with
              | Some v -> v
              | None -> VOk (List.length thr >= 2 && List.exists (fun (_, t) -> t = "Q") ctl))
           with Unrepresentable t -> VPropfail ("wellformed_answer", "got=" ^ t))
      end
  | _ -> VOk false

(* GATEM|GATEB tree traffic* parked-traffic op : the operation raced with the
   last message while it was parked inside the group *)
let judge_gate (ins : string list) (outs : string list) : verdict =
  match ins with
  | _ :: tree :: rest when List.length rest >= 2 ->
      let o = parse_outs outs in
      if List.mem "BADCASE" o.flags then VOk false
      else if List.mem "CHILDLOST" o.flags then VDisagree "concurrent-child-produced-no-output"
      else if flag_with o "LOCKUP=" <> None then VPropfail ("query_terminates", "the case did not finish within the watchdog period")
      else if crash_of o <> None then VPropfail ("no_panic", "the code under test took the process down: " ^ (match crash_of o with Some w -> w | None -> ""))
      else if List.mem "PANIC" o.flags then VPropfail ("no_panic", "panic in the code under test")
      else if o.cfgst <> "ok" then VDisagree ("configuration-rejected:" ^ o.cfgst)
      else begin
        let c = parse_tree tree in
        let n = List.length rest in
        let labels = List.mapi (fun i t -> label_of o t (i + 2)) rest in
        let rec split k l = if k = 0 then ([], l) else (match l with x :: r -> let (a, b) = split (k - 1) r in (x :: a, b) | [] -> ([], [])) in
        let (pre, tl) = split (n - 2) labels in
        let (m, op) = (match tl with [m; op] -> (m, op) | _ -> raise (Bad "gate shape")) in
        let opidx = n + 1 in
        (match flag_err o with
         | Some e -> VDisagree ("modifier-returned-error:" ^ e)
         | None ->
           try
             let fails key =
               let a = (try Hashtbl.find o.answers key with Not_found -> raise (Bad ("no " ^ key))) in
               if String.length a > 0 && a.[0] = '!' then raise (Unrepresentable a);
               parse_failures a in
             let fq = fails "FQ" in
             let obs, clause =
               if is_query op then ([fails ("A" ^ string_of_int opidx); fq], "concurrent_atomic_query")
               else begin
                 if (try Hashtbl.find o.answers ("Z" ^ string_of_int opidx) <> "204" with Not_found -> true)
                 then raise (Bad "reset status");
                 ([fq], "concurrent_atomic_reset")
               end in
             let h1 = pre @ [m; op; Query] and h2 = pre @ [op; m; Query] in
             (* some interleaving of the two goroutines ([m] and [op]) explains the answers *)
             if c13_serial_ok c pre [m] [op] [Query] obs then begin
               match flag_with o "RACE=" with
               | Some r -> VPropfail ("data_race", r)
               | None -> VOk (List.mem "PARKED=1" o.flags)
             end else
               VPropfail (clause, Printf.sprintf "%s message-then-op=%s op-then-message=%s got=%s"
                            (match flag_with o "EARLY=" with Some e -> e | None -> "")
                            (String.concat "_" (List.map pr_failures (spec_outputs c h1)))
                            (String.concat "_" (List.map pr_failures (spec_outputs c h2)))
                            (String.concat "_" (List.map pr_failures obs)))
           with Unrepresentable t -> VPropfail ("wellformed_answer", "got=" ^ t))
      end
  | _ -> VOk false

(* STRESSB|STRESSM tree traffic TxN : heavy traffic against queries and resets;
   everything must return (LOCKUP is the watchdog's observation), and
   afterwards reset / one message / query gives the sequential answer *)
let judge_stress (ins : string list) (outs : string list) : verdict =
  match ins with
  | [_; tree; mtok; _load] ->
      let o = parse_outs outs in
      if List.mem "BADCASE" o.flags then VOk false
      else if crash_of o <> None then VPropfail ("no_panic", "the code under test took the process down: " ^ (match crash_of o with Some w -> w | None -> ""))
      else if List.mem "PANIC" o.flags then VPropfail ("no_panic", "panic in the code under test")
      else if o.cfgst <> "ok" then VDisagree ("configuration-rejected:" ^ o.cfgst)
      else (match flag_with o "LOCKUP=" with
          | Some l -> VPropfail ("query_terminates", l ^ " (traffic, queries and resets did not all return within the watchdog period)")
          | None ->
            let c = parse_tree tree in
            let h = [Reset; label_of o mtok 2; Query] in
            (try
               let a = (try Hashtbl.find o.answers "FQ" with Not_found -> raise (Bad "no FQ")) in
               if String.length a > 0 && a.[0] = '!' then raise (Unrepresentable a);
               let fq = parse_failures a in
               if c13_ok c h [fq] then VOk true
               else VPropfail ("reset_all", Printf.sprintf "after the load: reset, one message, query: want=%s got=%s"
                                 (String.concat "_" (List.map pr_failures (spec_outputs c h))) (pr_failures fq))
             with Unrepresentable t -> VPropfail ("wellformed_answer", "got=" ^ t)))
  | _ -> VOk false

(* LOADB|LOADM tree traffic TxN : T goroutines x N times the same message, then
   the number of errors held and the distinct errors *)
let judge_load (ins : string list) (outs : string list) : verdict =
  match ins with
  | [_; tree; mtok; load] ->
      let o = parse_outs outs in
      if List.mem "BADCASE" o.flags then VOk false
      else (match crash_of o with
          | Some w -> VPropfail ("no_panic", "the code under test took the process down: " ^ w)
          | None ->
            if List.mem "PANIC" o.flags then VPropfail ("no_panic", "panic in the code under test")
            else if flag_with o "LOCKUP=" <> None then VPropfail ("query_terminates", "the case did not finish within the watchdog period")
            else if o.cfgst <> "ok" then VDisagree ("configuration-rejected:" ^ o.cfgst)
            else begin
              let c = parse_tree tree in
              let (k, m) = mk_msg o mtok 2 in
              let n = (match String.split_on_char 'x' load with
                  | [a; b] -> int_of_string a * int_of_string b | _ -> raise (Bad "load")) in
              let cnt = (match flag_with o "COUNT=" with
                  | Some t -> int_of_string (String.sub t 6 (String.length t - 6)) | None -> raise (Bad "no COUNT")) in
              try
                let a = (try Hashtbl.find o.answers "FQ" with Not_found -> raise (Bad "no FQ")) in
                let distinct = parse_failures a in
                let one = load_answer c k m (S O) in
                if not (c13_same_set_ok one distinct) then
                  VPropfail ("query_exact", Printf.sprintf "distinct errors after the load: want(any order)=%s got=%s" (pr_failures one) (pr_failures distinct))
                else if c13_load_ok c k m (nat_of_int n) (nat_of_int cnt) then VOk (n > 1 && one <> [])
                else VPropfail ("concurrent_none_lost",
                                Printf.sprintf "%d messages each failing %d verifier(s): want %d errors, got %d"
                                  n (List.length one) (List.length (load_answer c k m (nat_of_int n))) cnt)
              with Unrepresentable t -> VPropfail ("wellformed_answer", "got=" ^ t)
            end)
  | _ -> VOk false

let judge _name ins outs =
  try
    match ins with
    | ("SEQ" | "SEQM" | "SEQN" | "DIR") :: _ -> judge_seq ins outs
    | ("CONC" | "CONCB") :: _ -> judge_conc ins outs
    | ("GATEM" | "GATEB") :: _ -> judge_gate ins outs
    | ("STRESSM" | "STRESSB") :: _ -> judge_stress ins outs
    | ("LOADM" | "LOADB") :: _ -> judge_load ins outs
    | _ -> VDisagree "unknown-case-kind"
  with Bad m -> VDisagree ("unparsable-case:" ^ m)

let () = run_driver judge
