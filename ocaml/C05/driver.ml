(* C05 driver: parses the connection script and the per-request observation
   tokens, evaluates the extracted oracle (c05_fail) and compares with the
   extracted model of the repaired code (run true). *)

exception Bad of string

let parse_in (ins : string list) : listener * tunnel * inner list =
  match ins with
  | l :: t :: rest ->
      (* an optional A<alpn><h2config> token is TLS configuration of the tunnel, not a model input:
         HTTP/1.1 traffic must be handled identically in every combination *)
      let rest = (match rest with a :: r when String.length a = 3 && a.[0] = 'A' -> r | _ -> rest) in
      (* Z = the client pipelines its first requests: not a model input either *)
      let rest = (match rest with "Z" :: r -> r | _ -> rest) in
      let l' = (match l with "Lp" -> LPlain | "Ls" -> LShaped | "Lt" -> LTls | "Lx" -> LShapedTls | _ -> raise (Bad l)) in
      (* an optional third character is the client's timing of the first tunnel bytes relative to the
         CONNECT response (b pipelined, c split): not a model input, the proxy must behave the same *)
      let t' = (match t with "Tt" | "Ttb" | "Ttc" -> TunTls | "Tp" | "Tpb" | "Tpc" -> TunPlain
                           | "Tn" -> NoTunnel | _ -> raise (Bad t)) in
      let req s =
        let f = (match s.[0] with 'o' -> FOrigin | 'a' -> FAbsHttp | 's' -> FAbsHttps | 'n' -> FNoHost
                                  | _ -> raise (Bad s)) in
        let rest = String.sub s 1 (String.length s - 1) in
        let has c = String.contains rest c in
        { i_form = f; i_hijack = has 'H';
          i_mut = (if has 'I' then MInsecure else if has 'M' then MSecure else if has 'V' then MValues else MNone) } in
      (l', t', List.map req rest)
  | _ -> raise (Bad "short-input")

let nat s = try nat_of_int (int_of_string s) with _ -> raise (Bad s)

let parse_obs (t : string) : obs =
  match String.split_on_char ',' t with
  | ["N"; i] -> Unseen (nat i)
  | ["R"; i; sch; h; sec; tls; sess; up; st; hk; mk] ->
      Seen (nat i,
        { f_scheme = (match sch with "https" -> Https | "http" -> Http | _ -> raise (Bad t));
          f_host = (match h with "example.com:443" -> HAuth | "example.com" -> HHeader
                               | "other.test" -> HUrl | "-" -> HEmpty | _ -> HOther);
          f_secure = (match sec with "1" -> true | "0" -> false | _ -> raise (Bad t));
          (* 2 = non-nil but not the state the client negotiated on this connection *)
          f_tls = (match tls with "1" -> true | "0" | "2" -> false | _ -> raise (Bad t));
          f_sess = nat sess;
          f_up = (match up with "tls" -> UpTls | "plain" -> UpPlain | "none" -> UpNone | "both" -> UpBoth
                              | _ -> raise (Bad t));
          f_status = (if st = "-" then None else Some (nat st));
          f_hk = (match hk with "-" -> None | "r" -> Some Raw | "sr" -> Some ShapedRaw | "t" -> Some Tls
                              | "st" -> Some ShapedTls | _ -> raise (Bad t));
          f_marker = (match mk with "-" -> None | "ok" -> Some true | "no" -> Some false | _ -> raise (Bad t)) })
  | _ -> raise (Bad t)

let i n = string_of_int (int_of_nat n)
let pr_obs = function
  | Unseen j -> "N," ^ i j
  | Seen (j, f) ->
      String.concat "," [ "R"; i j;
        (match f.f_scheme with Https -> "https" | Http -> "http");
        (match f.f_host with HAuth -> "example.com:443" | HHeader -> "example.com" | HUrl -> "other.test"
                           | HEmpty -> "-" | HOther -> "?");
        (if f.f_secure then "1" else "0"); (if f.f_tls then "1" else "0"); i f.f_sess;
        (match f.f_up with UpTls -> "tls" | UpPlain -> "plain" | UpNone -> "none" | UpBoth -> "both");
        (match f.f_status with None -> "-" | Some s -> i s);
        (match f.f_hk with None -> "-" | Some Raw -> "r" | Some ShapedRaw -> "sr" | Some Tls -> "t" | Some ShapedTls -> "st");
        (match f.f_marker with None -> "-" | Some true -> "ok" | Some false -> "no") ]

let clause_name = function
  | CScheme -> "scheme_https"
  | CHost -> "host_defaults_to_authority"
  | CSecure -> "session_secure"
  | CUpstream -> "upstream_tls"
  | CPlainInsecure -> "plain_inside_tunnel_insecure"
  | COneSession -> "one_session"
  | CTlsState -> "tls_state_attached"
  | CHijack -> "hijack_gets_decrypted"
  | CResponse -> "response_inside_same_tls_session"
  | CPresented -> "every_tunnelled_request_presented"
  | CShape -> "observation_shape"

(* for the report: index and token of the first entry that fails a clause *)
let culprit t reqs os toks =
  let ctls = (match t with TunPlain -> false | _ -> true) in
  let rec go = function
    | [] -> "entry=- tok=-"
    | Seen (j, f) :: r when int_of_nat j >= 1 && int_of_nat j <= List.length reqs ->
        let k = int_of_nat j in
        (match entry_fail ctls (List.nth reqs (k - 1)) f with
         | Some _ -> Printf.sprintf "entry=%d tok=%s" k (List.nth toks (k - 1))
         | None -> go r)
    | _ :: r -> go r in
  go os

let judge _name ins outs =
  match outs with
  | ["INVALID"] | ["BADCASE"] -> VOk false
  | _ ->
  try
    let (l, t, reqs) = parse_in ins in
    let os = List.map parse_obs outs in
    let want = run true l t reqs in
    let toks = (match ins with _ :: _ :: a :: r when String.length a = 3 && a.[0] = 'A' -> r
                           | _ :: _ :: r -> r | _ -> []) in
    let toks = (match toks with "Z" :: r -> r | _ -> toks) in
    match c05_fail l t reqs os with
    | Some c ->
        VPropfail (clause_name c,
                   Printf.sprintf "%s observed=%s repaired-model=%s matches-unrepaired-model=%b"
                     (culprit t reqs os toks)
                     (String.concat "_" outs) (String.concat "_" (List.map pr_obs want))
                     (agrees false l t reqs os))
    | None ->
        if agrees true l t reqs os then VOk (List.length reqs >= 2)
        else VDisagree (Printf.sprintf "observed=%s model=%s"
                          (String.concat "_" (List.map pr_obs os)) (String.concat "_" (List.map pr_obs want)))
  with Bad t -> VDisagree ("unexpected-token:" ^ t)

let () = run_driver judge
