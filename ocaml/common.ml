(* Shared driver runtime.  Textually prepended (after `open Model`) to every
   property's driver.ml, because each extraction defines its own nat / n / z
   types.  Hand-written, trusted: conversions, hex, case-file parsing, the
   verdict protocol. *)

let nat_of_int (i : int) : nat =
  let rec go acc k = if k <= 0 then acc else go (S acc) (k - 1) in
  go O i

let int_of_nat (n : nat) : int =
  let rec go acc = function O -> acc | S m -> go (acc + 1) m in
  go 0 n

let rec pos_of_int (i : int) : positive =
  if i <= 1 then XH
  else if i land 1 = 1 then XI (pos_of_int (i lsr 1))
  else XO (pos_of_int (i lsr 1))

let rec int_of_pos = function
  | XH -> 1
  | XO p -> 2 * int_of_pos p
  | XI p -> 2 * int_of_pos p + 1

let n_of_int (i : int) : n = if i <= 0 then N0 else Npos (pos_of_int i)
let int_of_n = function N0 -> 0 | Npos p -> int_of_pos p

let z_of_int (i : int) : z =
  if i = 0 then Z0 else if i > 0 then Zpos (pos_of_int i) else Zneg (pos_of_int (-i))

let int_of_z = function Z0 -> 0 | Zpos p -> int_of_pos p | Zneg p -> - (int_of_pos p)

(* arbitrary-size decimal strings, optional leading '-' *)
let z_of_dec (s : string) : z =
  let neg = String.length s > 0 && s.[0] = '-' in
  let start = if neg || (String.length s > 0 && s.[0] = '+') then 1 else 0 in
  let ten = z_of_int 10 in
  let acc = ref Z0 in
  for i = start to String.length s - 1 do
    acc := Z.add (Z.mul !acc ten) (z_of_int (Char.code s.[i] - 48))
  done;
  if neg then Z.opp !acc else !acc

let n_of_dec (s : string) : n = Z.to_N (z_of_dec s)

let rec dec_of_pos (p : positive) : string =
  (* via repeated doubling on a decimal digit array *)
  let double_add (d : int array ref) (carry0 : int) =
    let a = !d in
    let carry = ref carry0 in
    for i = Array.length a - 1 downto 0 do
      let v = a.(i) * 2 + !carry in
      a.(i) <- v mod 10; carry := v / 10
    done;
    if !carry > 0 then d := Array.append [| !carry |] a in
  let rec bits acc = function XH -> 1 :: acc | XO q -> bits (0 :: acc) q | XI q -> bits (1 :: acc) q in
  let d = ref [| 0 |] in
  List.iter (fun b -> double_add d b) (bits [] p);
  ignore dec_of_pos;
  String.concat "" (Array.to_list (Array.map string_of_int !d))

let dec_of_n = function N0 -> "0" | Npos p -> dec_of_pos p
let dec_of_z = function Z0 -> "0" | Zpos p -> dec_of_pos p | Zneg p -> "-" ^ dec_of_pos p

let hexval c =
  match c with
  | '0' .. '9' -> Char.code c - 48
  | 'a' .. 'f' -> Char.code c - 87
  | 'A' .. 'F' -> Char.code c - 55
  | _ -> failwith "bad hex"

(* "x48656c" -> ['H';'e';'l'] *)
let chars_of_hex (tok : string) : char list =
  if String.length tok = 0 || tok.[0] <> 'x' then failwith ("not a hex token: " ^ tok);
  let n = (String.length tok - 1) / 2 in
  let rec go i acc =
    if i < 0 then acc
    else go (i - 1) (Char.chr (hexval tok.[1 + 2 * i] * 16 + hexval tok.[2 + 2 * i]) :: acc) in
  go (n - 1) []

let hex_of_chars (cs : char list) : string =
  let b = Buffer.create 16 in
  Buffer.add_char b 'x';
  List.iter (fun c -> Buffer.add_string b (Printf.sprintf "%02x" (Char.code c))) cs;
  Buffer.contents b

let chars_of_string (s : string) : char list = List.init (String.length s) (String.get s)
let string_of_chars (cs : char list) : string = String.concat "" (List.map (String.make 1) cs)

let split_on (c : char) (s : string) : string list =
  if s = "" then [] else String.split_on_char c s

(* CASE name IN tok* OUT tok* *)
let parse_case (line : string) : (string * string list * string list) option =
  let f = List.filter (fun s -> s <> "") (String.split_on_char ' ' line) in
  match f with
  | "CASE" :: name :: "IN" :: rest ->
      let rec sp acc = function
        | [] -> (List.rev acc, [])
        | "OUT" :: o -> (List.rev acc, o)
        | x :: r -> sp (x :: acc) r in
      let (i, o) = sp [] rest in
      Some (name, i, o)
  | _ -> None

type verdict =
  | VOk of bool                 (* non-trivial by the property's rule? *)
  | VDisagree of string         (* model and implementation differ on a projected observable *)
  | VPropfail of string * string  (* clause, detail: the property oracle fails on the real output *)

(* Reads cases on stdin, prints one verdict line per non-OK case, then
   SUMMARY.  A driver exception is reported as a DISAGREE (never silently OK). *)
let run_driver (judge : string -> string list -> string list -> verdict) : unit =
  let seen : (string, unit) Hashtbl.t = Hashtbl.create 4096 in
  let evals = ref 0 and nontriv = ref 0 and bad = ref 0 in
  (try
     while true do
       let line = input_line stdin in
       match parse_case line with
       | None -> ()
       | Some (name, ins, outs) ->
           incr evals;
           let v = try judge name ins outs
                   with e -> VDisagree ("driver-exception:" ^ Printexc.to_string e) in
           (match v with
            | VOk nt ->
                if nt then begin
                  let key = String.concat " " ins in
                  if not (Hashtbl.mem seen key) then begin
                    Hashtbl.add seen key (); incr nontriv end
                end
            | VDisagree d -> incr bad; Printf.printf "DISAGREE %s %s\n" name d
            | VPropfail (c, d) -> incr bad; Printf.printf "PROPFAIL %s %s %s\n" name c d)
     done
   with End_of_file -> ());
  Printf.printf "SUMMARY evaluations=%d distinct_nontrivial=%d bad=%d\n" !evals !nontriv !bad
