(* C11 driver: parses a HEADERS/DATA script and what the real grpc adapter /
   emitter did with it, evaluates the extracted oracle [c11_ok] (and its
   named conjuncts) on the REAL observation, then compares the observation
   with the extracted model [run_ops repaired]. *)

let enc_of_char = function
  | 'g' -> Gzip | 'f' -> Deflate | 's' -> Snappy | 'i' -> Identity
  | c -> failwith (Printf.sprintf "bad enc %c" c)
let char_of_enc = function Gzip -> 'g' | Deflate -> 'f' | Snappy -> 's' | Identity -> 'i'

let dir_of_char = function 'C' -> CtoS | 'S' -> StoC | c -> failwith (Printf.sprintf "bad dir %c" c)
let char_of_dir = function CtoS -> 'C' | StoC -> 'S'

let tail_from s k = String.sub s k (String.length s - k)

(* ---- tables: finite instances of decomp / comp for this case ---- *)
type tables = {
  dec : (string, char list option) Hashtbl.t;   (* enc char ^ payload hex -> plain *)
  cmp : (string, char list) Hashtbl.t;          (* enc char ^ plain hex -> payload the real emitter produced *)
}

let add_table (tb : tables) ~(from_sink : bool) (tok : string) =
  (* [Tt]<e>:<payloadhex>:<plainhex|!> *)
  match String.split_on_char ':' tok with
  | [h; p; pl] when String.length h = 2 ->
      let e = h.[1] in
      let plain = if pl = "!" then None else Some (chars_of_hex pl) in
      if not (Hashtbl.mem tb.dec (String.make 1 e ^ p)) then Hashtbl.add tb.dec (String.make 1 e ^ p) plain;
      (match plain with
       | Some _ when from_sink ->
           let k = String.make 1 e ^ pl in
           if not (Hashtbl.mem tb.cmp k) then Hashtbl.add tb.cmp k (chars_of_hex p)
       | _ -> ())
  | _ -> failwith ("bad table token " ^ tok)

let decomp_of (tb : tables) (e : enc) (b : char list) : char list option =
  match e with
  | Identity -> Some b
  | _ -> (match Hashtbl.find_opt tb.dec (String.make 1 (char_of_enc e) ^ hex_of_chars b) with
          | Some r -> r
          | None -> None)

(* a plain text the real emitter never compressed has no table entry: the
   model then predicts a payload that cannot match, which is what we want *)
let comp_of (tb : tables) (e : enc) (b : char list) : char list =
  match e with
  | Identity -> b
  | _ -> (match Hashtbl.find_opt tb.cmp (String.make 1 (char_of_enc e) ^ hex_of_chars b) with
          | Some r -> r
          | None -> chars_of_string "<no-comp-entry>")

(* ---- parsing ---- *)
let parse_header_tok (t : string) : op =
  let d = dir_of_char t.[1] and es = t.[2] = '1' in
  let parts = match String.split_on_char ':' t with _ :: r -> r | [] -> [] in
  let rec pairs = function
    | n :: v :: r -> (chars_of_hex n, chars_of_hex v) :: pairs r
    | [] -> []
    | _ -> failwith "odd header token" in
  OpHeader (d, pairs parts, es)

let parse_data_tok (t : string) : op =
  OpData (dir_of_char t.[1], chars_of_hex (tail_from t 4), t.[2] = '1')

let tok_of_oev = function
  | PHeader (d, _, es) -> Printf.sprintf "p%ch%d:ok" (char_of_dir d) (if es then 1 else 0)
  | SHeader (d, _, es) -> Printf.sprintf "s%ch%d:ok" (char_of_dir d) (if es then 1 else 0)
  | PMsg (d, data, es) ->
      Printf.sprintf "p%cm%d:%s" (char_of_dir d) (if es then 1 else 0)
        (match data with None -> "N" | Some b -> hex_of_chars b)
  | SData (d, b, es) -> Printf.sprintf "s%cd%d:%s" (char_of_dir d) (if es then 1 else 0) (hex_of_chars b)
  | OErr ErrEncoding -> "e:enc"
  | OErr ErrDecompress -> "e:dec"

(* OUT -> per executed op (stream index, calls), then the tokens after "#" *)
let split_out (outs : string list) : (int * string list) list * string list =
  let tag t = if t = "|" then Some 0
    else if String.length t > 1 && t.[0] = '|' then Some (int_of_string (tail_from t 1)) else None in
  let close cur acc = match cur with None -> acc | Some (k, c) -> (k, List.rev c) :: acc in
  let rec go cur acc = function
    | [] -> (List.rev (close cur acc), [])
    | "#" :: r -> (List.rev (close cur acc), r)
    | x :: r ->
        (match tag x with
         | Some k -> go (Some (k, [])) (close cur acc) r
         | None ->
             (match cur with
              | Some (k, c) -> go (Some (k, x :: c)) acc r
              | None -> failwith "event before first op")) in
  go None [] outs

let clip s = if String.length s > 300 then String.sub s 0 300 ^ "..." else s

let is_prefix p s = String.length s >= String.length p && String.sub s 0 (String.length p) = p

let judge _name ins outs =
  if List.mem "BADCASE" outs then VDisagree "harness-rejected-the-script" else
  let tb = { dec = Hashtbl.create 16; cmp = Hashtbl.create 16 } in
  let sops = ref [] and sspecs = ref [] and cur = ref 0 and has_c = ref true and has_s = ref true in
  List.iter (fun t ->
      if t = "" then () else
      match t.[0] with
      | '@' -> cur := int_of_string (tail_from t 1)
      | 'f' when String.length t >= 2 && t.[1] = '=' ->
          has_c := String.contains t 'C'; has_s := String.contains t 'S'
      | 'H' -> sops := (!cur, parse_header_tok t) :: !sops
      | 'D' -> sops := (!cur, parse_data_tok t) :: !sops
      | 'W' ->
          (match String.split_on_char ':' t with
           | [h; f; p] -> sspecs := (!cur, (dir_of_char h.[1], { mflag = (f = "1"); mpayload = chars_of_hex p })) :: !sspecs
           | _ -> failwith "bad W token")
      | 'T' -> add_table tb ~from_sink:false t
      | _ -> ()) ins;
  let sops = List.rev !sops and sspecs = List.rev !sspecs in
  let has_c = !has_c and has_s = !has_s in
  let (groups, extra) = split_out outs in
  List.iter (fun t -> if String.length t > 0 && t.[0] = 't' then add_table tb ~from_sink:true t) extra;
  if List.mem "BADTABLE" extra then VDisagree "harness-decomp-table-wrong" else
  let every_ev = List.concat (List.map Stdlib.snd groups) in
  if List.mem "PANIC" every_ev then VPropfail ("no_panic", "the code under test panicked") else
  (match List.find_opt (fun t -> String.length t > 0 && t.[0] = '!') every_ev with
   | Some t -> VPropfail ("stream_interference", "a call was observed on another stream than the one whose frame was being processed: " ^ clip t)
   | None ->
  let decomp = decomp_of tb and comp = comp_of tb in
  let stream_ids = List.sort_uniq compare (List.map Stdlib.fst sops) in
  let nontrivial = ref false in

  (* the per-stream oracle: [ops], [specs], [all_ev] are those of ONE stream *)
  let oracle_stream (sid : int) (ops : op list) (specs : (dir * msg) list) (all_ev : string list) (ngroups : int) : (string * string) option =
  (* ---------- the property oracle, per direction, on the real observation ---------- *)
  let headers_first =
    let rec go seen_data = function
      | [] -> true
      | OpHeader (_, _, es) :: r -> if seen_data && not es then false else go seen_data r
      | OpData _ :: r -> go true r in
    go false ops in
  let hdr_ops = List.filter (function OpHeader (_, _, false) -> true | _ -> false) ops in
  let after_headers = pair_after decomp comp repaired (pair_cfg has_c has_s) hdr_ops in
  let header_error = List.mem "e:enc" all_ev in
  let oracle_dir (d : dir) : (string * string) option =
    let dc = char_of_dir d in
    let frames = List.filter_map (function OpData (d', b, es) when d' = d -> Some (b, es) | _ -> None) ops in
    let ms = List.filter_map (fun (d', m) -> if d' = d then Some m else None) specs in
    let has_spec = List.exists (fun (d', _) -> d' = d) specs || (frames <> [] && List.for_all (fun (b, _) -> b = []) frames) in
    if frames = [] || not headers_first || header_error then None else
    match after_headers with
    | None -> None
    | Some p ->
      let pm = Printf.sprintf "p%cm" dc and sd = Printf.sprintf "s%cd" dc in
      let calls = List.filter_map (fun t ->
          if is_prefix pm t then
            let es = t.[3] = '1' in
            let body = tail_from t 5 in
            Some ((if body = "N" then None else Some (chars_of_hex body)), es)
          else None) all_ev in
      let datas = List.filter_map (fun t ->
          if is_prefix sd t then Some (chars_of_hex (tail_from t 5), t.[3] = '1') else None) all_ev in
      if not (has_proc d p) then begin
        (* the factory gave this direction no processor: its frames must reach the sink untouched
           (theorem C11_no_processor_untouched), gRPC or not *)
        if List.exists (fun t -> is_prefix (Printf.sprintf "s%ch" dc) t && not (is_prefix "ok" (tail_from t 5))) all_ev
        then Some ("headers_changed", "a forwarded HEADERS differs from the one received")
        else if not (untouched_ok frames calls datas) then
          Some ("no_processor_untouched", Printf.sprintf "dir=%c has no processor but %s" dc
                  (if calls <> [] then "messages were shown to a processor" else "its DATA did not reach the sink unchanged"))
        else (nontrivial := true; None)
      end else
      if List.exists (fun t -> (is_prefix (Printf.sprintf "p%ch" dc) t || is_prefix (Printf.sprintf "s%ch" dc) t)
                               && not (is_prefix "ok" (tail_from t 5))) all_ev
      then Some ("headers_changed", "a forwarded HEADERS differs from the one received") else
      (* which streams are gRPC is pinned here independently of the model's regenerated
         constants: some HEADERS carried content-type exactly application/grpc *)
      let spec_grpc = std_stream_is_grpc has_c has_s ops in   (* extracted; theorem C11_detection_step *)
      if spec_grpc <> enabled p then
        Some ("grpc_detection", Printf.sprintf "stream is %sgRPC by its content-type but the adapter treats it as %sgRPC"
                (if spec_grpc then "" else "not ") (if enabled p then "" else "non-"))
      else
      if not (enabled p) then begin
        (* not gRPC: DATA must reach the sink untouched, the processor sees nothing *)
        if not (untouched_ok frames calls datas) then
          Some ("non_grpc_untouched",
                if calls <> [] then "processor was shown messages of a non-gRPC stream"
                else Printf.sprintf "sink got %d DATA, script had %d, or bytes/flags differ" (List.length datas) (List.length frames))
        else (if List.length frames >= 1 then nontrivial := true; None)
      end else begin
        let e = get_enc d p in
        (* the codec the gRPC spec prescribes for the grpc-encoding value this direction
           announced, read here independently of the model's (regenerated) table *)
        (* grpc-encoding values count from the HEADERS that makes the stream gRPC on (an adapter
           never looks at the fields of a stream it does not yet treat as gRPC) *)
        let announced_v =
          let (_, acc) = List.fold_left (fun (en, acc) o -> match o with
              | OpHeader (d', hs, false) ->
                  let en = en || (has_proc d' p && std_is_grpc hs) in
                  (en, if d' = d && en then announced acc hs else acc)     (* extracted *)
              | _ -> (en, acc)) (false, None) ops in
          acc in
        let spec_enc = match announced_v with
          | None -> Some Identity
          | Some v -> std_enc_of_name v in                                (* extracted *)
        if spec_enc <> None && spec_enc <> Some e then
          Some ("encoding_selection", Printf.sprintf "dir=%c grpc-encoding=%s but the adapter decodes with codec %c" dc
                  (match announced_v with Some a -> string_of_chars a | None -> "<none>") (char_of_enc e))
        else
        if not (has_spec && is_partition ms frames && es_only_last frames
                && decodable decomp e ms && lens_ok decomp comp e ms) then None
        else begin
          let esl = last_es frames in
          if List.length ms >= 1 && List.length frames >= 2 then nontrivial := true;
          let n_ms = List.length ms in
          if not (proc_msgs_ok decomp e ms calls) then
            Some ("proc_messages", Printf.sprintf "dir=%c want %d messages, processor was shown %d (non-nil) in %d calls"
                    dc n_ms (List.length (List.filter (fun (x, _) -> x <> None) calls)) (List.length calls))
          else match sink_msg_count datas with
            | None -> Some ("sink_parse", Printf.sprintf "dir=%c bytes at the sink are not a sequence of gRPC messages" dc)
            | Some k ->
              let k = int_of_nat k in
              if k > n_ms then Some ("sink_extra_message", Printf.sprintf "dir=%c sent %d messages, destination received %d" dc n_ms k)
              else if k < n_ms then Some ("sink_lost_message", Printf.sprintf "dir=%c sent %d messages, destination received %d" dc n_ms k)
              else if not (sink_flags_lens_ok ms datas) then Some ("sink_flags", Printf.sprintf "dir=%c compressed flags changed" dc)
              else if not (sink_msgs_ok decomp e ms datas) then
                Some ("sink_container", Printf.sprintf "dir=%c enc=%c a forwarded payload does not decode, with the decoder that accepted the input, to the same message" dc (char_of_enc e))
              else if not (proc_eos_ok esl calls) then
                Some ("proc_eos", Printf.sprintf "dir=%c end-of-stream on DATA=%b, flags shown to the processor: %s" dc esl
                        (String.concat "" (List.map (fun (_, es) -> if es then "1" else "0") calls)))
              else if not (sink_eos_ok esl datas) then
                Some ("sink_eos", Printf.sprintf "dir=%c end-of-stream on DATA=%b, flags at the sink: %s" dc esl
                        (String.concat "" (List.map (fun (_, es) -> if es then "1" else "0") datas)))
              else if not (c11_ok decomp e ms esl calls datas) then Some ("c11_ok", "conjunction fails")
              else None
        end
      end in
    (* Header failed with "unrecognized grpc-encoding": by theorem C11_encoding_error_iff_nonstandard
       that is right exactly when the standard table rejects the announcement of that HEADERS
       (the failing op is the last one this stream executed) *)
    let enc_err =
      if not header_error then None else
      match List.nth_opt ops (ngroups - 1) with
      | Some (OpHeader (d, hs, _)) when not (std_rejects hs) ->         (* extracted *)
          let vals = List.filter_map (fun (n, v) -> if string_of_chars n = "grpc-encoding" then Some ("'" ^ string_of_chars v ^ "'") else None) hs in
          Some ("encoding_selection",
                Printf.sprintf "stream=%d dir=%c HEADERS announcing grpc-encoding %s (standard) was refused as unrecognized: the stream's messages reach neither processor nor destination"
                  sid (char_of_dir d) (String.concat "," vals))
      | _ -> None in
    if enc_err <> None then enc_err else
    (match oracle_dir CtoS with
     | Some (c, dt) -> Some (c, Printf.sprintf "stream=%d %s" sid dt)
     | None -> (match oracle_dir StoC with Some (c, dt) -> Some (c, Printf.sprintf "stream=%d %s" sid dt) | None -> None)) in
  let first_fail =
    List.fold_left (fun acc k ->
        match acc with
        | Some _ -> acc
        | None ->
            let ops = List.filter_map (fun (k', o) -> if k' = k then Some o else None) sops in
            let specs = List.filter_map (fun (k', x) -> if k' = k then Some x else None) sspecs in
            let evs = List.concat (List.filter_map (fun (k', g) -> if k' = k then Some g else None) groups) in
            oracle_stream k ops specs evs (List.length (List.filter (fun (k', _) -> k' = k) groups))) None stream_ids in
  match first_fail with
  | Some (clause, detail) -> VPropfail (clause, detail)
  | None ->
    (* ---------- correspondence: model vs implementation, op by op, all streams ---------- *)
    let render v =
      match run_session decomp comp v (sess_cfg has_c has_s) (List.map (fun (k, o) -> (nat_of_int k, o)) sops) with
      | None -> None
      | Some outs -> Some (List.map (fun (k, g) -> (int_of_nat k, List.map tok_of_oev g)) outs) in
    (match render repaired with
     | None -> VDisagree "model-out-of-fuel"
     | Some want ->
       if want = groups then VOk !nontrivial
       else begin
         let show (k, x) = Printf.sprintf "stream%d:" k ^ String.concat "," x in
         let rec first_diff i a b = match a, b with
           | [], [] -> (i, "", "")
           | x :: a', y :: b' -> if x = y then first_diff (i + 1) a' b' else (i, show x, show y)
           | x :: _, [] -> (i, show x, "<no-such-op>")
           | [], y :: _ -> (i, "<no-such-op>", show y) in
         let (i, w, g) = first_diff 0 want groups in
         let orig = match render original with Some o when o = groups -> " (observation equals the model of the ORIGINAL, unrepaired code)" | _ -> "" in
         VDisagree (Printf.sprintf "op#%d model=[%s] impl=[%s]%s" i (clip w) (clip g) orig)
       end))

(* Same protocol as common.ml's [run_driver], except that at most [cap] bad
   verdict lines are printed per (kind, clause): on an unrepaired tree tens of
   thousands of generated cases fail for the same three reasons, and bin/vcheck
   only keeps the inputs of the first 2000 bad cases it is told about (it then
   reports the violation with an empty replay).  The earliest cases of each
   clause (corpus first, then the exhaustive cases in increasing length) are
   the ones printed; the rest are counted in SUMMARY suppressed=. *)
let run_driver_capped (cap : int) judge : unit =
  let seen : (string, unit) Hashtbl.t = Hashtbl.create 4096 in
  let per : (string, int) Hashtbl.t = Hashtbl.create 16 in
  let evals = ref 0 and nontriv = ref 0 and bad = ref 0 and suppressed = ref 0 in
  let allow key =
    let n = try Hashtbl.find per key with Not_found -> 0 in
    Hashtbl.replace per key (n + 1);
    if n < cap then true else (incr suppressed; false) in
  (try
     while true do
       let line = input_line stdin in
       match parse_case line with
       | None -> ()
       | Some (name, ins, outs) ->
           incr evals;
           let v = try judge name ins outs
                   with e -> VDisagree ("driver-exception:" ^ Printexc.to_string e) in
           (match v with
            | VOk nt ->
                if nt then begin
                  let key = String.concat " " ins in
                  if not (Hashtbl.mem seen key) then begin
                    Hashtbl.add seen key (); incr nontriv end
                end
            | VDisagree d -> incr bad; if allow "DISAGREE" then Printf.printf "DISAGREE %s %s\n" name d
            | VPropfail (c, d) -> incr bad; if allow ("PROPFAIL " ^ c) then Printf.printf "PROPFAIL %s %s %s\n" name c d)
     done
   with End_of_file -> ());
  Printf.printf "SUMMARY evaluations=%d distinct_nontrivial=%d bad=%d suppressed=%d\n" !evals !nontriv !bad !suppressed

let () = run_driver_capped 150 judge
