(* C01 driver: parses connection scripts and the harness's observation of the
   real proxy, evaluates the extracted oracle c01_ok (clause by clause, to name
   the failing one) and compares the observation with the model's prediction. *)

let hexs (h : string) : char list = chars_of_hex ("x" ^ h)

let parse_hdrs (t : string) : (char list * char list) list =
  if t = "-" || t = "" then []
  else List.map (fun p ->
      match String.split_on_char '=' p with
      | [n; v] -> (hexs n, hexs v)
      | _ -> failwith ("bad header " ^ p)) (String.split_on_char ',' t)

let body_of (len : string) (dg : string) : bodytok = { blen = n_of_dec len; bdig = n_of_dec dg }

let parse_exchange (t : string) : exchange =
  match String.split_on_char ':' t with
  | "X" :: m :: form :: pq :: v10 :: hd :: rb :: rqf :: st :: sv10 :: shd :: sb :: rsf :: opts ->
      let rdf = match List.find_opt (fun o -> String.length o > 0 && o.[0] = 'e') opts with Some o -> o | None -> "a" in
      let fault = List.exists (fun o -> String.length o > 0 && o.[0] = 'f') opts in
      let rb' = match String.split_on_char '.' rb with
        | [l; _; d] -> body_of l d | _ -> failwith "bad req body" in
      let sb0 = if String.length sb > 0 && sb.[0] = 'z' then String.sub sb 1 (String.length sb - 1) else sb in
      let sb' = match String.split_on_char '.' sb0 with
        | [_; _; d; w] -> body_of w d | _ -> failwith "bad res body" in
      let rq = { meth = chars_of_string m;
                 target = (if form = "a" then AbsForm (chars_of_string "ORIGIN") else OriginForm);
                 path_query = hexs pq; http10 = (v10 = "1"); rhdrs = parse_hdrs hd; rbody = rb';
                 rframing = (match rqf.[0] with 'c' -> RqCL | 'k' -> RqChunked | _ -> RqNone) } in
      let rs = { status = n_of_dec st; s_http10 = (sv10 = "1"); shdrs = parse_hdrs shd; sbody = sb';
                 sframing = (match rsf.[0] with 'c' -> FCL | 'k' -> FChunked | 'x' -> FCloseDelimited | _ -> FBodiless) } in
      let rd = if rdf = "a" || rdf = "" then ReadAll
        else ReadSome (n_of_dec (String.sub rdf 1 (String.length rdf - 1))) in
      { rq = rq; rs = rs; rd = rd; flt = fault }
  | _ -> failwith ("bad exchange token " ^ (if String.length t > 40 then String.sub t 0 40 else t))

type pobs = { obs : conn_obs; fin : string; oerr : string list; special : string option; states : string list }

let parse_out (outs : string list) : pobs =
  let qs = ref [] and rs = ref [] and fin = ref "missing" and oerr = ref [] and special = ref None and states = ref [] in
  List.iter (fun t ->
      match String.split_on_char ':' t with
      | ["Q"; m; tg; hd; b] ->
          (match String.split_on_char '.' b with
           | [l; d] -> qs := { w_meth = chars_of_string m; w_uri = hexs tg; w_hdrs = parse_hdrs hd; w_body = body_of l d } :: !qs
           | _ -> failwith "bad Q body")
      | ["R"; st; hd; b; _fr; ok] ->
          (match String.split_on_char '.' b with
           | [l; d] -> states := ok :: !states;
                       rs := { c_status = n_of_dec st; c_hdrs = parse_hdrs hd; c_body = body_of l d; c_complete = (ok = "ok") } :: !rs
           | _ -> failwith "bad R body")
      | ["END"; e] -> fin := e
      | "OERR" :: e :: _ -> oerr := e :: !oerr
      | _ -> special := Some t) outs;
  { obs = { origin_saw = List.rev !qs; client_got = List.rev !rs; closed = (!fin = "closed") };
    fin = !fin; oerr = List.rev !oerr; special = !special; states = List.rev !states }

let str (c : char list) = String.escaped (string_of_chars c)

let rec first_bad f a b i =
  match a, b with
  | [], [] -> None
  | x :: a', y :: b' -> if f x y then first_bad f a' b' (i + 1) else Some (i, Some (x, y))
  | _, _ -> Some (i, None)

let pr_vals vs = "[" ^ String.concat "|" (List.map (fun v -> "\"" ^ str v ^ "\"") vs) ^ "]"

(* which end-to-end header breaks the request clause *)
let bad_req_header (r : reqmsg) (w : wire_req) : string =
  let nom = nominated r.rhdrs in
  let host = chars_of_string "host" in
  let rec go = function
    | [] -> "name=?"
    | (n, _) :: rest ->
        let want = if name_eqb n host then spec_host r else vals n r.rhdrs in
        let got = vals n w.w_hdrs in
        if e2e_name nom n && not (strs_eqb got want)
        then Printf.sprintf "name=%s want=%s got=%s" (String.lowercase_ascii (str n)) (pr_vals want) (pr_vals got)
        else go rest in
  go r.rhdrs

let bad_res_header (r : respmsg) (c : wire_res) : string =
  let nom = nominated r.shdrs in
  let rec go = function
    | [] -> "name=?"
    | (n, _) :: rest ->
        if e2e_name nom n && not (strs_eqb (vals n c.c_hdrs) (vals n r.shdrs))
        then Printf.sprintf "name=%s want=%s got=%s" (String.lowercase_ascii (str n)) (pr_vals (vals n r.shdrs)) (pr_vals (vals n c.c_hdrs))
        else go rest in
  go (r.shdrs @ c.c_hdrs)

let judge_res es o sv p =
  match first_bad res_preserved_e sv o.client_got 0 with
  | Some (i, Some (e, c)) ->
      let r = resp_of e in
      let what =
        if e.flt && c.c_status <> r.status then "origin-failed want-status=502 got=" ^ dec_of_n c.c_status
        else if not c.c_complete then
          "client-cannot-frame-response(" ^ (match List.nth_opt p.states i with Some st -> st | None -> "?") ^ "," ^ p.fin ^ ")"
        else if c.c_status <> r.status then "status got=" ^ dec_of_n c.c_status
        else if not (body_eqb c.c_body r.sbody) then
          Printf.sprintf "body want-len=%s got-len=%s" (dec_of_n r.sbody.blen) (dec_of_n c.c_body.blen)
        else "headers " ^ bad_res_header r c in
      VPropfail ("response_preserved", Printf.sprintf "exchange=%d %s" i what)
  | Some (i, None) ->
      VPropfail ("one_response_per_request",
                 Printf.sprintf "client-got=%d want=%d end=%s" (List.length o.client_got) (List.length sv) p.fin)
  | None -> VPropfail ("one_request_per_exchange",
                       Printf.sprintf "origin-saw=%d want=%d" (List.length o.origin_saw) (List.length sv))

let judge_conn ins outs =
  match ins with
  | "H1" :: _mode :: xtoks ->
      let es = List.map parse_exchange xtoks in
      let p = parse_out outs in
      (match p.special with
       | Some t when String.length t >= 5 && String.sub t 0 5 = "PANIC" -> VPropfail ("proxy_panic", t)
       | Some t -> VDisagree ("harness:" ^ t)
       | None ->
         let o = p.obs in
         let sv = served es in
         let nontrivial = List.length sv >= 2 in
         if not (c01_req_ok es o) then begin
           match first_bad req_preserved_e sv o.origin_saw 0 with
           | Some (i, Some (_, w)) when i > 0 && req_preserved_e (List.nth sv (i - 1)) w ->
               (* what arrived in place of request i is request i-1 once more *)
               VPropfail ("one_request_per_exchange",
                          Printf.sprintf "exchange=%d reached the origin a second time (origin-saw=%d want=%d)"
                            (i - 1) (List.length o.origin_saw) (List.length sv))
           | Some (i, Some (e, w)) ->
               let r = e.rq in
               let what =
                 if not (str_eqb w.w_meth r.meth) then "method got=" ^ str w.w_meth
                 else if not (str_eqb w.w_uri (norm_pq r.path_query)) then "target want=" ^ str (norm_pq r.path_query) ^ " got=" ^ str w.w_uri
                 else if e.rd = ReadAll && not (body_eqb w.w_body r.rbody) then
                   Printf.sprintf "body want-len=%s got-len=%s" (dec_of_n r.rbody.blen) (dec_of_n w.w_body.blen)
                 else "headers " ^ bad_req_header r w in
               VPropfail ("request_preserved", Printf.sprintf "exchange=%d %s" i what)
           | Some (i, None) when c01_res_ok es o || List.length o.client_got > List.length o.origin_saw ->
               VPropfail ("one_request_per_exchange",
                          Printf.sprintf "origin-saw=%d want=%d (first-mismatch=%d)" (List.length o.origin_saw) (List.length sv) i)
           | _ -> judge_res es o sv p
         end
         else if not (c01_res_ok es o) then judge_res es o sv p
         else if not (c01_frm_ok es o) then begin
           (* bodiless response: presence and value of Content-Length / Transfer-Encoding *)
           match first_bad res_framing_preserved_b (List.map resp_of sv) o.client_got 0 with
           | Some (i, Some (r, c)) ->
               let bad = List.find_opt (fun n -> not (strs_eqb (vals n c.c_hdrs) (vals n r.shdrs)))
                   [chars_of_string "content-length"; chars_of_string "transfer-encoding"] in
               let n = match bad with Some n -> n | None -> [] in
               VPropfail ("bodiless_framing_headers",
                          Printf.sprintf "exchange=%d status=%s name=%s want=%s got=%s" i (dec_of_n r.status) (str n)
                            (pr_vals (vals n r.shdrs)) (pr_vals (vals n c.c_hdrs)))
           | _ -> VDisagree "oracle-inconsistent"
         end
         else if not (c01_close_ok es o) then
           VPropfail ("keepalive", Printf.sprintf "after-response=%d connection=%s want-closed=%b"
                        (List.length o.client_got) p.fin (List.exists wants_close es))
         else if p.fin <> "open" && p.fin <> "closed" then VPropfail ("client_stuck", p.fin)
         else if p.oerr <> [] then
           (* the proxy sent the origin bytes that are not a complete request (e.g. a head that announces a body and no body) *)
           VPropfail ("origin_got_malformed_request", String.concat "," (List.map (fun h -> String.escaped (string_of_chars (hexs h))) p.oerr))
         else if not (c01_ok es o) then VDisagree "oracle-inconsistent"
         else begin
           let m = run es in
           if obs_agree es m o then VOk nontrivial
           else begin
             (* name the first differing projection *)
             let d =
               match first_bad (fun (e, a) b -> wreq_equiv (nominated e.rq.rhdrs) a
                                   (match e.rd with ReadAll -> b | _ -> with_body b a.w_body))
                       (List.combine (List.filteri (fun i _ -> i < List.length m.origin_saw) es) m.origin_saw) o.origin_saw 0 with
               | Some (i, _) -> Printf.sprintf "request-as-seen-by-origin exchange=%d" i
               | None ->
                 match first_bad (fun (e, a) b -> wres_equiv (nominated (resp_of e).shdrs) a b)
                         (List.combine (List.filteri (fun i _ -> i < List.length m.client_got) es) m.client_got) o.client_got 0 with
                 | Some (i, _) -> Printf.sprintf "response-as-seen-by-client exchange=%d" i
                 | None -> "closed-flag" in
             VDisagree ("model-vs-proxy:" ^ d)
           end
         end)
  | _ -> VDisagree "unknown-case-kind"

(* split a token list at a separator *)
let split_at sep l =
  let rec go cur acc = function
    | [] -> List.rev (List.rev cur :: acc)
    | x :: r when x = sep -> go [] (List.rev cur :: acc) r
    | x :: r -> go (x :: cur) acc r in
  go [] [] l

let judge _name ins outs =
  match ins with
  | "H1" :: mode :: toks when String.length mode > 6 && String.sub mode 0 6 = "multi." ->
      (* several client connections in a row through one proxy: each is judged as a connection of its own *)
      let segs = split_at "N" toks and osegs = split_at "NEXT" outs in
      if List.exists (fun t -> String.length t >= 5 && String.sub t 0 5 = "PANIC") outs then
        VPropfail ("proxy_panic", String.concat " " outs)
      else if List.length segs <> List.length osegs then
        VPropfail ("one_response_per_request", Printf.sprintf "connections-run=%d want=%d" (List.length osegs) (List.length segs))
      else begin
        let rec go k ss os nt =
          match ss, os with
          | s :: ss', o :: os' ->
              (match judge_conn ("H1" :: "seq" :: s) o with
               | VOk b -> go (k + 1) ss' os' (nt || b || k > 0)
               | VPropfail (c, d) -> VPropfail (c, Printf.sprintf "connection=%d %s" k d)
               | VDisagree d -> VDisagree (Printf.sprintf "connection=%d %s" k d))
          | _, _ -> VOk nt in
        go 0 segs osegs false
      end
  | _ -> judge_conn ins outs

let () = run_driver judge
