(* C12 driver: parses the token-encoded configuration scripts (same strict
   grammar as harness/cmd/c12), builds the Coq [tree]/[cmd] values, and
   evaluates the extracted oracles c12_ok / c12_script_ok on what the real
   parse.FromJSON / fifo / priority / filter / martianhttp code did. *)

exception Bad_case of string
exception Unrepresentable of string

let is_digits_fwd = ref (fun (_ : string) -> false)
let is_set t = String.length t > 4 && (String.sub t 0 4 = "SETq" || String.sub t 0 4 = "SETs")
               && !is_digits_fwd (String.sub t 4 (String.length t - 4))
let is_cmd t = t = "POST" || t = "GET" || t = "MSGq" || t = "MSGs" || is_set t

let is_digits s = s <> "" && (let ok = ref true in String.iter (fun c -> if c < '0' || c > '9' then ok := false) s; !ok)

let () = is_digits_fwd := is_digits
let tail s k = String.sub s k (String.length s - k)

(* condition keys ("h3.0") -> N, per case *)
let keytab : (string, int) Hashtbl.t = Hashtbl.create 64
let key_id (k : string) : n =
  match Hashtbl.find_opt keytab k with
  | Some i -> n_of_int i
  | None -> let i = Hashtbl.length keytab + 1 in Hashtbl.add keytab k i; n_of_int i

(* which filter each key denotes (same tables as harness/cmd/c12) *)
let condtab : (n * fcond) list ref = ref []
let cs = chars_of_string
let url_params = [|
  ("", "", "", ""); ("", "example.com", "", ""); ("", "*.example.com", "", ""); ("", "", "/a", "");
  ("https", "", "", ""); ("", "", "", "zz=1"); ("", "example.com", "/b", "");
  ("http", "www.example.com", "/a", ""); ("", "*.org", "", ""); ("", "*.*.example.com", "", "");
  ("", "*", "", ""); ("https", "*.example.com", "/b", "") |]
let method_params = [| "GET"; "POST"; "get"; ""; "PUT"; "Post" |]
let fcond_of (ty : char) (tag : string) (param : int) : fcond =
  match ty with
  | 'h' -> FHeader (cs ((if param mod 2 = 1 then "x-cond-" else "X-Cond-") ^ tag), cs "yes")
  | 'q' -> FQuery (cs ("q" ^ tag), cs (if param mod 2 = 1 then "" else "1"))
  | 'c' -> FCookie (cs ("c" ^ tag), cs (if param mod 2 = 1 then "" else "v"))
  | 'm' -> FMethod (cs method_params.(param mod Array.length method_params))
  | _ -> let (a, b, c, d) = url_params.(param mod Array.length url_params) in FUrl (cs a, cs b, cs c, cs d)

let schemes = [| "http"; "https" |]
let hosts = [| "example.com"; "www.example.com"; "other.org"; "a.b.example.com"; "localhost" |]
let paths = [| "/a"; "/b" |]

(* message tokens -> the abstraction the condition spec looks at (built the
   way the harness builds the real message) *)
let build_msg (ts : string list) : msg =
  let sc = ref 0 and ho = ref 0 and pa = ref 0 and meth = ref "GET" in
  let vals = ref [] in
  List.iter (fun t ->
    let rest = String.sub t 1 (String.length t - 1) in
    match t.[0] with
    | 'u' -> sc := (Char.code t.[1] - 48) mod 2; ho := (Char.code t.[2] - 48) mod 5; pa := (Char.code t.[3] - 48) mod 2
    | 'm' -> meth := rest
    | 'h' -> vals := (rest, "y") :: !vals
    | 'g' -> vals := (rest, "n") :: !vals
    | 'v' -> (match String.split_on_char ':' rest with [a; b] -> vals := (a, b) :: !vals | _ -> failwith "bad v token")
    | _ -> failwith "bad msg token") ts;
  let occ = List.concat_map (fun (tag, pat) -> List.init (String.length pat) (fun i -> (tag, pat.[i] = 'y'))) (List.rev !vals) in
  let q = List.map (fun (tag, y) -> ("q" ^ tag, if y then "1" else "0")) occ in
  { m_method = cs !meth; m_scheme = cs schemes.(!sc); m_host = cs hosts.(!ho); m_path = cs paths.(!pa);
    m_rawquery = cs (String.concat "&" (List.map (fun (a, b) -> a ^ "=" ^ b) q));
    m_headers = List.map (fun (tag, y) -> (cs ("X-Cond-" ^ tag), cs (if y then "yes" else "no"))) occ;
    m_query = List.map (fun (a, b) -> (cs a, cs b)) q;
    m_cookies = List.map (fun (tag, y) -> (cs ("c" ^ tag), cs (if y then "v" else "w"))) occ }

exception Cond_mismatch of string

let parse_scope (s : string) : stok list option =
  match s with
  | "-" | "n" -> None
  | "e" -> Some []
  | "" -> raise (Bad_case "scope")
  | _ ->
      Some (List.map (function
        | 'q' -> SReq | 's' -> SRes | 'x' | 'y' | 'z' -> SOther
        | _ -> raise (Bad_case "scope")) (List.init (String.length s) (String.get s)))

let mem_char c s = String.contains s c

(* returns (tree, remaining tokens, node count) *)
let rec parse_node (ts : string list) : tree * string list * int =
  match ts with
  | [] -> raise (Bad_case "tree expected")
  | t :: _ when is_cmd t || t = "" -> raise (Bad_case "tree expected")
  | t :: r ->
    (match t.[0] with
     | 'L' ->
         (match String.split_on_char '.' (tail t 1) with
          | [id; caps; errs; sc] when is_digits id && String.length caps = 1 && mem_char caps.[0] "bqs"
                                     && String.length errs = 1 && mem_char errs.[0] "0qsb" ->
              let cq = caps <> "s" and cs = caps <> "q" in
              let eq = (errs = "q" || errs = "b") and es = (errs = "s" || errs = "b") in
              (Leaf (n_of_dec id, parse_scope sc, cq, cs, eq, es), r, 1)
          | _ -> raise (Bad_case t))
     | 'X' ->
         if not (is_digits (tail t 1)) then raise (Bad_case t);
         (Bad (n_of_dec (tail t 1)), r, 1)
     | 'F' ->
         (match String.split_on_char '.' (tail t 1) with
          | [agg; sc] when String.length agg = 1 && mem_char agg.[0] "012" ->
              let sc = parse_scope sc in
              let rec kids acc cnt ts =
                match ts with
                | ")" :: r' -> (List.rev acc, r', cnt)
                | _ -> let (k, r', c) = parse_node ts in kids (k :: acc) (cnt + c) r' in
              let (ks, r', c) = kids [] 1 r in
              (Fifo (sc, agg = "1", ks), r', c)
          | _ -> raise (Bad_case t))
     | 'R' ->
         let sc = parse_scope (tail t 1) in
         let rec kids acc cnt ts =
           match ts with
           | ")" :: r' -> (List.rev acc, r', cnt)
           | p :: r' when String.length p > 0 && p.[0] = '@' ->
               let pr = tail p 1 in
               let digs = if String.length pr > 0 && pr.[0] = '-' then tail pr 1 else pr in
               if not (is_digits digs) then raise (Bad_case p);
               let (k, r'', c) = parse_node r' in kids ((z_of_dec pr, k) :: acc) (cnt + c) r''
           | _ -> let (k, r', c) = parse_node ts in kids ((Z0, k) :: acc) (cnt + c) r' in
         let (ks, r', c) = kids [] 1 r in
         (Prio (sc, ks), r', c)
     | 'f' ->
         if String.length t < 3 || not (mem_char t.[1] "huqmc") then raise (Bad_case t);
         (match String.split_on_char '.' (tail t 2) with
          | [tag; param; sc] when is_digits tag && is_digits param ->
              let sc = parse_scope sc in
              let key = key_id (String.make 1 t.[1] ^ tag ^ "." ^ param) in
              if not (List.mem_assoc key !condtab) then
                condtab := (key, fcond_of t.[1] tag (int_of_string param)) :: !condtab;
              let (m, r1, c1) = parse_node r in
              let (e, r2, c2) =
                match r1 with
                | "ELSE" :: r' -> let (e, r'', c) = parse_node r' in (Some e, r'', c)
                | _ -> (None, r1, 0) in
              (match r2 with
               | ")" :: r3 -> (Filt (key, sc, m, e), r3, 1 + c1 + c2)
               | _ -> raise (Bad_case "filter not closed"))
          | _ -> raise (Bad_case t))
     | _ -> raise (Bad_case t))

(* POST tokens -> tree (body manglers make the whole body malformed) and how
   the body is delivered: `Normal (complete), `ReadErr (the handler's body
   read fails after some prefix), `Meth (method other than POST) *)
let has_prefix p t = String.length t >= String.length p && String.sub t 0 (String.length p) = p
let pct_ok lo s = match int_of_string_opt s with Some p -> p >= lo && p <= 100 | None -> false
let parse_post_d (ts : string list) : tree * int * [ `Normal | `ReadErr | `Meth ] =
  let dlv = ref `Normal and seen = ref false in
  let set d = if !seen then raise (Bad_case "two deliveries"); seen := true; dlv := d in
  let rec pre mangled ts =
    match ts with
    | t :: r when has_prefix "TRUNC" t && String.length t > 5 ->
        (match int_of_string_opt (tail t 5) with
         | Some p when p >= 1 && p <= 99 -> pre true r
         | _ -> raise (Bad_case t))
    | "TRAIL" :: r -> pre true r
    | "PAD" :: r | "LPAD" :: r | "SPACED" :: r -> pre mangled r
    | "TCP" :: r -> set `Normal; pre mangled r
    | t :: r when (has_prefix "RDERR" t || has_prefix "TCPCL" t || has_prefix "TCPCH" t) ->
        if not (pct_ok 0 (tail t 5)) then raise (Bad_case t);
        set `ReadErr; pre mangled r
    | t :: r when has_prefix "METH" t ->
        let m = tail t 4 in
        if m = "" || m = "POST" || m = "GET" then raise (Bad_case t);
        String.iter (fun c -> if not ((c >= 'A' && c <= 'Z') || (c >= 'a' && c <= 'z')) then raise (Bad_case t)) m;
        set `Meth; pre mangled r
    | _ -> (mangled, ts) in
  let (mangled, ts') = pre false ts in
  let (t, rest, cnt) = parse_node ts' in
  if rest <> [] then raise (Bad_case "trailing tokens after tree");
  if mangled then (Bad (n_of_int 100), 1, !dlv) else (t, cnt, !dlv)

let parse_post (ts : string list) : tree * int =
  let seend = List.exists (fun t -> t = "TCP" || has_prefix "RDERR" t || has_prefix "TCPCL" t || has_prefix "TCPCH" t || has_prefix "METH" t) ts in
  if seend then raise (Bad_case "delivery modes are only for HTTP scripts");
  let (t, c, _) = parse_post_d ts in (t, c)

let check_msg (ts : string list) : unit =
  List.iter (fun t ->
    let ok =
      match t.[0] with
      | 'u' -> String.length t = 4 && is_digits (tail t 1)
      | 'm' -> String.length t > 1 && (let ok = ref true in String.iter (fun c -> if not ((c >= 'A' && c <= 'Z') || (c >= 'a' && c <= 'z')) then ok := false) (tail t 1); !ok)
      | 'h' | 'g' -> is_digits (tail t 1)
      | 'v' -> (match String.split_on_char ':' (tail t 1) with
                | [a; b] -> is_digits a && b <> "" && (let ok = ref true in String.iter (fun c -> if c <> 'y' && c <> 'n' then ok := false) b; !ok)
                | _ -> false)
      | _ -> false in
    if not ok then raise (Bad_case t)) ts

type pcmd = PPost of tree * int | PMsg of kind | PGet

let split_cmds (ts : string list) : (string * string list) list =
  let rec go acc cur = function
    | [] -> List.rev (match cur with None -> acc | Some (c, l) -> (c, List.rev l) :: acc)
    | t :: r when is_cmd t ->
        go (match cur with None -> acc | Some (c, l) -> (c, List.rev l) :: acc) (Some (t, [])) r
    | t :: r -> (match cur with None -> raise (Bad_case "token before command") | Some (c, l) -> go acc (Some (c, t :: l)) r) in
  go [] None ts

let parse_ids (s : string) : n list =
  List.map (fun x -> if is_digits x then n_of_dec x else raise (Unrepresentable x)) (split_on ',' s)

(* consume the OUT tokens of one MSG: B* T E.  The B bits (verdicts of the
   real matchers) are compared with the condition spec; the tree meaning is
   then evaluated under the SPEC's valuation. *)
let read_bits (outs : string list) : (string * n * bool) list * string list =
  let rec bits acc = function
    | b :: r when String.length b > 0 && b.[0] = 'B' ->
        (match String.split_on_char '=' (tail b 1) with
         | [k; v] -> bits ((k, key_id k, v = "1") :: acc) r
         | _ -> raise (Unrepresentable b))
    | r -> (List.rev acc, r) in
  bits [] outs

let check_bits (mts : string list) (bits : (string * n * bool) list) : (n -> bool) =
  let m = build_msg mts in
  let tbl = !condtab in
  let kb = List.map (fun (_, k, b) -> (k, b)) bits in
  if not (c12_bits_ok tbl m kb) then begin
    let bad = List.filter (fun (_, k, b) -> b <> cond_of tbl m k) bits in
    raise (Cond_mismatch (String.concat "," (List.map (fun (s, _, b) ->
      Printf.sprintf "%s:real-matcher=%b,spec=%b" s b (not b)) bad)))
  end;
  cond_of tbl m

let take_msg_out (mts : string list) (outs : string list)
  : (n -> bool) * n list * n list * nat list * string list =
  let (bits, r) = read_bits outs in
  let cond = check_bits mts bits in
  match r with
  | t :: e :: o :: r' when String.length t > 0 && t.[0] = 'T' && String.length e > 0 && e.[0] = 'E'
                          && String.length o > 1 && o.[0] = 'O' ->
      let org =
        if o = "O-" then []
        else List.map (fun x -> if is_digits x then nat_of_int (int_of_string x) else raise (Unrepresentable o))
               (String.split_on_char '+' (tail o 1)) in
      (cond, parse_ids (tail t 1), parse_ids (tail e 1), org, r')
  | x :: _ -> raise (Unrepresentable x)
  | [] -> raise (Unrepresentable "missing-output")

let pr_ids l = String.concat "," (List.map dec_of_n l)
let pr_outcome = function Rejected -> "REJ" | Ran (t, e) -> "T" ^ pr_ids t ^ "_E" ^ pr_ids e
let pr_obs = function
  | OStatus b -> if b then "S200" else "S400"
  | OOut (t, e, o) -> "T" ^ pr_ids t ^ "_E" ^ pr_ids e ^ "_O" ^ String.concat "+" (List.map (fun x -> string_of_int (int_of_nat x)) o)
  | OSet -> "OK"
  | OCfg None -> "G-"
  | OCfg (Some i) -> "G" ^ string_of_int (int_of_nat i)
  | ORefused c -> "S" ^ dec_of_n c

let judge _name ins outs =
  Hashtbl.reset keytab; condtab := [];
  if outs = ["BADCASE"] then VOk false
  else if List.mem "PANIC" outs then VPropfail ("no_panic", "real code panicked: " ^ String.concat "_" outs)
  else
  match ins with
  | "DIRECT" :: rest ->
      (match split_cmds rest with
       | ("POST", ptoks) :: msgs ->
           let (t, cnt) = parse_post ptoks in
           List.iter (fun (c, ts) -> if c <> "MSGq" && c <> "MSGs" then raise (Bad_case c); check_msg ts) msgs;
           let bad = has_bad t in
           (match outs with
            | "REJ" :: _ ->
                if c12_ok KReq (fun _ -> false) t Rejected then begin
                  if not (impl_agrees KReq (fun _ -> false) t Rejected) then VDisagree "model-accepts-what-code-rejects(theorem C12_rejects_whole broken?)"
                  else VOk (cnt >= 2)
                end else VPropfail ("rejected_good_config", "no node is unknown/unsupported/malformed but parse.FromJSON failed")
            | "ACC" :: orest ->
                if bad then VPropfail ("accepted_bad_config", "a node is unknown/unsupported/malformed but parse.FromJSON succeeded")
                else begin
                  let rec go msgs outs nt =
                    match msgs with
                    | [] -> if outs <> [] then VDisagree "extra-output" else VOk (nt && cnt >= 3)
                    | (c, mts) :: mr ->
                        (try
                           let k = if c = "MSGq" then KReq else KRes in
                           let (cond, tr, er, _, outs') = take_msg_out mts outs in
                           let o = Ran (tr, er) in
                           if not (c12_ok k cond t o) then
                             VPropfail ("tree_meaning",
                                        Printf.sprintf "%s want=%s got=%s" c
                                          (pr_outcome (spec_outcome k cond t)) (pr_outcome o))
                           else if not (impl_agrees k cond t o) then
                             VDisagree ("model=" ^ pr_outcome (impl_outcome k cond t) ^ " got=" ^ pr_outcome o)
                           else go mr outs' (nt || tr <> [])
                         with Unrepresentable x -> VPropfail ("observation_shape", "got=" ^ x)
                            | Cond_mismatch d -> VPropfail ("filter_condition", c ^ " " ^ d)) in
                  go msgs orest false
                end
            | _ -> VDisagree "output-shape")
       | _ -> raise (Bad_case "DIRECT without POST"))
  | "HTTP" :: rest ->
      let cmds = split_cmds rest in
      (try
         let nposts = ref 0 and nmsgs = ref 0 in
         let rec go cmds outs (acc_c : cmd list) (acc_o : obs list) =
           match cmds with
           | [] -> if outs <> [] then raise (Unrepresentable "extra-output") else (List.rev acc_c, List.rev acc_o)
           | ("POST", ts) :: cr ->
               incr nposts;
               let (t, _, d) = parse_post_d ts in
               let c = match d with `Normal -> Post t | `ReadErr -> PostErr t | `Meth -> BadMethod in
               (match outs with
                | "S200" :: o' -> go cr o' (c :: acc_c) (OStatus true :: acc_o)
                | "S400" :: o' -> go cr o' (c :: acc_c) (OStatus false :: acc_o)
                | s :: o' when String.length s > 1 && s.[0] = 'S' && is_digits (tail s 1) && s <> "S0" ->
                    go cr o' (c :: acc_c) (ORefused (n_of_dec (tail s 1)) :: acc_o)
                | x :: _ -> raise (Unrepresentable x)
                | [] -> raise (Unrepresentable "missing-output"))
           | (c, ts) :: cr when is_set c ->
               if ts <> [] then raise (Bad_case "SET args");
               let id = tail c 4 in
               let o = if id = "0" then None else Some (n_of_dec id) in
               let cmd = if c.[3] = 'q' then SetReq o else SetRes o in
               (match outs with
                | "OK" :: o' -> go cr o' (cmd :: acc_c) (OSet :: acc_o)
                | x :: _ -> raise (Unrepresentable x)
                | [] -> raise (Unrepresentable "missing-output"))
           | ("GET", ts) :: cr ->
               if ts <> [] then raise (Bad_case "GET args");
               (match outs with
                | "G-" :: o' -> go cr o' (Get :: acc_c) (OCfg None :: acc_o)
                | g :: o' when String.length g > 1 && g.[0] = 'G'
                               && List.for_all is_digits (String.split_on_char '+' (tail g 1)) ->
                    (* the returned text is the body of every listed POST (identical bodies):
                       it is the model's answer if that is among them *)
                    let cands = List.map int_of_string (String.split_on_char '+' (tail g 1)) in
                    let pred = match List.rev (spec_script O s_init (List.rev (Get :: acc_c))) with
                      | OCfg (Some i) :: _ -> Some (int_of_nat i) | _ -> None in
                    let pick = match pred with
                      | Some i when List.mem i cands -> i
                      | _ -> List.fold_left max 0 cands in
                    go cr o' (Get :: acc_c) (OCfg (Some (nat_of_int pick)) :: acc_o)
                | x :: _ -> raise (Unrepresentable x)
                | [] -> raise (Unrepresentable "missing-output"))
           | (c, ts) :: cr ->
               incr nmsgs;
               check_msg ts;
               let k = if c = "MSGq" then KReq else KRes in
               let (cond, tr, er, org, o') = take_msg_out ts outs in
               go cr o' (Probe (k, cond) :: acc_c) (OOut (tr, er, org) :: acc_o) in
         let (cs, obs) = go cmds outs [] [] in
         if c12_script_ok cs obs then begin
           if not (impl_script_agrees cs obs) then VDisagree "martianhttp-model-differs-from-spec(theorem C12_reconfiguration broken?)"
           else VOk (!nposts >= 2 && !nmsgs >= 1)
         end else begin
           let want = spec_script O s_init cs in
           let k = match first_diff O obs want with Some k -> int_of_nat k | None -> -1 in
           let clause =
             match (try Some (List.nth obs k) with _ -> None) with
             | Some (OStatus true) -> "accepted_bad_config"
             | Some (OStatus false) -> "rejected_good_config"
             | Some (OOut _) -> "active_config"
             | Some (OCfg _) -> "reported_config"
             | Some (ORefused _) -> "refusal_status"
             | Some OSet -> "setter_status"
             | None -> "script_shape" in
           VPropfail (clause, Printf.sprintf "first-diff-at-command=%d want=%s got=%s" k
                        (String.concat "_" (List.map pr_obs want)) (String.concat "_" (List.map pr_obs obs)))
         end
       with Unrepresentable x -> VPropfail ("observation_shape", "got=" ^ x)
          | Cond_mismatch d -> VPropfail ("filter_condition", d))
  | "CONC" :: rest ->
      let cmds = split_cmds rest in
      (match List.rev cmds with
       | (mc, mts) :: rposts when mc = "MSGq" || mc = "MSGs" ->
           check_msg mts;
           let k = if mc = "MSGq" then KReq else KRes in
           let ts = List.map (fun (c, ts) -> if c <> "POST" then raise (Bad_case c); fst (parse_post ts)) (List.rev rposts) in
           (try
              let rec statuses acc n outs =
                if n = 0 then (List.rev acc, outs) else
                match outs with
                | "S200" :: r -> statuses (true :: acc) (n - 1) r
                | "S400" :: r -> statuses (false :: acc) (n - 1) r
                | x :: _ -> raise (Unrepresentable x)
                | [] -> raise (Unrepresentable "missing-output") in
              let (sts, outs1) = statuses [] (List.length ts) outs in
              let (bits, outs2) = read_bits outs1 in
              let cond = check_bits mts bits in
              let rec obs acc = function
                | [] -> List.rev acc
                | t :: e :: r when String.length t > 0 && t.[0] = 'T' && String.length e > 0 && e.[0] = 'E' ->
                    obs ((parse_ids (tail t 1), parse_ids (tail e 1)) :: acc) r
                | x :: _ -> raise (Unrepresentable x) in
              let os = obs [] outs2 in
              if c12_conc_ok k cond ts sts os then VOk (List.length ts >= 2)
              else begin
                let want_st = List.map (fun t -> not (has_bad t)) ts in
                let clause =
                  if sts <> want_st then (if List.exists2 (fun a b -> a && not b) sts want_st then "accepted_bad_config" else "rejected_good_config")
                  else "concurrent_active_config" in
                VPropfail (clause, Printf.sprintf "configs-in-force=%s observed=%s"
                             (String.concat "_" (List.map (fun (t, e) -> pr_outcome (Ran (t, e))) (accepted_meanings k cond ts)))
                             (String.concat "_" (List.map (fun (t, e) -> pr_outcome (Ran (t, e))) os)))
              end
            with Unrepresentable x -> VPropfail ("observation_shape", "got=" ^ x)
               | Cond_mismatch d -> VPropfail ("filter_condition", d))
       | _ -> raise (Bad_case "CONC without MSG"))
  | ["STRESS"; ks; _; _] ->
      let k = int_of_string ks in
      let config i =
        let id = string_of_int (i + 1) in
        if i mod 7 = 3 then "X0"
        else if i mod 5 = 2 then "L" ^ id ^ ".b.0.q"
        else if i mod 11 = 6 then "L" ^ id ^ ".b.0.s"
        else "L" ^ id ^ ".b.0.-" in
      let ts = List.init k (fun i -> let (t, _, _) = parse_node [config i] in t) in
      (try
         (match outs with
          | st :: rest when String.length st = k + 2 && String.sub st 0 2 = "ST" ->
              let sts = List.init k (fun i ->
                match st.[i + 2] with '1' -> true | '0' -> false | _ -> raise (Unrepresentable st)) in
              let ids s = if String.contains s '!' then raise (Unrepresentable s) else parse_ids s in
              let rec threads cur acc = function
                | [] -> List.rev (match cur with None -> acc | Some c -> List.rev c :: acc)
                | "|" :: r -> threads (Some []) (match cur with None -> acc | Some c -> List.rev c :: acc) r
                | o :: r ->
                    let c = match cur with Some c -> c | None -> raise (Unrepresentable o) in
                    let c' =
                      match o.[0] with
                      | 'x' ->
                          (match String.split_on_char '/' (tail o 1) with
                           | [a; b] -> PRes (ids b, []) :: PReq (ids a, []) :: c
                           | _ -> raise (Unrepresentable o))
                      | 'q' -> PReq (ids (tail o 1), []) :: c
                      | 'c' ->
                          if o = "c-" then PCfg None :: c
                          else if is_digits (tail o 1) then PCfg (Some (nat_of_int (int_of_string (tail o 1)))) :: c
                          else raise (Unrepresentable o)
                      | _ -> raise (Unrepresentable o) in
                    threads (Some c') acc r in
              let ths = threads None [] rest in
              let nocond = fun _ -> false in
              if c12_stress_ok nocond nocond ts sts ths then VOk (List.length ths >= 2)
              else begin
                let want_st = List.map (fun t -> not (has_bad t)) ts in
                if sts <> want_st then VPropfail ("rejected_good_config", "statuses differ")
                else begin
                  (* locate the first thread / observation that cannot be explained *)
                  let pr = function
                    | PReq (t, _) -> "req:" ^ pr_ids t | PRes (t, _) -> "res:" ^ pr_ids t
                    | PCfg None -> "get:-" | PCfg (Some i) -> "get:" ^ string_of_int (int_of_nat i) in
                  let states = cfg_states ts in
                  let where = ref "" in
                  List.iteri (fun ti obs ->
                    if !where = "" && not (explained_by (pmatch nocond nocond) states obs) then begin
                      let arr = Array.of_list obs in
                      let n = Array.length arr in
                      let rec firstbad lo hi = (* smallest prefix length that is not explained *)
                        if lo >= hi then lo else
                        let mid = (lo + hi) / 2 in
                        if explained_by (pmatch nocond nocond) states (Array.to_list (Array.sub arr 0 mid)) then firstbad (mid + 1) hi
                        else firstbad lo mid in
                      let b = firstbad 1 n in
                      let from = max 0 (b - 4) in
                      where := Printf.sprintf "thread=%d observations[%d..%d]=%s" ti from (b - 1)
                        (String.concat "," (List.map pr (Array.to_list (Array.sub arr from (b - from)))))
                    end) ths;
                  VPropfail ("atomic_replacement",
                             if !where = "" then "a thread's last observation is not the last accepted configuration" else !where)
                end
              end
          | _ -> VDisagree "output-shape")
       with Unrepresentable x -> VPropfail ("observation_shape", "got=" ^ String.sub x 0 (min 60 (String.length x))))
  | _ -> VDisagree "unknown-case-kind"

let () = run_driver judge
