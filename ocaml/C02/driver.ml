(* C02 driver: parses connection scripts and the observed event tokens,
   evaluates the extracted oracle (c02_fail / c02_ok) on the observation and
   compares the observation with the extracted model of the repaired code. *)

exception Bad of string

let parse_req (t : string) : req =
  (* an optional 6th character selects the text of the scripted errors: not a model input *)
  (* likewise an optional body letter (l h r j): the request is a POST with a body *)
  let t = if String.length t > 5
             && (let ok = ref true in
                 String.iteri (fun k c -> if k >= 5 && not (String.contains "0123456789lhrj" c) then ok := false) t; !ok)
          then String.sub t 0 5 else t in
  if String.length t <> 5 then raise (Bad t);
  let has set c = String.contains set c in
  let q = t.[1] and s = t.[3] in
  if not (has "PESHABCD" q) || not (has "PEHA" s) then raise (Bad t);
  { r_mode = (match t.[0] with 'g' -> Plain | 'b' -> ConnectBlind | 'd' -> ConnectDown
                           (* p = MITM'd CONNECT whose tunnel then carries plaintext HTTP: same exchanges *)
                           | 'm' | 'p' -> ConnectMitm | _ -> raise (Bad t));
    q_hij = has "HACD" q; q_err = has "EABD" q; q_skip = has "SBCD" q;
    (* R = answered through a real transport by a real origin; E T U X = kinds of round trip error
       (io.EOF, timeout, unexpected EOF, deadline exceeded); Q S = real origin closes / never answers *)
    r_rt = (match t.[2] with 'O' | 'R' -> RtOk | 'C' -> RtClone | 'N' -> RtNil
                           | 'F' | 'E' | 'T' | 'U' | 'X' | 'Q' | 'S' -> RtFail | _ -> raise (Bad t));
    s_hij = has "HA" s; s_err = has "EA" s;
    r_close = (match t.[4] with 'k' -> false | 'c' -> true | _ -> raise (Bad t)) }

(* K a b K c -> [[a;b];[c]] *)
let split_k (toks : string list) : string list list =
  let rec go cur acc = function
    | [] -> List.rev (match cur with None -> acc | Some c -> List.rev c :: acc)
    | "K" :: r -> go (Some []) (match cur with None -> acc | Some c -> List.rev c :: acc) r
    | x :: r -> (match cur with Some c -> go (Some (x :: c)) acc r | None -> raise (Bad x)) in
  go None [] toks

let nat s = try nat_of_int (int_of_string s) with _ -> raise (Bad s)
let bool01 s = match s with "1" -> true | "0" -> false | _ -> raise (Bad s)
let nlist s = if s = "e" then [] else List.map nat (String.split_on_char '-' s)

let parse_ev (t : string) : event =
  match String.split_on_char '.' t with
  | ["Q"; r; c; s; l] -> ReqMod (nat r, nat c, nat s, nlist l)
  | ["U"; r; sm; w; m] -> Upstream (nat r, bool01 sm, nat w, nat m)
  | ["D"; r] -> Dial (nat r)
  | ["S"; r; sm; c; s; st; w; qw; l] -> ResMod (nat r, bool01 sm, nat c, nat s, nat st, nat w, nat qw, nlist l)
  | ["W"; r; st; w; cl; m] -> Write (nat r, nat st, nat w, bool01 cl, nat m)
  | ["T"; r] -> Tunnel (nat r)
  | ["H"; r] -> HijackRet (nat r)
  | ["R"] -> SockRead
  | ["X"] -> SockWrite
  | ["C"] -> SockClose
  | _ -> raise (Bad t)

let i n = string_of_int (int_of_nat n)
let b x = if x then "1" else "0"
let pl l = if l = [] then "e" else String.concat "-" (List.map i l)

let pr_ev = function
  | Link (r, c) -> "link." ^ i r ^ "." ^ i c
  | Unlink r -> "unlink." ^ i r
  | ReqMod (r, c, s, l) -> String.concat "." ["Q"; i r; i c; i s; pl l]
  | Upstream (r, sm, w, m) -> String.concat "." ["U"; i r; b sm; i w; i m]
  | Dial r -> "D." ^ i r
  | ResMod (r, sm, c, s, st, w, qw, l) -> String.concat "." ["S"; i r; b sm; i c; i s; i st; i w; i qw; pl l]
  | Write (r, st, w, cl, m) -> String.concat "." ["W"; i r; i st; i w; b cl; i m]
  | Tunnel r -> "T." ^ i r
  | HijackRet r -> "H." ^ i r
  | SockRead -> "R" | SockWrite -> "X" | SockClose -> "C"

let pr_traces ts = String.concat "_" (List.map (fun t -> "K_" ^ String.concat "_" (List.map pr_ev t)) ts)

let clause_name = function
  | CHijack -> "hijack_no_more_io_then_close"
  | CReqmod -> "reqmod_once_before_upstream"
  | CResmod -> "resmod_once_same_request_same_ctx"
  | CCtxFresh -> "ctx_fresh"
  | CSession -> "session_shared_per_connection"
  | CNoContext -> "no_context_after_exchange"
  | CError -> "error_is_warning_and_continues"
  | CSkip -> "skip_means_no_upstream_and_200_through_resmod"
  | CScope -> "modifiers_see_exactly_the_requests_sent"
  | CRelay -> "upstream_contacted_and_status_is_origins"
  | CPresented -> "every_request_sent_is_read"

(* concurrent batch: P nconn nreq / E.conn.ctx.sess ... F.live *)
let judge_conc ins outs =
  match ins with
  | [_; nc; nr] ->
      let nc = int_of_string nc and nr = int_of_string nr in
      let obs = ref [] and live = ref (-1) and other = ref [] in
      List.iter (fun t -> match String.split_on_char '.' t with
        | ["E"; k; c; s] -> obs := ((n_of_dec k, n_of_dec c), n_of_dec s) :: !obs
        | ["F"; l] -> live := int_of_string l
        | _ -> other := t :: !other) outs;
      let obs = List.rev !obs in
      if List.mem "RESMISMATCH" !other then
        VPropfail ("resmod_once_same_request_same_ctx", "concurrent batch: a response modifier saw other IDs than the request modifier of its exchange")
      else if not (conc_ok obs) then begin
        let ctxs = List.map (fun ((_, c), _) -> int_of_n c) obs in
        let dup = List.length (List.sort_uniq compare ctxs) <> List.length ctxs in
        VPropfail ((if dup then "ctx_fresh" else "session_shared_per_connection"),
                   Printf.sprintf "concurrent batch %dx%d: %d exchanges, %d distinct context IDs, sessions seen: %d"
                     nc nr (List.length obs) (List.length (List.sort_uniq compare ctxs))
                     (List.length (List.sort_uniq compare (List.map (fun (_, s) -> int_of_n s) obs))))
      end
      else if !live <> 0 then VPropfail ("no_context_after_exchange", Printf.sprintf "concurrent batch: %d contexts still linked" !live)
      else if !other <> [] then VDisagree ("concurrent batch: " ^ String.concat "_" !other)
      else begin
        (* the serial schedule explains the renamed observation *)
        let sched = List.concat (List.init nc (fun k -> List.init nr (fun _ -> n_of_int k))) in
        if conc_run N0 sched = obs then VOk true
        else VDisagree "concurrent batch: observation is not the renamed serial schedule"
      end
  | _ -> VDisagree "bad concurrent case"

let judge _name ins outs =
  if (match ins with "P" :: _ -> true | _ -> false) then
    (match outs with ["BADCASE"] -> VOk false | _ -> (try judge_conc ins outs with _ -> VDisagree "concurrent batch: unparsable"))
  else
  (* a leading D = downstream proxy configured: connect() sends the CONNECT to that
     proxy instead of dialling the target; the model's Dial / 200 / 502 cover both *)
  let ins = (match ins with "D" :: r -> r | _ -> ins) in
  match outs with
  | ["INVALID"] | ["BADCASE"] -> VOk false
  | _ ->
  try
    let conns = List.map (List.map parse_req) (split_k ins) in
    let rec cut acc = function
      | [] -> raise (Bad "missing-F")
      | [f] -> (List.rev acc, f)
      | x :: r -> cut (x :: acc) r in
    let (evtoks, f) = cut [] outs in
    let (live, ret) = match String.split_on_char '.' f with
      | ["F"; l; r] -> (nat l, nat r) | _ -> raise (Bad f) in
    let ts = List.map (List.map parse_ev) (split_k evtoks) in
    let want v = match model_obs v conns with
      | Some (ms, _) -> pr_traces ms | None -> "out-of-fuel" in
    match c02_fail conns ts live ret with
    | Some c ->
        (* for the report: the first request token whose exchange fails this clause *)
        let all_toks = List.concat (split_k ins) in
        let culprit =
          let chk q e = match c with
            | CSkip -> cl_skip_ex q e | CError -> cl_error_ex q e
            | CResmod -> cl_resmod_ex q e | CReqmod -> cl_reqmod_ex e
            | CRelay -> cl_relay_ex q e | _ -> true in
          let all_ev = List.concat ts in
          let rec go k = function
            | [] -> "req=- tok=-"
            | t :: r -> if chk (parse_req t) (ex (nat_of_int k) all_ev) then go (k + 1) r
                        else Printf.sprintf "req=%d tok=%s" k t in
          go 0 all_toks in
        VPropfail (clause_name c,
                   Printf.sprintf "%s observed=%s_F.%s.%s repaired-model=%s matches-unrepaired-model=%b"
                     culprit (pr_traces ts) (i live) (i ret) (want fixed) (agrees asis conns ts live))
    | None ->
        if agrees fixed conns ts live then
          VOk (List.exists (fun t -> t <> "K" && t <> "gPOPk") ins)
        else VDisagree (Printf.sprintf "observed=%s model=%s" (pr_traces ts) (want fixed))
  with Bad t ->
    if t = "PANIC" then VPropfail ("no_panic", "modifier-side panic token")
    else VDisagree ("unexpected-token:" ^ t)

let () = run_driver judge
