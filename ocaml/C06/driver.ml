(* C06 driver: parses request scripts + what the real mitm.Config answered,
   evaluates the extracted oracle (answer_ok / c06_conc_ok) on the real
   answers, then compares the extracted model (get_cert, split_host_port,
   x509_verify) with them. *)

exception Bad of string

let ca_id = n_of_int 1
let key_id = n_of_int 1
let other_id = n_of_int 2

type req = {
  kind : char; scope : string; api : api; sni : char list; fb : char list;
  vname : char list; others : char list list }

type ans =
  | ARefused of string * z * z * string                  (* reason tb ta hs *)
  | ACert of cert * bool * z * z * z * bool * string * string   (* cert, onesan, tb, ta, tv, V, otherbits, hs *)
  | APanic

let parse_req (t : string) : req option =
  match String.split_on_char ':' t with
  | [k; scope; api; sni; fb; vname; others] when k = "G" || k = "H" || k = "X" ->
      (* X = CONNECT <fb> through a real martian.Proxy; its api slot carries what a request
         modifier rewrote req.URL.Host to, which must NOT influence the certificate: the model
         is TLSForHost(CONNECT authority) whatever the rewrite *)
      let fb' = chars_of_hex fb in
      Some { kind = k.[0]; scope;
             api = (if api = "T" && k <> "X" then ApiTLS else ApiForHost fb');
             sni = chars_of_hex sni; fb = fb'; vname = chars_of_hex vname;
             others = List.map chars_of_hex (split_on ',' others) }
  | _ -> None

let parse_ans (t : string) : ans =
  if t = "PANIC" then APanic else
  match String.split_on_char ':' t with
  | ["R"; reason; tb; ta; hs] -> ARefused (reason, z_of_dec tb, z_of_dec ta, hs)
  | ["C"; idx; san; nb; na; org; flags; tb; ta; tv; v; ob; hs] ->
      let s = if san = "N" then raise (Bad "certificate-without-SAN")
        else if san.[0] = 'I' then SanIP (chars_of_hex (String.sub san 1 (String.length san - 1)))
        else SanDNS (chars_of_hex (String.sub san 1 (String.length san - 1))) in
      if String.length flags <> 5 then raise (Bad "flags");
      let f i = flags.[i] = '1' in
      let c = { c_serial = nat_of_int (int_of_string idx); c_san = s;
                c_nb = z_of_dec nb; c_na = z_of_dec na; c_org = chars_of_hex org;
                c_signer = (if f 0 then ca_id else other_id);
                c_key = (if f 1 && f 2 && f 3 then key_id else other_id) } in
      ACert (c, f 4, z_of_dec tb, z_of_dec ta, z_of_dec tv, v = "1", ob, hs)
  | _ -> raise (Bad ("answer-token:" ^ t))

(* tables after TAB *)
let split_tab (outs : string list) : string list * string list =
  let rec go acc = function
    | [] -> (List.rev acc, [])
    | "TAB" :: r -> (List.rev acc, r)
    | x :: r -> go (x :: acc) r in
  go [] outs

let build_tables (tab : string list) =
  let ip : (char list, char list option) Hashtbl.t = Hashtbl.create 64 in
  let sp = ref [] in
  List.iter (fun t ->
      match String.split_on_char ':' t with
      | ["P"; s; c] -> Hashtbl.replace ip (chars_of_hex s) (if c = "-" then None else Some (chars_of_hex c))
      | ["Q"; s; k; h; p] -> sp := (chars_of_hex s, k, chars_of_hex h, chars_of_hex p) :: !sp
      | _ -> raise (Bad ("table-token:" ^ t))) tab;
  let parse_ip s =
    match Hashtbl.find_opt ip s with
    | Some r -> r
    | None -> raise (Bad ("parse_ip-table-miss:" ^ hex_of_chars s)) in
  (parse_ip, ip, List.rev !sp)

let split_enum = function
  | MissingPort -> "mp" | TooManyColons -> "tm" | MissingRBr -> "mr"
  | UnexpectedLBr -> "ul" | UnexpectedRBr -> "ur"

(* model of net.SplitHostPort against Go's, law of parse_ip used by the proofs *)
let check_tables ip sp : string option =
  let bad = ref None in
  List.iter (fun (s, k, h, p) ->
      let m = match split_host_port s with
        | SplitOk (h', p') -> if k = "ok" && h' = h && p' = p then None else Some "ok"
        | SplitErr e -> if split_enum e = k then None else Some (split_enum e) in
      match m with
      | Some got when !bad = None ->
          bad := Some (Printf.sprintf "split_host_port(%s)-model=%s-go=%s" (hex_of_chars s) got k)
      | _ -> ()) sp;
  Hashtbl.iter (fun s r ->
      match r, s with
      | Some _, '[' :: _ when !bad = None ->
          bad := Some ("parse_ip-law-bracketed:" ^ hex_of_chars s)
      | _ -> ()) ip;
  !bad

let mk_cfg (v : string) (o : string) : config =
  (* v<ms>[,<field>]*: CA kind (rsa|ec|ed|cv: only matters to the harness, signer = ca abstraction),
     skip = SkipTLSVerify(true), h2 = SetH2Config(all hosts): options the model carries but, by
     C06_options_do_not_enter_the_decision, never looks at *)
  let fields = String.split_on_char ',' (String.sub v 1 (String.length v - 1)) in
  { cfg_ca = ca_id; cfg_key = key_id;
    cfg_org = chars_of_hex (String.sub o 1 (String.length o - 1));
    cfg_validity = z_of_dec (List.hd fields);
    cfg_skip_verify = List.mem "skip" fields;
    cfg_h2 = List.mem "h2" fields }

let zle a b = Z.leb a b
let zmax a b = if Z.leb a b then b else a
let zmin a b = if Z.leb a b then a else b

(* property oracle on one real answer; returns the failing clause *)
let oracle parse_ip cfg (r : req) (a : ans) (res : result) (tv : z) : (string * string) option =
  if r.scope <> "i" then None else
  let name = req_name r.api r.sni in
  let fail c d = Some (c, d) in
  match a with
  | APanic -> fail "no_panic" "PANIC"
  | ARefused (reason, _, _, _) ->
      (match name with
       | None -> None
       | Some h -> if issuable parse_ip h then fail "handshake_refused_for_real_name" ("reason=" ^ reason) else None)
  | ACert (c, onesan, _, _, _, v, ob, hs) ->
      (match name with
       | None -> fail "refuse_when_no_name"
                   ("certificate-issued-although-no-SNI-and-no-fallback-host san=" ^
                    (match c.c_san with SanIP s -> "IP:" ^ hex_of_chars s | SanDNS s -> "DNS:" ^ hex_of_chars s))
       | Some h ->
           if not (cert_for_name parse_ip c h) then begin
             (* a SAN that spells the requested host but is of the wrong kind (DNS SAN for an IP
                literal) is a certificate FOR that host that does not verify: reported under the
                verification clause; any other SAN is a certificate for another name *)
             match c.c_san, parse_ip h with
             | SanDNS s, Some _ when s = h && not v ->
                 fail "verifies_for_host_at_handshake"
                   ("DNS-SAN-for-an-IP-literal(x509-matches-IP-hosts-against-IP-SANs-only) host=" ^ hex_of_chars h)
             | _ -> fail "never_other_name" ("cert-not-issued-for=" ^ hex_of_chars h)
           end
           else if not (chains cfg c) then fail "chains_to_ca" "x509-chain-verification-failed"
           else if not (cert_org_ok cfg c) then fail "organization" ("got=" ^ hex_of_chars c.c_org)
           else if not (cert_key_ok cfg c) then fail "key_held_by_proxy" "key/chain-shape"
           else if not v then fail "verifies_for_host_at_handshake" ("real-x509-verify-failed-for=" ^ hex_of_chars r.vname)
           else if not (x509_verify parse_ip cfg c r.vname tv) then fail "verifies_for_host_at_handshake" "window-or-name(model-of-x509-on-real-fields)"
           else if String.contains ob '1' then fail "valid_for_exactly_that_host" ("also-valid-for-other-name bits=" ^ ob)
           else if hs = "0" then fail "handshake_completes" "real-tls-handshake-failed"
           else if not (answer_ok parse_ip cfg r.api r.sni r.vname res tv) then fail "answer_ok" "oracle"
           else None)

(* model agreement on one answer; returns new state or a disagreement *)
let model_step parse_ip cfg st (r : req) (a : ans) (seen : (int, unit) Hashtbl.t)
  : (state * result, string) Either.t =
  match a with
  | APanic -> Either.Right "implementation-panicked"
  | ARefused (_, tb, ta, _) ->
      let (m, st') = get_cert parse_ip cfg st r.api r.sni tb tb tb in
      (match m with
       | Refused -> Either.Left (st', Refused)
       | _ -> let (m2, _) = get_cert parse_ip cfg st r.api r.sni ta ta ta in
         (match m2 with
          | Refused -> Either.Left (st', Refused)
          | _ -> Either.Right "model-answers-with-a-certificate-implementation-refused"))
  | ACert (c, onesan, tb, ta, tv, v, ob, _) ->
      let idx = int_of_nat c.c_serial in
      let was_seen = Hashtbl.mem seen idx in
      Hashtbl.replace seen idx ();
      let obs = if was_seen then Hit c else Issued c in
      (* real x509 against the model of x509 on the observed fields *)
      if not onesan then Either.Right "leaf-does-not-carry-exactly-one-SAN"
      else if r.vname <> [] && x509_verify parse_ip cfg c r.vname tv <> v then
        Either.Right (Printf.sprintf "x509-model-differs-from-real-verify name=%s real=%b" (hex_of_chars r.vname) v)
      else if ob <> "-" && (String.length ob <> List.length r.others ||
                            List.exists2 (fun o b -> x509_verify parse_ip cfg c o tv <> (b = '1')) r.others
                              (List.init (String.length ob) (String.get ob))) then
        Either.Right ("x509-model-differs-from-real-verify-on-other-names bits=" ^ ob)
      else begin
        (* times: t1 in [nb+v, nb+v+999] /\ [tb,ta]; t2 in [na-v, na-v+999] /\ [t1,ta] *)
        let vz = cfg.cfg_validity in
        let k999 = z_of_int 999 in
        let t1 = zmax tb (Z.add c.c_nb vz) in
        let t2 = zmax t1 (Z.sub c.c_na vz) in
        let times_ok = zle t1 (zmin ta (Z.add (Z.add c.c_nb vz) k999))
                       && zle t2 (zmin ta (Z.add (Z.sub c.c_na vz) k999)) in
        let same m = match m, obs with
          | Hit x, Hit y -> cert_eqb x y
          | Issued x, Issued y -> cert_eqb x y
          | _ -> false in
        let try_t t =
          let t1' = zmax t t1 in let t2' = zmax t1' t2 in
          let (m, st') = get_cert parse_ip cfg st r.api r.sni t t1' t2' in
          if same m then Some st' else None in
        match (if was_seen || times_ok then try_t tb else None) with
        | Some st' -> Either.Left (st', obs)
        | None ->
          (match (if was_seen || times_ok then try_t ta else None) with
           | Some st' -> Either.Left (st', obs)
           | None ->
               let (m, _) = get_cert parse_ip cfg st r.api r.sni tb t1 t2 in
               let d = match m with
                 | Refused -> "model=Refused"
                 | Hit x -> Printf.sprintf "model=Hit#%d" (int_of_nat x.c_serial)
                 | Issued x -> Printf.sprintf "model=Issued#%d[%s,%s]" (int_of_nat x.c_serial) (dec_of_z x.c_nb) (dec_of_z x.c_na) in
               Either.Right (Printf.sprintf "%s impl=%s#%d[%s,%s] call=[%s,%s] times_ok=%b" d
                               (if was_seen then "Hit" else "Issued") idx (dec_of_z c.c_nb) (dec_of_z c.c_na)
                               (dec_of_z tb) (dec_of_z ta) times_ok))
      end

let ans_result (a : ans) (seen_before : bool) : result * z =
  match a with
  | ACert (c, _, _, _, tv, _, _, _) -> ((if seen_before then Hit c else Issued c), tv)
  | ARefused (_, _, ta, _) -> (Refused, ta)
  | APanic -> (Refused, Z0)

let judge_seq parse_ip cfg (ops : string list) (outs : string list) : verdict =
  if List.length ops <> List.length outs then VDisagree "output-shape" else
  let seen_o = Hashtbl.create 16 and seen_m = Hashtbl.create 16 in
  let st = ref init_state in
  let propfail = ref None and disagree = ref None in
  let hits = ref 0 and issued = ref 0 and reissued = ref 0 and hs = ref 0 in
  let names_issued = Hashtbl.create 16 in
  List.iter2 (fun op out ->
      match parse_req op with
      | None -> ()
      | Some r ->
          let a = parse_ans out in
          let idx = match a with ACert (c, _, _, _, _, _, _, _) -> Some (int_of_nat c.c_serial) | _ -> None in
          let before = match idx with Some i -> Hashtbl.mem seen_o i | None -> false in
          (match idx with Some i -> Hashtbl.replace seen_o i () | None -> ());
          let (res, tv) = ans_result a before in
          (match a with
           | ACert (c, _, _, _, _, _, _, h) ->
               if before then incr hits else begin
                 incr issued;
                 let k = (match c.c_san with SanIP s -> 'I' :: s | SanDNS s -> 'D' :: s) in
                 if Hashtbl.mem names_issued k then incr reissued;
                 Hashtbl.replace names_issued k ()
               end;
               if h = "1" then incr hs
           | _ -> ());
          if !propfail = None then propfail := oracle parse_ip cfg r a res tv;
          if !disagree = None then
            (match model_step parse_ip cfg !st r a seen_m with
             | Either.Left (st', _) -> st := st'
             | Either.Right d -> disagree := Some (Printf.sprintf "at-op=%s %s" op d)))
    ops outs;
  match !propfail, !disagree with
  | Some (c, d), _ -> VPropfail (c, d)
  | None, Some d -> VDisagree d
  | None, None -> VOk (!issued >= 1 && (!hits >= 1 || !reissued >= 1 || !hs >= 1))

let rec split_threads (toks : string list) : string list list * string list =
  let rec go cur acc = function
    | [] -> (List.rev (match cur with None -> acc | Some c -> List.rev c :: acc), [])
    | "T" :: r -> go (Some []) (match cur with None -> acc | Some c -> List.rev c :: acc) r
    | "F" :: r -> (List.rev (match cur with None -> acc | Some c -> List.rev c :: acc), r)
    | x :: r -> (match cur with Some c -> go (Some (x :: c)) acc r | None -> raise (Bad "tok-before-T")) in
  ignore split_threads; go None [] toks

let judge_conc parse_ip cfg (ops : string list) (outs : string list) : verdict =
  let (tin, fin) = split_threads ops in
  let (tout, fout) = split_threads outs in
  if List.length tin <> List.length tout || List.length fin <> List.length fout
     || List.exists2 (fun a b -> List.length a <> List.length b) tin tout then VDisagree "output-shape" else
  (* identity: an object seen earlier in emitted order = Hit for the oracle's record;
     for the concurrent part Hit/Issued is not observable per requester, so the
     per-answer oracle (which does not distinguish them) is what counts *)
  let seen = Hashtbl.create 64 in
  let propfail = ref None in
  let mk r a =
    let idx = match a with ACert (c, _, _, _, _, _, _, _) -> Some (int_of_nat c.c_serial) | _ -> None in
    let before = match idx with Some i -> Hashtbl.mem seen i | None -> false in
    (match idx with Some i -> Hashtbl.replace seen i () | None -> ());
    let (res, tv) = ans_result a before in
    if !propfail = None then propfail := oracle parse_ip cfg r a res tv;
    { ob_api = r.api; ob_sni = r.sni; ob_vname = r.vname; ob_res = res; ob_tv = tv } in
  (* SHARED cases: one request, looped; its distinct answers are joined by '|' *)
  let conv i o = List.concat (List.map2 (fun a b ->
      match parse_req a with
      | Some r ->
          if b = "" then raise (Bad "requester-without-answer");
          List.map (fun b1 -> let an = parse_ans b1 in (r, an, mk r an)) (String.split_on_char '|' b)
      | None -> []) i o) in
  let ths = List.map2 conv tin tout in
  let flat = List.concat ths in
  let fins = conv fin fout in
  match !propfail with
  | Some (c, d) -> VPropfail (c, d)
  | None ->
      let obs l = List.map (fun (_, _, o) -> o) l in
      let inscope = List.for_all (fun (r, _, _) -> r.scope = "i") (flat @ fins) in
      if inscope && not (c06_ok parse_ip cfg (obs flat) && c06_ok parse_ip cfg (obs fins)) then
        VPropfail ("answer_ok", "oracle")
      else if not (same_identity_same_cert (List.map (fun o -> o.ob_res) (obs (flat @ fins)))) then
        VPropfail ("never_other_name", "one-certificate-object-observed-with-two-different-contents")
      else if not (List.for_all (final_hit_known (obs flat)) (obs fins)) then
        VPropfail ("hit_only_cached_for_that_name", "after-join-answer-is-an-object-no-requester-of-that-name-received")
      else if inscope && not (c06_conc_ok parse_ip cfg (obs flat) (obs fins)) then
        VPropfail ("answer_ok", "c06_conc_ok")
      else begin
        (* LTS admissibility of what is observable: every distinct certificate
           was minted inside the call bracket of at least one requester that
           received it, for the name of that requester *)
        let vz = cfg.cfg_validity in
        let k999 = z_of_int 999 in
        let tbl = Hashtbl.create 64 in
        List.iter (fun (r, a, _) ->
            match a with
            | ACert (c, _, tb, ta, _, _, _, _) ->
                let t1lo = zmax tb (Z.add c.c_nb vz) and t1hi = zmin ta (Z.add (Z.add c.c_nb vz) k999) in
                let t2lo = zmax t1lo (Z.sub c.c_na vz) and t2hi = zmin ta (Z.add (Z.sub c.c_na vz) k999) in
                let ok = zle t1lo t1hi && zle t2lo t2hi in
                let i = int_of_nat c.c_serial in
                let prev = try Hashtbl.find tbl i with Not_found -> false in
                Hashtbl.replace tbl i (prev || ok)
            | _ -> ()) (flat @ fins);
        let unexplained = Hashtbl.fold (fun i ok acc -> if ok then acc else i :: acc) tbl [] in
        (* after the join: the model started from a cache holding, per name, the
           observed certificate must answer Hit for it *)
        let bad_final = List.exists (fun (r, a, o) ->
            match a, req_name r.api r.sni with
            | ACert (c, _, tb, _, _, _, _, _), Some h ->
                let st = { st_cache = [ (h, c) ]; st_next = nat_of_int 1000 } in
                (match o.ob_res, get_cert parse_ip cfg st r.api r.sni tb tb tb with
                 | Hit _, (Hit c', _) -> not (cert_eqb c c')
                 | Hit _, _ -> true
                 | _ -> false)
            | _ -> false) fins in
        let multi = List.exists (fun (_, a, _) ->
            match a with ACert (_, false, _, _, _, _, _, _) -> true | _ -> false) (flat @ fins) in
        if multi then VDisagree "leaf-does-not-carry-exactly-one-SAN"
        else if unexplained <> [] then
          VDisagree (Printf.sprintf "certificate#%d-window-not-explained-by-any-receiving-call" (List.hd unexplained))
        else if bad_final then VDisagree "after-join-hit-not-reproduced-by-model"
        else VOk (List.length ths >= 2)
      end

let judge _name ins outs =
  try
    match ins with
    | kind :: v :: o :: ops0 when (kind = "SEQ" || kind = "CONC" || kind = "SHARED" || kind = "PROXY")
                                 && String.length v > 1 && v.[0] = 'v' && String.length o >= 1 && o.[0] = 'o' ->
        if outs = ["BADCASE"] then VDisagree "harness-rejected-case" else
        (* SHARED: n<rounds> p<pause> b<fallback> precede the threads; every ForHost op carries the same fallback *)
        let ops = if kind = "SHARED" then
            (match ops0 with _ :: _ :: _ :: r -> r | _ -> raise (Bad "shared-header")) else ops0 in
        let cfg = mk_cfg v o in
        let (body, tab) = split_tab outs in
        let (parse_ip, ip, sp) = build_tables tab in
        let tabcheck = check_tables ip sp in
        let v = if kind = "SEQ" || kind = "PROXY" then judge_seq parse_ip cfg ops body else judge_conc parse_ip cfg ops body in
        (match v, tabcheck with
         | VPropfail _, _ -> v
         | _, Some d -> VDisagree d
         | _, None -> v)
    | _ -> VDisagree "unknown-case-kind"
  with Bad d -> VDisagree ("driver:" ^ d)

let () = run_driver judge
