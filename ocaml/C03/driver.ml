(* C03 driver: upstream-failure scripts and malformed client streams. *)

let parse_exchange (t : string) : exch3 =
  match String.split_on_char ':' t with
  | "Y" :: id :: m :: rc :: _v10 :: oc :: st :: fr :: bl :: sc :: h :: _options ->
      let idn = int_of_string id in
      let n = int_of_string bl in
      let body = List.init n (fun j -> Char.chr (97 + (idn * 7 + j) mod 26)) in
      let framing, sizes =
        match fr.[0] with
        | 'c' -> FCL, []
        | 'k' -> FChunked, List.map (fun s -> nat_of_int (int_of_string s))
                             (String.split_on_char '.' (String.sub fr 1 (String.length fr - 1)))
        | 'x' -> FCloseDelimited, []
        | _ -> FBodiless, [] in
      let out =
        if oc = "ok" then OOk else if oc = "ref" || oc = "dns" then ORefused
        else if oc = "tmo" then OTimeout
        else if String.length oc > 3 && String.sub oc 0 3 = "cut" then OCut (nat_of_int (int_of_string (String.sub oc 3 (String.length oc - 3))))
        else if String.length oc > 3 && String.sub oc 0 3 = "gar" then OGarbage
        else failwith "bad outcome" in
      { x_id = n_of_int idn; x_head = (m = "H"); x_connect = (m = "C"); x_reqclose = (rc = "1"); x_out = out;
        x_resp = { q_status = n_of_dec st; q_framing = framing; q_body = body; q_sizes = sizes;
                   q_close = (sc = "1"); q_headlen = nat_of_int (int_of_string h) };
        x_rechunk = [] }
  | _ -> failwith "bad exchange token"

let parse_state (s : string) : pstate =
  if s = "ok" then PComplete else if s = "incomplete" then PIncomplete
  else if s = "err-timeout" || s = "err-head-timeout" then PStarved else PMalformed

let parse_resp (t : string) : rawresp option =
  match String.split_on_char ':' t with
  | ["R"; st; xex; stamp; warn; _fr; body; state] ->
      let id = if xex = "-" || String.contains xex '.' then None else Some (n_of_dec xex) in
      let sm =
        if stamp = "-" then None
        else match String.split_on_char 'w' stamp with
          | [a; b] -> Some (n_of_dec a, b <> "0")
          | _ -> None in
      let ws = if warn = "-" then [] else List.map (fun h -> chars_of_hex ("x" ^ h)) (String.split_on_char ',' warn) in
      Some { w_status = n_of_dec st; w_id = id; w_warnings = ws; w_resmod = sm;
             w_rbody = chars_of_hex ("x" ^ body); w_state = parse_state state }
  | _ -> None

let pr_state = function PComplete -> "complete" | PIncomplete -> "incomplete" | PStarved -> "starved" | PMalformed -> "malformed"

let pr_resp (o : oresp) =
  Printf.sprintf "%s/id=%s/warn=%b/resmod=%s/body=%s/%s" (dec_of_n o.o_status)
    (match o.o_id with Some i -> dec_of_n i | None -> "-") o.o_warning
    (match o.o_resmod with Some (s, w) -> dec_of_n s ^ (if w then "w" else "") | None -> "-")
    (String.escaped (string_of_chars o.o_body)) (pr_state o.o_state)

let rec is_prefix a b = match a, b with
  | [], _ -> true
  | x :: a', y :: b' -> x = y && is_prefix a' b'
  | _, [] -> false

let has_prefix s p = String.length s >= String.length p && String.sub s 0 (String.length p) = p

let judge _name ins outs =
  match ins with
  | "UF" :: mode :: toks ->
      let es = List.map parse_exchange toks in
      if List.exists (fun t -> has_prefix t "DEAD") outs then
        VPropfail ("proxy_process_terminated", String.concat " " (List.filter (fun t -> has_prefix t "DEAD") outs))
      else if List.exists (fun t -> has_prefix t "BADCASE" || has_prefix t "ENV" || has_prefix t "HARNESSPANIC") outs then
        VDisagree ("harness:" ^ String.concat "," outs)
      else begin
        let raws = List.filter_map parse_resp outs in
        (* Carrier "l" (a body-snapshotting logger in the modifier chain): when the origin's body ends early the
           logger has already consumed it, so the client gets FEWER body bytes than the origin delivered, and
           martian adds a Warning for the modifier's read error. Both are within the property (a detectably
           incomplete response followed by close); such a response is accepted as the expected one. Anything
           else - a complete-looking response, a kept connection - is not. *)
        let raws =
          if String.length mode > 0 && mode.[0] = 'l' then
            let want = List.map project (fst (spec_view es)) in
            List.mapi (fun i r ->
                match List.nth_opt want i with
                | Some w when w.o_state = PIncomplete && r.w_state = PIncomplete && r.w_status = w.o_status
                              && r.w_id = w.o_id && is_prefix r.w_rbody w.o_body ->
                    { r with w_rbody = w.o_body; w_warnings = [] }
                | _ -> r) raws
          else raws in
        let rs = List.map observe raws in
        let fin = match List.find_opt (fun t -> has_prefix t "END:") outs with
          | Some t -> String.sub t 4 (String.length t - 4) | None -> "missing" in
        (* "lead" scripts end with bytes that are no part of the script: only the responses are judged *)
        let lead = String.length mode >= 4 && String.sub mode 0 4 = "lead" in
        let fin = if lead && fin = "lead" then (if snd (spec_view es) then "closed" else "open") else fin in
        let obs = (rs, fin = "closed" || fin = "tunnel") in
        (* the answer read through an established tunnel must be the origin's, untouched *)
        let tunnel_bad =
          match List.find_opt (fun t -> has_prefix t "T:") outs, List.rev (served3 es) with
          | Some t, last :: _ when last.x_connect && last.x_out = OOk ->
              let want = Printf.sprintf "T:%s:%s:%s:ok" (dec_of_n last.x_resp.q_status) (dec_of_n last.x_id)
                  (let h = hex_of_chars last.x_resp.q_body in String.sub h 1 (String.length h - 1)) in
              if t = want then None else Some (Printf.sprintf "want=%s got=%s" want t)
          | Some t, _ -> Some ("unexpected " ^ t)
          | None, _ ->
              if fin = "tunnel" then Some "tunnel-without-answer" else None in
        let (want_p, want_c) = spec_view es in
        let want = List.map project want_p in
        let nontrivial = List.exists (fun e -> e.x_out <> OOk) es in
        if tunnel_bad <> None && c03_ok_raw es (raws, snd obs) then
          VPropfail ("connect_tunnel_relays", match tunnel_bad with Some d -> d | None -> "")
        else if c03_ok_raw es (raws, snd obs) && (fin = "open" || fin = "closed" || fin = "tunnel") then begin
          if not (List.for_all wf3 es) then VOk false
          else
            let (mo, mc) = model_obs true es in
            if List.length mo = List.length rs && List.for_all2 oresp_eqb mo rs && mc = snd obs
            then VOk nontrivial
            else VDisagree "model-of-repaired-proxy-differs-from-observation(theorem C03 refinement broken?)"
        end else begin
          (* name the clause *)
          let rec first i ws gs = match ws, gs with
            | w :: ws', g :: gs' -> if oresp_eqb w g then first (i + 1) ws' gs' else (i, Some w, Some g)
            | w :: _, [] -> (i, Some w, None)
            | [], g :: _ -> (i, None, Some g)
            | [], [] -> (i, None, None) in
          let (i, w, g) = first 0 want rs in
          let detail = Printf.sprintf "response=%d want=%s got=%s end=%s want-closed=%b%s" i
              (match w with Some w -> pr_resp w | None -> "none")
              (match g with Some g -> pr_resp g | None -> "none") fin want_c
              (match List.nth_opt raws i with
               | Some r when r.w_warnings <> [] ->
                   " warning=" ^ String.concat "|" (List.map (fun v -> String.escaped (string_of_chars v)) r.w_warnings)
               | _ -> "") in
          (* the i-th response token's own state string (parse_state folds the details away) *)
          let raw_state =
            match List.nth_opt (List.filter (fun t -> has_prefix t "R:") outs) i with
            | Some t -> (match List.rev (String.split_on_char ':' t) with st :: _ -> st | [] -> "")
            | None -> "" in
          let clause =
            match w, g with
            | _, Some _ when raw_state = "err-status-line-malformed" -> "status_line_wellformed"
            | _, Some _ when raw_state = "err-header-malformed" || raw_state = "err-content-length-malformed" -> "response_head_wellformed"
            | Some w, Some g when not (is_prefix g.o_body w.o_body) -> "no_cross_response_bytes"
            | Some w, Some g when w.o_status = n_of_int 502 && g.o_status = w.o_status && not g.o_warning
                                  && (match List.nth_opt raws i with Some r -> r.w_warnings <> [] | None -> false) ->
                "warning_wellformed"
            | Some w, Some g when w.o_status = n_of_int 502 && w.o_warning
                                  && (g.o_status <> w.o_status || not g.o_warning || g.o_resmod <> w.o_resmod) ->
                "pre_head_failure_is_502_via_resmod"
            | Some w, Some g when w.o_state <> g.o_state -> "incomplete_response_then_close"
            | Some _, Some _ -> "response_relayed"
            | Some _, None ->
                if i > 0 && (List.nth want (i - 1)).o_status = n_of_int 502 then "connection_serves_after_502"
                else "every_request_answered"
            | None, Some _ -> "served_after_close"
            | None, None -> if fin = "open" || fin = "closed" then "incomplete_response_then_close" else "client_stuck" in
          VPropfail (clause, detail)
        end
      end
  | "CST" :: "g" :: steps when List.mem "tlsh2" steps
                              && List.exists (fun t -> has_prefix t "cst:" &&
                                   (let seen = String.split_on_char ',' (String.sub t 4 (String.length t - 4)) in
                                    let rec after = function [] -> [] | x :: r -> if x = "tls-okh2" then r else after r in
                                    List.exists (fun x -> x = "bytes" || has_prefix x "resp") (after seen))) outs ->
      (* a client that negotiated h2 got application bytes that are not HTTP/2 frames *)
      VPropfail ("h2_tunnel_gets_only_h2", String.concat " " outs)
  | "MAL" :: _ | "CST" :: _ ->
      if List.exists (fun t -> has_prefix t "DEAD") outs then
        VPropfail ("proxy_process_terminated", String.concat " " outs)
      else if List.mem "UNRESPONSIVE" outs then VPropfail ("proxy_unresponsive", String.concat " " outs)
      else if List.mem "ALIVE" outs then VOk false
      else VDisagree ("harness:" ^ String.concat "," outs)
  | _ -> VDisagree "unknown-case-kind"

let () = run_driver judge
