(* C16 driver: rebuilds the message (IN + net/http's view in OUT), the table
   instance of the external functions, the observed HAR entry and its JSON
   round trip; evaluates the extracted oracles c16_req_ok / c16_res_ok on the
   real observation, then compares the extracted model with it. *)

exception Bad of string

let split1 (c : char) (s : string) : string * string =
  match String.index_opt s c with
  | Some i -> (String.sub s 0 i, String.sub s (i + 1) (String.length s - i - 1))
  | None -> (s, "")

let kvs (toks : string list) : (string * string) list = List.map (split1 '=') toks
let all k l = List.filter_map (fun (k', v) -> if k = k' then Some v else None) l
let one k l = match all k l with v :: _ -> Some v | [] -> None
let parts (v : string) : string list = String.split_on_char ':' v

type env = { defs : char list array }

let bs (e : env) (t : string) : char list =
  if String.length t > 0 && t.[0] = '@' then
    e.defs.(int_of_string (String.sub t 1 (String.length t - 1)))
  else chars_of_hex t

let hexlist (v : string) : char list list =
  if v = "" then [] else List.map chars_of_hex (String.split_on_char ',' v)

let cs = chars_of_string
let str = string_of_chars
let b1 s = s = "1"

let parse_opt (o : string) : opt =
  if o = "all" || o = "default" then OAll
  else if o = "none" then ONone
  else
    let (k, v) = split1 ':' o in
    if k = "in" then OIn (hexlist v) else if k = "out" then OOut (hexlist v) else raise (Bad "opt")

let hdrs_of_in (ins : (string * string) list) : (char list * char list list) list =
  (* K tokens with the same name merge, as in the Go harness *)
  List.fold_left (fun acc v ->
      let (n, vs) = split1 ':' v in
      let n = chars_of_hex n and vs = hexlist vs in
      if List.mem_assoc n acc then List.map (fun (k, x) -> if k = n then (k, x @ vs) else (k, x)) acc
      else acc @ [(n, vs)]) [] (all "K" ins)

let cookie_of (e : env) (v : string) : cookie =
  match parts v with
  | [n; va; p; d; ex; ho; se] ->
      { c_name = bs e n; c_value = bs e va; c_path = bs e p; c_domain = bs e d; c_expires = bs e ex;
        c_httponly = b1 ho; c_secure = b1 se }
  | _ -> raise (Bad "cookie")

let kv_of (e : env) (v : string) : char list * char list =
  match parts v with [a; b] -> (bs e a, bs e b) | _ -> raise (Bad "kv")

let param_of (e : env) (v : string) : param =
  match parts v with
  | [n; va; f; c] -> { p_name = bs e n; p_value = bs e va; p_file = bs e f; p_ctype = bs e c }
  | _ -> raise (Bad "param")

(* table -> function *)
let lookup (tab : ('a * 'b) list) (k : 'a) : 'b option = List.assoc_opt k tab

let mk_ext (e : env) (o : (string * string) list) : ext * (char list * char list) list =
  let nu = List.map (kv_of e) (all "nu" o) in
  let b64 = List.map (kv_of e) (all "b64" o) in
  let tri key = List.map (fun v -> match parts v with
      | [k; ok; r] -> (bs e k, if b1 ok then Some (bs e r) else None)
      | _ -> raise (Bad key)) (all key o) in
  let gz = tri "gz" and fl = tri "fl" and zl = tri "zl" and dc = tri "dc" in
  let mt = List.map (fun v -> match parts v with
      | [ct; ok; m; b] -> (bs e ct, if b1 ok then Some (bs e m, bs e b) else None)
      | _ -> raise (Bad "mt")) (all "mt" o) in
  let fp = List.map (fun v -> match parts v with
      | [b; ok] -> (bs e b, if b1 ok then Some (List.map (kv_of e) (all "fpe" o)) else None)
      | _ -> raise (Bad "fp")) (all "fp" o) in
  let mp = List.map (fun v -> match parts v with
      | [bd; b; ok] -> ((bs e bd, bs e b), if b1 ok then Some (List.map (param_of e) (all "mpe" o)) else None)
      | _ -> raise (Bad "mp")) (all "mp" o) in
  let flat t k = match lookup t k with Some r -> r | None -> None in
  ({ b64e = (fun s -> match lookup b64 s with Some r -> r | None -> cs "?no-b64-entry?");
     b64d = (fun t -> match List.find_opt (fun (_, enc) -> enc = t) b64 with Some (s, _) -> Some s | None -> None);
     utf8_ok = (fun s -> not (List.mem_assoc s nu));
     sanitize = (fun s -> match lookup nu s with Some r -> r | None -> s);
     gunzip = flat gz; inflate_raw = flat fl; inflate_http = flat zl; dechunk = flat dc;
     parse_mt = flat mt; form_parse = flat fp;
     mp_parse = (fun bd b -> flat mp (bd, b)) }, nu)

let zint s = z_of_dec s

let hreq_of (e : env) (o : (string * string) list) (p : string) : postdata hreq_ =
  let g k = match one (p ^ k) o with Some v -> v | None -> raise (Bad ("missing " ^ p ^ k)) in
  let post = match g "pd" with
    | "none" -> None
    | v -> (match parts v with
        | [m; t] -> Some { pd_mime = bs e m; pd_params = List.map (param_of e) (all (p ^ "pp") o); pd_text = bs e t }
        | _ -> raise (Bad "pd")) in
  { r_method = bs e (g "m"); r_url = bs e (g "u"); r_proto = bs e (g "p");
    r_cookies = List.map (cookie_of e) (all (p ^ "ck") o);
    r_headers = List.map (kv_of e) (all (p ^ "h") o);
    r_query = List.map (kv_of e) (all (p ^ "q") o);
    r_post = post; r_bodysize = zint (g "bs") }

let hres_of (e : env) (o : (string * string) list) (p : string) : content hres_ =
  let g k = match one (p ^ k) o with Some v -> v | None -> raise (Bad ("missing " ^ p ^ k)) in
  let c = match parts (g "ct") with
    | [sz; m; t; en] -> { ct_size = zint sz; ct_mime = bs e m; ct_text = bs e t; ct_enc = bs e en }
    | _ -> raise (Bad "content") in
  { e_status = zint (g "s"); e_proto = bs e (g "p");
    e_cookies = List.map (cookie_of e) (all (p ^ "ck") o);
    e_headers = List.map (kv_of e) (all (p ^ "h") o);
    e_content = c; e_redirect = bs e (g "rd"); e_bodysize = zint (g "bs") }

let hexs s = hex_of_chars s
let short s = let h = hexs s in if String.length h > 80 then String.sub h 0 80 ^ "..." else h

let lower_s (s : char list) = List.map Char.lowercase_ascii s

(* direct cases for the JSON codecs: PD / CT marshal+unmarshal of a Go value,
   PJ / CJ unmarshal of a JSON object *)
let judge_direct kind ins outs =
  let i = kvs (List.tl ins) and o = kvs outs in
  let env = { defs = Array.of_list (List.map chars_of_hex (all "D" o)) } in
  let (x, nu) = mk_ext env o in
  let hx k = match one k i with Some v -> chars_of_hex v | None -> [] in
  let pin = List.map (fun v -> match parts v with
      | [n; va; f; c] -> { p_name = chars_of_hex n; p_value = chars_of_hex va; p_file = chars_of_hex f; p_ctype = chars_of_hex c }
      | _ -> raise (Bad "PP")) (all "PP" i) in
  let obs = match one "obs" o with Some v -> v | None -> raise (Bad "no obs") in
  if obs = "panic" then VPropfail ("no_panic", "the JSON codec panicked") else
  let post_of pk ppk = match one pk o with
    | Some v -> (match parts v with
        | [m; t] -> Some { pd_mime = bs env m; pd_params = List.map (param_of env) (all ppk o); pd_text = bs env t }
        | _ -> raise (Bad pk))
    | None -> None in
  let content_of k = match one k o with
    | Some v -> (match parts v with
        | [sz; m; t; en] -> Some { ct_size = zint sz; ct_mime = bs env m; ct_text = bs env t; ct_enc = bs env en }
        | _ -> raise (Bad k))
    | None -> None in
  let sz = match one "SZ" i with Some v -> zint v | None -> Z0 in
  let lossy what = VPropfail ("json_roundtrip", "non-utf8-string-replaced n=" ^ string_of_int (List.length nu) ^ " in=" ^ what) in
  match kind with
  | "PD" ->
      let e = { pd_mime = hx "MT"; pd_params = pin; pd_text = hx "T" } in
      if obs <> "ok" then VDisagree "PostData.MarshalJSON-failed" else
      let rt = if one "rt" o = Some "ok" then post_of "rpd" "rpp" else None in
      let pred = unmarshal_post x (marshal_post x e) in
      let same a b = match a, b with Some p, Some q -> post_eq p q | None, None -> true | _ -> false in
      if not (pd_rt_ok e rt) then
        (if same pred rt && nu <> [] then lossy "postdata" else VPropfail ("json_roundtrip", "unexplained-difference-after-json-round-trip"))
      else if not (same pred rt) then VDisagree "model-roundtrip-differs"
      else
        let j = marshal_post x e in
        (match one "jpd" o with
         | Some v ->
             (match parts v with
              | [mi; t; en] ->
                  if j.jp_mime = bs env mi && j.jp_text = bs env t && j.jp_enc = bs env en
                     && j.jp_params = List.map (param_of env) (all "jpp" o)
                  then VOk (e.pd_text <> [])
                  else VDisagree "model-json-postdata-differs"
              | _ -> VDisagree "jpd-token")
         | None -> VDisagree "no-jpd")
  | "CT" ->
      let e = { ct_size = sz; ct_mime = hx "MT"; ct_text = hx "T"; ct_enc = hx "EN" } in
      (match marshal_content x e with
       | None -> if obs = "err" then VOk false else VDisagree "model-says-marshal-error"
       | Some j ->
           if obs <> "ok" then VDisagree "Content.MarshalJSON-failed" else
           let rt = if one "rt" o = Some "ok" then content_of "rct" else None in
           let pred = unmarshal_content x j in
           let same a b = match a, b with Some p, Some q -> content_eq p q | None, None -> true | _ -> false in
           let is_b64 = e.ct_enc = cs "base64" in
           if is_b64 && not (ct_rt_ok e rt) then
             (if same pred rt && nu <> [] then lossy "content" else VPropfail ("json_roundtrip", "unexplained-difference-after-json-round-trip"))
           else if not (same pred rt) then VDisagree "model-roundtrip-differs"
           else (match content_of "jct" with
               | Some c -> if j.jc_size = c.ct_size && j.jc_mime = c.ct_mime && j.jc_text = c.ct_text && j.jc_enc = c.ct_enc
                   then VOk (is_b64 && e.ct_text <> []) else VDisagree "model-json-content-differs"
               | None -> VDisagree "no-jct"))
  | "PJ" ->
      (* the harness writes the JSON object with encoding/json: strings arrive sanitised *)
      let j = { jp_mime = x.sanitize (hx "MT"); jp_params = List.map (fun p ->
          { p_name = x.sanitize p.p_name; p_value = x.sanitize p.p_value; p_file = x.sanitize p.p_file; p_ctype = x.sanitize p.p_ctype }) pin;
                jp_text = x.sanitize (hx "T"); jp_enc = x.sanitize (hx "EN") } in
      (match unmarshal_post x j, obs with
       | None, "err" -> VOk false
       | Some p, "ok" -> (match post_of "rpd" "rpp" with
           | Some q when post_eq p q -> VOk true
           | _ -> VDisagree "model-unmarshal-postdata-differs")
       | _ -> VDisagree ("model-unmarshal-postdata-outcome obs=" ^ obs))
  | "CJ" ->
      let j = { jc_size = sz; jc_mime = x.sanitize (hx "MT"); jc_text = x.sanitize (hx "T"); jc_enc = x.sanitize (hx "EN") } in
      (match unmarshal_content x j, obs with
       | None, "err" -> VOk false
       | Some p, "ok" -> (match content_of "rct" with
           | Some q when content_eq p q -> VOk true
           | _ -> VDisagree "model-unmarshal-content-differs")
       | _ -> VDisagree ("model-unmarshal-content-outcome obs=" ^ obs))
  | _ -> VDisagree "unknown-case-kind"

let judge _name ins outs =
  match outs with
  | ["BADIN"] -> VDisagree "harness-could-not-build-the-input"
  | _ ->
  let kind = match ins with k :: _ -> k | [] -> raise (Bad "empty") in
  if kind = "PD" || kind = "CT" || kind = "PJ" || kind = "CJ" then judge_direct kind ins outs else
  let i = kvs (List.tl ins) and o = kvs outs in
  let env = { defs = Array.of_list (List.map chars_of_hex (all "D" o)) } in
  let (x, nu) = mk_ext env o in
  let hx k d = match one k i with Some v -> chars_of_hex v | None -> cs d in
  let body = hx "B" "" in
  let te = match one "TE" i with Some v -> hexlist v | None -> [] in
  let cl = match one "CL" i with
    | Some v -> zint v
    | None -> if te = [] then z_of_int (List.length body) else z_of_int (-1) in
  let hdrs = hdrs_of_in i in
  let op = parse_opt (match one "o" i with Some v -> v | None -> "all") in
  let cap = capture op hdrs in
  let obs = match one "obs" o with Some v -> v | None -> raise (Bad "no obs") in
  if obs = "panic" then VPropfail ("no_panic", "the logger panicked") else
  let flag k = match one k o with Some "0" -> false | _ -> true in
  (* the reference body (IN B=) must be what Request.Write / Response.Write put on the
     wire, whenever net/http can serialise the message and the coding list is plain *)
  let body_status_ok =
    (* 1xx / 204 / 304 and answers to HEAD carry no body on the wire whatever the Body field holds *)
    match one "S" i with
    | Some v -> let st = int_of_string v in not ((st >= 100 && st <= 199) || st = 204 || st = 304)
    | None -> true in
  let wire_tie () =
    match one "wb" o with
    | Some v ->
        (match parts v with
         | ["1"; w] when (te = [] || te = [cs "chunked"]) && body_status_ok ->
             if bs env w <> body then Some "wire-body-differs-from-the-reference-body" else None
         | _ -> None)
    | None -> Some "no-wire-body-token" in
  let chunk_tie () =
    (* the concrete chunk coding of the model against Go's writer and reader *)
    List.find_map (fun v -> match parts v with
        | [b; c] ->
            let b = bs env b and c = bs env c in
            if chunk_enc b <> c then Some "chunk_enc-differs-from-httputil.NewChunkedWriter"
            else if dechunk_concrete c <> x.dechunk c then Some "dechunk-differs-from-httputil.NewChunkedReader"
            else None
        | _ -> Some "cw-token") (all "cw" o) in
  if kind = "REQ" then begin
    let m = { q_method = hx "M" "GET"; q_url = (match one "us" o with Some v -> bs env v | None -> raise (Bad "us"));
              q_proto = hx "P" "HTTP/1.1"; q_host = hx "H" ""; q_cl = cl; q_te = te; q_hdrs = hdrs; q_body = body;
              q_query = List.map (kv_of env) (all "q" o); q_cookies = List.map (cookie_of env) (all "ck" o) } in
    let ob = if obs = "ok" then Ok (hreq_of env o "e") else Err in
    let rt = match one "rt" o with Some "ok" -> Some (hreq_of env o "r") | _ -> None in
    if not (c16_req_ok x cap m ob rt) then begin
      match ob with
      | Err ->
          (* C16_request_dropped_verdict: not logged although capture is off, or there is no body, or the body parses *)
          let (mt, _) = media x (hget k_ct hdrs) in
          VPropfail ("request_dropped",
                     Printf.sprintf "capture=%b has_body_framing=%b media_type=%s body_parses=%b body=%s"
                       cap (has_framing m) (str mt) (not (body_unparseable_b x m)) (short body))
      | Ok e ->
        (match int_of_nat (req_clause x cap m e rt) with
         | 1 ->
             let msgh = msg_headers m.q_host m.q_cl m.q_te m.q_hdrs in
             let srt l = List.sort compare l in
             let d = List.filter_map (fun (n, b) -> if b then None else Some n)
                 [ ("method", e.r_method = m.q_method); ("url", e.r_url = m.q_url); ("httpVersion", e.r_proto = m.q_proto);
                   ("cookies", e.r_cookies = m.q_cookies); ("headers", srt e.r_headers = srt msgh);
                   ("queryString", srt e.r_query = srt m.q_query) ] in
             VPropfail ("fields_equal", "differs=" ^ String.concat "," d)
         | 2 ->
             let got = match e.r_post with None -> "none" | Some p -> "text=" ^ short p.pd_text ^ "_nparams=" ^ string_of_int (List.length p.pd_params) in
             (* C16_postdata_guard_is_absence_of_unframed_body *)
             if unframed_body_b m && e.r_post = None then
               VPropfail ("postdata_is_origin_body", Printf.sprintf "unframed-body-omitted cl=%s te=none body=%s" (dec_of_z cl) (short body))
             else
             VPropfail ("postdata_is_origin_body", Printf.sprintf "capture=%b chunked=%b body=%s got_%s" cap (is_chunked te) (short body) got)
         | _ ->
             let explained = (match roundtrip_req x e, rt with
                 | Some p, Some r -> hreq_eq p r && not (req_strings_b x e)
                 | _ -> false) in
             VPropfail ("json_roundtrip",
                        if explained then "non-utf8-string-replaced n=" ^ string_of_int (List.length nu)
                                          ^ " first=" ^ short (fst (List.hd nu))
                        else "unexplained-difference-after-json-round-trip"))
    end else
    let pred = har_req x op m in
    if not (res_sim hreq_sim pred ob) then VDisagree ("model-entry-differs obs=" ^ obs ^ " model=" ^ (match pred with Ok _ -> "ok" | Err -> "err"))
    else begin
      match ob with
      | Err -> VOk false
      | Ok e ->
        let mp_order_ok = match pred with
          | Ok p -> (match p.r_post, e.r_post with
              | Some a, Some b when a.pd_mime = cs "multipart/form-data" -> a.pd_params = b.pd_params
              | _ -> true)
          | Err -> true in
        let json_ok = match e.r_post, one "jpd" o with
          | None, Some "none" -> true
          | Some p, Some v ->
              (match parts v with
               | [mi; t; en] ->
                   let j = marshal_post x p in
                   j.jp_mime = bs env mi && j.jp_text = bs env t && j.jp_enc = bs env en
               | _ -> false)
          | _ -> false in
        let rt_model_ok = match roundtrip_req x e, rt with
          | Some p, Some r -> hreq_eq p r
          | None, None -> true
          | _ -> false in
        if not mp_order_ok then VDisagree "multipart-parameter-order"
        else if not json_ok then VDisagree "model-json-postdata-differs"
        else if not rt_model_ok then VDisagree "model-roundtrip-differs"
        else if not (flag "fwd") then VDisagree "forwarded-body-changed-by-logging"
        else if not (flag "j2") then VDisagree "json-reparse-not-a-fixed-point"
        else (match wire_tie (), chunk_tie () with
            | Some d, _ | None, Some d -> VDisagree d
            | None, None -> VOk (e.r_post <> None))
    end
  end else if kind = "RES" then begin
    let st = match one "S" i with Some v -> zint v | None -> z_of_int 200 in
    let m = { s_status = st; s_proto = hx "P" "HTTP/1.1"; s_cl = cl; s_te = te; s_hdrs = hdrs; s_body = body;
              s_cookies = List.map (cookie_of env) (all "ck" o) } in
    let ob = if obs = "ok" then Ok (hres_of env o "e") else Err in
    let rt = match one "rt" o with Some "ok" -> Some (hres_of env o "r") | _ -> None in
    let ce = hget k_ce hdrs in
    let why () =
      (* C16_guard_is_absence_of_known_defects: coding_case_b / zlib_b are exactly the failures of the guard *)
      if body = [] then "empty-body-with-content-encoding ce=" ^ str ce
      else if coding_case_b ce then "content-coding-case ce=" ^ str ce
      else if zlib_b x m then "deflate-zlib-format"
      else "unexplained" in
    if not (c16_res_ok x cap m ob rt) then begin
      match ob with
      | Err -> VPropfail ("response_dropped", why ())
      | Ok e ->
        (match int_of_nat (res_clause x cap m e rt) with
         | 1 ->
             let msgh = msg_headers [] m.s_cl m.s_te m.s_hdrs in
             let srt l = List.sort compare l in
             let d = List.filter_map (fun (n, b) -> if b then None else Some n)
                 [ ("status", e.e_status = m.s_status); ("httpVersion", e.e_proto = m.s_proto);
                   ("cookies", e.e_cookies = m.s_cookies); ("headers", srt e.e_headers = srt msgh);
                   ("redirectURL", e.e_redirect = redirect_of m.s_status m.s_hdrs);
                   ("mimeType", e.e_content.ct_mime = hget k_ct m.s_hdrs) ] in
             VPropfail ("fields_equal", "differs=" ^ String.concat "," d)
         | 2 -> VPropfail ("content_is_decoded_body", Printf.sprintf "%s capture=%b size=%s text=%s" (why ()) cap (dec_of_z e.e_content.ct_size) (short e.e_content.ct_text))
         | _ ->
             let explained = (match roundtrip_res x e, rt with
                 | Some p, Some r -> hres_eq p r && not (res_strings_b x e)
                 | _ -> false) in
             VPropfail ("json_roundtrip",
                        if explained then "non-utf8-string-replaced n=" ^ string_of_int (List.length nu)
                                          ^ " first=" ^ short (fst (List.hd nu))
                        else "unexplained-difference-after-json-round-trip"))
    end else
    let pred = har_res x op m in
    if not (res_sim hres_sim pred ob) then VDisagree ("model-entry-differs obs=" ^ obs ^ " model=" ^ (match pred with Ok _ -> "ok" | Err -> "err"))
    else begin
      match ob with
      | Err -> VOk false
      | Ok e ->
        let json_ok = match one "jct" o with
          | Some v ->
              (match parts v, marshal_content x e.e_content with
               | [sz; mi; t; en], Some j ->
                   j.jc_size = zint sz && j.jc_mime = bs env mi && j.jc_text = bs env t && j.jc_enc = bs env en
               | _ -> false)
          | None -> false in
        let rt_model_ok = match roundtrip_res x e, rt with
          | Some p, Some r -> hres_eq p r
          | None, None -> true
          | _ -> false in
        if not json_ok then VDisagree "model-json-content-differs"
        else if not rt_model_ok then VDisagree "model-roundtrip-differs"
        else if not (flag "fwd") then VDisagree "forwarded-body-changed-by-logging"
        else if not (flag "j2") then VDisagree "json-reparse-not-a-fixed-point"
        else (match wire_tie (), chunk_tie () with
            | Some d, _ | None, Some d -> VDisagree d
            | None, None -> VOk (cap && body <> []))
    end
  end else VDisagree "unknown-case-kind"

(* Bodies reach 1 MiB (3 MiB thorough) and the extracted list functions are
   not all tail recursive: re-run ourselves once with a large stack. *)
let () =
  match Sys.getenv_opt "C16_DRIVER_CHILD" with
  | Some _ -> run_driver judge
  | None ->
      let cmd = Printf.sprintf
          "ulimit -s unlimited 2>/dev/null || ulimit -s 4000000 2>/dev/null; C16_DRIVER_CHILD=1 exec %s"
          (Filename.quote Sys.executable_name) in
      exit (Sys.command cmd)
