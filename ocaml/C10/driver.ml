(* C10 driver: turns a harness script into environment labels of the
   extracted LTS, predicts the outcome with the extracted eager scheduler
   (model = repaired relay, cfg_fixed; cfg_orig only for the detail text),
   evaluates the extracted oracle c10_ok on the real observation.

   Hand-written and trusted here: the script->label translation including a
   small flow-control ledger (how many queued frames a frame lets through:
   the k of KOwn/KWin), the parsing of observations. *)

(* ---- flow-control ledger (per relay direction) ---- *)
type fc = {
  mutable conn_win : int;
  mutable init_win : int;
  mutable streams : (int * (int ref * int list ref)) list;  (* sid -> (window, queued sizes) *)
}

let new_fc () = { conn_win = 65535; init_win = 65535; streams = [] }

let stream fc sid =
  match List.assoc_opt sid fc.streams with
  | Some s -> s
  | None -> let s = (ref fc.init_win, ref []) in fc.streams <- fc.streams @ [ (sid, s) ]; s

(* emitEligibleFrames on one stream: number of frames let through *)
let emit fc sid =
  let (w, q) = stream fc sid in
  let n = ref 0 in
  let continue = ref true in
  while !continue do
    match !q with
    | z :: rest when z <= fc.conn_win && z <= !w ->
        fc.conn_win <- fc.conn_win - z; w := !w - z; q := rest; incr n
    | _ -> continue := false
  done;
  !n

let sweep fc = List.fold_left (fun acc (sid, _) -> acc + emit fc sid) 0 fc.streams

let enqueue fc sid z =
  let (_, q) = stream fc sid in
  q := !q @ [ z ];
  emit fc sid

let window_update fc sid inc =
  if sid = 0 then begin
    fc.conn_win <- fc.conn_win + inc;
    let a = sweep fc in
    let (w, _) = stream fc 0 in
    w := !w + inc;
    a + emit fc 0
  end else begin
    let (w, _) = stream fc sid in
    w := !w + inc;
    emit fc sid
  end

let set_init fc v =
  let delta = v - fc.init_win in
  fc.init_win <- v;
  List.iter (fun (_, (w, _)) -> w := !w + delta) fc.streams;
  sweep fc

(* ---- script -> labels ---- *)
type env = {
  c2s : fc;                 (* ledger of the client->server relay (direction Cl) *)
  s2c : fc;
  mutable started : bool;
  mutable over : bool;      (* the harness can no longer reach the relay's readers: ledger frozen *)
  mutable c_open : bool;
  mutable s_open : bool;
  mutable c_stalled : bool;   (* the harness holds writes toward the client (STC) *)
  mutable pf : (side * char * int) option;  (* scripted processor: direction, method, n-th call fails *)
  mutable pf_count : int;
  mutable grpc : bool;
}

let side_of c = if c = 'c' || c = 'C' then Cl else Sv
let own env x = match x with Cl -> env.c2s | Sv -> env.s2c
let peer env x = match x with Cl -> env.s2c | Sv -> env.c2s
let can_send env x = match x with Cl -> env.c_open | Sv -> env.s_open
let capk n = nat_of_int (min n 20000)

let labels_of_part (env : env) (p : string) : label list =
  let f = String.split_on_char ':' p in
  let arg i = try int_of_string (List.nth f i) with _ -> 0 in
  let hd = List.hd f in
  let send x k = if can_send env x then [ ESend (x, k) ] else [] in
  let rec times n g = if n <= 0 then [] else let a = g () in a @ times (n - 1) g in
  (* does the stream processor reject this call? (the frame then is a protocol error: KBad) *)
  let rejected x m =
    match env.pf with
    | Some (d, mm, n) when d = x && mm = m -> env.pf_count <- env.pf_count + 1; env.pf_count = n
    | _ -> false in
  match hd with
  | "STRESS" ->
      (* n idle sessions each ended by proxy shutdown: every one is this run of the model *)
      env.started <- true;
      [ IPreface true; ESend (Cl, KWin (true, O)); ESend (Sv, KWin (true, O)); EClosing ]
  | "PF" ->
      env.pf <- Some (side_of (List.nth f 1).[0], (List.nth f 2).[0], arg 3); []
  | "GRPC" -> env.grpc <- true; []
  | "chg" | "shg" ->
      let x = side_of hd.[0] in
      if not (can_send env x) then [] else
      if rejected x 'H' then send x KBad else
      let k = enqueue (own env x) (arg 1) 0 in send x (KOwn (false, capk k))
  | "cdok" | "sdok" ->
      let x = side_of hd.[0] in
      if not (can_send env x) then [] else
      if rejected x 'D' then send x KDataBad else
      let k = enqueue (own env x) (arg 1) 8 in send x (KOwn (true, capk k))
  | "cdbad" | "sdbad" ->
      let x = side_of hd.[0] in
      if not (can_send env x) then [] else
      if env.grpc || rejected x 'D' then send x KDataBad
      else let k = enqueue (own env x) (arg 1) 10 in send x (KOwn (true, capk k))
  | "spp" ->
      if not (can_send env Sv) then [] else
      if rejected Sv 'P' then send Sv KBad else
      let k = enqueue (own env Sv) (arg 1) 0 in send Sv (KOwn (false, capk k))
  | "sst" | "cst" | "sga" | "cga" -> send (side_of hd.[0]) KDirect
  | "RFC" -> let r = if env.c_open then [ EHalf Cl ] else [] in env.c_open <- false; r
  | "hs" ->
      env.started <- true;
      let kc = set_init env.s2c (arg 1) in   (* the client's SETTINGS govern server->client *)
      let ks = set_init env.c2s (arg 2) in
      [ IPreface true; ESend (Cl, KWin (true, capk kc)); ESend (Sv, KWin (true, capk ks));
        ESend (Sv, KDirect); ESend (Cl, KDirect) ]
  | "badpre" -> [ IPreface false ]
  | "ch" | "sh" ->
      let x = side_of hd.[0] in
      if not (can_send env x) then [] else
      if rejected x 'H' then send x KBad else
      let k = enqueue (own env x) (arg 1) 0 in send x (KOwn (false, capk k))
  | "cd" | "sd" ->
      let x = side_of hd.[0] in
      if not (can_send env x) then [] else
      times (arg 2) (fun () ->
          if rejected x 'D' then send x KDataBad
          else begin
            (* relay.data splits a payload larger than the peer's max frame size (16384 here) and runs
               lock / enqueue / emit / unlock once per chunk; only the first chunk is preceded by the credit write *)
            let len = arg 3 in
            let rec chunks first rem =
              if rem <= 0 && not first then []
              else begin
                let z = min rem 16384 in
                let k = enqueue (own env x) (arg 1) z in
                let l = send x (KOwn (first && len > 0, capk k)) in
                l @ chunks false (rem - z - (if z = 0 then 1 else 0))
              end in
            chunks true len
          end)
  | "cr" | "sr" ->
      let x = side_of hd.[0] in
      if not (can_send env x) then [] else
      times (arg 2) (fun () ->
          if rejected x 'R' then send x KBad
          else let k = enqueue (own env x) (arg 1) 0 in send x (KOwn (false, capk k)))
  | "cw" | "sw" ->
      let x = side_of hd.[0] in
      if not (can_send env x) then [] else
      let k = window_update (peer env x) (arg 1) (arg 2) in send x (KWin (false, capk k))
  | "chb" | "shb" | "cpb" | "spb" ->
      (* an invalid header block, whatever its carrier: the fragments before the last only fill headerBuffer
         (no lock, no write: no label); the frame with END_HEADERS is the protocol error *)
      send (side_of hd.[0]) KBad
  | "CQ1" | "CQ2" | "CQ3" | "SQ1" | "SQ2" | "SQ3"
  | "CW1" | "CW2" | "CW3" | "CW4" | "CW5" | "SW1" | "SW2" | "SW3" | "SW4" | "SW5" -> send (side_of hd.[0]) KBad
  | "cmf" | "smf" ->
      (* SETTINGS_MAX_FRAME_SIZE: outside [16384, 2^24-1] processFrame returns a connection error; a legal value is
         forwarded (no window entry in these frames: no sweep) *)
      let v = try int_of_string (List.nth f 1) with _ -> -1 in
      if v < 16384 || v > 16777215 then send (side_of hd.[0]) KBad else send (side_of hd.[0]) KDirect
  | "cp" | "sp" -> send (side_of hd.[0]) KDirect
  | "CE1" | "CE2" | "CE3" | "SE1" | "SE2" | "SE3" -> send (side_of hd.[0]) KBad
  | "CC" ->
      env.c_open <- false;
      if not env.started then [ EClose Cl; IPreface false ]
      else if env.c_stalled then [ EHalf Cl ]   (* the gate keeps the pending write blocked: only reads see the close *)
      else [ EClose Cl ]
  | "HC" -> let r = if env.c_open then [ EHalf Cl ] else [] in env.c_open <- false; r
  | "STC" -> env.c_stalled <- true; [ EStall Cl ]
  | "STS" -> [ EStall Sv ]
  | "FH" -> let r = if env.s_open then [ EHalf Sv ] else [] in env.s_open <- false; r
  | "FR" -> env.s_open <- false; [ EClose Sv ]
  | "SC" -> let r = if env.s_open then [ EHalf Sv ] else [] in env.s_open <- false; r
  | "SR" -> env.s_open <- false; [ EClose Sv ]
  | "WFC" -> [ EWriteFail Cl ]
  | "CL" -> [ EClosing ]
  | _ -> failwith ("bad script op " ^ p)

let ops_of_script (toks : string list) : label list list =
  let env = { c2s = new_fc (); s2c = new_fc (); started = false; over = false; c_open = true; s_open = true; c_stalled = false; pf = None; pf_count = 0; grpc = false } in
  List.map (fun op -> List.concat (List.map (labels_of_part env) (String.split_on_char '+' op))) toks

(* ---- observations ---- *)
let names = [ "MAIN"; "RSEL"; "REMIT"; "RLOCK"; "RDONE"; "ROTHER"; "W"; "RF" ]

let parse_g (g : string) : (string * int) list =
  if g = "-" then [] else
  List.map (fun t ->
      let n = String.length t in
      let i = ref n in
      while !i > 0 && t.[!i - 1] >= '0' && t.[!i - 1] <= '9' do decr i done;
      (String.sub t 0 !i, int_of_string (String.sub t !i (n - !i))))
    (String.split_on_char ',' g)

let census_named (s : state) : (string * int) list =
  List.filter (fun (_, n) -> n > 0) (List.map2 (fun nm n -> (nm, int_of_nat n)) names (census s))

let show_g l = if l = [] then "-" else String.concat "," (List.map (fun (n, c) -> n ^ string_of_int c) (List.sort compare l))

let field outs key =
  let p = key ^ "=" in
  let n = String.length p in
  match List.find_opt (fun t -> String.length t >= n && String.sub t 0 n = p) outs with
  | Some t -> String.sub t n (String.length t - n)
  | None -> failwith ("missing OUT field " ^ key)

let bits l = String.concat "" (List.map (fun b -> if b then "1" else "0") l)

let describe (c : cfg) (ops : label list list) =
  let ((fl, s), ok) = predict c init ops in
  let o = obs_of s in
  (fl, s, ok, Printf.sprintf "ret=%s fin=%d eof=%d g=%s" (bits fl) (if o.o_returned then 1 else 0)
     (if o.o_upstream_eof then 1 else 0) (show_g (census_named s)))

let drop_eof (s : string) : string =
  String.concat " " (List.filter (fun t -> not (String.length t >= 4 && String.sub t 0 4 = "eof=")) (String.split_on_char ' ' s))

let judge _name ins outs =
  if outs = [ "child-failed" ] || outs = [ "setup-failed" ] then VDisagree "harness-child-failed"
  else begin
    let ops = ops_of_script ins in
    let (fl, s, ok, want) = describe cfg_fixed ops in
    if not ok then VDisagree "model-out-of-fuel(theorem C10_internal_steps_terminate broken?)"
    else begin
      let ret = field outs "ret" and fin = field outs "fin" = "1" and eof = field outs "eof"
      and g = parse_g (field outs "g") and err = field outs "err" in
      let total = List.fold_left (fun a (_, n) -> a + n) 0 g in
      let got = Printf.sprintf "ret=%s fin=%d eof=%s g=%s" ret (if fin then 1 else 0) eof (show_g g) in
      let (_, _, _, as_orig) = describe cfg_orig ops in
      let strip_eof s = if eof = "-" then drop_eof s else s in
      let like_orig = (strip_eof as_orig = strip_eof got) in
      let detail clause_txt =
        Printf.sprintf "%s;observed:%s;repaired-model:%s;unrepaired-model:%s;observation-equals-unrepaired-model=%b"
          clause_txt (String.map (fun c -> if c = ' ' then '_' else c) got)
          (String.map (fun c -> if c = ' ' then '_' else c) want)
          (String.map (fun c -> if c = ' ' then '_' else c) as_orig) like_orig in
      if err = "PANIC" then VPropfail ("no_panic", detail "Proxy-panicked")
      else if c10_applicable s then begin
        (* a session-ending event has happened and no write is held up by a peer that stopped reading
           (C10_applicable_iff: the hypotheses of C10_returns): the extracted verdict decides
           (C10_verdict_ok_iff / C10_verdict_propfail_sound) *)
        let count nm = List.fold_left (fun a (n, c) -> if n = nm then a + c else a) 0 g in
        let known = List.fold_left (fun a nm -> a + count nm) 0 names in
        let census = List.map (fun nm -> nat_of_int (count nm + (if nm = "ROTHER" then total - known else 0))) names in
        let raw = { r_fin = fin; r_eof = (if eof = "-" then None else Some (eof = "1")); r_census = census } in
        match c10_verdict raw with
        | None ->
            if bits fl <> ret then VDisagree (detail "per-op-return-flags-differ-from-model")
            else VOk true
        | Some CReturns -> VPropfail ("returns", detail "Proxy-did-not-return-within-T-after-a-session-ending-event")
        | Some CUpstreamClosed ->
            VPropfail ("upstream_closed", detail "Proxy-returned-but-the-upstream-connection-it-dialled-was-not-closed(server-saw-no-EOF)")
        | Some CNoBlockedGoroutine ->
            if not fin then
              VPropfail ("no_blocked_goroutine", detail "Proxy-did-not-return:a-reader-is-blocked-sending-into-the-output-channel-of-a-direction-whose-writer-has-gone(holding-flowMu)")
            else VPropfail ("no_blocked_goroutine", detail "Proxy-returned-but-session-goroutines-remain")
      end else begin
        (* nothing has ended the session, or a peer that stopped reading still holds a write up:
           the property is silent; the relay must behave as the model *)
        let want_g = census_named s in
        if bits fl <> ret || (obs_of s).o_returned <> fin || List.sort compare want_g <> List.sort compare g
        then VDisagree (detail "control-scenario-differs-from-model")
        else VOk false
      end
    end
  end

let () = run_driver judge
