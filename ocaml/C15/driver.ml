(* C15 driver: rebuilds the original / after / re-parsed message from the
   harness tokens, evaluates the extracted property oracle c15_ok on the real
   observation, then compares the extracted model (snapshot bytes, offsets,
   message left behind, records, parse_spec) with the observation. *)

exception Unrep of string

let split1 (c : char) (s : string) : string * string =
  match String.index_opt s c with
  | Some i -> (String.sub s 0 i, String.sub s (i + 1) (String.length s - i - 1))
  | None -> (s, "")

let kv_of (s : string) : char list * char list =
  let (k, v) = split1 ':' s in
  (chars_of_hex k, chars_of_hex v)

(* body tokens: x<hex> | #<sha256>:<len> (projection of big bodies), optional !<err> *)
let lenient = ref false   (* failing body source: a body token may carry !<err> *)
let bytes_tok (t : string) : char list =
  let t = if !lenient then fst (split1 '!' t) else t in
  if String.contains t '!' then raise (Unrep t)
  else if String.length t > 0 && t.[0] = '#' then chars_of_string t
  else chars_of_hex t

let is_big (t : string) = String.length t > 0 && t.[0] = '#'

let toks_with (p : string) (outs : string list) : (string * string) list =
  let pl = String.length p in
  List.filter_map (fun t ->
      if String.length t > pl && String.sub t 0 pl = p then
        Some (split1 '=' (String.sub t pl (String.length t - pl)))
      else None) outs

let get (l : (string * string) list) (k : string) : string =
  match List.assoc_opt k l with Some v -> v | None -> raise (Unrep ("missing " ^ k))

let all (l : (string * string) list) (k : string) : string list =
  List.filter_map (fun (k', v) -> if k' = k then Some v else None) l

(* returns the message and the declared-only trailer keys *)
let msg_of (isreq : bool) (p : string) (outs : string list) : msg * string list =
  let l = toks_with (p ^ ".") outs in
  if List.mem_assoc "panic" l then raise (Unrep "panic");
  let te = match get l "te" with "0" -> false | "1" -> true | x -> raise (Unrep ("te=" ^ x)) in
  let nb = match get l "nb" with "0" -> false | "1" -> true | x -> raise (Unrep ("nb=" ^ x)) in
  let tr = match get l "tr" with
    | "nil" -> None
    | _ -> Some (List.map kv_of (all l "t")) in
  ({ m_isreq = isreq; m_start = chars_of_hex (get l "st"); m_host = chars_of_hex (get l "ho");
     m_te = te; m_cl = z_of_dec (get l "cl"); m_hdrs = List.map kv_of (all l "h");
     m_nobody = nb; m_body = bytes_tok (get l "bd"); m_trailers = tr },
   all l "td")

let cts_of (s : string) : char list list =
  if s = "-" || s = "" then [] else List.map chars_of_string (String.split_on_char ',' s)

let logger_of (s : string) : logger =
  match String.split_on_char ':' s with
  | ["snap"; sb; c] -> LSnap { o_skipbody = (sb = "1"); o_cts = cts_of c }
  | ["har"; "on"] -> LHar CapOn
  | ["har"; "off"] -> LHar CapOff
  | ["har"; "only"; c] -> LHar (CapOnly (cts_of c))
  | ["har"; "skipct"; c] -> LHar (CapSkip (cts_of c))
  | ["marbl"] -> LMarbl
  | ["text"; ho; d] -> LText (ho = "1", d = "1")
  | _ -> failwith ("bad logger " ^ s)

let show (b : char list) : string =
  let s = string_of_chars b in
  if String.length s > 160 then String.escaped (String.sub s 0 160) ^ "..." else String.escaped s

let show_msg (m : msg) : string =
  Printf.sprintf "{te=%b,cl=%s,nobody=%b,body=%d,hdrs=%d,trailers=%s}" m.m_te (dec_of_z m.m_cl) m.m_nobody
    (List.length m.m_body) (List.length m.m_hdrs)
    (match m.m_trailers with None -> "nil" | Some t -> string_of_int (List.length t))

let sp (s : string) = String.map (fun c -> if c = ' ' || c = '\n' || c = '\t' then '_' else c) s

let judge _name ins outs =
  match outs with
  | [t] when String.length t >= 5 && String.sub t 0 5 = "perr=" -> VOk false
  | t :: _ when String.length t >= 7 && String.sub t 0 7 = "badcase" -> VDisagree ("harness:" ^ t)
  | _ ->
  if List.mem "STALL" outs then
    VPropfail ("forwarding_not_blocked_by_logger",
               "the-exchange-or-the-next-one-through-the-same-logger-did-not-finish-within-the-watchdog-limit") else
  if List.mem "PANIC" outs then VPropfail ("logger_error", "harness-level-panic") else
  let isreq = (match ins with "REQ" :: _ -> true | "RES" :: _ -> false | _ -> failwith "kind") in
  let srcfail = List.mem "srcfail=1" outs in
  lenient := srcfail;
  let ga = toks_with "" ins in
  let lg = logger_of (get ga "lg") in
  let skip = (get ga "skip" = "1") in
  let go = toks_with "" outs in
  let (m, td_o) = msg_of isreq "o" outs in
  (* any projected (hashed) token: oracle only, no byte-level model comparison *)
  let big = List.exists (fun t -> String.contains t '#') outs in
  (* ---------------- observation ---------------- *)
  let after = (try Some (msg_of isreq "a" outs) with Unrep _ -> None) in
  (match after with
   | None -> VPropfail ("forwarded_unchanged", "message-unreadable-after-logging")
   | Some (am0, td_a) ->
  (* failing body source: which body bytes each twin still yields is judged by
     the harness on the serialised outcome (fwd=); the fields are compared
     with the body taken out *)
  let am = if srcfail then set_body am0 am0.m_nobody m.m_body else am0 in
  let sl = toks_with "s." outs in
  let sec_err = List.exists (fun (_, v) -> String.contains v '!') (List.filter (fun (k, _) -> k <> "dec") sl) in
  let sections =
    if sl = [] || sec_err then None
    else
      let full = get sl "full" in
      let fullb = (match String.split_on_char '|' full with
          | [a; mid; c] -> chars_of_hex a @ bytes_tok mid @ chars_of_hex c
          | _ -> bytes_tok full) in
      Some (((chars_of_hex (get sl "h"), bytes_tok (get sl "b")), chars_of_hex (get sl "t")), fullb) in
  let full_expected = (match model_reparse lg m with Some _ -> true | None -> false) in
  let rl = toks_with "r." outs in
  let reparse_obs =
    if rl = [] then None
    else if List.mem_assoc "err" rl then Some None
    else (try Some (Some (fst (msg_of isreq "r" outs))) with Unrep _ -> Some None) in
  let ob_reparse = if full_expected then reparse_obs else None in
  let cls = (match List.assoc_opt "dc" go with
      | Some "open" -> DecFailOpen | Some "read" -> DecFailRead | _ -> DecOk) in
  let rec_n = int_of_string (get go "rec") in
  let err = get go "err" in
  let startline = (match List.assoc_opt "sl" go with
      | Some t -> let (a, b) = split1 ':' t in Some (chars_of_hex a, chars_of_hex b)
      | None -> None) in
  (* "forwarded the same" = the harness's comparison of the two Write() outcomes
     and the trailer keys announced without a value (not part of msg) unchanged *)
  let o = { ob_after = am; ob_fwd_same = (get go "fwd" = "1") && td_o = td_a; ob_sections = sections;
            ob_reparse = ob_reparse; ob_records = nat_of_int rec_n; ob_err = (err <> "0");
            ob_src_failed = srcfail; ob_startline = startline } in
  (* ---------------- property oracle on the real observation ---------------- *)
  if sec_err then VPropfail ("sections_partition", "reading-a-section-failed") else
  if not (forwarded_ok m o) then
    VPropfail ("forwarded_unchanged",
               sp (Printf.sprintf "%s orig=%s after=%s wire-same=%s unlogged-framing=%s logged-framing=%s"
                     (if srcfail && get go "fwd" = "0" then
                        Printf.sprintf "failing-body-source unlogged:err=%s,complete=%s logged:err=%s,complete=%s"
                          (get go "uwerr") (get go "ucomplete") (get go "lwerr") (get go "lcomplete") else
                      if List.mem "conc=0" outs then "concurrent-run-differs-from-sequential" else
                      if msg_eqb m am && td_o = td_a then "fields=same"
                      else if msg_eqb (set_body m am.m_nobody m.m_body) am && td_o = td_a then "only-nobody-flag-differs"
                      else "fields=differ")
                     (show_msg m) (show_msg am) (get go "fwd") (get go "ufr") (get go "lfr")))
  else if not (sections_ok o) then VPropfail ("sections_partition", "hdr++body++trailer<>message")
  else if not (startline_ok o) then
    VPropfail ("start_line",
               sp (match startline with
                   | Some (a, b) -> "snapshot=" ^ show a ^ " forwarded/received=" ^ show b
                   | None -> "?"))
  else if not (reparse_ok m o) then
    VPropfail ("snapshot_parseable",
               sp (match reparse_obs with
                   | Some None -> "reparse-error=" ^ (try get rl "err" with _ -> "body") ^ " snapshot-tail=" ^
                                  (match sections with Some (_, f) ->
                                     let n = List.length f in show (List.filteri (fun i _ -> i >= n - 24) f) | None -> "?")
                   | Some (Some r) -> "reparsed=" ^ show_msg (canon r) ^ " want=" ^ show_msg (canon m)
                   | None -> "?"))
  else if not (skip_ok skip o) then
    VPropfail ("skip_means_unrecorded", Printf.sprintf "records=%d" rec_n)
  else if srcfail then begin
    (* the logger that reads the body itself reports the source's error; nobody else errs *)
    let want = reads_body lg skip m in
    if o.ob_err <> want then
      VDisagree (Printf.sprintf "failing-body-source logger-error model=%b real=%s" want err)
    else VOk true
  end
  else if o.ob_err then
    VPropfail ("logger_error",
               "err=" ^ err ^ (if logger_errors lg skip cls m then "_model=expects-error" else "_model=expects-none"))
  else if logger_errors lg skip cls m then VDisagree "model-expects-a-logger-error-real-returned-none"
  else if not (c15_ok skip m o) then VDisagree "oracle-conjunction-inconsistent"
  else
  (* ---------------- model vs implementation ---------------- *)
  let nontrivial = (m.m_body <> [] || m.m_te) in
  if big then VOk nontrivial else
  let (mm, recs) = run_logger lg skip m in
  if not (msg_eqb mm am) then VDisagree (sp ("model-after=" ^ show_msg mm ^ " real-after=" ^ show_msg am))
  else if List.length recs <> rec_n then
    VDisagree (Printf.sprintf "records model=%d real=%d" (List.length recs) rec_n)
  else
  let cap_bad =
    (match recs, List.assoc_opt "cap" go with
     | [RHar c], Some ("0" | "1" as t) ->
         if c = (t = "1") then None
         else Some (Printf.sprintf "har-body-capture model=%b real=%s" c t)
     | _, _ -> None) in
  if cap_bad <> None then VDisagree (match cap_bad with Some d -> sp d | None -> "") else
  let ce = header_get kCE m.m_hdrs in
  let text_bad =
    (match recs, List.assoc_opt "text" go with
     | [RText c], Some t ->
         let dec = (match lg with LText (_, d) -> d | _ -> false) in
         if dec && ce <> [] then None
         else if String.contains t '!' then Some ("text-shape " ^ t)
         else (match c with
               | Some want -> if bytes_eqb want (bytes_tok t) then None
                              else Some ("logged-text model=" ^ show want ^ " real=" ^ show (bytes_tok t))
               | None -> Some "model-reader-failed")
     | [RText _], None -> Some "no-text-token"
     | _, _ -> None) in
  (match text_bad with Some d -> VDisagree (sp d) | None ->
  let sec_bad =
    (match model_sections lg m, sections with
     | Some (((h, b), t), f), Some (((h', b'), t'), f') ->
         if bytes_eqb h h' && bytes_eqb b b' && bytes_eqb t t' && bytes_eqb f f' then None
         else begin
           let legacy = (match model_sections_legacy lg m with
               | Some (((lh, lb), lt), lf) -> bytes_eqb lh h' && bytes_eqb lb b' && bytes_eqb lt t' && bytes_eqb lf f'
               | None -> false) in
           Some (Printf.sprintf "snapshot-bytes%s model-tail=%s real-tail=%s"
                   (if legacy then "(real=legacy-model)" else "")
                   (let n = List.length f in show (List.filteri (fun i _ -> i >= n - 24) f))
                   (let n = List.length f' in show (List.filteri (fun i _ -> i >= n - 24) f')))
         end
     | None, None -> None
     | Some _, None -> Some "model-has-view-real-none"
     | None, Some _ -> (match lg with LSnap _ -> Some "model-slicing-panics" | _ -> None)) in
  (match sec_bad with Some d -> VDisagree (sp d) | None ->
  let dec_bad =
    (match sections, List.assoc_opt "dec" sl with
     | Some (((_, b), _), _), Some d when ce = [] ->
         let (dd, derr) = split1 '!' d in
         let (want, st) = body_decoded (fst (snapshot default_opts m)) b in
         if st = DNoFuel then Some "model-dechunk-out-of-fuel"
         else if (st = DBad) <> (derr <> "") then Some ("decode-status model-ok=" ^ string_of_bool (st = DDone) ^ " real-err=" ^ derr)
         else if bytes_eqb want (bytes_tok dd) then None else Some "decoded-body-differs"
     | _, _ -> None) in
  (match dec_bad with Some d -> VDisagree (sp d) | None ->
  let rp_bad =
    (* parse_spec has no notion of "response that cannot carry a body" (answer
       to HEAD, 1xx, 204, 304): Go's reader, given the request, does not look
       for one.  Those messages are compared through the oracle only. *)
    let bodyless = List.exists (fun t -> t = "QHEAD" || t = "S204" || t = "S304"
                                         || (String.length t = 4 && t.[0] = 'S' && t.[1] = '1')) ins in
    if wf_b m && full_expected && not bodyless then
      (match model_reparse lg m, reparse_obs with
       | Some pm, Some po ->
           let c = function Some x -> Some (canon x) | None -> None in
           (match c pm, c po with
            | Some a, Some b -> if msg_eqb a b then None else Some ("parse_spec=" ^ show_msg a ^ " go=" ^ show_msg b)
            | None, None -> None
            | Some _, None -> Some "parse_spec-accepts-go-rejects"
            | None, Some _ -> Some "parse_spec-rejects-go-accepts")
       | _, _ -> None)
    else None in
  (match rp_bad with Some d -> VDisagree (sp d) | None -> VOk nontrivial)))))

let () = run_driver judge
