(* C20 driver: rebuilds the inputs and the observed result of each case,
   evaluates the extracted property oracle (c20_body_ok / c20_static_ok) on
   the REAL observation, then compares the extracted model's prediction. *)

exception Table_miss of string
exception Toobig

let str cs = String.escaped (string_of_chars cs)
let z = z_of_int

let kv (outs : string list) : (string * string) list * string list =
  (* leading key=value tokens, then the result tokens *)
  let rec go acc = function
    | t :: r when String.contains t '=' ->
        let i = String.index t '=' in
        go ((String.sub t 0 i, String.sub t (i + 1) (String.length t - i - 1)) :: acc) r
    | r -> (List.rev acc, r) in
  go [] outs

let parse_part (t : string) : part =
  match String.split_on_char ':' t with
  | [ct; cr; d] -> { p_ctype = chars_of_hex ct; p_crange = chars_of_hex cr; p_data = chars_of_hex d }
  | _ -> failwith ("bad part " ^ t)

let parse_result (toks : string list) : result =
  match toks with
  | ["PANIC"] | ["CRASH"] -> RPanic
  | ["ERR"; st] -> RErr (z_of_dec st)
  | ["RERR"; _] -> RErr Z0
  | ["SO"; st] -> RStatusOnly (z_of_dec st)
  | ["DIR"; _] -> RDir
  | "R" :: st :: cl :: ct :: cr :: body :: parts ->
      if body = "TOOBIG" then raise Toobig;
      let ps = match parts with
        | ["-"] -> None
        | ["MBAD"] -> Some []
        | m :: ps when String.length m > 0 && m.[0] = 'M' -> Some (List.map parse_part ps)
        | _ -> failwith "bad parts" in
      Resp { r_status = z_of_dec st; r_clen = z_of_dec cl; r_ctype = chars_of_hex ct;
             r_crange = chars_of_hex cr; r_body = chars_of_hex body; r_parts = ps }
  | _ -> failwith ("bad result: " ^ String.concat " " toks)

let pr_result = function
  | RPanic -> "PANIC"
  | RErr st -> "ERR:" ^ dec_of_z st
  | RStatusOnly st -> "STATUS-ONLY:" ^ dec_of_z st
  | RDir -> "DIR"
  | Resp r ->
      Printf.sprintf "status=%s,clen=%s,ctype=\"%s\",crange=\"%s\",bodylen=%d,parts=%s"
        (dec_of_z r.r_status) (dec_of_z r.r_clen) (str r.r_ctype) (str r.r_crange)
        (List.length r.r_body)
        (match r.r_parts with None -> "-" | Some ps ->
           "[" ^ String.concat ";" (List.map (fun p -> str p.p_crange ^ "/" ^ string_of_int (List.length p.p_data)) ps) ^ "]")

let mk_lower (hdr : char list) (low : char list) : char list -> char list =
  fun h -> if h = hdr then low
    else if all_ascii h then ascii_lower h
    else failwith "lower: no table entry"

let boundary_of (o : result) : char list =
  match o with
  | Resp r ->
      let pre = chars_of_string "multipart/byteranges; boundary=" in
      if has_prefix pre r.r_ctype then
        let rec drop n l = if n = 0 then l else match l with [] -> [] | _ :: t -> drop (n - 1) t in
        drop (List.length pre) r.r_ctype
      else []
  | _ -> []

(* the clause identifier is chosen by the extracted serve_clause / static_clause
   (Proofs_Oracle.v: serve_clause_sound, static_clause_sound say what each means) *)
let clause_name = function
  | CNeverPanics -> "never_panics"
  | CFullOr206Or416 -> "full_or_206_or_416"
  | C206ExactBytes -> "206_exact_bytes"
  | CNeverOutsideContent -> "never_outside_content"
  | CPathUnderRoot -> "path_under_root"

let hdr_of (t : string) = if t = "-" then [] else chars_of_hex t

let judge_body ins outs =
  match ins, outs with
  | _, ["BADREQ"] -> VOk false
  | [_; content; ct; st0; _], _ ->
      let content = chars_of_hex content and ct = chars_of_hex ct and st0 = z_of_dec st0 in
      let (env, rest) = kv outs in
      let hdr = chars_of_hex (List.assoc "hdr" env) and low = chars_of_hex (List.assoc "low" env) in
      if all_ascii hdr && ascii_lower hdr <> low then VDisagree "strings.ToLower differs from ascii_lower on an ASCII header" else
      let lower = mk_lower hdr low in
      (match (try Some (parse_result rest) with Toobig -> None) with
       | None -> VPropfail ("never_outside_content", "body longer than 1 MiB for content of " ^ string_of_int (List.length content) ^ " bytes")
       | Some obs ->
           let want = body_resp lower content ct (boundary_of obs) st0 hdr in
           (match serve_clause lower content ct st0 hdr obs with
            | Some c ->
             VPropfail (clause_name c,
                        Printf.sprintf "size=%d range=\"%s\" got{%s} repaired-model{%s}"
                          (List.length content) (str hdr) (pr_result obs) (pr_result want))
            | None ->
           if not (result_eqb want obs) then
             VDisagree (Printf.sprintf "body size=%d range=\"%s\" got{%s} model{%s}"
                          (List.length content) (str hdr) (pr_result obs) (pr_result want))
           else VOk (hdr <> [])))
  | _ -> VDisagree "bad BODY case"

let judge_static ins outs =
  match ins, outs with
  | _, ["BADREQ"] -> VOk false
  | [_; _mode; _target; st0; _; ex], _ ->
      let st0 = z_of_dec st0 in
      let (env, rest) = kv outs in
      let hdr = chars_of_hex (List.assoc "hdr" env) and low = chars_of_hex (List.assoc "low" env) in
      let urlpath = chars_of_hex (List.assoc "path" env) in
      if all_ascii hdr && ascii_lower hdr <> low then VDisagree "strings.ToLower differs from ascii_lower on an ASCII header" else
      let lower = mk_lower hdr low in
      let (key, res) =
        match String.split_on_char ':' (List.assoc "fs" env) with
        | [k; "notexist"] -> (chars_of_hex k, FNotExist)
        | [k; "perm"] -> (chars_of_hex k, FPerm)
        | [k; "other"] -> (chars_of_hex k, FOther)
        | [k; "dir"] -> (chars_of_hex k, FDir)
        | [k; "file"; d; ct] -> (chars_of_hex k, FFile (chars_of_hex d, chars_of_hex ct))
        | _ -> failwith "bad fs token" in
      let fs p = if p = key then res else raise (Table_miss (string_of_chars p)) in
      let explicit =
        if ex = "E-" then [] else
        match String.split_on_char ':' (String.sub ex 1 (String.length ex - 1)) with
        | [k; v] -> [(chars_of_hex k, chars_of_hex v)]
        | _ -> failwith "bad explicit token" in
      let root = chars_of_string "/R" in
      (match (try Some (parse_result rest) with Toobig -> None) with
       | None -> VPropfail ("never_outside_content", "body longer than 1 MiB")
       | Some obs0 ->
           (* a directory is outside the property: only "no bytes were served" is kept *)
           let obs = match res, obs0 with
             | FDir, (RErr _ | RDir | RStatusOnly _) -> RDir
             | FDir, Resp r when r.r_body = [] -> RDir
             | (FPerm | FOther), RErr _ -> obs0
             | _ -> obs0 in
           (try
              let want = static_resp lower fs root explicit (boundary_of obs) st0 urlpath hdr in
              let want = match res, want with (FPerm | FOther), RErr _ -> obs | _ -> want in
              match static_clause lower fs root explicit st0 urlpath hdr obs with
              | Some c ->
                VPropfail (clause_name c,
                           Printf.sprintf "path=\"%s\" resolves-to=\"%s\" range=\"%s\" got{%s} repaired-model{%s}"
                             (str urlpath) (str key) (str hdr) (pr_result obs) (pr_result want))
              | None ->
              if not (result_eqb want obs) then
                VDisagree (Printf.sprintf "static path=\"%s\" range=\"%s\" got{%s} model{%s}"
                             (str urlpath) (str hdr) (pr_result obs) (pr_result want))
              else VOk (match res with FFile _ -> hdr <> [] | FNotExist -> true | _ -> false)
            with Table_miss p ->
              VDisagree (Printf.sprintf "path: model resolves \"%s\" to \"%s\", filepath.Join/Clean to \"%s\""
                           (str urlpath) (String.escaped p) (str key))))
  | _ -> VDisagree "bad STATIC case"

(* ROOT cases: the configured root is an input; the model keeps
   configured_root raw (= path.Clean) as static.NewModifier does *)
let judge_root ins outs =
  match ins, outs with
  | _, ["BADREQ"] -> VOk false
  | [_; _via; _; _; st0; _], _ ->
      let st0 = z_of_dec st0 in
      let (env, rest) = kv outs in
      let hdr = chars_of_hex (List.assoc "hdr" env) and low = chars_of_hex (List.assoc "low" env) in
      let urlpath = chars_of_hex (List.assoc "path" env) in
      let rawroot = chars_of_hex (List.assoc "root" env) in
      let lower = mk_lower hdr low in
      let (key, res) =
        match String.split_on_char ':' (List.assoc "fs" env) with
        | [k; "notexist"] -> (chars_of_hex k, FNotExist)
        | [k; "perm"] -> (chars_of_hex k, FPerm)
        | [k; "other"] -> (chars_of_hex k, FOther)
        | [k; "dir"] -> (chars_of_hex k, FDir)
        | [k; "file"; d; ct] -> (chars_of_hex k, FFile (chars_of_hex d, chars_of_hex ct))
        | _ -> failwith "bad fs token" in
      let fs p = if p = key then res else raise (Table_miss (string_of_chars p)) in
      (match (try Some (parse_result rest) with Toobig -> None) with
       | None -> VPropfail ("never_outside_content", "body longer than 1 MiB")
       | Some obs0 ->
           let obs = match res, obs0 with
             | FDir, (RErr _ | RDir | RStatusOnly _) -> RDir
             | FDir, Resp r when r.r_body = [] -> RDir
             | _ -> obs0 in
           (try
              let want = static_resp_cfg lower fs rawroot [] (boundary_of obs) st0 urlpath hdr in
              let want = match res, want with (FPerm | FOther), RErr _ -> obs | _ -> want in
              match static_clause_cfg lower fs rawroot [] st0 urlpath hdr obs with
              | Some c ->
                  VPropfail (clause_name c,
                             Printf.sprintf "root=\"%s\" (kept as \"%s\") path=\"%s\" must-resolve-to=\"%s\" range=\"%s\" got{%s} model{%s}"
                               (str rawroot) (str (configured_root rawroot)) (str urlpath) (str key) (str hdr)
                               (pr_result obs) (pr_result want))
              | None ->
                  if not (result_eqb want obs) then
                    VDisagree (Printf.sprintf "root=\"%s\" path=\"%s\" range=\"%s\" got{%s} model{%s}"
                                 (str rawroot) (str urlpath) (str hdr) (pr_result obs) (pr_result want))
                  else VOk true
            with Table_miss p ->
              VDisagree (Printf.sprintf "root=\"%s\" path: model resolves \"%s\" to \"%s\", path.Clean+filepath.Join to \"%s\""
                           (str rawroot) (str urlpath) (String.escaped p) (str key))))
  | _ -> VDisagree "bad ROOT case"

let judge_std ins outs =
  let a i = chars_of_hex (List.nth ins i) in
  match ins, outs with
  | ["CLEAN"; _], [o] ->
      if clean (a 1) = chars_of_hex o then VOk true
      else VDisagree (Printf.sprintf "clean \"%s\": model \"%s\" filepath.Clean \"%s\"" (str (a 1)) (str (clean (a 1))) (str (chars_of_hex o)))
  | ["JOIN"; _; _], [o] ->
      if join2 (a 1) (a 2) = chars_of_hex o then VOk true
      else VDisagree (Printf.sprintf "join \"%s\" \"%s\": model \"%s\" filepath.Join \"%s\"" (str (a 1)) (str (a 2)) (str (join2 (a 1) (a 2))) (str (chars_of_hex o)))
  | ["ATOI"; _], [o] ->
      let want = if o = "E" then None else Some (z_of_dec o) in
      if atoi (a 1) = want then VOk true
      else VDisagree (Printf.sprintf "atoi \"%s\": strconv.Atoi says %s" (str (a 1)) o)
  | ["TRIM"; _], [t; l] ->
      if trim_space (chars_of_hex l) = chars_of_hex t then VOk true
      else VDisagree (Printf.sprintf "trim_space \"%s\": model \"%s\" strings.TrimSpace \"%s\"" (str (chars_of_hex l)) (str (trim_space (chars_of_hex l))) (str (chars_of_hex t)))
  | ["ITOA"; d], [o] ->
      if dec (z_of_dec d) = chars_of_hex o then VOk true else VDisagree ("dec " ^ d)
  | ["LOWER"; _], [o] ->
      if not (all_ascii (a 1)) then VOk false
      else if ascii_lower (a 1) = chars_of_hex o then VOk true
      else VDisagree (Printf.sprintf "ascii_lower \"%s\"" (str (a 1)))
  | _ -> VDisagree "unknown-case-kind"

let judge _name ins outs =
  match ins with
  | ("BODY" | "BODYW") :: _ -> judge_body ins outs
  | "STATIC" :: _ -> judge_static ins outs
  | "ROOT" :: _ -> judge_root ins outs
  | _ -> judge_std ins outs

(* Same protocol as common.ml's run_driver, but at most [cap] verdict lines
   are printed per (kind, clause): on an unrepaired tree thousands of cases
   fail and bin/vcheck keeps the inputs of the first 2000 bad cases only (a
   later one would be reported with an empty IN).  Every bad case is still
   counted in SUMMARY bad=; the number not printed is SUMMARY suppressed=. *)
let run_driver_capped (cap : int) judge : unit =
  let seen : (string, unit) Hashtbl.t = Hashtbl.create 4096 in
  let per : (string, int) Hashtbl.t = Hashtbl.create 16 in
  let evals = ref 0 and nontriv = ref 0 and bad = ref 0 and suppressed = ref 0 in
  let allow key =
    let n = try Hashtbl.find per key with Not_found -> 0 in
    Hashtbl.replace per key (n + 1);
    if n < cap then true else (incr suppressed; false) in
  (try
     while true do
       let line = input_line stdin in
       match parse_case line with
       | None -> ()
       | Some (name, ins, outs) ->
           incr evals;
           let v = try judge name ins outs
                   with e -> VDisagree ("driver-exception:" ^ Printexc.to_string e) in
           (match v with
            | VOk nt ->
                if nt then begin
                  let key = String.concat " " ins in
                  if not (Hashtbl.mem seen key) then begin
                    Hashtbl.add seen key (); incr nontriv end
                end
            | VDisagree d -> incr bad; if allow "DISAGREE" then Printf.printf "DISAGREE %s %s\n" name d
            | VPropfail (c, d) -> incr bad; if allow c then Printf.printf "PROPFAIL %s %s %s\n" name c d)
     done
   with End_of_file -> ());
  Printf.printf "SUMMARY evaluations=%d distinct_nontrivial=%d bad=%d suppressed=%d\n"
    !evals !nontriv !bad !suppressed

let () = run_driver_capped 300 judge
