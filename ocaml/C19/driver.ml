(* C19 driver.  Case kinds (see harness/cmd/c19/main.go):
     RD x<hex>            OUT frame* final A:<bucket>
     MS <tokens>          OUT (m<j> cid= ep= t0= t1= U= W= WB= CL= [P=PANIC])* NW= RAW= frame* final
   Verdicts: the extracted oracles c19_reader_ok / c19_stream_ok /
   c19_passthrough_ok / ts_okb decide PROPFAIL; everything the model predicts
   beyond that (decoded frames, final error, byte-exact re-encoding, one
   Write per frame) is compared for DISAGREE.  Clause names below the oracle
   verdict are diagnostics computed here. *)

let starts_with p s = String.length s >= String.length p && String.sub s 0 (String.length p) = p
let after p s = String.sub s (String.length p) (String.length s - String.length p)

let parse_frame (t : string) : frame option =
  match String.split_on_char ':' t with
  | ["H"; id; mt; n; v] -> Some (FHeader (chars_of_hex id, n_of_dec mt, chars_of_hex n, chars_of_hex v))
  | ["D"; id; mt; i; tm; d] -> Some (FData (chars_of_hex id, n_of_dec mt, n_of_dec i, tm = "1", chars_of_hex d))
  | _ -> None

let pr_frame = function
  | FHeader (id, mt, n, v) -> Printf.sprintf "H:%s:%s:%s:%s" (hex_of_chars id) (dec_of_n mt) (hex_of_chars n) (hex_of_chars v)
  | FData (id, mt, i, t, d) ->
      let h = hex_of_chars d in
      let h = if String.length h > 40 then String.sub h 0 40 ^ "..(" ^ string_of_int (List.length d) ^ ")" else h in
      Printf.sprintf "D:%s:%s:%s:%s:%s" (hex_of_chars id) (dec_of_n mt) (dec_of_n i) (if t then "1" else "0") h

let pr_fin = function
  | FinErr EEof -> "E:eof" | FinErr EUnexpected -> "E:unexp" | FinErr EUnknownFrame -> "E:unknown"
  | FinPanic -> "PANIC" | FinFuel -> "OUT-OF-FUEL"

(* observed frames and final outcome; Error s = not representable *)
let parse_observed (toks : string list) : (frame list * fin, string) result =
  let rec go acc = function
    | [] -> Error "no-final-outcome"
    | t :: rest ->
        if starts_with "A:" t then go acc rest
        else match parse_frame t with
          | Some f -> go (f :: acc) rest
          | None ->
              let rest' = List.filter (fun x -> not (starts_with "A:" x)) rest in
              if rest' <> [] then Error ("tokens-after-final:" ^ t) else
              (match t with
               | "E:eof" -> Ok (List.rev acc, FinErr EEof)
               | "E:unexp" -> Ok (List.rev acc, FinErr EUnexpected)
               | "E:unknown" -> Ok (List.rev acc, FinErr EUnknownFrame)
               | "PANIC" | "CRASH" -> Ok (List.rev acc, FinPanic)
               | _ -> Error t) in
  go [] toks

let fin_eq a b = (pr_fin a = pr_fin b)
let frames_eq a b = list_eqb frame_eqb a b

let diff_detail (want : frame list) (got : frame list) : string =
  match first_diff O want got with
  | None -> "same"
  | Some k ->
      let k = int_of_nat k in
      let nth l = if k < List.length l then pr_frame (List.nth l k) else "<end>" in
      Printf.sprintf "first-diff-at-frame=%d want=%s got=%s" k (nth want) (nth got)

(* frame* final (READER=<name> frame* final)*  ->  [(name, toks)] ; the first
   is the primary observation: frames held until the whole stream was read *)
let split_readers (toks : string list) : (string * string list) list =
  let rec go acc name cur = function
    | [] -> List.rev ((name, List.rev cur) :: acc)
    | t :: r when starts_with "READER=" t -> go ((name, List.rev cur) :: acc) (after "READER=" t) [] r
    | t :: r -> go acc name (t :: cur) r in
  go [] "held/plain" [] toks

let worst (vs : verdict list) : verdict =
  match List.find_opt (function VPropfail _ -> true | _ -> false) vs with
  | Some v -> v
  | None ->
    match List.find_opt (function VDisagree _ -> true | _ -> false) vs with
    | Some v -> v
    | None -> VOk (List.exists (function VOk true -> true | _ -> false) vs)

let tagv (what : string) (n : string) (v : verdict) : verdict =
  match v with
  | VPropfail (c, d) -> VPropfail (c, "[" ^ what ^ " " ^ n ^ "] " ^ d)
  | VDisagree d -> VDisagree ("[" ^ what ^ " " ^ n ^ "] " ^ d)
  | v -> v

(* ---------------------------------------------------------------- RD *)

let judge_rd (tok : string) (outs : string list) : verdict =
  let input = chars_of_hex tok in
  let model = lazy (dec_stream input) in
  let one (rname, toks) =
    tagv "reader" rname
    (match parse_observed toks with
    | Error e -> VDisagree ("unrepresentable-observation:" ^ e)
    | Ok obs ->
      if not (c19_reader_ok obs) then
        let (_, ofin) = dec_stream_orig input in
        VPropfail ("reader_never_panics",
                   Printf.sprintf "reader-outcome=%s after %d frames; model-of-unrepaired-reader=%s; input-bytes=%d"
                     (String.concat "," (List.filter (fun t -> t = "PANIC" || t = "CRASH") toks))
                     (List.length (fst obs)) (pr_fin ofin) (List.length input))
      else
        let (mf, mfin) = Lazy.force model in
        if not (fin_eq mfin (snd obs)) then
          VDisagree (Printf.sprintf "final: model=%s impl=%s" (pr_fin mfin) (pr_fin (snd obs)))
        else if not (frames_eq mf (fst obs)) then VDisagree ("frames: " ^ diff_detail mf (fst obs))
        else VOk (List.length input >= 10)) in
  worst (List.map one (split_readers outs))

(* ---------------------------------------------------------------- MS *)

type mspec = {
  mutable kind : string; mutable id : char list;
  mutable me : char list; mutable sc : char list; mutable au : char list; mutable pa : char list;
  mutable qu : char list; mutable pr : char list; mutable ra : char list; mutable re : char list;
  mutable ho : char list; mutable st : int; mutable api : bool; mutable cl : int;
  mutable te : char list list option; mutable hs : (char list * char list) list;
  mutable body : char list; mutable br : string;
}

let cs = chars_of_string

let new_spec () = { kind = "Q"; id = cs "00000000"; me = cs "GET"; sc = cs "http"; au = cs "example.com";
                    pa = cs "/"; qu = []; pr = cs "HTTP/1.1"; ra = []; re = cs "200 OK"; ho = []; st = 200;
                    api = false; cl = 0; te = None; hs = []; body = []; br = "" }

let pat_bytes (len : int) (seed : int) : char list =
  List.init len (fun i -> Char.chr ((i * 131 + (i lsr 8) * 31 + (i lsr 16) * 17 + seed) land 255))

exception Bad of string

let parse_ms_in (toks : string list) : mspec list =
  let msgs = ref [] and cur = ref None in
  List.iter (fun t ->
      if t = "M" then begin let m = new_spec () in cur := Some m; msgs := m :: !msgs end
      else match !cur with
        | None -> ()   (* case-level tokens V= T= : irrelevant to the oracle *)
        | Some m ->
            if t = "te0" then (if m.te = None then m.te <- Some [])
            else
              let i = try String.index t '=' with Not_found -> raise (Bad t) in
              let k = String.sub t 0 i and v = String.sub t (i + 1) (String.length t - i - 1) in
              (match k with
               | "k" -> m.kind <- v
               | "id" -> m.id <- chars_of_hex v
               | "me" -> m.me <- chars_of_hex v | "sc" -> m.sc <- chars_of_hex v
               | "au" -> m.au <- chars_of_hex v | "pa" -> m.pa <- chars_of_hex v
               | "qu" -> m.qu <- chars_of_hex v | "pr" -> m.pr <- chars_of_hex v
               | "ra" -> m.ra <- chars_of_hex v | "re" -> m.re <- chars_of_hex v
               | "ho" -> m.ho <- chars_of_hex v
               | "st" -> m.st <- int_of_string v
               | "api" -> m.api <- (v = "1")
               | "cl" -> m.cl <- int_of_string v
               | "te" -> m.te <- Some ((match m.te with None -> [] | Some l -> l) @ [chars_of_hex v])
               | "h" -> (match String.split_on_char ':' v with
                   | [a; b] -> m.hs <- m.hs @ [(chars_of_hex a, chars_of_hex b)]
                   | _ -> raise (Bad t))
               | "bd" -> (match String.split_on_char ':' v with
                   | [a; b] -> m.body <- pat_bytes (int_of_string a) (int_of_string b)
                   | _ -> raise (Bad t))
               | "bx" -> m.body <- chars_of_hex v
               | "br" -> m.br <- v
               | "ck" | "rb" | "eof" | "err" | "zr" | "stop" | "more" | "hold" -> ()
               | _ -> raise (Bad t))) toks;
  List.rev !msgs

(* http.Header is a map: values of one name stay in order, names are unordered
   (we compare as a multiset anyway).  Group to mirror hdr[k] = append(hdr[k], v). *)
let group_headers (hs : (char list * char list) list) = hs

type mobs = {
  mutable cid : char list; mutable ep : char list; mutable t0 : string; mutable t1 : string;
  mutable u : string option; mutable w : string option; mutable wb : char list;
  mutable panicked : bool; mutable read_panicked : bool;
}

let parse_reads (body_src : char list) (spec : string) : (char list * rerr) list option =
  (* "n:e,n:e" or "-" ; the bytes are consecutive slices of body_src *)
  if spec = "-" then Some [] else
  let items = String.split_on_char ',' spec in
  let rest = ref body_src in
  try
    Some (List.map (fun it ->
        match String.split_on_char ':' it with
        | [n; e] ->
            let n = int_of_string n in
            let rec tk k acc l = if k = 0 then (List.rev acc, l) else
                match l with [] -> raise Exit | x :: t -> tk (k - 1) (x :: acc) t in
            let (a, r) = tk n [] !rest in
            rest := r;
            (a, (match e with "n" -> RNil | "e" -> REof | "o" -> ROther | _ -> raise Exit))
        | _ -> raise Exit) items)
  with Exit | Failure _ -> None

let judge_ms (ins : string list) (outs : string list) : verdict =
  if outs = ["HANG"] then VPropfail ("logging_terminates", "logging calls, body reads through the wrapper or Stream.Close did not return (watchdog: 8 s for failing-sink cases, 90 s otherwise)") else
  if outs = ["badcase"] then VDisagree "badcase" else
  let specs = try parse_ms_in ins with Bad t -> raise (Failure ("bad IN token " ^ t)) in
  (* split OUT *)
  let obs : mobs list ref = ref [] and cur = ref None in
  let tail = ref [] in
  let rec scan = function
    | [] -> ()
    | t :: r ->
        if starts_with "SINK=" t then tail := t :: r
        else begin
          (if String.length t >= 2 && t.[0] = 'm' && t.[1] >= '0' && t.[1] <= '9' then begin
              let o = { cid = []; ep = []; t0 = "0"; t1 = "0"; u = None; w = None; wb = []; panicked = false; read_panicked = false } in
              cur := Some o; obs := o :: !obs end
           else match !cur with
             | None -> ()
             | Some o ->
                 if starts_with "cid=" t then o.cid <- chars_of_hex (after "cid=" t)
                 else if starts_with "ep=" t then o.ep <- chars_of_hex (after "ep=" t)
                 else if starts_with "t0=" t then o.t0 <- after "t0=" t
                 else if starts_with "t1=" t then o.t1 <- after "t1=" t
                 else if starts_with "U=" t then o.u <- Some (after "U=" t)
                 else if starts_with "W=" t then o.w <- Some (after "W=" t)
                 else if starts_with "WB=" t then o.wb <- chars_of_hex (after "WB=" t)
                 else if t = "P=PANIC" then o.panicked <- true
                 else if t = "RP=PANIC" then o.read_panicked <- true);
          scan r
        end in
  scan outs;
  let obs = List.rev !obs in
  if List.length obs <> List.length specs then VDisagree "message-count" else
  (* sink sections: SINK=name [NOTE=..] NW=n RAW=x.. frame* final *)
  let rec split_secs acc cur = function
    | [] -> List.rev (match cur with None -> acc | Some c -> List.rev c :: acc)
    | t :: r when starts_with "SINK=" t ->
        split_secs (match cur with None -> acc | Some c -> List.rev c :: acc) (Some [t]) r
    | t :: r when starts_with "SAME=" t -> split_secs acc cur r
    | t :: r -> (match cur with Some c -> split_secs acc (Some (t :: c)) r | None -> split_secs acc None r) in
  let secs = split_secs [] None !tail in
  if secs = [] then VDisagree "no-sink-section-in-observation" else
  let only_from = ref 0 in
  let judge_section (sec : string list) : verdict =
  let sname = match sec with t :: _ -> after "SINK=" t | [] -> "?" in
  let nw = ref (-1) and raw = ref None and rest = ref [] and note = ref "" in
  let rec sscan = function
    | [] -> ()
    | t :: r ->
        if starts_with "RAW=" t then begin raw := Some (chars_of_hex (after "RAW=" t)); rest := r end
        else begin
          (if starts_with "NW=" t then nw := int_of_string (after "NW=" t)
           else if starts_with "NOTE=" t then note := after "NOTE=" t);
          sscan r end in
  sscan sec;
  ignore sname;
  if starts_with "harness-error" !note then VDisagree (sname ^ ": " ^ !note) else
  match !raw with
  | None -> VDisagree "no-RAW-in-observation"
  | Some raw ->
  let judge_reader (rname, rtoks) : verdict =
  tagv "reader" rname (
  match parse_observed rtoks with
  | Error e -> VDisagree ("unrepresentable-observation:" ^ e)
  | Ok (frames, ofin) ->
  (* the reader must not panic on what the stream wrote either *)
  if not (c19_reader_ok (frames, ofin)) then
    VPropfail ("reader_never_panics", "real reader panicked on the bytes written by the real stream") else
  (* build the expected messages *)
  let bad = ref None in
  let fail c d = if !bad = None then bad := Some (c, d) in
  let disagree = ref None in
  let dis d = if !disagree = None then disagree := Some d in
  let msgs = List.concat (List.mapi (fun j (sp, o) ->
      let mt = if sp.kind = "Q" then mt_request else mt_response in
      match wire_id o.cid with
      | None ->
          if not o.panicked then dis (Printf.sprintf "m%d: id shorter than 8 bytes: model predicts a panic in newFrame" j);
          []
      | Some wid ->
          if o.panicked then begin fail "logging_panicked" (Printf.sprintf "m%d" j); [] end else
          (* a nil body: the unchanged code wraps it and the wrapper's Read
             dereferences nil; leaving the body nil is accepted as well.  Either
             way there is nothing to read: no data frame is expected. *)
          let () = if o.read_panicked && sp.br <> "nil" then
            fail "read_panicked" (Printf.sprintf "m%d: reading the body through the logging wrapper panicked" j) in
          let o = if sp.br = "nil" then { o with u = Some "-"; w = Some "-"; wb = [] } else o in
          let unders = match o.u with Some u -> parse_reads sp.body u | None -> None in
          let wrapped = match o.w with Some w -> parse_reads o.wb w | None -> None in
          (match unders, wrapped with
           | Some unders, Some wrapped ->
               let wsum = List.fold_left (fun a (d, _) -> a + List.length d) 0 wrapped in
               if wsum <> List.length o.wb || not (c19_passthrough_ok unders wrapped) then
                 fail "passthrough" (Printf.sprintf "m%d: body returned U=%s, wrapper returned W=%s (or different bytes)" j
                                       (match o.u with Some x -> x | None -> "") (match o.w with Some x -> x | None -> ""));
               let key = (wid, mt) in
               let mine = List.filter (keyb key) frames in
               let ts = match find_ts mine with Some v -> v | None -> [] in
               if j >= !only_from && not (ts_okb (n_of_dec o.t0) (n_of_dec o.t1) ts) then
                 fail "pseudo_headers" (Printf.sprintf "m%d: :timestamp=%s not a decimal within [%s,%s]" j (hex_of_chars ts) o.t0 o.t1);
               let pseudo =
                 if sp.kind = "Q" then req_pseudo sp.me sp.sc sp.au o.ep sp.qu sp.pr sp.ra ts sp.api
                 else res_pseudo sp.pr (n_of_int sp.st) sp.re ts sp.api in
               let hdrs = map_headers sp.hs (if sp.kind = "Q" then sp.ho else []) (n_of_int sp.cl) sp.te in
               [ (j, o, { m_id = wid; m_mt = mt; m_pseudo = pseudo; m_hdrs = hdrs; m_reads = unders }) ]
           | _ -> dis (Printf.sprintf "m%d: unusable U=/W= tokens" j); [])) (List.combine specs obs)) in
  (* failing sink: only the messages logged after the failure (index >=
     only_from) are expected to decode completely; frames of earlier messages
     (some were lost with the failed write) are set aside *)
  let msgs = List.filter (fun (j, _, _) -> j >= !only_from) msgs in
  let frames = if !only_from = 0 then frames
    else List.filter (fun f -> List.exists (fun (_, _, m) -> keyb (mkey m) f) msgs) frames in
  let ms = List.map (fun (_, _, m) -> m) msgs in
  (* precondition of demultiplexing: distinct (wire id, type) *)
  let rec dup = function
    | [] -> None
    | (j, o, m) :: r ->
        (match List.find_opt (fun (_, _, m') -> key_eqb (mkey m) (mkey m')) r with
         | Some (j', o', _) -> Some (j, o, j', o')
         | None -> dup r) in
  match (if keys_distinctb (List.map mkey ms) then None else dup msgs) with
  | Some (j, o, j', o') ->
      if o.cid <> o'.cid then
        VPropfail ("message_id_truncated",
                   Printf.sprintf "m%d id=%s and m%d id=%s are different message IDs with the same 8-byte wire id: their frames cannot be told apart"
                     j (hex_of_chars o.cid) j' (hex_of_chars o'.cid))
      else VOk false  (* the same ID logged twice for the same type: outside the property *)
  | None ->
  (* property oracle on the frames the REAL reader decoded *)
  if not (c19_stream_ok ms frames) then begin
    (* diagnostics: which message, which part *)
    (match List.find_opt (fun f -> not (List.exists (fun m -> keyb (mkey m) f) ms)) frames with
     | Some f -> fail "stray_frame" (pr_frame f)
     | None -> ());
    List.iter (fun (j, _, m) ->
        let l = List.filter (keyb (mkey m)) frames in
        if not (msg_okb m l) then begin
          (* which conjunct of msg_okb fails (C19_message_oracle_parts) *)
          let np = List.length m.m_pseudo and nh = List.length m.m_hdrs in
          let rec firstn k l = if k = 0 then [] else match l with [] -> [] | x :: t -> x :: firstn (k - 1) t in
          let rec skipn k l = if k = 0 then l else match l with [] -> [] | _ :: t -> skipn (k - 1) t in
          let p = firstn np l and h = firstn nh (skipn np l) and d = skipn nh (skipn np l) in
          let wp = hframes m.m_id m.m_mt m.m_pseudo and wh = hframes m.m_id m.m_mt m.m_hdrs in
          let wd = body_log m.m_id m.m_mt m.m_reads in
          if not (msg_pseudo_okb m l) then fail "pseudo_headers" (Printf.sprintf "m%d: %s" j (diff_detail wp p))
          else if not (msg_headers_okb m l) then
            fail "headers" (Printf.sprintf "m%d: header frames are not the message's header multiset: want %d got %d; %s" j
                              (List.length wh) (List.length h) (diff_detail wh h))
          else if not (msg_data_okb m l) then
            fail "data_frames" (Printf.sprintf "m%d: want %d data frames, got %d; %s" j (List.length wd) (List.length d) (diff_detail wd d))
        end) msgs;
    fail "frames_per_message" "oracle failed"
  end;
  match !bad with
  | Some (c, d) -> VPropfail (c, d)
  | None ->
  (* correspondence beyond the oracle *)
  (match !disagree with Some d -> VDisagree d | None ->
  if !only_from > 0 then VOk (List.length frames >= 10) else
  let (mf, mfin) = dec_stream raw in
  if not (fin_eq mfin ofin) then VDisagree (Printf.sprintf "final: model=%s impl=%s" (pr_fin mfin) (pr_fin ofin))
  else if not (frames_eq mf frames) then VDisagree ("reader-vs-model on stream bytes: " ^ diff_detail mf frames)
  else if not (fin_eq ofin (FinErr EEof)) then
    VPropfail ("frames_whole", "the stream does not end at a frame boundary: " ^ pr_fin ofin)
  else if enc_stream frames <> raw then VDisagree "encoder: enc_stream(decoded frames) differs from the bytes written"
  else if !nw <> List.length frames then
    VDisagree (Printf.sprintf "writes: %d Write calls for %d frames (one Write per frame is what keeps frames whole)" !nw (List.length frames))
  else
    VOk (List.length frames >= 10
         && List.exists (function FData (_, _, _, _, (_ :: _)) -> true | _ -> false) frames))) in
  worst (List.map judge_reader (split_readers !rest)) in
  (* every sink section is judged; a property failure outranks a disagreement *)
  let sname sec = (match sec with t :: _ -> after "SINK=" t | [] -> "?") in
  let note_of sec = (match List.find_opt (starts_with "NOTE=") sec with Some t -> after "NOTE=" t | None -> "") in
  (* raw bytes and primary (held) reader observation of a section *)
  let sec_obs sec =
    let rec after_raw = function
      | [] -> None
      | t :: r -> if starts_with "RAW=" t then Some (chars_of_hex (after "RAW=" t), r) else after_raw r in
    match after_raw sec with
    | None -> None
    | Some (raw, r) ->
        (match split_readers r with
         | (_, toks) :: _ -> (match parse_observed toks with Ok o -> Some (raw, o) | Error _ -> None)
         | [] -> None) in
  (* sections of independent streams (NS=n) carry the prefix "s<k>:"; each
     stream is judged on its own, its first section being its reference *)
  let group_of sec = let n = sname sec in
    (match String.index_opt n ':' with Some i when i > 0 && n.[0] = 's' -> String.sub n 0 i | _ -> "") in
  let groups = List.fold_left (fun acc sec ->
      let g = group_of sec in
      if List.mem_assoc g acc then List.map (fun (g', l) -> if g' = g then (g', l @ [sec]) else (g', l)) acc
      else acc @ [(g, [sec])]) [] secs in
  let judge_group (secs : string list list) : verdict =
  let first = List.hd secs in
  if starts_with "harness-error" (note_of first) then VDisagree (note_of first) else
  if starts_with "failsink:" (note_of first) then begin
    (* failsink:<mode>:<phase>: after a single failed write the later messages
       must decode completely; after a permanent failure or a short (torn)
       write nothing more can be decoded: termination and passthrough only *)
    (match String.split_on_char ':' (note_of first) with
     | [_; "once"; ph] -> only_from := int_of_string ph
     | _ -> only_from := max_int);
    let sec = List.filter (fun t -> not (starts_with "NOTE=" t)) first in
    let v = tagv "sink" (sname first) (judge_section sec) in
    only_from := 0; v end else
  if note_of first <> "" then VOk false  (* no complete reference observation: undecided *) else
  let ref_frames = match sec_obs first with Some (_, (fs, _)) -> fs | None -> [] in
  (* what EACH other subscriber received: per (id, type) a gap-free run of the
     complete stream's frames (it may have joined late or been cut off) *)
  let judge_other sec : verdict =
    let note = note_of sec in
    if starts_with "harness-error" note then VDisagree note else
    match sec_obs sec with
    | None -> VDisagree "unusable-section"
    | Some (raw, (got, fin)) ->
        if not (c19_reader_ok (got, fin)) then VPropfail ("reader_never_panics", "on what a subscriber received") else
        if not (c19_subscriber_ok ref_frames got) then
          let holes = List.filter_map (fun f ->
              match f with FData (id, mt, i, _, _) -> Some (hex_of_chars id ^ "/" ^ dec_of_n mt, int_of_n i) | _ -> None) got in
          let rec gap prev = function
            | [] -> "(not a data-index gap)"
            | (k, i) :: r -> (match List.assoc_opt k prev with
                | Some j when i <> j + 1 -> Printf.sprintf "message %s: data index %d follows %d" k i j
                | _ -> gap ((k, i) :: List.remove_assoc k prev) r) in
          VPropfail ("subscriber_gap",
                     Printf.sprintf "received %d of %d frames, not a gap-free run per message; %s; note=%s"
                       (List.length got) (List.length ref_frames) (gap [] holes) note)
        else if String.length note >= 7 && (let rec has i = i + 7 <= String.length note && (String.sub note i 7 = "TIMEOUT" || has (i + 1)) in has 0) then
          VDisagree ("subscriber neither finished nor was cut off: " ^ note)
        else if note = "" then judge_section sec
        else
          let (mf, mfin) = dec_stream raw in
          if not (fin_eq mfin fin) || not (frames_eq mf got) then VDisagree "reader-vs-model on what the subscriber received"
          else VOk (List.length got >= 10) in
  worst (tagv "sink" (sname first) (judge_section first)
         :: List.map (fun sec -> tagv "sink" (sname sec) (judge_other sec)) (List.tl secs)) in
  worst (List.map (fun (_, l) -> judge_group l) groups)

let judge _name ins outs =
  match ins with
  | ["RD"; tok] -> judge_rd tok outs
  | "MS" :: toks -> judge_ms toks outs
  | _ -> VDisagree "unknown-case-kind"

let () = run_driver judge
