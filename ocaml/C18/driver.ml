(* C18 driver: parses the cases written by harness/cmd/c18, runs the extracted
   model (Conn.Write loop, validation, listener) and the extracted oracles
   (ok_prefix, ok_close, ok_halts, ok_rate, ok_release) on what the real code did.

   PROPFAIL clauses: bytes_prefix, close_at_k, halt_sleeps, halt_delay_total,
   throttle_rate, validate_rejects, reject_keeps_active,
   applies_to_later_connections, default_bandwidth_reaches_old_connections,
   close_releases, no_panic.  Everything else that differs is DISAGREE. *)

exception Dis of string
exception Fail of string * string

let zi = z_of_int
let iz = int_of_z
let huge = zi (1 lsl 40)
let z_neg = function Zneg _ -> true | _ -> false
let split c s = String.split_on_char c s
let ios = int_of_string
let tl1 s = String.sub s 1 (String.length s - 1)
let starts p s = String.length s >= String.length p && String.sub s 0 (String.length p) = p

(* ---------------- configuration tokens -> Model.cfg ---------------- *)

let parse_cfg (toks : string list) (rx : string) : cfg option * string list =
  (* returns None for a raw-JSON (malformed stream) body; regexes of S tokens *)
  if List.exists (fun t -> starts "J:" t) toks then (None, []) else begin
    let defaults = ref None and shapes = ref [] and regs = ref [] and k = ref 0 in
    let cur = ref None in
    let flush () = match !cur with
      | None -> ()
      | Some (rg, ok, mb, th, hs, cs) ->
          shapes := { sc_regex = rg; sc_regex_ok = ok; sc_maxbw = mb; sc_thr = List.rev th;
                      sc_halts = List.rev hs; sc_closes = List.rev cs } :: !shapes;
          cur := None in
    List.iter (fun t ->
      match split ':' t with
      | ["D"; u; d; l] -> defaults := Some ((z_of_dec u, z_of_dec d), z_of_dec l)
      | ["S"; r; mb] ->
          flush ();
          let ok = !k < String.length rx && rx.[!k] = '1' in
          incr k;
          regs := r :: !regs;
          cur := Some (chars_of_hex r, ok, z_of_dec mb, [], [], [])
      | ["T"; b; bw] ->
          (match !cur with
           | Some (rg, ok, mb, th, hs, cs) ->
               cur := Some (rg, ok, mb, { tc_bytes = chars_of_hex b; tc_bw = z_of_dec bw } :: th, hs, cs)
           | None -> ())
      | ["H"; b; d; c] ->
          (match !cur with
           | Some (rg, ok, mb, th, hs, cs) ->
               cur := Some (rg, ok, mb, th, { hc_byte = z_of_dec b; hc_dur = z_of_dec d; hc_count = z_of_dec c } :: hs, cs)
           | None -> ())
      | ["C"; b; c] ->
          (match !cur with
           | Some (rg, ok, mb, th, hs, cs) ->
               cur := Some (rg, ok, mb, th, hs, { cc_byte = z_of_dec b; cc_count = z_of_dec c } :: cs)
           | None -> ())
      | _ -> raise (Dis ("bad-cfg-token:" ^ t))) toks;
    flush ();
    (Some { cf_defaults = !defaults; cf_shapes = List.rev !shapes }, List.rev !regs)
  end

let split_bar toks =
  let rec go acc = function
    | [] -> (List.rev acc, [])
    | "|" :: r -> (List.rev acc, r)
    | x :: r -> go (x :: acc) r in
  go [] toks

let pr_action (a : action) : string =
  match a.kind with
  | KHalt d -> Printf.sprintf "h%s.%s.%s" (dec_of_z a.abyte) (dec_of_z d) (dec_of_z a.count)
  | KClose -> Printf.sprintf "c%s.%s" (dec_of_z a.abyte) (dec_of_z a.count)
  | KBw b -> Printf.sprintf "b%s.%s" (dec_of_z a.abyte) (dec_of_z b)

(* canonical print of the active map, as harness dumpActions *)
let pr_active (m : (char list * shape) list) (acts_of : char list -> action list option) : string =
  if m = [] then "M-" else
  let items = List.map (fun (k, sh) ->
      let acts = match acts_of k with Some a -> a | None -> sh.sh_acts in
      let key = hex_of_chars k in
      (string_of_chars k,
       key ^ "=" ^ String.concat ";" (List.map pr_action acts) ^ "/" ^
       String.concat ";" (List.map (fun t -> Printf.sprintf "%s.%s.%s" (dec_of_z t.t_start) (dec_of_z t.t_end) (dec_of_z t.t_bw)) sh.sh_thr) ^
       "/" ^ dec_of_z sh.sh_maxbw)) m in
  let items = List.sort (fun (a, _) (b, _) -> compare a b) items in
  "M" ^ String.concat "," (List.map snd items)

(* ------------------------------ U ---------------------------------- *)

type resp = {
  mutable data : char list;        (* written since the context was set *)
  mutable delivered : char list;
  mutable closed : bool;
  mutable gaps : (z * z) list;
  r_acts : action list; r_rs : z; r_hl : z;
  r_checkable : bool;              (* fresh valid matching context on a single connection *)
  mutable dirty : bool;
}

type uconn = {
  mutable st : st option;
  mutable latp : z option;
  est : int;
  regs : char list list;
  mutable caps : (char list * z) list;
  mutable regex : char list option;
  mutable resp : resp option;
}


(* Observation-only pre-pass (property oracles before any model comparison):
   first response of a script with one connection and no re-POST before it ends. *)
let prepass (validated : (char list * shape) list option) (regtoks : string list) script outs =
  match validated with
  | None -> ()
  | Some shs ->
    let active = build_map shs in
    let naccept = List.length (List.filter (fun t -> t.[0] = 'a') script) in
    if naccept = 1 then begin
      let rec find sc os = match sc, os with
        | t :: sc', o :: os' when t.[0] = 'o' -> Some (t, o, sc', os')
        | t :: sc', _ :: os' when t.[0] = 'a' -> find sc' os'
        | _ -> None in
      match find script outs with
      | None -> ()
      | Some (t, o, sc, os) ->
        (match split ':' (tl1 t) with
         | [_; si; rs; hl] when starts "o1" o ->
             let rg = chars_of_hex (List.nth regtoks (ios si)) in
             (match List.assoc_opt rg active with
              | None -> ()
              | Some sh ->
                let rs = z_of_dec rs and hl = z_of_dec hl in
                let data = ref [] and del = ref [] and closed = ref false and gaps = ref [] in
                let rec go sc os = match sc, os with
                  | w :: sc', o :: os' when w.[0] = 'w' && not !closed ->
                      (match split ':' (tl1 w), split ':' o with
                       | [_; hb], [_; e; cs; eg; d] ->
                           data := !data @ chars_of_hex hb;
                           let pos = ref (List.length !del) in
                           if cs <> "-" then List.iter (fun x -> match split '.' x with
                               | [n; _; g] -> gaps := (zi !pos, zi (ios g)) :: !gaps; pos := !pos + ios n
                               | _ -> ()) (split ',' cs);
                           gaps := (zi !pos, zi (ios eg)) :: !gaps;
                           del := !del @ chars_of_hex d;
                           if e = "fc" then closed := true;
                           go sc' os'
                       | _ -> ())
                  | _ -> () in
                go sc os;
                if not (ok_prefix !data !del !closed) then
                  raise (Fail ("bytes_prefix", "delivered bytes are not the written bytes"));
                if not (ok_close sh.sh_acts rs hl !data !del !closed) then
                  raise (Fail ("close_at_k", Printf.sprintf "rs=%d hl=%d written=%d delivered=%d closed=%b first_close=%s"
                                 (iz rs) (iz hl) (List.length !data) (List.length !del) !closed
                                 (match first_close sh.sh_acts rs with Some k -> dec_of_z k | None -> "-")));
                if not (ok_halts sh.sh_acts rs hl (zi (List.length !del)) !gaps) then
                  raise (Fail ("halt_sleeps", "a halt whose offset was crossed shows a shorter pause than configured")))
         | _ -> ())
    end

let judge_unit ins outs : verdict =
  let (cfgt, script) = split_bar ins in
  let (st0, rx, outs) = match outs with
    | s :: r :: rest when starts "st" s && starts "rx" r -> (ios (String.sub s 2 (String.length s - 2)), tl1 (tl1 r), rest)
    | _ -> raise (Dis "unit-out-shape") in
  if List.mem "PANIC" outs then raise (Fail ("no_panic", "the code under test panicked"));
  let (cfgo, regtoks) = parse_cfg cfgt rx in
  let validated = match cfgo with None -> None | Some c -> validate c in
  if accepted_wrongly cfgo (zi st0) then raise (Fail ("validate_rejects", "invalid configuration accepted"));
  (match validated, st0 with
   | None, 200 -> raise (Fail ("validate_rejects", "invalid configuration accepted"))
   | Some _, 200 | None, 400 -> ()
   | Some _, _ -> raise (Dis (Printf.sprintf "valid configuration answered %d" st0))
   | None, _ -> raise (Dis "status"));
  prepass validated regtoks script outs;
  let active = ref (match validated with Some s -> build_map s | None -> []) in
  let latency = ref (match cfgo, validated with
      | Some { cf_defaults = Some ((_, _), l); _ }, Some _ -> l | _ -> Z0) in
  let epoch = ref 0 in
  let shared : (char list * action list) list ref =
    ref (List.map (fun (k, sh) -> (k, sh.sh_acts)) !active) in
  let conns : (string, uconn) Hashtbl.t = Hashtbl.create 4 in
  let nconn = ref 0 and reposted = ref false in
  let nontrivial = ref false in
  let regex_of si = chars_of_hex (List.nth regtoks si) in
  let finish_resp (c : uconn) =
    (match c.resp with
     | Some r when r.r_checkable && not r.dirty ->
         if not (ok_close r.r_acts r.r_rs r.r_hl r.data r.delivered r.closed) then
           raise (Fail ("close_at_k", Printf.sprintf "rs=%d hl=%d written=%d delivered=%d closed=%b first_close=%s"
                          (iz r.r_rs) (iz r.r_hl) (List.length r.data) (List.length r.delivered) r.closed
                          (match first_close r.r_acts r.r_rs with Some k -> dec_of_z k | None -> "-")));
         if not (ok_halts r.r_acts r.r_rs r.r_hl (zi (List.length r.delivered)) r.gaps) then
           raise (Fail ("halt_sleeps", "a halt whose offset was crossed shows a shorter pause than configured"))
     | _ -> ());
    c.resp <- None in
  let rec go script outs =
    match script, outs with
    | [], [m] ->
        Hashtbl.iter (fun _ c -> finish_resp c) conns;
        let want = pr_active !active (fun k -> List.assoc_opt k !shared) in
        if want <> m then raise (Dis ("final-actions want=" ^ want ^ " got=" ^ m))
    | [], _ -> raise (Dis "out-length")
    | tok :: script', o :: outs' ->
        (match tok.[0] with
         | 'a' ->
             incr nconn;
             Hashtbl.iter (fun _ c -> match c.resp with Some r -> r.dirty <- true | None -> ()) conns;
             Hashtbl.replace conns (tl1 tok)
               { st = None; latp = Some !latency; est = !epoch; regs = List.map fst !active;
                 caps = List.map (fun (k, sh) -> (k, sh.sh_maxbw)) !active; regex = None; resp = None }
         | 'o' ->
             (match split ':' (tl1 tok) with
              | [id; si; rs; hl] ->
                  let c = Hashtbl.find conns id in
                  finish_resp c;
                  let rg = regex_of (ios si) in
                  let rs = z_of_dec rs and hl = z_of_dec hl in
                  let has = List.mem rg c.regs in
                  let v = has && c.est = !epoch && List.mem_assoc rg !active in
                  let acts = if v then List.assoc rg !shared else [] in
                  let thr = if v then (List.assoc rg !active).sh_thr else [] in
                  let (s, evs) = open_ctx v acts thr has rs hl c.latp O in
                  List.iter (function SetBw b -> c.caps <- (rg, b) :: List.remove_assoc rg c.caps | _ -> ()) evs;
                  c.st <- Some s; c.regex <- (if s.shaping then Some rg else None);
                  let capv = if s.shaping then iz (List.assoc rg c.caps) else -1 in
                  let na = match s.next with Some (i, b) -> Printf.sprintf "n%d.%s" (int_of_nat i) (dec_of_z b) | None -> "n-" in
                  let want = Printf.sprintf "o%d:%d:%s" (if s.shaping then 1 else 0) capv na in
                  (* throttle clause, initial bandwidth: a range response that starts inside a throttle
                     interval must have that throttle's bandwidth in force when the context is set *)
                  (match split ':' o with
                   | ["o1"; cp; _] when s.shaping && v ->
                       if not (ok_chunk_bw thr rs (z_of_dec cp)) then
                         raise (Fail ("throttle_bandwidth",
                                      Printf.sprintf "a response whose range starts at %s inside a throttle of %s bytes per interval has a bucket of capacity %s when its context is set"
                                        (dec_of_z rs) (match throttle_at thr rs with Some b -> dec_of_z b | None -> "-") cp))
                   | _ -> ());
                  if want <> o then raise (Dis ("set-context want=" ^ want ^ " got=" ^ o));
                  c.resp <- Some { data = []; delivered = []; closed = false; gaps = []; r_acts = acts; r_rs = rs; r_hl = hl;
                                   r_checkable = s.shaping && v && !nconn = 1; dirty = false }
              | _ -> raise (Dis "bad-o"))
         | 'n' ->
             let c = Hashtbl.find conns (tl1 tok) in
             finish_resp c;
             let (s, _) = open_ctx false [] [] false Z0 Z0 c.latp O in
             c.st <- Some s; c.regex <- None;
             c.resp <- Some { data = []; delivered = []; closed = false; gaps = []; r_acts = []; r_rs = Z0; r_hl = Z0;
                              r_checkable = false; dirty = false }
         | 'w' ->
             let (id, hexb) = match split ':' (tl1 tok) with [a; b] -> (a, b) | _ -> raise (Dis "bad-w") in
             let c = Hashtbl.find conns id in
             let b = chars_of_hex hexb in
             let (n_obs, e_obs, chunks, endgap, del) = match split ':' o with
               | [r; e; cs; eg; d] when r.[0] = 'r' ->
                   let cs = if cs = "-" then [] else
                       List.map (fun x -> match split '.' x with
                           | [n; cp; g] -> (ios n, ios cp, ios g) | _ -> raise (Dis "bad-chunk")) (split ',' cs) in
                   (ios (tl1 r), e, cs, ios eg, chars_of_hex d)
               | _ -> raise (Dis ("bad-w-out:" ^ o)) in
             let s = match c.st with
               | Some s -> s
               | None -> fst (open_ctx false [] [] false Z0 Z0 c.latp O) in
             (* shared, mutable action counts of the shape *)
             let s = match c.regex with
               | Some rg when s.valid && List.mem_assoc rg !shared -> set_acts s (List.assoc rg !shared)
               | _ -> s in
             let s = set_off_gi s s.off O in
             (* property oracle on the raw observation first *)
             (match c.resp with
              | Some r when not r.closed ->
                  r.data <- r.data @ b;
                  let pos = ref (List.length r.delivered) in
                  List.iter (fun (n, _, g) -> r.gaps <- (zi !pos, zi g) :: r.gaps; pos := !pos + n) chunks;
                  r.gaps <- (zi !pos, zi endgap) :: r.gaps;
                  r.delivered <- r.delivered @ del;
                  if e_obs = "fc" then r.closed <- true;
                  if not (ok_prefix r.data r.delivered r.closed) then
                    raise (Fail ("bytes_prefix", Printf.sprintf "written=%d delivered=%d closed=%b: delivered bytes are not the written bytes"
                                   (List.length r.data) (List.length r.delivered) r.closed))
              | _ ->
                  (* after a forced close, or without a context: still never foreign bytes *)
                  if not (ok_prefix b del true) then
                    raise (Fail ("bytes_prefix", "delivered bytes are not a prefix of the written bytes")));
             (* throttle clause, deterministic part: a body chunk that starts inside a throttle
                interval goes through a bucket of that throttle's bandwidth *)
             (match c.regex with
              | Some rg when s.shaping && s.valid && List.mem_assoc rg !active ->
                  let thr = (List.assoc rg !active).sh_thr in
                  let hdr = ref (iz s.hdr_left) and o = ref (iz s.off) in
                  List.iter (fun (n, cp, _) ->
                      if !hdr > 0 then hdr := !hdr - n
                      else begin
                        if not (ok_chunk_bw thr (zi !o) (zi cp)) then
                          raise (Fail ("throttle_bandwidth",
                                       Printf.sprintf "a body chunk at offset %d lies inside a throttle of %s bytes per interval but went through a bucket of capacity %d"
                                         !o (match throttle_at thr (zi !o) with Some b -> string_of_int (iz b) | None -> "-") cp));
                        o := !o + n
                      end) chunks
              | _ -> ());
             (* model with the grants the real buckets gave *)
             let sizes = List.map (fun (n, _, _) -> n) chunks in
             let grants = if s.shaping && iz s.hdr_left > 0 && sizes <> [] then List.tl sizes else sizes in
             let garr = Array.of_list grants in
             let g (i : nat) = let k = int_of_nat i in if k < Array.length garr then (zi garr.(k), zi garr.(k)) else (huge, huge) in
             let ((s', evs), r) = write g s b in
             if List.exists is_action_ev evs then nontrivial := true;
             (match r with
              | RPanic -> raise (Dis "model-panic")
              | RFuel -> raise (Dis "model-out-of-fuel")
              | ROk n -> if e_obs <> "ok" || iz n <> n_obs then
                    raise (Dis (Printf.sprintf "write-result want=ok:%d got=%s:%d" (iz n) e_obs n_obs))
              | RClosed n -> if e_obs <> "fc" || iz n <> n_obs then
                    raise (Dis (Printf.sprintf "write-result want=fc:%d got=%s:%d" (iz n) e_obs n_obs)));
             if emitted evs <> del then raise (Dis "delivered-bytes-differ-from-model");
             (* chunk by chunk: sizes, bucket capacity in force, pauses *)
             let cap = ref (match c.regex with Some rg -> (try Some (List.assoc rg c.caps) with Not_found -> None) | None -> None) in
             let pending = ref 0 in
             let rest = ref chunks in
             let hdr = ref (if s.shaping then iz s.hdr_left else 0) in
             List.iter (fun e ->
                 match e with
                 | Latency d | Sleep d -> pending := !pending + 1000 * iz d
                 | SetBw bw ->
                     cap := Some bw;
                     (match c.regex with Some rg -> c.caps <- (rg, bw) :: List.remove_assoc rg c.caps | None -> ())
                 | ForceClose -> ()
                 | Emit [] -> ()
                 | Emit bs ->
                     (match !rest with
                      | [] -> raise (Dis "model-emits-more-chunks")
                      | (n, cp, gap) :: tl ->
                          rest := tl;
                          if n <> List.length bs then
                            raise (Dis (Printf.sprintf "chunk-size want=%d got=%d" (List.length bs) n));
                          if gap < !pending then
                            raise (Dis (Printf.sprintf "pause %dus before a chunk, model delay %dus" gap !pending));
                          pending := 0;
                          if !hdr > 0 then hdr := !hdr - n
                          else (match !cap with
                              | Some cv when s.shaping && cp <> iz cv ->
                                  raise (Dis (Printf.sprintf "bucket-capacity want=%d got=%d" (iz cv) cp))
                              | _ -> ()))) evs;
             if !rest <> [] then raise (Dis "real-code-wrote-more-chunks");
             if endgap < !pending then
               raise (Dis (Printf.sprintf "pause %dus at the end of the write, model delay %dus" endgap !pending));
             c.latp <- None;
             c.st <- Some s';
             (match c.regex with
              | Some rg when s.valid && List.mem_assoc rg !shared ->
                  shared := (rg, s'.acts) :: List.remove_assoc rg !shared
              | _ -> ());
             if not s'.shaping then c.regex <- None
         | 'P' ->
             reposted := true;
             (match validated with
              | Some shs ->
                  if o <> "st200" then raise (Dis ("repost " ^ o));
                  incr epoch;
                  active := build_map shs;
                  shared := List.map (fun (k, sh) -> (k, sh.sh_acts)) !active;
                  Hashtbl.iter (fun _ c ->
                      (match c.resp with Some r -> r.dirty <- true | None -> ());
                      c.st <- (match c.st with Some s -> Some (invalidate s) | None -> None)) conns
              | None -> if o <> "st400" then raise (Fail ("validate_rejects", "invalid configuration accepted on re-post")))
         | 'x' -> ()
         | _ -> raise (Dis ("bad-script-token:" ^ tok)));
        go script' outs'
    | _ :: _, [] -> raise (Dis "out-too-short") in
  go script outs;
  VOk !nontrivial

(* ------------------------------ L ---------------------------------- *)

let judge_listener ins outs : verdict =
  if List.mem "PANIC" outs then raise (Fail ("no_panic", "the code under test panicked"));
  let l = ref listener_init in
  let ops = ref [] in
  let last_rejected = ref false in
  let accepted = ref 0 and nacc = ref 0 in
  let failing : int list ref = ref [] in
  let rec go ins outs =
    match ins, outs with
    | [], [lk; _rej] when starts "leak" lk ->
        let leaked = ios (String.sub lk 4 (String.length lk - 4)) in
        if not (ok_release (List.rev !ops) (zi leaked)) then
          raise (Fail ("close_releases",
                       Printf.sprintf "per-connection drain goroutines alive after the history: %d, model (closed connections release their buckets): %d"
                         leaked (iz (!l).l_live)))
    | "P{" :: rest, o :: outs' ->
        let rec upto acc = function
          | "}" :: r -> (List.rev acc, r)
          | x :: r -> upto (x :: acc) r
          | [] -> raise (Dis "unterminated-P") in
        let (cfgt, rest') = upto [] rest in
        (match split ':' o with
         | [s; rx; lt; u; d] ->
             let code = ios (String.sub s 2 (String.length s - 2)) in
             let (cfgo, _) = parse_cfg cfgt (tl1 (tl1 rx)) in
             let bad = { cf_defaults = Some ((zi (-1), Z0), Z0); cf_shapes = [] } in
             let c = match cfgo with Some c -> c | None -> bad in
             let (l', out) = post !l c in
             ops := LPost c :: !ops;
             (match out, code with
              | OStatus m, _ when iz m = code -> ()
              | OStatus m, 200 -> raise (Fail ("validate_rejects", "invalid configuration accepted"))
              | _ -> raise (Dis (Printf.sprintf "post-status got=%d" code)));
             last_rejected := (code <> 200);
             if code = 200 then incr accepted;
             l := l';
             let want = Printf.sprintf "l%d:u%d:d%d" (iz (!l).l_latency) (iz (!l).l_up) (iz (!l).l_down) in
             let got = String.concat ":" [lt; u; d] in
             if want <> got then
               (if !last_rejected then raise (Fail ("reject_keeps_active", "defaults changed by a rejected configuration: want " ^ want ^ " got " ^ got))
                else raise (Dis ("defaults want=" ^ want ^ " got=" ^ got)))
         | _ -> raise (Dis ("bad-post-out:" ^ o)));
        go rest' outs'
    | ("a" | "A" | "E" as acc) :: rest, o :: outs' ->
        let (l', out) = accept !l in
        ops := LAccept :: !ops; incr nacc;
        (match out with
         | OConn id ->
             if o <> "c" ^ string_of_int (int_of_nat id) then raise (Dis "accept-id");
             if acc <> "a" then failing := int_of_nat id :: !failing
         | _ -> raise (Dis "accept"));
        l := l'; go rest outs'
    | "q" :: rest, o :: outs' ->
        let want = pr_active (!l).l_active (fun _ -> None) in
        if want <> o then
          (if !last_rejected then raise (Fail ("reject_keeps_active", "active shapes after a rejected configuration: want " ^ want ^ " got " ^ o))
           else raise (Dis ("active-map want=" ^ want ^ " got=" ^ o)));
        go rest outs'
    | tok :: rest, o :: outs' when tok.[0] = 'x' ->
        let idi = ios (tl1 tok) in
        let id = nat_of_int idi in
        let uok = not (List.mem idi !failing) in     (* what the wrapped conn's Close returns *)
        let (l', _) = close_conn !l id uok in
        ops := LClose (id, uok) :: !ops;
        l := l'; go rest outs'
    | tok :: rest, "w" :: outs' when tok.[0] = 'w' -> go rest outs'
    | tok :: rest, o :: outs' when tok.[0] = 'v' ->
        (match split ':' (tl1 tok) with
         | [id; rg] ->
             let idn = ios id in
             (match List.filter (fun c -> int_of_nat c.c_id = idn) (!l).l_conns with
              | [] -> if o <> "v-" then raise (Dis "v-closed-conn")
              | c :: _ ->
                  (match split ':' o with
                   | [v; nloc; wcap] ->
                       let mv = conn_valid !l c (chars_of_hex rg) in
                       let rv = (v = "v1") in
                       if not (ok_validity !l c (chars_of_hex rg) rv) && rv && int_of_nat c.c_est <> int_of_nat (!l).l_modified then
                         raise (Fail ("applies_to_later_connections", "a configuration accepted later is in force on an older connection"));
                       if rv <> mv && !last_rejected then
                         raise (Fail ("reject_keeps_active", Printf.sprintf "after a rejected configuration a connection accepted earlier is %s for its shape (model: %s)"
                                        (if rv then "valid" else "no longer valid") (if mv then "valid" else "not valid")));
                       if rv <> mv then raise (Dis (Printf.sprintf "validity want=%b got=%b" mv rv));
                       if 2 * ios nloc <> iz c.c_nbuckets then raise (Dis "local-bucket-count");
                       if ios wcap <> iz (conn_default_cap !l c) then raise (Dis "default-capacity");
                       if ios wcap <> iz c.c_wcap then
                         raise (Fail ("default_bandwidth_reaches_old_connections",
                                      Printf.sprintf "default write capacity of a connection accepted earlier changed from %d to %d" (iz c.c_wcap) (ios wcap)))
                   | _ -> raise (Dis "bad-v-out")))
         | _ -> raise (Dis "bad-v"));
        go rest outs'
    | _ -> raise (Dis "listener-out-shape") in
  go ins outs;
  VOk (!accepted > 0 && !nacc > 0)

(* ------------------------------ I ---------------------------------- *)

let kvs toks = List.filter_map (fun t -> match String.index_opt t ':' with
    | Some i -> Some (String.sub t 0 i, String.sub t (i + 1) (String.length t - i - 1)) | None -> None) toks

let judge_integration ins outs : verdict =
  if List.mem "PANIC" outs then raise (Fail ("no_panic", "the code under test panicked"));
  let (cfgt, rest) = split_bar ins in
  let p = kvs rest in
  match outs with
  | [s; rx; m; hs; hl; _eof; el; crt; body; got] ->
      let code = ios (String.sub s 2 (String.length s - 2)) in
      let (cfgo, regtoks) = parse_cfg cfgt (tl1 (tl1 rx)) in
      if accepted_wrongly cfgo (zi code) then raise (Fail ("validate_rejects", "invalid configuration accepted"));
      let validated = match cfgo with Some c -> validate c | None -> None in
      (match validated, code with
       | Some _, 200 | None, 400 -> ()
       | _ -> raise (Dis "status"));
      let active = match validated with Some shs -> build_map shs | None -> [] in
      let lat = match cfgo, validated with Some { cf_defaults = Some ((_, _), l); _ }, Some _ -> l | _ -> Z0 in
      let mbits = tl1 m in
      let matching = List.filteri (fun i _ -> i < String.length mbits && mbits.[i] = '1') regtoks in
      let matching = List.sort_uniq compare matching in
      let hl = ios (tl1 (tl1 hl)) in
      let delivered = chars_of_hex got in
      let body = chars_of_hex (tl1 body) in
      if hl < 0 then raise (Fail ("bytes_prefix", "no response head delivered"));
      let head = List.filteri (fun i _ -> i < hl) delivered in
      let data = head @ body in
      let status = ios (tl1 (tl1 hs)) in
      (* the range start: GetRangeStart on the status and Content-Range the origin sent *)
      let cr = chars_of_hex (tl1 (tl1 crt)) in
      let rs_impl = range_start (zi status) false cr in
      let short = List.length delivered < List.length data in
      if not (ok_prefix data delivered short) then
        raise (Fail ("bytes_prefix", Printf.sprintf "written=%d delivered=%d: the client did not receive the written bytes" (List.length data) (List.length delivered)));
      (match matching with
       | [] ->
           if not (ok_unshaped data delivered short) then raise (Fail ("only_matching", "a response whose URL matches no shape was cut"));
           VOk false
       | [rg] ->
           let rgc = chars_of_hex rg in
           let sh = List.assoc rgc active in
           if z_neg rs_impl then begin
             (* no usable range start: the response is not shaped (C18_invalid_range_unshaped) *)
             if not (ok_unshaped data delivered short) then raise (Dis "unshaped-response-was-cut");
             VOk false
           end else begin
             let rs' = rs_impl in
             if short && first_close sh.sh_acts rs' = None then
               raise (Fail ("bytes_prefix", Printf.sprintf "no close action applies but the client received only %d of %d bytes" (List.length delivered) (List.length data)));
             if not (ok_close sh.sh_acts rs' (zi hl) data delivered short) then
               raise (Fail ("close_at_k", Printf.sprintf "rs=%s hl=%d written=%d delivered=%d first_close=%s"
                              (dec_of_z rs') hl (List.length data) (List.length delivered)
                              (match first_close sh.sh_acts rs' with Some k -> dec_of_z k | None -> "-")));
             let (s, evs0) = open_ctx true sh.sh_acts sh.sh_thr true rs' (zi hl) (Some lat) O in
             let ((_, evs), r) = write (fun _ -> (huge, huge)) s data in
             let total = iz (delays_before_last_byte evs) in
             let el = ios (tl1 (tl1 el)) in
             (* throttle clause at the proxy layer: the body bytes delivered inside the throttle the range
                starts in cannot pass faster than its bandwidth allows *)
             (match List.filter (fun t -> ok_chunk_bw [t] rs' t.t_bw && throttle_at [t] rs' <> None) sh.sh_thr with
              | t :: _ ->
                  let nbody = List.length delivered - hl in
                  let inside = bytes_inside t.t_start t.t_end rs' (zi nbody) in
                  let eff = if iz sh.sh_maxbw < iz t.t_bw then sh.sh_maxbw else t.t_bw in
                  if not (ok_rate eff inside (zi el) (zi 150000)) then
                    raise (Fail ("throttle_rate", Printf.sprintf "the range starts at %s inside the throttle %s-%s: %s body bytes at %s bytes per drain interval took only %dus"
                                   (dec_of_z rs') (dec_of_z t.t_start) (dec_of_z t.t_end) (dec_of_z inside) (dec_of_z eff) el))
              | [] -> ());
             if not (ok_total_delay evs (zi el)) then
               raise (Fail ("halt_delay_total", Printf.sprintf "response took %dus, configured halts and latency add up to %dus" el total));
             if emitted evs <> delivered then raise (Dis "delivered-bytes-differ-from-model");
             VOk (List.exists is_action_ev (evs0 @ evs))
           end
       | _ -> VOk false)
  | _ -> if List.mem "listen-failed" outs || List.mem "dial-failed" outs then VOk false else raise (Dis "integration-out-shape")

(* ------------------------------ K ---------------------------------- *)

let judge_keepalive ins outs : verdict =
  if List.mem "PANIC" outs then raise (Fail ("no_panic", "the code under test panicked"));
  let (cfgt, items) = split_bar ins in
  let (mode, items) = match items with
    | m :: r when starts "mode:" m -> (String.sub m 5 (String.length m - 5), r)
    | _ -> ("plain", items) in
  let (code, rx, outs) = match outs with
    | s :: r :: rest when starts "st" s && starts "rx" r -> (ios (String.sub s 2 (String.length s - 2)), tl1 (tl1 r), rest)
    | _ -> if List.mem "listen-failed" outs then raise Exit else raise (Dis "keepalive-out-shape") in
  if List.mem "dial-failed" outs || List.mem "listen-failed" outs then raise Exit;
  let (cfgo, regtoks) = parse_cfg cfgt rx in
  let validated = match cfgo with Some c -> validate c | None -> None in
  (match validated, code with
   | None, 200 -> raise (Fail ("validate_rejects", "invalid configuration accepted"))
   | Some _, 200 | None, 400 -> ()
   | _ -> raise (Dis "status"));
  let active = match validated with Some shs -> build_map shs | None -> [] in
  let lat = match cfgo, validated with Some { cf_defaults = Some ((_, _), l); _ }, Some _ -> l | _ -> Z0 in
  let shared = ref (List.map (fun (k, sh) -> (k, sh.sh_acts)) active) in
  let prev = ref (fst (open_ctx true [] [] false Z0 Z0 (Some lat) O)) in
  let nresp = ref 0 and acted = ref false and dead = ref false and tunnel = ref false in
  (* a response / transfer that matches no shape: every byte, never cut *)
  let unshaped what data delivered cut el =
    if not (ok_unshaped data delivered cut) then
      raise (Fail ("only_matching", Printf.sprintf "%s %d (mode %s) matches no shape but was cut or altered: %d of %d bytes"
                     what !nresp mode (List.length delivered) (List.length data)));
    let (s, _) = respond !prev true [] [] false Z0 Z0 in
    let ((s', evs), _) = write (fun _ -> (huge, huge)) s data in
    if not (ok_total_delay evs (zi el)) then raise (Fail ("halt_delay_total", "latency not observed"));
    prev := s' in
  let outs = if mode = "mitm" then
      (match outs with
       | "c200" :: "handshake-failed" :: _ -> raise (Dis "tls-handshake-with-the-proxy-failed")
       | "c200" :: rest -> rest
       | c :: _ -> raise (Fail ("only_matching", "CONNECT on a fresh shaped connection answered " ^ c))
       | [] -> raise (Dis "keepalive-out-length"))
    else outs in
  let aborted = ref false in
  let how = if List.mem "end:rst" items || List.exists (fun t -> starts "qz:" t) items then "reset by the client" else "closed" in
  let rec go items outs =
    match items, outs with
    | [], [gl; m] when starts "gl" gl ->
        let left = ios (tl1 (tl1 gl)) in
        if not (ok_no_leak (zi left)) then
          raise (Fail ("close_releases", Printf.sprintf "%d goroutines created for the client connection (mode %s) are still alive after it was %s" left mode how));
        let want = pr_active active (fun k -> List.assoc_opt k !shared) in
        (* after an abort in the middle of a response how far the proxy got is not determined *)
        if want <> m && not !aborted then raise (Dis ("final-actions want=" ^ want ^ " got=" ^ m))
    | "end:rst" :: items', _ -> go items' outs
    | qz :: items', "skip" :: outs' when starts "qz:" qz -> go items' outs'
    | qz :: items', z :: outs' when starts "qz:" qz && z.[0] = 'z' -> aborted := true; dead := true; go items' outs'
    | _ :: items', "skip" :: outs' ->
        if not !dead then raise (Dis "item-skipped-on-a-live-connection");
        go items' outs'
    | q :: items', _ :: _ :: _ :: "cut" :: _ :: _ :: "x" :: outs' when !dead && q.[0] = 'q' ->
        (* the proxy had closed the connection after the previous response *)
        go items' outs'
    | t :: _, c :: outs' when t.[0] = 't' && not !tunnel && String.length c > 0 && c.[0] = 'c' ->
        (* the blind CONNECT and its 200 response *)
        if !dead then (match outs' with "skip" :: o2 -> go (List.tl items) o2 | _ -> raise (Dis "connect-on-dead-connection"))
        else begin
          if c <> "c200" then
            raise (Fail ("only_matching", "CONNECT response (matches no shape) was cut or refused: " ^ c));
          tunnel := true;
          (* its head went through the connection as an unshaped response *)
          let (s, _) = respond !prev true [] [] false Z0 Z0 in
          let ((s', _), _) = write (fun _ -> (huge, huge)) s ['H'] in   (* consumes the latency-once *)
          prev := s';
          go items outs'
        end
    | t :: items', state :: el :: body :: got :: outs' when t.[0] = 't' && (state = "tok" || state = "tcut") ->
        if !dead then begin
          if got <> "x" then raise (Dis "transfer-after-close");
          go items' outs'
        end else begin
          incr nresp;
          unshaped "tunnel transfer" (chars_of_hex (tl1 body)) (chars_of_hex got) (state = "tcut") (ios (tl1 (tl1 el)));
          go items' outs'
        end
    | q :: items', m :: hs :: hl :: state :: el :: body :: got :: outs' when q.[0] = 'q' ->
        if !dead then raise (Dis "response-after-close");
        let rs = match split ':' q with [_; _; rs; _; _] -> ios rs | _ -> raise (Dis "bad-q") in
        let mbits = tl1 m in
        let matching = List.sort_uniq compare
            (List.filteri (fun i _ -> i < String.length mbits && mbits.[i] = '1') regtoks) in
        let hl = ios (tl1 (tl1 hl)) in
        let delivered = chars_of_hex got in
        let body = chars_of_hex (tl1 body) in
        let el = ios (tl1 (tl1 el)) in
        incr nresp;
        if hl < 0 && matching = [] then
          raise (Fail ("only_matching", Printf.sprintf "response %d (mode %s) matches no shape but its head was not delivered" !nresp mode));
        if hl < 0 && state <> "cut" then raise (Fail ("bytes_prefix", "no response head delivered"));
        let head = if hl >= 0 then List.filteri (fun i _ -> i < hl) delivered else delivered in
        let data = head @ body in
        let short = List.length delivered < List.length data in
        if hl >= 0 && not (ok_prefix data delivered short) then
          raise (Fail ("bytes_prefix", Printf.sprintf "response %d: written=%d delivered=%d: the client did not receive the written bytes"
                         !nresp (List.length data) (List.length delivered)));
        if hl >= 0 && ios (tl1 (tl1 hs)) <> (if rs >= 0 then 206 else 200) then raise (Dis "origin-status");
        let rs' = zi (if rs >= 0 then rs else 0) in
        (match matching with
         | [] -> unshaped "response" data delivered (short || state = "cut") el
         | [rg] when hl >= 0 ->
             let rgc = chars_of_hex rg in
             let sh = List.assoc rgc active in
             let acts = List.assoc rgc !shared in
             if not (ok_close acts rs' (zi hl) data delivered short) then
               raise (Fail ("close_at_k", Printf.sprintf "response %d (mode %s): rs=%d hl=%d written=%d delivered=%d first_close=%s"
                              !nresp mode rs hl (List.length data) (List.length delivered)
                              (match first_close acts rs' with Some k -> dec_of_z k | None -> "-")));
             let (s, evs0) = respond !prev true acts sh.sh_thr true rs' (zi hl) in
             let ((s', evs), r) = write (fun _ -> (huge, huge)) s data in
             let total = iz (delays_before_last_byte evs) in
             if not (ok_total_delay evs (zi el)) then
               raise (Fail ("halt_delay_total", Printf.sprintf "response %d (mode %s) took %dus, configured halts and latency add up to %dus" !nresp mode el total));
             if emitted evs <> delivered then raise (Dis "delivered-bytes-differ-from-model");
             let closed = (match r with RClosed _ -> true | _ -> false) in
             (* a close exactly at the end of the body: complete response, then the proxy closes *)
             if closed && not short then dead := true
             else if closed <> (state = "cut") then raise (Dis (Printf.sprintf "connection-state want-closed=%b got=%s" closed state));
             if List.exists is_action_ev (evs0 @ evs) then acted := true;
             shared := (rgc, s'.acts) :: List.remove_assoc rgc !shared;
             prev := s'
         | _ -> raise Exit);
        if state = "cut" then dead := true;
        go items' outs'
    | _ -> raise (Dis "keepalive-out-length") in
  (try go items outs with Exit -> ());
  VOk (!nresp >= 2 && (!acted || mode <> "plain"))

(* ------------------------------ X ---------------------------------- *)

(* a halt in progress on one connection must not hold up anything else: the configuration POST
   and the unrelated exchange on a new connection both finish well inside the halt (a third of it) *)
let judge_halt_interleave ins outs : verdict =
  if List.mem "PANIC" outs then raise (Fail ("no_panic", "the code under test panicked"));
  let (_, rest) = split_bar ins in
  let d = ios (List.assoc "d" (kvs rest)) in
  let bound = d * 1000 / 3 in
  (match outs with
   | ["listen-failed"] -> ()
   | [st; _; post; fast; a] when st = "st200" ->
       let first t pre = ios (List.hd (split ':' (String.sub t (String.length pre) (String.length t - String.length pre)))) in
       let pel = first post "post" and fel = first fast "fast" and ael = first a "a" in
       (match split ':' fast with
        | [_; "ok"; n] when ios n > 300 -> ()
        | _ -> raise (Fail ("only_matching", "the exchange that matches no shape did not complete: " ^ fast)));
       if not (ok_grant (zi fel) (zi bound)) then
         raise (Fail ("halt_only_matching", Printf.sprintf "while another connection sat in its halt of %d ms, a response matching no shape on a new connection took %d us (bound: a third of the halt)" d fel));
       (match split ':' post with
        | [_; "200"] -> ()
        | _ -> raise (Dis ("repost " ^ post)));
       if not (ok_grant (zi pel) (zi bound)) then
         raise (Fail ("config_applies_promptly", Printf.sprintf "a configuration POST during a halt of %d ms on some connection took %d us to be accepted (bound: a third of the halt)" d pel));
       (* the halted response itself: at least its halt *)
       if not (ok_total_delay [Sleep (zi d); Emit ['x']] (zi ael)) then
         raise (Fail ("halt_delay_total", Printf.sprintf "the halted response took %d us, halt %d ms" ael d))
   | _ -> raise (Dis "halt-interleave-out-shape"));
  VOk true

(* ------------------------------ R ---------------------------------- *)

let judge_rate ins outs : verdict =
  if List.mem "PANIC" outs then raise (Fail ("no_panic", "the code under test panicked"));
  let (cfgt, rest) = split_bar ins in
  let p = kvs rest in
  let n = ios (List.assoc "n" p) in
  let rs = (try ios (List.assoc "rs" p) with Not_found -> 0) in
  (* the (last) throttle a-b / a- : bandwidth, start, end (-1 = open) *)
  let (bw, ta, tb) = match List.rev (List.filter (fun t -> starts "T:" t) cfgt) with
    | t :: _ -> (match split ':' t with
        | [_; by; b] ->
            (match String.split_on_char '-' (string_of_chars (chars_of_hex by)) with
             | [a; ""] -> (ios b, (if a = "" then 0 else ios a), -1)
             | [a; e] -> (ios b, (if a = "" then 0 else ios a), ios e)
             | _ -> raise (Dis "bad-T-bytes"))
        | _ -> raise (Dis "bad-T"))
    | [] -> raise (Dis "rate-without-throttle") in
  (* the shape's shared bucket (max_global_bandwidth), 0 = none *)
  let global = match List.filter (fun t -> starts "S:" t) cfgt with
    | t :: _ -> (match split ':' t with [_; _; g] -> ios g | _ -> 0)
    | [] -> 0 in
  let eff = if global > 0 && global < bw then global else bw in
  (* body bytes of [rs, rs+n) that lie inside the throttle interval *)
  let inside = iz (bytes_inside (zi ta) (zi tb) (zi rs) (zi n)) in
  (match outs with
   | s :: _ :: [hang] when s = "st200" && starts "HANG" hang ->
       raise (Fail ("write_returns", Printf.sprintf "concurrent connections on one shape: Conn.Write / the context setup did not return within 10 s (round %s): the bytes written are never delivered" (String.sub hang 4 (String.length hang - 4))))
   | s :: _ :: rs_ when s = "st200" ->
       let maxel = ref 0 and total = ref 0 in
       List.iter (fun r ->
           match split ':' r with
           | [w; e; el; mx; same] ->
               if e <> "ok" || ios (tl1 w) <> n || same <> "same1" then
                 raise (Fail ("bytes_prefix", Printf.sprintf "bytes through the throttled write differ from the bytes written (local %d, global %d per interval): %s" bw global r));
               let el = ios (tl1 (tl1 el)) and mx = ios (tl1 (tl1 mx)) in
               if inside = n && not (ok_grant (zi mx) (zi eff)) then
                 raise (Fail ("throttle_rate", Printf.sprintf "a single grant of %d bytes exceeds the bandwidth %d" mx eff));
               if not (ok_rate (zi eff) (zi inside) (zi el) (zi 150000)) then
                 raise (Fail ("throttle_rate", Printf.sprintf "%d bytes of the response lie inside the throttle %d-%d at %d bytes per drain interval but it took only %dus" inside ta tb eff el));
               if el > !maxel then maxel := el;
               total := !total + inside
           | _ -> raise (Dis "bad-rate-out")) rs_;
       (* all connections together through the shared bucket *)
       if global > 0 && not (ok_rate (zi global) (zi !total) (zi !maxel) (zi 150000)) then
         raise (Fail ("throttle_rate", Printf.sprintf "%d bytes of %d connections through the shared bucket of %d bytes per interval took only %dus" !total (List.length rs_) global !maxel))
   | _ -> raise (Dis "rate-status"));
  VOk true

let judge _name ins outs =
  try
    match ins with
    | "U" :: r -> judge_unit r outs
    | "L" :: r -> judge_listener r outs
    | "I" :: r -> judge_integration r outs
    | "R" :: r -> judge_rate r outs
    | "K" :: r -> (try judge_keepalive r outs with Exit -> VOk false)
    | "X" :: r -> judge_halt_interleave r outs
    | _ -> VDisagree "unknown-case-kind"
  with
  | Fail (c, d) -> VPropfail (c, String.concat "_" (String.split_on_char ' ' d))
  | Dis d -> VDisagree (String.concat "_" (String.split_on_char ' ' d))
  | Not_found -> VDisagree "driver-not-found"

let () = run_driver judge
