(* C14 driver: parses the case lines of harness/cmd/c14, evaluates the extracted
   clause oracles (c14_req_clauses / c14_res_clauses, proved equivalent to the
   clause predicates of the theorems) on the REAL output, then compares the
   extracted model's prediction (stack_req / stack_res) with it. *)

let self_tag = chars_of_string "martian-SELF"
let cur_self = ref self_tag   (* pseudonym of the instance a DIR-style observation came from *)

let after (p : int) (t : string) = String.sub t p (String.length t - p)
let starts (p : string) (t : string) =
  String.length t >= String.length p && String.sub t 0 (String.length p) = p

let line_of (t : string) : char list * char list =
  match String.split_on_char ':' t with
  | [_; k; v] -> (chars_of_hex k, chars_of_hex v)
  | _ -> failwith ("bad line token " ^ t)

(* observed header lines -> map, keys exactly as observed *)
let raw_map (ls : (char list * char list) list) =
  List.fold_left (fun h (k, v) -> add_raw h k v) [] ls

let owned_req = List.map chars_of_string
  ["Host"; "User-Agent"; "Accept-Encoding"; "Content-Length"; "Transfer-Encoding"; "Connection"; "Warning"]
let owned_res = List.map chars_of_string
  ["Content-Length"; "Transfer-Encoding"; "Connection"; "Warning"; "Date"]

let show_hdr h =
  String.concat ";" (List.map (fun (k, vs) ->
      Printf.sprintf "%S=[%s]" (string_of_chars k)
        (String.concat "|" (List.map (fun v -> Printf.sprintf "%S" (string_of_chars v)) vs))) h)
let squash s = String.map (fun c -> if c = ' ' || c = '\n' || c = '\t' then '_' else c) s

let judge _name ins outs =
  match outs with
  | ["PANIC"] -> VPropfail ("no_panic", "the stack panicked")
  | ["BADURL"] -> VOk false
  | [] | ["BADCASE"] -> VDisagree "bad-case"
  | t :: _ when starts "IOERR" t -> VDisagree ("environment:" ^ t)
  | _ ->
    let kind = List.hd ins in
    let prx = (kind = "PRX") in
    let proto = ref [] and qs = ref [] and ss = ref [] and st = ref 200 in
    List.iter (fun t ->
        if starts "V" t then proto := chars_of_string (after 1 t)
        else if starts "q:" t then qs := line_of t :: !qs
        else if starts "s:" t then ss := line_of t :: !ss
        else if starts "st" t then st := int_of_string (after 2 t)) (List.tl ins);
    let qs = List.rev !qs and ss = List.rev !ss in
    let tc = ref [] and ts = ref [] and th = ref [] and tu = ref [] in
    let e = ref "?" and k = ref false and i = ref false and n = ref (-1) in
    let hs = ref [] and rs = ref [] and rstat = ref 0 and re = ref false and ri = ref false in
    List.iter (fun t ->
        if starts "tc:" t then tc := chars_of_hex (after 3 t)
        else if starts "ts:" t then ts := chars_of_hex (after 3 t)
        else if starts "th:" t then th := chars_of_hex (after 3 t)
        else if starts "tu:" t then tu := chars_of_hex (after 3 t)
        else if starts "h:" t then hs := line_of t :: !hs
        else if starts "r:" t then rs := line_of t :: !rs
        else if starts "RS" t then rstat := int_of_string (after 2 t)
        else if starts "RE" t then re := (after 2 t = "1")
        else if starts "RI" t then ri := (after 2 t = "1")
        else if starts "E" t then e := after 1 t
        else if starts "K" t then k := (after 1 t = "1")
        else if starts "I" t then i := (after 1 t = "1")
        else if starts "N" t then n := int_of_string (after 1 t)
        else failwith ("bad OUT token " ^ t)) outs;
    let env = { e_self = !cur_self; e_proto = !proto; e_client = !tc; e_scheme = !ts; e_host = !th; e_url = !tu } in
    let hin = of_lines qs in
    let oerr = match !e with "n" -> None | "f" -> Some EFraming | "l" -> Some ELoop
                           | x -> failwith ("unexpected error class " ^ x) in
    let obs = { o_hdr = raw_map (List.rev !hs); o_err = oerr; o_skip = !k; o_inner = !i } in
    if not rfc_covered then VPropfail ("no_hop_by_hop_survives", "hopByHopHeaders-no-longer-covers-the-RFC-list")
    else if prx && !n > 1 then VDisagree (Printf.sprintf "origin-saw-%d-requests" !n)
    else
    match first_false (c14_req_clauses env hin obs) with
    | Some c ->
        let c = string_of_chars c in
        let why =
          if c = "loop_detected_skip_and_400" && is_hopb hin k_VIA then "via-named-in-connection"
          else "observed" in
        VPropfail (c, squash (Printf.sprintf "%s err=%s skip=%b inner=%b in={%s} out={%s}" why !e !k !i
                                (show_hdr hin) (show_hdr obs.o_hdr)))
    | None ->
      let looped = (oerr = Some ELoop) in
      (* response phase: in PRX mode a looped request is answered from a fresh empty 200 *)
      let rin = if prx && looped then [] else of_lines ss in
      let rst = if prx && looped then 200 else !st in
      let robs = { s_hdr = raw_map (List.rev !rs); s_status = n_of_int !rstat; s_err = !re; s_inner = !ri } in
      match first_false (c14_res_clauses looped rin (n_of_int rst) robs) with
      | Some c ->
          let why = if prx && has_close rin then "connection-close-consumed-by-transport" else "observed" in
          VPropfail (string_of_chars c ^ "_response",
                     squash (Printf.sprintf "%s status=%d err=%b in={%s} out={%s}" why !rstat !re (show_hdr rin) (show_hdr robs.s_hdr)))
      | None ->
        (* correspondence: model prediction vs observation *)
        let m = stack_req env hin in
        let mr = stack_res looped (if prx then transport_res_view rin else rin) (n_of_int rst) in
        let req_agrees =
          if prx then
            err_eqb m.o_err obs.o_err && m.o_skip = obs.o_skip && m.o_inner = obs.o_inner
            && (looped || hdr_eqb (without m.o_hdr owned_req) obs.o_hdr)
          else req_out_eqb m obs in
        let res_agrees =
          if prx then res_out_eqb { mr with s_hdr = without mr.s_hdr owned_res } robs
          else res_out_eqb mr robs in
        if not req_agrees then
          VDisagree (squash (Printf.sprintf "request: model err=%s skip=%b inner=%b {%s} observed err=%s skip=%b inner=%b {%s}"
                               (match m.o_err with None -> "n" | Some EFraming -> "f" | Some ELoop -> "l")
                               m.o_skip m.o_inner (show_hdr m.o_hdr) !e !k !i (show_hdr obs.o_hdr)))
        else if not res_agrees then
          VDisagree (squash (Printf.sprintf "response: model status=%d err=%b inner=%b {%s} observed status=%d err=%b inner=%b {%s}"
                               (int_of_n mr.s_status) mr.s_err mr.s_inner (show_hdr mr.s_hdr) !rstat !re !ri (show_hdr robs.s_hdr)))
        else
          let special = [k_VIA; k_XFF; k_CL; k_TE; k_CONNECTION] in
          let nontrivial =
            List.exists (fun kk -> is_hopb hin kk || List.mem kk special) (keys hin)
            || classify env hin <> Forwarded in
          VOk nontrivial

(* CON: a batch of messages sent concurrently through ONE stack.  Every
   observed alternative of every message is judged as a sequential DIR case
   (theorem C14_output_independent_of_other_messages: under any interleaving
   of the modifiers' steps a message's result is stack_req / stack_res of that
   message alone). *)
let split_by (seps : string list) (toks : string list) : string list * (string * string list) list =
  (* prefix before the first separator, then (separator, tokens) groups *)
  let rec go pre groups cur = function
    | [] -> (List.rev pre, List.rev (match cur with None -> groups | Some (s, l) -> (s, List.rev l) :: groups))
    | t :: r when List.mem t seps ->
        go pre (match cur with None -> groups | Some (s, l) -> (s, List.rev l) :: groups) (Some (t, [])) r
    | t :: r ->
        (match cur with
         | None -> go (t :: pre) groups None r
         | Some (s, l) -> go pre groups (Some (s, t :: l)) r) in
  go [] [] None toks

let judge_con name ins outs =
  match outs with
  | ["BADURL"] -> VOk false
  | [] | ["BADCASE"] -> VDisagree "bad-case"
  | t :: _ when starts "IOERR" t -> VDisagree ("environment:" ^ t)
  | _ ->
    let (envin, msgs) = split_by ["M"] (List.tl ins) in
    let (table, groups) = split_by ["M"; "ALT"] outs in
    (* attach ALT groups to the preceding M *)
    let rec attach acc = function
      | [] -> List.rev acc
      | ("M", o) :: r -> attach ([o] :: acc) r
      | (_, o) :: r -> (match acc with a :: acc' -> attach ((o :: a) :: acc') r | [] -> failwith "ALT before M") in
    let obs = attach [] groups in
    if List.length obs <> List.length msgs then VDisagree "batch-shape"
    else begin
      let res = ref (VOk (List.length msgs >= 8)) in
      List.iteri (fun i ((_, m), alts) ->
          List.iter (fun o ->
              match !res with
              | VOk _ ->
                  (match judge name (("DIR" :: envin) @ m) (table @ o) with
                   | VOk _ -> ()
                   | VPropfail (c, d) -> res := VPropfail (c, Printf.sprintf "concurrent-batch_message=%d_alternatives=%d_%s" i (List.length alts) d)
                   | VDisagree d -> res := VDisagree (Printf.sprintf "concurrent-batch_message=%d_%s" i d))
              | _ -> ()) alts)
        (List.combine msgs obs);
      !res
    end

(* IDS: pseudonyms of fresh instances are well formed and pairwise distinct.
   CHN: one request through distinct same-name instances; hop k is judged as a
   DIR case whose input is what hop k-1 was OBSERVED to send and whose
   "this instance" is martian-INST<hops[k]> (theorems
   C14_chain_of_distinct_instances_no_false_loop_one_entry_per_hop,
   C14_loop_through_other_instances_is_refused follow from the per-hop clauses). *)
let judge_ids outs =
  match outs with
  | [n; wf; d] when starts "n" n && starts "wf" wf && starts "distinct" d ->
      let n = after 1 n and wf = after 2 wf and d = after 8 d in
      if n = wf && n = d then VOk true
      else VPropfail ("instance_identity_distinct",
                      Printf.sprintf "instances=%s_wellformed_pseudonyms=%s_distinct_pseudonyms=%s" n wf d)
  | _ -> VDisagree "bad-IDS-output"

let judge_chain name ins outs =
  match outs with
  | ["BADURL"] -> VOk false
  | [] | ["BADCASE"] -> VDisagree "bad-case"
  | t :: _ when starts "IOERR" t -> VDisagree ("environment:" ^ t)
  | _ ->
    let envin = List.filter (fun t -> not (starts "q:" t) && not (starts "hops=" t)) (List.tl ins) in
    let q0 = List.filter (starts "q:") ins in
    let hops = List.map int_of_string
        (String.split_on_char '.' (after 5 (List.find (starts "hops=") ins))) in
    let (pre, groups) = split_by ["HOP"] outs in
    let table = List.filter (fun t -> t <> "IDOK" && t <> "IDBAD") pre in
    if List.mem "IDBAD" pre then
      VPropfail ("instance_identity_distinct", "instances-of-one-chain-share-a-pseudonym-or-it-is-malformed")
    else begin
      let res = ref (VOk (List.length hops >= 2)) in
      let q = ref q0 and stopped = ref false and k = ref 0 in
      List.iter (fun (_, o) ->
          (match !res with
           | VOk _ when !stopped -> res := VDisagree "hop-after-error"
           | VOk _ ->
               let inst = List.nth hops !k in
               cur_self := chars_of_string (Printf.sprintf "martian-INST%d" inst);
               (* the response half of oneDirect ran on an empty 200 response *)
               (match judge name (("DIR" :: envin) @ !q @ ["st200"]) (table @ o) with
                | VOk _ -> ()
                | VPropfail (c, d) -> res := VPropfail (c, Printf.sprintf "chain_hop=%d_instance=%d_%s" !k inst d)
                | VDisagree d -> res := VDisagree (Printf.sprintf "chain_hop=%d_instance=%d_%s" !k inst d));
               cur_self := self_tag;
               if not (List.mem "En" o) then stopped := true;
               q := List.filter_map (fun t -> if starts "h:" t then Some ("q:" ^ after 2 t) else None) o;
               incr k
           | _ -> ())) groups;
      (match !res with
       | VOk _ when not !stopped && !k <> List.length hops -> VDisagree "chain-ended-without-error"
       | v -> v)
    end

let judge name ins outs =
  match ins with
  | "CON" :: _ -> judge_con name ins outs
  | "IDS" :: _ -> judge_ids outs
  | "CHN" :: _ -> judge_chain name ins outs
  | _ -> judge name ins outs

(* bin/vcheck resolves the inputs of only the first 2000 bad cases; when one
   defect makes thousands of cases fail, later ones would get an empty
   witness.  Report at most [cap] failures per clause (corpus cases come
   first, so witnesses are always among them); the rest count as trivial OK. *)
let cap = 100
let seen_bad : (string, int) Hashtbl.t = Hashtbl.create 16
let judge_capped name ins outs =
  let bump key v =
    let n = (try Hashtbl.find seen_bad key with Not_found -> 0) + 1 in
    Hashtbl.replace seen_bad key n;
    if n > cap then VOk false else v in
  match judge name ins outs with
  | VPropfail (c, _) as v -> bump c v
  | VDisagree _ as v -> bump "DISAGREE" v
  | v -> v

let () = run_driver judge_capped
