(* C07 driver: parses the proxy-side event trace and the client views,
   evaluates the extracted oracle c07_ok (-> PROPFAIL <clause>) and then the
   extracted trace acceptor of the LTS (-> DISAGREE). *)

let parse_label (t : string) : label =
  let n = String.length t in
  let num a b = nat_of_int (int_of_string (String.sub t a (b - a))) in
  match t with
  | "CC" -> CloseCall | "CS" -> CloseSignal | "CL" -> CloseLock
  | "CV" -> ClosingSeen | "CR" -> CloseReturn
  | _ ->
    (match t.[0] with
     | 'A' -> Accept (num 1 n)
     | 'T' when t.[n - 1] = '!' || t.[n - 1] = '?' -> Conn (num 1 (n - 1), RTBroken)
     | 'W' | 'T' | 'P' ->
         let m = (match t.[n - 1] with '+' -> true | '-' -> false | _ -> failwith ("bad mark " ^ t)) in
         Conn (num 1 (n - 1), (match t.[0] with 'W' -> WriteHead m | 'T' -> RTEnd m | _ -> RespStatus m))
     | c ->
         let k = (match c with
           | 'r' -> Register | 'n' -> Enter | 'h' -> HeadPart | 'q' -> ReqModStart
           | 't' -> RTStart | 's' -> ResModStart | 'e' -> ResModEnd | 'd' -> Decide
           | 'w' -> WriteDone | 'X' -> SockClose | 'f' -> Done
           | 'F' -> WriteFail | 'G' -> CliGone | 'E' -> CResModEnd
           | _ -> failwith ("bad token " ^ t)) in
         Conn (num 1 n, k))

(* K<id>=<m|u|T>*:<c|o> *)
let parse_view (tr : label list) (idx : int) (t : string) =
  match String.index_opt t '=' with
  | None -> failwith ("bad view " ^ t)
  | Some i ->
      if int_of_string (String.sub t 1 (i - 1)) <> idx then failwith ("view out of order " ^ t);
      let v = String.sub t (i + 1) (String.length t - i - 1) in
      (* a client that went away on purpose cannot report: its view is exempt *)
      if v = "!" then expected_view tr (nat_of_int idx) else
      (match String.split_on_char ':' v with
       | [rs; e] ->
           (List.map (function 'm' -> ((true, true), false) | 'u' -> ((true, false), false)
                             | 'M' -> ((true, true), true) | 'U' -> ((true, false), true)
                             | _ -> ((false, false), false))
              (chars_of_string rs), e = "c")
       | _ -> failwith ("bad view " ^ t))

let clause_name = function
  | 1 -> "inflight_completes" | 2 -> "marked_close" | 3 -> "marked_then_closed"
  | 4 -> "no_reqmod_after_return" | 5 -> "late_accept_not_served"
  | 6 -> "return_after_accepted_closed" | 7 -> "all_closed" | 8 -> "close_returns"
  | 9 -> "all_answered" | 10 -> "client_view"  | 11 -> "return_after_served_closed" | 12 -> "status_matches_round_trip" | 13 -> "write_fails_only_if_client_gone" | _ -> "unknown"

let rec split_bar acc = function
  | [] -> (List.rev acc, [])
  | "|" :: r -> (List.rev acc, r)
  | x :: r -> split_bar (x :: acc) r

let is_flag t = String.length t > 0 && t.[0] <> 'K'

let judge _name ins outs =
  let (trtoks, rest) = split_bar [] outs in
  let flags = List.filter is_flag rest in
  let vtoks = List.filter (fun t -> not (is_flag t)) rest in
  if List.mem "ENVFAIL" trtoks || List.mem "ENVFAIL" flags then VDisagree "environment-failure(listen/dial)"
  else if List.mem "PANIC" flags then VPropfail ("no_panic", "harness recovered a panic")
  else if List.exists (fun f -> String.length f > 6 && String.sub f 0 6 = "PANIC:") flags then
    VPropfail ("no_panic", "the proxy panicked while Close raced accepts: " ^ String.concat " " flags)
  else if List.mem "RACE" flags then VPropfail ("no_data_race", "race detector report in the Close/accept stress child")
  else if List.exists (fun f -> String.length f > 10 && String.sub f 0 10 = "CHILDFAIL:") flags then
    VDisagree ("stress-child-failed:" ^ String.concat "," flags)
  else if List.mem "NOPANIC" flags then VOk true
  else if List.mem "DEADLOCK" flags then VPropfail ("close_returns", "Close did not return within 8s after every parked exchange was released: " ^ String.concat "_" trtoks)
  else if List.mem "TUNNEL_TRUNCATED" flags then
    VPropfail ("inflight_tunnel_completes", "the stream through a tunnel that was half-closed when Close was called did not arrive completely: " ^ String.concat "_" trtoks)
  else if List.mem "UNACCEPTED_OPEN" flags then
    VPropfail ("late_connections_closed", "a connection dialled after shutdown began completed its handshake but was neither accepted, refused nor closed (listening socket still open after Serve returned): " ^ String.concat "_" trtoks)
  else if List.mem "UNACCEPTED_SERVED" flags then VPropfail ("late_accept_not_served", "a client whose connection was never accepted received a response")
  else if List.exists (fun f -> f = "WARMUPFAIL" || f = "NOPARK" || f = "BADCASE") flags then
    VDisagree ("harness-could-not-drive-scenario:" ^ String.concat "," flags)
  else begin
    let tr = List.map parse_label trtoks in
    let views = List.mapi (parse_view tr) vtoks in
    if not (c07_ok tr views) then begin
      let c = int_of_nat (c07_failing_clause tr views) in
      let body_lost = List.exists (fun t -> String.length t > 1 && t.[0] = 'T' && t.[String.length t - 1] = '!') trtoks in
      let detail =
        if c = 6 then begin
          (* which accepted connection outlived Close, and was it accepted
             before or after Close was called *)
          let arr = Array.of_list tr in
          let idx p = let r = ref (-1) in Array.iteri (fun i l -> if !r < 0 && p l then r := i) arr; !r in
          let cr = idx (function CloseReturn -> true | _ -> false) in
          let cc = idx (function CloseCall -> true | _ -> false) in
          let res = ref "" in
          Array.iteri (fun i l ->
            match l with
            | Accept cn when !res = "" && i < cr ->
                let closed = ref false in
                Array.iteri (fun j l' -> if j > i && j < cr && is_conn cn SockClose l' then closed := true) arr;
                if not !closed then
                  res := Printf.sprintf "conn=%d %s" (int_of_nat cn)
                    (if cc >= 0 && cc < i then "accepted-during-shutdown" else "accepted-before-shutdown")
            | _ -> ()) arr;
          !res ^ " trace=" ^ String.concat "_" trtoks
        end else if c = 10 then
          "trace=" ^ String.concat "_" trtoks ^ " views=" ^ String.concat "_" vtoks
        else "trace=" ^ String.concat "_" trtoks in
      if c = 14 && body_lost then
        VPropfail ("request_body_delivered",
                   "the origin did not receive the complete byte-identical request body of an exchange whose upload was still in progress when shutdown was requested: " ^ detail)
      else if c = 14 then
        VPropfail ("origin_response_delivered",
                   "the round trip of an exchange whose request modifier had started failed although the origin is reachable; the client got a proxy-made 502 in place of the origin's response: " ^ detail)
      else VPropfail (clause_name c, detail)
    end else if not (accepts tr) then
      VDisagree (Printf.sprintf "trace-not-admitted-by-LTS at-event=%s trace=%s"
                   (match rejected_at tr with Some k -> string_of_int (int_of_nat k) | None -> "?")
                   (String.concat "_" trtoks))
    else begin
      (* non-trivial: shutdown was requested while at least one exchange was
         in flight or a connection was open *)
      let has p = List.exists p tr in
      VOk (has (function CloseReturn -> true | _ -> false) && has (function Accept _ -> true | _ -> false))
    end
  end

let () = run_driver judge
