(* C08/C09 driver (the two copies differ only in [prop]): parses scripts and the
   frames the real relay delivered, evaluates the extracted oracles c08_ok /
   c09_ok on the REAL observation, then runs the extracted model step by step
   and compares frames and windows. *)
let prop = "C09"

let split c s = String.split_on_char c s
let sd = function "c" -> Cl | "s" -> Sv | x -> failwith ("side " ^ x)
let nd = n_of_dec
let bl s = s = "1"

let data_of_tok (t : string) : char list =
  if String.length t > 0 && t.[0] = 'z' then begin
    match split '.' (String.sub t 1 (String.length t - 1)) with
    | [n; seed] ->
        let n = int_of_string n and seed = int_of_string seed in
        List.init n (fun i -> Char.chr ((seed + i * 7) mod 251))
    | _ -> failwith "ztok"
  end else chars_of_hex t

let prio_of (s : string) : prio option =
  if s = "-" then None else
  match split '.' s with
  | [d; e; w] -> Some { pdep = nd d; pexcl = bl e; pweight = nd w }
  | _ -> failwith "prio"
let pad_of s = if s = "-" then None else Some (nd s)
let kv_of (s : string) : (n * n) list =
  if s = "" then [] else
  List.map (fun kv -> match split '=' kv with [k; v] -> (nd k, nd v) | _ -> failwith "kv") (split ',' s)

(* label token -> (sender, frame) *)
let parse_label (t : string) : side * frame =
  let y = sd (String.sub t 1 1) in
  let f = match split ':' (String.sub t 2 (String.length t - 2)) with "" :: r -> r | r -> r in
  let fr = match t.[0], f with
    | 'D', [s; es; pad; d] -> FData (nd s, bl es, data_of_tok d, pad_of pad)
    (* e0: the frame's fragment is empty: field list 6 is the empty list; cut = 0 bytes *)
    | 'H', [s; es; eh; pr; _pad; fid; cut] ->
        FHeaders (nd s, bl es, bl eh, prio_of pr, nd fid, fid = "6" || (eh = "0" && int_of_string cut <= 0))
    | 'C', [s; eh; _cut] -> FCont (nd s, bl eh)
    | 'P', [s; pr] -> (match prio_of pr with Some p -> FPriority (nd s, p) | None -> failwith "P")
    | 'R', [s; c] -> FRst (nd s, nd c)
    | 'S', [kv] -> FSettings (kv_of kv)
    | 'S', [] -> FSettings []
    | 'A', _ -> FSettingsAck
    | 'U', [s; eh; pm; _pad; fid; _cut] -> FPush (nd s, bl eh, nd pm, nd fid)
    | 'G', [a; d] -> FPing (bl a, chars_of_hex d)
    | 'Y', [l; c; d] -> FGoaway (nd l, nd c, chars_of_hex d)
    | 'W', [s; i] -> FWinUpd (nd s, nd i)
    | _ -> failwith ("label " ^ t) in
  (y, fr)

type rstep = {
  evs : (side * wire) list;                 (* to client then to server *)
  chunks : (side * bool * bool * int list) list;  (* recipient, has_prio, is_push, chunk lengths *)
  wins : (side * string) list;
  err : string option;
  odd : string list;
}

let ints_of s = List.map int_of_string (split '+' s)

(* OUT tokens -> steps; block seq = arrival index per recipient *)
let parse_out (outs : string list) : rstep list =
  let nb = [| 0; 0 |] in
  let steps = ref [] in
  let cur = ref None in
  let flush () = match !cur with
    | Some s -> steps := { s with evs = List.rev s.evs; chunks = List.rev s.chunks; odd = List.rev s.odd } :: !steps
    | None -> () in
  let dest = ref Cl in
  let add f = match !cur with Some s -> cur := Some (f s) | None -> failwith "token before |" in
  List.iter (fun t ->
    if t = "|" then begin flush (); cur := Some { evs = []; chunks = []; wins = []; err = None; odd = [] } end
    else if t = ">c" then dest := Cl
    else if t = ">s" then dest := Sv
    else if t = "ERR" || t = "ERR2U" || t = "RUNAWAY" || t = "PANIC" || t = "PREFACE" || t = "SETUPFAIL" || t = "BADTOKEN" then
      add (fun s -> { s with err = Some t })
    else if t.[0] = '=' then
      add (fun s -> { s with wins = (sd (String.sub t 1 1), String.sub t 3 (String.length t - 3)) :: s.wins })
    else begin
      let x = !dest in
      let xi = match x with Cl -> 0 | Sv -> 1 in
      let ev w = add (fun s -> { s with evs = (x, w) :: s.evs }) in
      match split ':' t with
      | ["d"; s; es; d] -> ev (WData (nd s, bl es, chars_of_hex d))
      | ["h"; s; es; pr; fid; lens; tab] ->
          let q = nb.(xi) in nb.(xi) <- q + 1;
          ev (WBlock (nd s, None, bl es, prio_of pr, nat_of_int q, nd fid, nd tab));
          add (fun st -> { st with chunks = (x, pr <> "-", false, ints_of lens) :: st.chunks })
      | ["u"; s; pm; fid; lens; tab] ->
          let q = nb.(xi) in nb.(xi) <- q + 1;
          ev (WBlock (nd s, Some (nd pm), false, None, nat_of_int q, nd fid, nd tab));
          add (fun st -> { st with chunks = (x, false, true, ints_of lens) :: st.chunks })
      | ["p"; s; pr] -> (match prio_of pr with Some p -> ev (WPrio (nd s, p)) | None -> failwith "p")
      | ["r"; s; c] -> ev (WRst (nd s, nd c))
      | ["s"; kv] -> ev (WSettings (kv_of kv))
      | ["a"] -> ev WAck
      | ["g"; a; d] -> ev (WPing (bl a, chars_of_hex d))
      | ["y"; l; c; d] -> ev (WGoaway (nd l, nd c, chars_of_hex d))
      | ["w"; s; i] -> ev (WWin (nd s, nd i))
      | _ -> add (fun s -> { s with odd = t :: s.odd })
    end) outs;
  flush ();
  List.rev !steps

(* sweep-order oracle read off the observation: streams in order of first delivery *)
let order_of (evs : (side * wire) list) (x : side) : n list =
  let seen = ref [] in
  List.iter (fun (t, w) ->
    if t = x then match w with
      | WData (s, _, _) | WBlock (s, _, _, _, _, _, _) | WPrio (s, _) | WRst (s, _) ->
          if not (List.mem s !seen) then seen := s :: !seen
      | _ -> ()) evs;
  List.rev !seen

let win_string (fl : flow) (mf : n) : string =
  let ss = List.sort (fun (a, _) (b, _) -> compare (int_of_n a) (int_of_n b)) fl.strs in
  Printf.sprintf "%s:%s:%s:%s" (dec_of_z fl.conn) (dec_of_z fl.init) (dec_of_n mf)
    (String.concat ";" (List.map (fun (k, (w, q)) ->
         Printf.sprintf "%s.%s.%d" (dec_of_n k) (dec_of_z w) (List.length q)) ss))

let pr_wire = function
  | WData (s, es, d) -> Printf.sprintf "d:%s:%b:%dB" (dec_of_n s) es (List.length d)
  | WBlock (s, p, es, pr, q, fid, tab) ->
      Printf.sprintf "%s:%s:%b:%s:seq%d:fid%s:tab%s" (if p = None then "h" else "u") (dec_of_n s) es
        (match pr with None -> "-" | Some p -> dec_of_n p.pdep ^ "." ^ dec_of_n p.pweight) (int_of_nat q) (dec_of_n fid) (dec_of_n tab)
  | WPrio (s, _) -> "p:" ^ dec_of_n s
  | WRst (s, c) -> "r:" ^ dec_of_n s ^ ":" ^ dec_of_n c
  | WSettings _ -> "s" | WAck -> "a" | WPing _ -> "g" | WGoaway _ -> "y"
  | WWin (s, n) -> "w:" ^ dec_of_n s ^ ":" ^ dec_of_n n
let pr_evs evs = String.concat "," (List.map (fun (x, w) -> (match x with Cl -> "c<" | Sv -> "s<") ^ pr_wire w) evs)

(* C09 compares header blocks by stream/kind/priority only: END_STREAM of continued
   blocks and HPACK decodability are C08's subject (and C08's fixes) *)
let norm_evs evs =
  (* C08 does not compare credit (WINDOW_UPDATE values are C09's subject and fix) *)
  if prop <> "C09" then List.filter (fun (_, w) -> match w with WWin _ -> false | _ -> true) evs else
  List.map (fun (x, w) -> match w with
    | WBlock (s, p, _, pr, q, _, _) -> (x, WBlock (s, p, false, pr, q, N0, N0))
    | w -> (x, w)) evs

let rec take k l = if k <= 0 then [] else match l with [] -> [] | a :: t -> a :: take (k - 1) t

let judge_pre ins outs =
  let chunks = List.map chars_of_hex ins in
  let preface = chars_of_string "PRI * HTTP/2.0\r\n\r\nSM\r\n\r\n" in
  let want = forward_preface preface chunks in
  let all = List.concat chunks in
  let starts = List.length all >= 24 && take 24 all = preface in
  (match outs, want with
   | ["ok"; fw; rest], Some (g, r) ->
       if chars_of_hex fw = g && chars_of_hex rest = List.concat r then VOk (List.length chunks > 1)
       else VPropfail ("preface", "forwarded bytes differ")
   | ["err"], None -> VOk false
   | ["err"], Some _ ->
       VPropfail ("preface", Printf.sprintf "client sent the preface in %d pieces (%s); relay refused it"
                    (List.length chunks) (if starts then "valid preface" else "?"))
   | _, _ -> VDisagree ("preface outcome " ^ String.concat "_" outs))

(* ASY: both endpoints send concurrently, the client reads slowly; all frames received are in the
   last step.  Per destination and per class (queued frames, direct frames, credit) the sequence
   received must be exactly what the model delivers: frames are written whole and in order
   whatever the interleaving of the three goroutines that write to one destination. *)
let judge_async ltoks outs =
  let lab0 = List.map parse_label ltoks in
  let labels = List.map (fun (y, fr) -> { l_from = y; l_frame = fr; l_order = [] }) lab0 in
  let rsteps = parse_out outs in
  let real = List.concat_map (fun s -> s.evs) rsteps in
  let odd = List.concat_map (fun s -> s.odd) rsteps in
  let err = List.exists (fun s -> s.err <> None) rsteps in
  let o = List.map (fun s -> s.evs) rsteps in
  let (_, mobs) = run s0 labels in
  let model = List.concat mobs in
  let cls w = match w with
    | WData _ | WBlock _ | WPrio _ | WRst _ -> 0
    | WWin _ -> 2
    | _ -> 1 in
  let proj evs x c = List.filter_map (fun (t, w) -> if t = x && cls w = c then Some w else None) evs in
  let bad = ref None in
  List.iter (fun x -> List.iter (fun c ->
      if !bad = None && proj model x c <> proj real x c then
        bad := Some (Printf.sprintf "to-%s class-%s: expected %d frames, received %d%s"
                       (match x with Cl -> "client" | Sv -> "server")
                       (List.nth ["queued"; "direct"; "credit"] c)
                       (List.length (proj model x c)) (List.length (proj real x c))
                       (let rec first i a b = match a, b with
                          | u :: a', v :: b' -> if u = v then first (i + 1) a' b' else Printf.sprintf "; first difference at frame %d: want %s got %s" i (pr_wire u) (pr_wire v)
                          | _ -> "" in first 0 (proj model x c) (proj real x c)))) [0; 1; 2]) [Cl; Sv];
  let d () = match !bad with Some d -> d | None -> "" in
  if List.length mobs <> List.length labels then VDisagree "async script not accepted by the model"
  (* the destination's Framer could not parse the octets it received, or frames never arrived *)
  else if odd <> [] then VPropfail ("concurrent_writes", "destination could not parse what the relay wrote: " ^ String.concat "_" odd)
  (* extracted oracles, each proved equivalent to its statement (frames are not attributed to labels
     here, so the statements about the whole run are used): delivered is a prefix of sent, direct
     frames identical, nothing missing, credit exact *)
  else if not (b_faithful false labels o) then VPropfail ("stream_faithful", "async: " ^ d ())
  else if not (b_direct labels o) then VPropfail ("direct_identical", "async: " ^ d ())
  else if not (b_complete labels o) then VPropfail ("concurrent_writes", "frames missing at the end of the run: " ^ d ())
  else if not (b_credit_final labels o) then VPropfail ("exact_credit", "async: " ^ d ())
  else if err then VPropfail ("concurrent_writes", "run did not complete")
  else match !bad with
    | Some dd -> VDisagree ("async per-class sequences: " ^ dd)
    | None -> VOk true

let judge _name ins outs =
  match ins with
  | "PRE" :: chunks -> judge_pre chunks outs
  | mode :: ltoks when String.length mode > 4 && String.sub mode 0 4 = "ASY:" -> judge_async ltoks outs
  | mode :: ltoks when mode = "STEP" || (String.length mode > 4 && (String.sub mode 0 4 = "E2E:" || String.sub mode 0 4 = "E2W:")) ->
      let lab0 = List.map parse_label ltoks in
      let rsteps = parse_out outs in
      (* executed steps: all but an erroring last one *)
      let errstep = List.exists (fun s -> s.err <> None) rsteps in
      let good = List.filter (fun s -> s.err = None) rsteps in
      let labels = List.mapi (fun i (y, fr) ->
          let order = match List.nth_opt rsteps i with Some s -> order_of s.evs y | None -> [] in
          { l_from = y; l_frame = fr; l_order = order }) lab0 in
      let o = List.map (fun s -> s.evs) good in
      let odd = List.concat_map (fun s -> s.odd) rsteps in
      if odd <> [] then VPropfail ("wellformed_output", String.concat "_" odd) else
      (* 1. the relay must not stop on a script the model accepts *)
      let (_, mobs) = run s0 labels in
      let nmodel = List.length mobs in
      let valid_upto_err = rfc_valid (take (List.length good + 1) labels) in
      if errstep && (List.nth rsteps (List.length good)).err = Some "RUNAWAY" then
        (* whatever the peer sent, valid or not: the relay must not spin *)
        VPropfail ("relay_error", "RUNAWAY: the relay allocated more than 1.5 GB while processing this script (memory watchdog of the harness; the label is not known)"
                                  ^ (if rfc_valid labels then "" else " [script not RFC-valid: a connection error was the correct reaction]"))
      else if errstep && valid_upto_err && (List.nth rsteps (List.length good)).err = Some "PREFACE" then
        VPropfail ("preface_e2e", "Config.Proxy refused a valid client preface delivered in pieces (" ^ mode ^ ")")
      else if errstep && valid_upto_err then
        let k = List.length good in
        let lt = List.nth ltoks k in
        (* a header block sent while the other endpoint's HEADER_TABLE_SIZE change is not yet
           acknowledged by the sender (known finding C08-K4) *)
        let inflight =
          (lt.[0] = 'H' || lt.[0] = 'C' || lt.[0] = 'U') &&
          (let y = String.sub lt 1 1 in
           (* the j-th ACK from y acknowledges the j-th SETTINGS frame of the other endpoint *)
           let ns = ref 0 and na = ref 0 and tabs = ref [] in
           List.iteri (fun i t ->
             if i < k then begin
               if t.[0] = 'S' && String.sub t 1 1 <> y then begin
                 incr ns;
                 let kv = if String.length t > 3 then String.sub t 3 (String.length t - 3) else "" in
                 if List.exists (fun e -> String.length e > 2 && String.sub e 0 2 = "1=") (split ',' kv)
                 then tabs := !ns :: !tabs
               end
               else if t.[0] = 'A' && String.sub t 1 1 = y && !na < !ns then incr na
             end) ltoks;
           List.exists (fun j -> j > !na) !tabs) in
        VPropfail ("relay_error",
                   Printf.sprintf "relay stopped at label %d (%s) of an RFC-valid script: %s%s"
                     k lt
                     (match (List.nth rsteps k).err with Some e -> e | None -> "")
                     (if inflight then " hpack-table-size-in-flight" else ""))
      else
      (* 2. property oracles on the real observation *)
      let ls = take (List.length o) labels in
      let clause =
        if prop = "C09" then
          if not (b_credit ls o) then Some "exact_credit"
          else if not (b_conn ls o) then Some "conn_window"
          else if not (b_stream ls o) then Some "stream_window"
          else if not (b_frame ls o) then Some "frame_size"
          else if not (b_strand ls o) then Some "no_stranding"
          else None
        else
          if not (b_faithful false ls o) && List.exists (List.exists (fun (_, w) -> match w with
               | WBlock (_, _, _, _, _, fid, _) -> int_of_n fid = 999 | _ -> false)) o
          then Some "header_decode"
          else if not (b_faithful false ls o) then Some "stream_faithful"
          else if not (b_direct ls o) then Some "direct_identical"
          else if not (b_table ls o) then Some "hpack_table_size"
          else if not (c08_prio_ok ls o) then Some "headers_priority_flag"
          (* "however long the receiver's windows delay delivery": never beyond the windows (a strict
             receiver resets the stream or the connection) and nothing deliverable held back *)
          else if not (b_conn ls o && b_stream ls o && b_strand ls o) then Some "delivery_under_windows"
          else None in
      (* header fragments vs the receiver's max frame size in force (C09) *)
      let chunk_bad =
        let bad = ref None in
        List.iteri (fun k s ->
          List.iter (fun (x, hp, ip, cs) ->
            let mf = maxf_of x (take (k + 1) labels) in
            if not (chunks_fit mf hp ip (List.map n_of_int cs)) && !bad = None then
              bad := Some (Printf.sprintf "step %d: header fragments %s exceed max frame size %s" k
                             (String.concat "+" (List.map string_of_int cs)) (dec_of_n mf))) s.chunks) good;
        !bad in
      (match clause, chunk_bad with
       | Some c, _ ->
           (* locate the first step at which the clause fails, for the report *)
           let k = ref 0 in
           (try
              for i = 1 to List.length o do
                let lsi = take i ls and oi = take i o in
                let okc = match c with
                  | "exact_credit" -> b_credit lsi oi | "conn_window" -> b_conn lsi oi
                  | "stream_window" -> b_stream lsi oi | "frame_size" -> b_frame lsi oi
                  | "no_stranding" -> b_strand lsi oi | "stream_faithful" -> b_faithful false lsi oi
                  | "direct_identical" -> b_direct lsi oi
                  | "hpack_table_size" -> b_table lsi oi
                  | "delivery_under_windows" -> b_conn lsi oi && b_stream lsi oi && b_strand lsi oi
                  | "header_decode" -> b_faithful false lsi oi || not (List.exists (List.exists (fun (_, w) -> match w with
                        | WBlock (_, _, _, _, _, fid, _) -> int_of_n fid = 999 | _ -> false)) oi)
                  | _ -> c08_prio_ok lsi oi in
                if not okc then begin k := i; raise Exit end
              done
            with Exit -> ());
           let comp =
             if c <> "delivery_under_windows" then "" else
             let lsk = take !k ls and ok = take !k o in
             if not (b_conn lsk ok) then "component=conn_window "
             else if not (b_stream lsk ok) then "component=stream_window "
             else "component=no_stranding " in
           (* frame_size: was every oversized DATA frame of the failing step within a MAX_FRAME_SIZE the
              receiver had in force at some earlier label (known finding C09-K1: lowered while queued)? *)
           let comp =
             if c <> "frame_size" || !k < 1 then comp else
             let evs = List.nth o (!k - 1) in
             let over = List.filter_map (fun (x, w) -> match w with
                 | WData (_, _, d) when List.length d > int_of_n (maxf_of x (take !k ls)) -> Some (x, List.length d)
                 | _ -> None) evs in
             let was_legal (x, n) =
               let rec go j = j >= 0 && (n <= int_of_n (maxf_of x (take j ls)) || go (j - 1)) in go (!k - 1) in
             if over <> [] && List.for_all was_legal over then "lowered-max-frame-size " else comp in
           VPropfail (c, Printf.sprintf "first-fails-after-label=%d(%s) %sdelivered=%s" !k
                        (if !k >= 1 then List.nth ltoks (!k - 1) else "") comp
                        (if !k >= 1 then pr_evs (List.nth o (!k - 1)) else ""))
       | None, Some d -> VPropfail ("frame_size_header", d)
       | None, None ->
      (* 3. correspondence: model vs implementation, step by step *)
      let st = ref s0 in
      let res = ref None in
      let held = ref false and blocks = ref 0 and datas = ref 0 and conts = ref 0 in
      List.iteri (fun i l ->
        if !res = None then
          match step !st l, List.nth_opt rsteps i with
          | None, None -> ()
          | None, Some r when r.err <> None -> res := Some (VOk false)   (* both refuse the frame *)
          | None, Some _ -> res := Some (VDisagree (Printf.sprintf "label %d: model refuses the frame, relay accepted it" i))
          | Some _, None -> res := Some (VDisagree (Printf.sprintf "label %d: no observation" i))
          | Some (st', mevs), Some r ->
              if r.err <> None then res := Some (VDisagree (Printf.sprintf "label %d: relay error, model continues" i))
              else if not (step_agrees (norm_evs mevs) (norm_evs r.evs)) then
                res := Some (VDisagree (Printf.sprintf "label %d (%s): model=%s real=%s" i (List.nth ltoks i) (pr_evs mevs) (pr_evs r.evs)))
              else begin
                st := st';
                (match l.l_frame with FCont _ -> incr conts | _ -> ());
                List.iter (fun (_, w) -> match w with WBlock _ -> incr blocks | WData _ -> incr datas | _ -> ()) mevs;
                List.iter (fun x ->
                  let fl = getf st'.sb x in
                  if List.exists (fun (_, (_, q)) -> q <> []) fl.strs then held := true;
                  match List.assoc_opt x r.wins with
                  | Some w ->
                      let mw = win_string fl (f_maxf st'.sf x) in
                      if w <> mw && !res = None then
                        res := Some (VDisagree (Printf.sprintf "label %d (%s): windows toward %s model=%s real=%s" i
                                                  (List.nth ltoks i) (match x with Cl -> "c" | Sv -> "s") mw w))
                  | None -> ()) [Cl; Sv];
                (* header chunking against the model's max frame size at emission *)
                List.iter (fun (x, hp, ip, cs) ->
                  let total = List.fold_left (+) 0 cs in
                  match hdr_chunks (f_maxf st'.sf x) hp ip (n_of_int total) with
                  | Some want when List.map int_of_n want = cs -> ()
                  | _ -> if !res = None then
                        res := Some (VDisagree (Printf.sprintf "label %d: header chunking %s" i
                                                  (String.concat "+" (List.map string_of_int cs))))) r.chunks
              end) labels;
      (match !res with
       | Some v -> v
       | None ->
           if prop = "C09" then VOk (!held && !datas >= 1)
           else VOk (!blocks >= 2 && !datas >= 1)))
  | _ -> VDisagree "unknown-case-kind"

let () = run_driver judge
