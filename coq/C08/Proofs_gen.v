(* Tie to the source (translator harness/cmd/gen_c08): every write to a relay's
   destination Framer in h2/relay.go happens with destMu held. *)
From Coq Require Import List String Arith Bool.
From Martian.C08 Require Import Gen_DestLocks.
Import ListNotations.

Lemma dest_writes_locked :
  forallb (fun t => snd t) dest_writes = true /\ (7 <=? List.length dest_writes)%nat = true.
Proof. vm_compute. split; reflexivity. Qed.
