(* C08 — HTTP/2 relay delivers each stream's frames faithfully for any framing
   and order.  Statements only; proofs are in Martian.H2.Proofs_*.
   Model = the relay with fixes C08-1..3 and C09-1 applied; HPACK is abstract
   (a block carries the encoder counter [seq]; the receiver decodes the k-th
   arriving block iff seq = k).  All statements quantify over ALL scripts and
   sweep-order oracles.  A stream's content is a list of atoms (one per DATA
   byte; END_STREAM; header block with its field list; PUSH_PROMISE; PRIORITY;
   RST_STREAM), so framing (fragmentation, padding, splitting) is factored out. *)
From Coq Require Import List NArith ZArith Bool Ascii.
From Martian.H2 Require Import Model Spec Proofs_flow Proofs_oracle Proofs_c08 Proofs_misc Proofs_table Proofs_final Proofs_prio Proofs_props Proofs_audit.
From Martian.C08 Require Import Gen_DestLocks Proofs_gen.
Import ListNotations.

(* per stream, in order: delivered ++ still held by the receiver's windows = sent *)
Theorem C08_stream_order : forall ls y s,
  out_atoms false (other y) s (concat (obs_of ls))
  ++ flat_map atoms_q (qs_of (getf (sb (final ls)) (other y)) s)
  = in_atoms false y s (firstn (length (obs_of ls)) ls).
Proof. exact final_complete. Qed.
Print Assumptions C08_stream_order.

Theorem C08_delivered_is_prefix_of_sent : forall ls, P_faithful false ls (obs_of ls).
Proof. exact final_faithful. Qed.
Print Assumptions C08_delivered_is_prefix_of_sent.

Theorem C08_data_bytes : forall ls y s,
  is_prefix (data_bytes (out_atoms false (other y) s (concat (obs_of ls))))
            (data_bytes (in_atoms false y s (firstn (length (obs_of ls)) ls))).
Proof. exact final_data_bytes. Qed.
Print Assumptions C08_data_bytes.

(* reset codes, priorities, promised ids, header field lists, END_STREAM marks: same, same order *)
Theorem C08_rst_priority_promise_preserved : forall ls y s,
  is_prefix (control_atoms (out_atoms false (other y) s (concat (obs_of ls))))
            (control_atoms (in_atoms false y s (firstn (length (obs_of ls)) ls))).
Proof. exact final_control. Qed.
Print Assumptions C08_rst_priority_promise_preserved.

(* END_STREAM at the same position and nowhere else: position n of what was
   delivered holds exactly what position n of what was sent holds *)
Theorem C08_end_stream_position : forall ls y s n a,
  nth_error (out_atoms false (other y) s (concat (obs_of ls))) n = Some a ->
  nth_error (in_atoms false y s (firstn (length (obs_of ls)) ls)) n = Some a.
Proof. exact final_end_stream_only. Qed.
Print Assumptions C08_end_stream_position.

Theorem C08_direct_identical : forall ls, P_direct ls (obs_of ls).
Proof. exact final_direct. Qed.
Print Assumptions C08_direct_identical.

(* every endpoint receives header blocks in the order they were HPACK-encoded *)
Theorem C08_header_blocks_in_encode_order : forall ls x,
  block_seqs x (concat (obs_of ls)) = seq 0 (length (block_seqs x (concat (obs_of ls)))).
Proof. exact final_block_order. Qed.
Print Assumptions C08_header_blocks_in_encode_order.

(* "decodes under ITS OWN HPACK state": every header block written to x was
   encoded with a dynamic table no larger than x allows: the HEADER_TABLE_SIZE
   in force (acknowledged) or announced by x and not yet acknowledged.  [tab]
   of a block is the table size of the relay's encoder toward x, as signalled
   in-band by dynamic table size updates. *)
Theorem C08_header_table_size_respected : forall ls, P_table ls (obs_of ls).
Proof. exact final_table. Qed.
Print Assumptions C08_header_table_size_respected.

Theorem C08_preface_any_segmentation : forall preface chunks rest,
  concat chunks = preface ++ rest ->
  exists r, forward_preface preface chunks = Some (preface, r) /\ concat r = rest.
Proof. exact preface_any_segmentation. Qed.
Print Assumptions C08_preface_any_segmentation.

(* the unrepaired single Read, for the record *)
Theorem C08_preface_single_read_refuted :
  exists preface chunks, concat chunks = preface /\ forward_preface_single preface chunks = None.
Proof. exact preface_single_read_refuted. Qed.

(* known finding C08-K1: PRIORITY flag with all-zero fields is dropped *)
Theorem C08_headers_priority_flag_refuted :
  exists ls, rfc_valid ls = true /\ c08_prio_ok ls (obs_of ls) = false.
Proof. exists w_k1. exact k1_refuted. Qed.

(* ... guarded form: without such a frame the PRIORITY flag itself is preserved as well *)
Theorem C08_headers_priority_flag_partial : forall ls,
  no_zero_prio ls = true -> P_faithful true ls (obs_of ls).
Proof. exact prio_flag_partial. Qed.
Print Assumptions C08_headers_priority_flag_partial.

(* known findings C08-K2, C08-K3: RFC-valid scripts on which the relay stops ... *)
Theorem C08_relay_accepts_valid_refuted :
  (exists ls, rfc_valid ls = true /\ no_empty_hfrag ls = true /\ (length (obs_of ls) < length ls)%nat)
  /\ (exists ls, rfc_valid ls = true /\ no_open_push ls = true /\ (length (obs_of ls) < length ls)%nat).
Proof. split; [exists w_k2; exact k2_refuted|exists w_k3; exact k3_refuted]. Qed.

(* ... and the guarded form: a frame the RFC allows in the current state is
   accepted unless it is a HEADERS frame with an empty fragment (K3); a
   CONTINUATION after PUSH_PROMISE is not RFC-continuable in the relay's state
   because the relay never records the open block (K2) *)
Theorem C08_relay_accepts_valid_partial : forall f y fr,
  rfc_frame_ok (option_map pend_sid (f_cont f y)) fr = true ->
  (0 < f_maxf f (other y))%N ->
  match fr with FHeaders _ _ _ _ _ e0 => e0 = false | _ => True end ->
  front f y fr <> None.
Proof. exact valid_frame_accepted. Qed.
Print Assumptions C08_relay_accepts_valid_partial.

(* source tie (regenerated from h2/relay.go on every run): the destination Framer has ONE write
   buffer shared by three goroutines; all 7 write sites hold destMu, so frames are written whole *)
Theorem C08_dest_writes_hold_destMu :
  forallb (fun t => snd t) dest_writes = true /\ (7 <=? List.length dest_writes)%nat = true.
Proof. exact dest_writes_locked. Qed.

(* "however long the receiver's flow-control windows delay delivery": the relay never sends beyond
   the connection or stream window (a strict receiver would reset), and after every label nothing
   that fits the windows is held back; with C08_stream_order: what is not yet delivered is exactly
   the queue, in order, and it moves as soon as the receiver grants enough *)
Theorem C08_delivered_when_windows_allow : forall ls,
  P_conn ls (obs_of ls) /\ P_stream ls (obs_of ls) /\ P_strand ls (obs_of ls).
Proof. exact delivery_under_windows. Qed.
Print Assumptions C08_delivered_when_windows_allow.

Theorem C08_all_delivered_when_nothing_queued : forall ls,
  (forall x s, qs_of (getf (sb (final ls)) x) s = []) -> P_complete ls (obs_of ls).
Proof. exact model_complete. Qed.

(* script level, guarded by the two shapes the pinned Framer cannot read (K2, K3): every
   RFC-valid script is processed to its last label - the relay never stops, the DATA loop never diverges *)
Theorem C08_valid_scripts_run_to_the_end_partial : forall ls,
  rfc_valid ls = true -> no_open_push ls = true -> no_empty_hfrag ls = true ->
  length (obs_of ls) = length ls.
Proof. exact valid_scripts_run_to_the_end. Qed.
Print Assumptions C08_valid_scripts_run_to_the_end_partial.

Theorem C08_rfc_valid_prefix_closed : forall a b, rfc_valid (a ++ b) = true -> rfc_valid a = true.
Proof. exact rfc_valid_prefix. Qed.

(* oracles used for the concurrent runs (frames not attributed to labels) *)
Theorem C08_complete_oracle_is_the_property : forall ls o, b_complete ls o = true <-> P_complete ls o.
Proof. exact b_complete_iff. Qed.
Theorem C08_final_credit_oracle_is_the_property : forall ls o, b_credit_final ls o = true <-> P_credit_final ls o.
Proof. exact b_credit_final_iff. Qed.
Theorem C08_final_credit : forall ls, P_credit_final ls (obs_of ls).
Proof. exact model_credit_final. Qed.
Theorem C08_table_oracle_is_the_property : forall ls o, b_table ls o = true <-> P_table ls o.
Proof. exact b_table_iff. Qed.
Theorem C08_window_oracles_are_the_property : forall ls o,
  (b_conn ls o && b_stream ls o && b_strand ls o = true) <-> (P_conn ls o /\ P_stream ls o /\ P_strand ls o).
Proof. intros. rewrite !andb_true_iff, b_conn_iff, b_stream_iff, b_strand_iff. tauto. Qed.

Example C08_hypotheses_example :
  rfc_valid w_ex = true /\ no_open_push w_ex = true /\ no_empty_hfrag w_ex = true
  /\ no_zero_prio w_ex = true /\ single_init w_ex = true
  /\ forward_preface ["P"; "R"; "I"]%char [["P"]; []; ["R"; "I"; "x"]]%char = Some (["P"; "R"; "I"]%char, [["x"%char]]).
Proof. vm_compute. repeat split; reflexivity. Qed.

Theorem C08_oracle_is_the_property : forall ls o, c08_ok ls o = true <-> P08 ls o.
Proof. exact c08_ok_iff. Qed.
Print Assumptions C08_oracle_is_the_property.

Theorem C08_prio_oracle_is_the_property : forall ls o, c08_prio_ok ls o = true <-> P_faithful true ls o.
Proof. exact (b_faithful_iff true). Qed.

Example C08_example :
  rfc_valid w_ex = true /\ length (obs_of w_ex) = length w_ex
  /\ c09_ok w_ex (obs_of w_ex) = true /\ c08_ok w_ex (obs_of w_ex) = true
  /\ sents Sv 1 (concat (obs_of w_ex)) = 3%Z /\ creds Cl 1 (concat (obs_of w_ex)) = 12%Z.
Proof. exact example_ok. Qed.
