(* C16 — property theorems.  Nothing but statements closed by [exact] and
   Print Assumptions, so a weakened statement is visible in review.
   X ranges over ALL instances of the external functions (Go stdlib) that
   satisfy the named laws; m over all messages; o over all logging options. *)
From Coq Require Import List NArith ZArith Ascii String Bool Permutation.
From Martian.C16 Require Import Model Proofs_Basics Proofs_Chunk Proofs Proofs_Audit.
Import ListNotations.

(* method, URL, HTTP version, cookies, header list incl. Host / Content-Length /
   Transfer-Encoding, query parameters equal those of the message *)
Theorem C16_fields_equal : forall X o m e,
  wf_req m -> har_req X o m = Ok e ->
  r_method e = q_method m /\ r_url e = q_url m /\ r_proto e = q_proto m /\
  r_cookies e = q_cookies m /\
  Permutation (r_headers e) (msg_headers (q_host m) (q_cl m) (q_te m) (q_hdrs m)) /\
  Permutation (r_query e) (q_query m).
Proof. exact req_fields_equal. Qed.
Print Assumptions C16_fields_equal.

(* the proxyutil overlay followed by har.headers is the message's header list *)
Theorem C16_header_list : forall host cl te h, NoDup (keys h) ->
  Permutation (flatten (header_map host cl te h)) (msg_headers host cl te h).
Proof. exact header_map_perm. Qed.
Print Assumptions C16_header_list.

(* post data = the body as the origin receives it (chunk framing removed,
   content coding kept), parsed into parameters for form and multipart bodies;
   nothing captured when the options say so.  Holds for the code repaired by
   fixes/C16-1. *)
Theorem C16_postdata_is_origin_body : forall X o m e,
  law_dechunk X -> wf_req m -> har_req X o m = Ok e ->
  post_spec X (capture o (q_hdrs m)) m e.
Proof. exact postdata_is_origin_body. Qed.
Print Assumptions C16_postdata_is_origin_body.

Theorem C16_request_dropped_only_if_unparseable : forall X o m,
  law_dechunk X -> har_req X o m = Err ->
  capture o (q_hdrs m) = true /\
  let (mt, bnd) := media X (hget k_ct (q_hdrs m)) in
  (mt = mt_multipart /\ mp_parse X bnd (q_body m) = None) \/
  (mt = mt_form /\ form_parse X (q_body m) = None).
Proof. exact request_dropped_only_if_unparseable. Qed.
Print Assumptions C16_request_dropped_only_if_unparseable.

(* status, version, cookies, header list, redirect URL, mime type; content =
   fully decoded body with its true size; a response is missing only when its
   body cannot be decoded.  Full strength is refuted twice below; this is the
   statement under the guard excluding exactly those two defects.  Holds for
   the code repaired by fixes/C16-2. *)
Theorem C16_content_is_decoded_body_true_size_partial : forall X o m,
  law_dechunk X -> wf_res m -> coding_guard X m ->
  match har_res X o m with
  | Ok e => res_fields_spec m e /\ content_spec X (capture o (s_hdrs m)) m e
  | Err => capture o (s_hdrs m) = true /\ spec_decoded X m = None
  end.
Proof. exact response_entry_correct. Qed.
Print Assumptions C16_content_is_decoded_body_true_size_partial.

Theorem C16_content_is_decoded_body_true_size_refuted_coding_case : exists X m e,
  law_dechunk X /\ wf_res m /\ har_res X OAll m = Ok e /\ ~ content_spec X true m e.
Proof. exact content_decoded_refuted_case. Qed.
Print Assumptions C16_content_is_decoded_body_true_size_refuted_coding_case.

Theorem C16_content_is_decoded_body_true_size_refuted_zlib : exists X m,
  law_dechunk X /\ wf_res m /\ har_res X OAll m = Err /\ spec_decoded X m <> None.
Proof. exact content_decoded_refuted_zlib. Qed.
Print Assumptions C16_content_is_decoded_body_true_size_refuted_zlib.

(* the same in terms of what the origin compressed *)
Theorem C16_gzip_content_is_plain_text : forall X o m e plain (gz_c : bytes -> bytes),
  law_dechunk X -> (forall p, gunzip X (gz_c p) = Some p) ->
  capture o (s_hdrs m) = true ->
  hget k_ce (s_hdrs m) = B "gzip" -> s_body m = gz_c plain -> s_body m <> [] ->
  s_status m <> 204%Z -> s_status m <> 206%Z ->
  har_res X o m = Ok e ->
  ct_text (e_content e) = plain /\ ct_size (e_content e) = Z.of_nat (List.length plain).
Proof. exact content_is_plain_body. Qed.
Print Assumptions C16_gzip_content_is_plain_text.

(* JSON round trip.  Body bytes survive exactly for ALL byte strings ... *)
Theorem C16_json_roundtrip_body_bytes_exact : forall X,
  law_b64 X -> law_sanitize X ->
  (forall p, exists p', unmarshal_post X (marshal_post X p) = Some p' /\ pd_text p' = pd_text p) /\
  (forall c, ct_enc c = b64name ->
     exists j c', marshal_content X c = Some j /\ unmarshal_content X j = Some c' /\
                  ct_text c' = ct_text c /\ ct_size c' = ct_size c /\ ct_enc c' = ct_enc c).
Proof.
  intros X LB LS. split.
  - intro p. exact (post_text_roundtrip_exact X p LB LS).
  - intros c E. exact (content_text_roundtrip_exact X c LB E).
Qed.
Print Assumptions C16_json_roundtrip_body_bytes_exact.

(* ... whole entries survive when every Go string field is valid UTF-8 (the
   texts stay arbitrary) ... *)
Theorem C16_json_roundtrip_partial : forall X,
  law_b64 X -> law_sanitize X ->
  (forall e, req_strings_ok X e -> roundtrip_req X e = Some e) /\
  (forall e, res_strings_ok X e -> ct_enc (e_content e) = b64name -> roundtrip_res X e = Some e).
Proof.
  intros X LB LS. split.
  - intros e H. exact (json_roundtrip_req X e LB LS H).
  - intros e H E. exact (json_roundtrip_res X e LB LS H E).
Qed.
Print Assumptions C16_json_roundtrip_partial.

(* ... and not otherwise: a header value that is not UTF-8 comes back changed *)
Theorem C16_json_roundtrip_refuted : exists X e,
  law_b64 X /\ law_sanitize X /\ roundtrip_req X e <> Some e.
Proof. exact json_roundtrip_refuted. Qed.
Print Assumptions C16_json_roundtrip_refuted.

(* body capture follows the configured content-type options: all / none /
   opt-in / opt-out lists of case-insensitive prefixes *)
Theorem C16_capture_follows_options : forall o h,
  capture o h = true <-> should_capture o (hget k_ct h).
Proof. exact capture_follows_options. Qed.
Print Assumptions C16_capture_follows_options.

(* the whole observation, as the oracles see it *)
Theorem C16_request_entry_meets_property : forall X o m,
  law_dechunk X -> law_b64 X -> law_sanitize X -> wf_req m ->
  (forall e, har_req X o m = Ok e -> req_strings_ok X e) ->
  req_spec X (capture o (q_hdrs m)) m (har_req X o m)
           (match har_req X o m with Ok e => roundtrip_req X e | Err => None end).
Proof. exact request_entry_meets_property. Qed.
Print Assumptions C16_request_entry_meets_property.

Theorem C16_response_entry_meets_property : forall X o m,
  law_dechunk X -> law_b64 X -> law_sanitize X -> wf_res m -> coding_guard X m ->
  (forall e, har_res X o m = Ok e -> res_strings_ok X e) ->
  res_spec X (capture o (s_hdrs m)) m (har_res X o m)
           (match har_res X o m with Ok e => roundtrip_res X e | Err => None end).
Proof. exact response_entry_meets_property. Qed.
Print Assumptions C16_response_entry_meets_property.

(* the executable oracles run on the real implementation's outputs ARE the
   specification *)
Theorem C16_request_oracle_is_the_property : forall X cap m obs rt,
  c16_req_ok X cap m obs rt = true <-> req_spec X cap m obs rt.
Proof. exact c16_req_ok_iff. Qed.
Print Assumptions C16_request_oracle_is_the_property.

Theorem C16_response_oracle_is_the_property : forall X cap m obs rt,
  c16_res_ok X cap m obs rt = true <-> res_spec X cap m obs rt.
Proof. exact c16_res_ok_iff. Qed.
Print Assumptions C16_response_oracle_is_the_property.

(* the law assumed of the chunked reader is satisfiable: a concrete reader
   undoes the snapshot's chunk coding for every body *)
Theorem C16_chunk_coding_inverts : forall b, dechunk_concrete (chunk_enc b) = Some b.
Proof. exact dechunk_concrete_chunk_enc. Qed.
Print Assumptions C16_chunk_coding_inverts.

(* non-vacuity: the laws have an instance ... *)
Example C16_laws_have_an_instance :
  law_b64 (toyX Some Some Some) /\ law_sanitize (toyX Some Some Some) /\ law_dechunk (toyX Some Some Some).
Proof. exact (toy_laws Some Some Some). Qed.

(* ... and a chunked, compressed upload under an opt-in option is logged
   de-chunked, still compressed, with Host and Transfer-Encoding listed *)
Definition ex_req : rmsg :=
  mkRmsg (B "POST") (B "http://h/x?a=1") (B "HTTP/1.1") (B "h") (-1) [B "chunked"]
         [(B "Content-Type", [B "Text/Plain; charset=utf-8"]); (B "Content-Encoding", [B "gzip"])]
         (B "GZIPPED-hello") [(B "a", B "1")] [].
Example C16_example_request :
  wf_req ex_req /\
  chunk_enc (q_body ex_req) = B "d" ++ crlf ++ B "GZIPPED-hello" ++ crlf ++ B "0" ++ crlf /\
  har_req (toyX Some Some Some) (OIn [B "image/"; B "TEXT/"]) ex_req =
  Ok (mkHreq (B "POST") (B "http://h/x?a=1") (B "HTTP/1.1") []
        [(B "Content-Type", B "Text/Plain; charset=utf-8"); (B "Content-Encoding", B "gzip");
         (B "Host", B "h"); (B "Transfer-Encoding", B "chunked")]
        [(B "a", B "1")]
        (Some (mkPost (B "Text/Plain; charset=utf-8") [] (B "GZIPPED-hello"))) (-1)).
Proof.
  split; [|split]; [|vm_compute; reflexivity|vm_compute; reflexivity].
  split; [|intros _ H; discriminate H]. cbn. repeat constructor; cbn; intuition discriminate.
Qed.

Definition ex_res : pmsg :=
  mkPmsg 302 (B "HTTP/1.1") (-1) [B "chunked"]
         [(B "Content-Encoding", [B "gzip"]); (B "Location", [B "/next"; B "/other"]); (B "Content-Type", [B "text/html"])]
         (B "GZ") [].
Example C16_example_response :
  wf_res ex_res /\ coding_guard (toyX (fun _ => Some (B "<html>")) Some Some) ex_res /\
  har_res (toyX (fun _ => Some (B "<html>")) Some Some) OAll ex_res =
  Ok (mkHres 302 (B "HTTP/1.1") []
        [(B "Content-Encoding", B "gzip"); (B "Location", B "/next"); (B "Location", B "/other");
         (B "Content-Type", B "text/html"); (B "Transfer-Encoding", B "chunked")]
        (mkContent 6 (B "text/html") (B "<html>") (B "base64")) (B "/next") (-1)).
Proof.
  split; [|split]; [| |vm_compute; reflexivity].
  - unfold wf_res. cbn. repeat constructor; cbn; intuition discriminate.
  - unfold coding_guard. vm_compute. split; [reflexivity|discriminate].
Qed.

(* ======================================================================
   Audit round: clause coverage, verdict functions, exact characterisations
   ====================================================================== *)

(* status, version, cookies, header list, redirect URL, mime type of a logged
   response equal the message's: for ALL messages, no guard *)
Theorem C16_response_fields_equal : forall X o m e,
  wf_res m -> har_res X o m = Ok e -> res_fields_spec m e /\ e_bodysize e = s_cl m.
Proof. exact res_fields_equal. Qed.
Print Assumptions C16_response_fields_equal.

(* a response is missing from the entry exactly when capture is on and the
   code's own decoding fails: for ALL messages (so: never with capture off,
   never for 204/206/empty bodies, never for codings it does not decode) *)
Theorem C16_response_dropped_iff : forall X o m, law_dechunk X ->
  (har_res X o m = Err <-> capture o (s_hdrs m) = true /\ code_decode X m = None).
Proof. exact response_dropped_iff. Qed.
Print Assumptions C16_response_dropped_iff.

(* the logged content is the code's decoding of the body and the size is its
   true length: for ALL messages; equal to the specification's decoding under
   the guard (C16_content_is_decoded_body_true_size_partial) *)
Theorem C16_content_size_is_true_length : forall X o m e, law_dechunk X ->
  capture o (s_hdrs m) = true -> har_res X o m = Ok e ->
  code_decode X m = Some (ct_text (e_content e)) /\
  ct_size (e_content e) = Z.of_nat (List.length (ct_text (e_content e))) /\
  ct_enc (e_content e) = b64name.
Proof. exact response_content_is_code_decode. Qed.
Print Assumptions C16_content_size_is_true_length.

(* a request is missing from the log exactly when capture is on, it carries a
   body, and the body is declared form / multipart and does not parse: for ALL
   messages.  So a well-formed form or multipart body is always logged and
   parsed into parameters. *)
Theorem C16_request_dropped_iff : forall X o m, law_dechunk X ->
  (har_req X o m = Err <-> req_may_drop X (capture o (q_hdrs m)) m).
Proof. exact request_dropped_iff. Qed.
Print Assumptions C16_request_dropped_iff.

Theorem C16_request_dropped_verdict : forall X cap m rt,
  c16_req_ok X cap m Err rt = false <-> ~ req_may_drop X cap m.
Proof. exact request_dropped_verdict. Qed.
Print Assumptions C16_request_dropped_verdict.

(* The (ContentLength, TransferEncoding, Body) triple as a modifier may leave
   it.  C16_postdata_is_origin_body assumes only: ContentLength <= 0 and no
   transfer coding => empty Body.  That guard is exactly the absence of the
   C16-K4 signature, and without it the clause is refuted. *)
Theorem C16_postdata_guard_is_absence_of_unframed_body : forall m,
  unframed_body_b m = false <-> ((q_cl m <= 0)%Z -> q_te m = [] -> q_body m = []).
Proof. exact unframed_body_b_iff. Qed.
Print Assumptions C16_postdata_guard_is_absence_of_unframed_body.

Theorem C16_postdata_is_origin_body_refuted_unframed : exists X m e,
  law_dechunk X /\ NoDup (keys (q_hdrs m)) /\ har_req X OAll m = Ok e /\ ~ post_spec X true m e.
Proof. exact postdata_refuted_unframed. Qed.
Print Assumptions C16_postdata_is_origin_body_refuted_unframed.

(* with a framing, the whole Body is the post data whatever ContentLength says *)
Theorem C16_postdata_with_framing_any_length : forall X o m e,
  law_dechunk X -> NoDup (keys (q_hdrs m)) -> has_framing m = true ->
  har_req X o m = Ok e -> post_spec X (capture o (q_hdrs m)) m e.
Proof. exact postdata_with_framing_any_length. Qed.
Print Assumptions C16_postdata_with_framing_any_length.

(* the response content never depends on the ContentLength field: the whole
   Body is decoded (C16_content_size_is_true_length has no framing hypothesis) *)
Theorem C16_response_content_ignores_content_length : forall X o m cl,
  match har_res X o m, har_res X o (with_cl m cl) with
  | Ok e, Ok e' => e_content e = e_content e'
  | Err, Err => True
  | _, _ => False
  end.
Proof. exact response_content_ignores_content_length. Qed.
Print Assumptions C16_response_content_ignores_content_length.

(* the guard of the partial theorem is exactly "neither known signature" *)
Theorem C16_guard_is_absence_of_known_defects : forall X m,
  coding_guard X m <-> coding_case_b (hget k_ce (s_hdrs m)) = false /\ zlib_b X m = false.
Proof. exact coding_guard_iff. Qed.
Print Assumptions C16_guard_is_absence_of_known_defects.

(* capture off: nothing of the body is recorded and nothing is dropped *)
Theorem C16_nothing_captured_when_off : forall X o,
  (forall m, capture o (q_hdrs m) = false ->
     exists e, har_req X o m = Ok e /\
       match r_post e with Some p => pd_text p = [] /\ pd_params p = [] | None => True end) /\
  (forall m, capture o (s_hdrs m) = false ->
     exists e, har_res X o m = Ok e /\ ct_text (e_content e) = [] /\ ct_size (e_content e) = 0%Z).
Proof. exact nothing_captured_when_off. Qed.
Print Assumptions C16_nothing_captured_when_off.

(* the JSON round trip of ANY entry, exactly: every Go string sanitised, the
   body texts untouched.  Subsumes _partial (sanitising valid strings is the
   identity) and _refuted. *)
Theorem C16_json_roundtrip_characterised : forall X, law_b64 X -> law_sanitize X ->
  (forall e, roundtrip_req X e = Some (san_req X e)) /\
  (forall e, ct_enc (e_content e) = b64name -> roundtrip_res X e = Some (san_res X e)).
Proof.
  intros X LB LS. split.
  - intro e. exact (roundtrip_req_any X e LB LS).
  - intros e E. exact (roundtrip_res_any X e LB E).
Qed.
Print Assumptions C16_json_roundtrip_characterised.

(* an entry that comes back different contains a Go string that is not UTF-8
   (what the driver's known-finding signature C16-K1 asserts) *)
Theorem C16_roundtrip_differs_only_by_non_utf8_strings : forall X, law_b64 X -> law_sanitize X ->
  (forall e, roundtrip_req X e <> Some e -> req_strings_b X e = false) /\
  (forall e, ct_enc (e_content e) = b64name -> roundtrip_res X e <> Some e -> res_strings_b X e = false).
Proof.
  intros X LB LS. split.
  - intros e H. exact (roundtrip_req_differs_only_by_strings X e LB LS H).
  - intros e E H. exact (roundtrip_res_differs_only_by_strings X e LB LS E H).
Qed.
Print Assumptions C16_roundtrip_differs_only_by_non_utf8_strings.

Theorem C16_strings_check_is_the_guard : forall X,
  (forall e, req_strings_b X e = true <-> req_strings_ok X e) /\
  (forall e, res_strings_b X e = true <-> res_strings_ok X e).
Proof. intro X. split; [exact (req_strings_b_iff X)|exact (res_strings_b_iff X)]. Qed.
Print Assumptions C16_strings_check_is_the_guard.

(* verdict functions: which clause id the driver prints *)
Theorem C16_request_verdict_clauses : forall X cap m e rt,
  (req_clause X cap m e rt = 0 <-> req_spec X cap m (Ok e) rt) /\
  (req_clause X cap m e rt = 1 <-> ~ req_fields_spec m e) /\
  (req_clause X cap m e rt = 2 <-> req_fields_spec m e /\ ~ post_spec X cap m e) /\
  (req_clause X cap m e rt = 3 <-> req_fields_spec m e /\ post_spec X cap m e /\ rt <> Some e).
Proof. exact req_clause_spec. Qed.
Print Assumptions C16_request_verdict_clauses.

Theorem C16_response_verdict_clauses : forall X cap m e rt,
  (res_clause X cap m e rt = 0 <-> res_spec X cap m (Ok e) rt) /\
  (res_clause X cap m e rt = 1 <-> ~ res_fields_spec m e) /\
  (res_clause X cap m e rt = 2 <-> res_fields_spec m e /\ ~ content_spec X cap m e) /\
  (res_clause X cap m e rt = 3 <-> res_fields_spec m e /\ content_spec X cap m e /\ rt <> Some e).
Proof. exact res_clause_spec. Qed.
Print Assumptions C16_response_verdict_clauses.

Theorem C16_response_dropped_verdict : forall X cap m rt,
  c16_res_ok X cap m Err rt = false <-> (cap = false \/ exists d, spec_decoded X m = Some d).
Proof. exact response_dropped_verdict. Qed.
Print Assumptions C16_response_dropped_verdict.

Theorem C16_codec_verdicts : 
  (forall e rt, pd_rt_ok e rt = true <-> rt = Some e) /\
  (forall e rt, ct_rt_ok e rt = true <-> rt = Some e).
Proof. split; [exact pd_rt_ok_iff|exact ct_rt_ok_iff]. Qed.
Print Assumptions C16_codec_verdicts.

(* the model-versus-implementation comparison decides equality up to the
   order of headers, query parameters and post parameters *)
Theorem C16_correspondence_relation :
  (forall a b, hreq_sim a b = true <-> hreq_equiv a b) /\
  (forall a b, hres_sim a b = true <-> hres_equiv a b).
Proof. split; [exact hreq_sim_iff|exact hres_sim_iff]. Qed.
Print Assumptions C16_correspondence_relation.

(* implementation-level helpers equal their specifications *)
Theorem C16_helpers_refine : 
  (forall l, blen l = Z.of_nat (List.length l)) /\ (forall a b, bapp a b = a ++ b) /\
  (forall l1 l2 : list kv, perm_b kv_eq l1 l2 = true <-> Permutation l1 l2) /\
  (forall l1 l2 : list param, perm_b param_eq l1 l2 = true <-> Permutation l1 l2).
Proof.
  split; [exact blen_spec|]. split; [exact bapp_app|].
  split; [exact (perm_b_ok _ _ kv_eq_ok)|exact (perm_b_ok _ _ param_eq_ok)].
Qed.
Print Assumptions C16_helpers_refine.

(* totalisation: the hex printer's fuel never runs out (no truncated chunk
   size): reading back what it printed gives the number, for every N *)
Theorem C16_chunk_size_hex_is_exact : forall n rest, head_nonhex rest ->
  parse_hex 0 false (to_hex n ++ rest) = Some (n, rest).
Proof. exact parse_to_hex. Qed.
Print Assumptions C16_chunk_size_hex_is_exact.

(* ------------------------------------------------------- non-vacuity *)
(* strings guard: an entry with a binary body text satisfies it, and the
   round trip returns it *)
Example C16_example_strings_ok :
  req_strings_ok (toyX Some Some Some) ex_entry /\
  roundtrip_req (toyX Some Some Some) ex_entry = Some ex_entry.
Proof. split; [apply req_strings_b_iff|]; vm_compute; reflexivity. Qed.

(* the gzip theorem's hypotheses: a compressor with a left inverse *)
Example C16_example_gzip_hypotheses :
  let X := toyX (fun b => match b with _ :: r => Some r | [] => None end) Some Some in
  let gz_c := fun p => "z"%char :: p in
  let m := mkPmsg 200 (B "HTTP/1.1") 6 [] [(B "Content-Encoding", [B "gzip"])] (gz_c (B "hello")) [] in
  (forall p, gunzip X (gz_c p) = Some p) /\ capture OAll (s_hdrs m) = true /\
  hget k_ce (s_hdrs m) = B "gzip" /\ s_body m = gz_c (B "hello") /\ s_body m <> [] /\
  exists e, har_res X OAll m = Ok e /\ ct_text (e_content e) = B "hello" /\ ct_size (e_content e) = 5%Z.
Proof.
  cbv zeta. split; [intro p; reflexivity|]. split; [reflexivity|]. split; [reflexivity|].
  split; [reflexivity|]. split; [discriminate|]. eexists. split; [vm_compute; reflexivity|]. split; reflexivity.
Qed.

(* a request is dropped: capture on, urlencoded body that does not parse *)
Example C16_example_request_dropped :
  law_dechunk noform_X /\ har_req noform_X OAll bad_form_req = Err /\
  capture OAll (q_hdrs bad_form_req) = true /\
  c16_req_ok noform_X true bad_form_req Err None = true.
Proof.
  split; [intro b; apply dechunk_concrete_chunk_enc|]. repeat split; vm_compute; reflexivity.
Qed.

(* ... and a well-formed multipart upload with a mixed-case boundary must be
   logged with its parameters: a missing entry is rejected by the oracle *)
Example C16_example_request_must_be_logged :
  (exists e, har_req webkit_X OAll webkit_req = Ok e /\
     r_post e = Some (mkPost (B "multipart/form-data") [mkParam (B "f") (B "v") [] []] [])) /\
  c16_req_ok webkit_X true webkit_req Err None = false.
Proof. split; [eexists; split|]; vm_compute; reflexivity. Qed.

(* a response is dropped / its guard fails: the zlib witness; and the guard's
   decidable form on the two refutation witnesses *)
Example C16_example_known_signatures :
  coding_case_b (hget k_ce (s_hdrs upper_gzip_msg)) = true /\
  zlib_b (toyX Some (fun _ => None) (fun _ => Some (B "plain"))) zlib_msg = true /\
  coding_case_b (hget k_ce (s_hdrs ex_res)) = false /\
  zlib_b (toyX (fun _ => Some (B "<html>")) Some Some) ex_res = false.
Proof. repeat split; vm_compute; reflexivity. Qed.

(* capture: an upper-case opt-in prefix matches a lower-case content type,
   and the declarative side holds with an explicit witness *)
Example C16_example_capture :
  capture (OIn [B "image/"; B "TEXT/"]) [(B "Content-Type", [B "text/plain"])] = true /\
  should_capture (OIn [B "image/"; B "TEXT/"]) (B "text/plain") /\
  capture (OOut [B "text/"]) [(B "Content-Type", [B "Text/Plain"])] = false.
Proof.
  split; [vm_compute; reflexivity|]. split; [|vm_compute; reflexivity].
  exists (B "TEXT/"). split; [right; left; reflexivity|]. exists (B "plain"). vm_compute. reflexivity.
Qed.

(* verdict clauses on concrete observations: a chunk-framed post data text is
   clause 2, a lossy round trip is clause 3 *)
Example C16_example_verdicts :
  let X := toyX Some Some Some in
  let good := match har_req X OAll ex_req with Ok e => e | Err => lossy_req end in
  let framed := mkHreq (r_method good) (r_url good) (r_proto good) (r_cookies good) (r_headers good)
                  (r_query good) (Some (mkPost (B "Text/Plain; charset=utf-8") [] (chunk_enc (q_body ex_req))))
                  (r_bodysize good) in
  req_clause X true ex_req good (Some good) = 0 /\
  req_clause X true ex_req framed (Some framed) = 2 /\
  req_clause X true ex_req good (roundtrip_req X lossy_req) = 3.
Proof. cbv zeta. repeat split; vm_compute; reflexivity. Qed.

(* a modifier-built answer: ContentLength 0, no transfer coding, Body "late":
   logged with the whole Body and its true size *)
Example C16_example_response_stale_content_length :
  har_res (toyX Some Some Some) OAll
          (mkPmsg 200 (B "HTTP/1.1") 0 [] [(B "Content-Type", [B "text/plain"])] (B "late") []) =
  Ok (mkHres 200 (B "HTTP/1.1") [] [(B "Content-Type", B "text/plain")]
        (mkContent 4 (B "text/plain") (B "late") (B "base64")) [] 0) /\
  has_framing unframed_req = false /\ unframed_body_b unframed_req = true /\
  has_framing ex_req = true.
Proof. repeat split; vm_compute; reflexivity. Qed.
