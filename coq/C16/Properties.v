(* C16 — property theorems.  Nothing but statements closed by [exact] and
   Print Assumptions, so a weakened statement is visible in review.
   X ranges over ALL instances of the external functions (Go stdlib) that
   satisfy the named laws; m over all messages; o over all logging options. *)
From Coq Require Import List NArith ZArith Ascii String Bool Permutation.
From Martian.C16 Require Import Model Proofs_Basics Proofs_Chunk Proofs.
Import ListNotations.

(* method, URL, HTTP version, cookies, header list incl. Host / Content-Length /
   Transfer-Encoding, query parameters equal those of the message *)
Theorem C16_fields_equal : forall X o m e,
  wf_req m -> har_req X o m = Ok e ->
  r_method e = q_method m /\ r_url e = q_url m /\ r_proto e = q_proto m /\
  r_cookies e = q_cookies m /\
  Permutation (r_headers e) (msg_headers (q_host m) (q_cl m) (q_te m) (q_hdrs m)) /\
  Permutation (r_query e) (q_query m).
Proof. exact req_fields_equal. Qed.
Print Assumptions C16_fields_equal.

(* the proxyutil overlay followed by har.headers is the message's header list *)
Theorem C16_header_list : forall host cl te h, NoDup (keys h) ->
  Permutation (flatten (header_map host cl te h)) (msg_headers host cl te h).
Proof. exact header_map_perm. Qed.
Print Assumptions C16_header_list.

(* post data = the body as the origin receives it (chunk framing removed,
   content coding kept), parsed into parameters for form and multipart bodies;
   nothing captured when the options say so.  Holds for the code repaired by
   fixes/C16-1. *)
Theorem C16_postdata_is_origin_body : forall X o m e,
  law_dechunk X -> wf_req m -> har_req X o m = Ok e ->
  post_spec X (capture o (q_hdrs m)) m e.
Proof. exact postdata_is_origin_body. Qed.
Print Assumptions C16_postdata_is_origin_body.

Theorem C16_request_dropped_only_if_unparseable : forall X o m,
  law_dechunk X -> har_req X o m = Err ->
  capture o (q_hdrs m) = true /\
  let (mt, bnd) := media X (hget k_ct (q_hdrs m)) in
  (mt = mt_multipart /\ mp_parse X bnd (q_body m) = None) \/
  (mt = mt_form /\ form_parse X (q_body m) = None).
Proof. exact request_dropped_only_if_unparseable. Qed.
Print Assumptions C16_request_dropped_only_if_unparseable.

(* status, version, cookies, header list, redirect URL, mime type; content =
   fully decoded body with its true size; a response is missing only when its
   body cannot be decoded.  Full strength is refuted twice below; this is the
   statement under the guard excluding exactly those two defects.  Holds for
   the code repaired by fixes/C16-2. *)
Theorem C16_content_is_decoded_body_true_size_partial : forall X o m,
  law_dechunk X -> wf_res m -> coding_guard X m ->
  match har_res X o m with
  | Ok e => res_fields_spec m e /\ content_spec X (capture o (s_hdrs m)) m e
  | Err => capture o (s_hdrs m) = true /\ spec_decoded X m = None
  end.
Proof. exact response_entry_correct. Qed.
Print Assumptions C16_content_is_decoded_body_true_size_partial.

Theorem C16_content_is_decoded_body_true_size_refuted_coding_case : exists X m e,
  law_dechunk X /\ wf_res m /\ har_res X OAll m = Ok e /\ ~ content_spec X true m e.
Proof. exact content_decoded_refuted_case. Qed.
Print Assumptions C16_content_is_decoded_body_true_size_refuted_coding_case.

Theorem C16_content_is_decoded_body_true_size_refuted_zlib : exists X m,
  law_dechunk X /\ wf_res m /\ har_res X OAll m = Err /\ spec_decoded X m <> None.
Proof. exact content_decoded_refuted_zlib. Qed.
Print Assumptions C16_content_is_decoded_body_true_size_refuted_zlib.

(* the same in terms of what the origin compressed *)
Theorem C16_gzip_content_is_plain_text : forall X o m e plain (gz_c : bytes -> bytes),
  law_dechunk X -> (forall p, gunzip X (gz_c p) = Some p) ->
  capture o (s_hdrs m) = true ->
  hget k_ce (s_hdrs m) = B "gzip" -> s_body m = gz_c plain -> s_body m <> [] ->
  s_status m <> 204%Z -> s_status m <> 206%Z ->
  har_res X o m = Ok e ->
  ct_text (e_content e) = plain /\ ct_size (e_content e) = Z.of_nat (List.length plain).
Proof. exact content_is_plain_body. Qed.
Print Assumptions C16_gzip_content_is_plain_text.

(* JSON round trip.  Body bytes survive exactly for ALL byte strings ... *)
Theorem C16_json_roundtrip_body_bytes_exact : forall X,
  law_b64 X -> law_sanitize X ->
  (forall p, exists p', unmarshal_post X (marshal_post X p) = Some p' /\ pd_text p' = pd_text p) /\
  (forall c, ct_enc c = b64name ->
     exists j c', marshal_content X c = Some j /\ unmarshal_content X j = Some c' /\
                  ct_text c' = ct_text c /\ ct_size c' = ct_size c /\ ct_enc c' = ct_enc c).
Proof.
  intros X LB LS. split.
  - intro p. exact (post_text_roundtrip_exact X p LB LS).
  - intros c E. exact (content_text_roundtrip_exact X c LB E).
Qed.
Print Assumptions C16_json_roundtrip_body_bytes_exact.

(* ... whole entries survive when every Go string field is valid UTF-8 (the
   texts stay arbitrary) ... *)
Theorem C16_json_roundtrip_partial : forall X,
  law_b64 X -> law_sanitize X ->
  (forall e, req_strings_ok X e -> roundtrip_req X e = Some e) /\
  (forall e, res_strings_ok X e -> ct_enc (e_content e) = b64name -> roundtrip_res X e = Some e).
Proof.
  intros X LB LS. split.
  - intros e H. exact (json_roundtrip_req X e LB LS H).
  - intros e H E. exact (json_roundtrip_res X e LB LS H E).
Qed.
Print Assumptions C16_json_roundtrip_partial.

(* ... and not otherwise: a header value that is not UTF-8 comes back changed *)
Theorem C16_json_roundtrip_refuted : exists X e,
  law_b64 X /\ law_sanitize X /\ roundtrip_req X e <> Some e.
Proof. exact json_roundtrip_refuted. Qed.
Print Assumptions C16_json_roundtrip_refuted.

(* body capture follows the configured content-type options: all / none /
   opt-in / opt-out lists of case-insensitive prefixes *)
Theorem C16_capture_follows_options : forall o h,
  capture o h = true <-> should_capture o (hget k_ct h).
Proof. exact capture_follows_options. Qed.
Print Assumptions C16_capture_follows_options.

(* the whole observation, as the oracles see it *)
Theorem C16_request_entry_meets_property : forall X o m,
  law_dechunk X -> law_b64 X -> law_sanitize X -> wf_req m ->
  (forall e, har_req X o m = Ok e -> req_strings_ok X e) ->
  req_spec X (capture o (q_hdrs m)) m (har_req X o m)
           (match har_req X o m with Ok e => roundtrip_req X e | Err => None end).
Proof. exact request_entry_meets_property. Qed.
Print Assumptions C16_request_entry_meets_property.

Theorem C16_response_entry_meets_property : forall X o m,
  law_dechunk X -> law_b64 X -> law_sanitize X -> wf_res m -> coding_guard X m ->
  (forall e, har_res X o m = Ok e -> res_strings_ok X e) ->
  res_spec X (capture o (s_hdrs m)) m (har_res X o m)
           (match har_res X o m with Ok e => roundtrip_res X e | Err => None end).
Proof. exact response_entry_meets_property. Qed.
Print Assumptions C16_response_entry_meets_property.

(* the executable oracles run on the real implementation's outputs ARE the
   specification *)
Theorem C16_request_oracle_is_the_property : forall X cap m obs rt,
  c16_req_ok X cap m obs rt = true <-> req_spec X cap m obs rt.
Proof. exact c16_req_ok_iff. Qed.
Print Assumptions C16_request_oracle_is_the_property.

Theorem C16_response_oracle_is_the_property : forall X cap m obs rt,
  c16_res_ok X cap m obs rt = true <-> res_spec X cap m obs rt.
Proof. exact c16_res_ok_iff. Qed.
Print Assumptions C16_response_oracle_is_the_property.

(* the law assumed of the chunked reader is satisfiable: a concrete reader
   undoes the snapshot's chunk coding for every body *)
Theorem C16_chunk_coding_inverts : forall b, dechunk_concrete (chunk_enc b) = Some b.
Proof. exact dechunk_concrete_chunk_enc. Qed.
Print Assumptions C16_chunk_coding_inverts.

(* non-vacuity: the laws have an instance ... *)
Example C16_laws_have_an_instance :
  law_b64 (toyX Some Some Some) /\ law_sanitize (toyX Some Some Some) /\ law_dechunk (toyX Some Some Some).
Proof. exact (toy_laws Some Some Some). Qed.

(* ... and a chunked, compressed upload under an opt-in option is logged
   de-chunked, still compressed, with Host and Transfer-Encoding listed *)
Definition ex_req : rmsg :=
  mkRmsg (B "POST") (B "http://h/x?a=1") (B "HTTP/1.1") (B "h") (-1) [B "chunked"]
         [(B "Content-Type", [B "Text/Plain; charset=utf-8"]); (B "Content-Encoding", [B "gzip"])]
         (B "GZIPPED-hello") [(B "a", B "1")] [].
Example C16_example_request :
  wf_req ex_req /\
  chunk_enc (q_body ex_req) = B "d" ++ crlf ++ B "GZIPPED-hello" ++ crlf ++ B "0" ++ crlf /\
  har_req (toyX Some Some Some) (OIn [B "image/"; B "TEXT/"]) ex_req =
  Ok (mkHreq (B "POST") (B "http://h/x?a=1") (B "HTTP/1.1") []
        [(B "Content-Type", B "Text/Plain; charset=utf-8"); (B "Content-Encoding", B "gzip");
         (B "Host", B "h"); (B "Transfer-Encoding", B "chunked")]
        [(B "a", B "1")]
        (Some (mkPost (B "Text/Plain; charset=utf-8") [] (B "GZIPPED-hello"))) (-1)).
Proof.
  split; [|split]; [|vm_compute; reflexivity|vm_compute; reflexivity].
  split; [|discriminate]. cbn. repeat constructor; cbn; intuition discriminate.
Qed.

Definition ex_res : pmsg :=
  mkPmsg 302 (B "HTTP/1.1") (-1) [B "chunked"]
         [(B "Content-Encoding", [B "gzip"]); (B "Location", [B "/next"; B "/other"]); (B "Content-Type", [B "text/html"])]
         (B "GZ") [].
Example C16_example_response :
  wf_res ex_res /\ coding_guard (toyX (fun _ => Some (B "<html>")) Some Some) ex_res /\
  har_res (toyX (fun _ => Some (B "<html>")) Some Some) OAll ex_res =
  Ok (mkHres 302 (B "HTTP/1.1") []
        [(B "Content-Encoding", B "gzip"); (B "Location", B "/next"); (B "Location", B "/other");
         (B "Content-Type", B "text/html"); (B "Transfer-Encoding", B "chunked")]
        (mkContent 6 (B "text/html") (B "<html>") (B "base64")) (B "/next") (-1)).
Proof.
  split; [|split]; [| |vm_compute; reflexivity].
  - unfold wf_res. cbn. repeat constructor; cbn; intuition discriminate.
  - unfold coding_guard. vm_compute. split; [reflexivity|discriminate].
Qed.
