(* C16 — the model meets the specification; the oracles are the specification. *)
From Coq Require Import List NArith ZArith Ascii String Bool Lia Permutation.
From Martian.C16 Require Import Model Proofs_Basics Proofs_Chunk.
Import ListNotations.

(* laws of the external functions *)
Definition law_b64 (X : ext) : Prop := forall x, b64d X (b64e X x) = Some x.
Definition law_sanitize (X : ext) : Prop := forall s, utf8_ok X s = true -> sanitize X s = s.
Definition law_dechunk (X : ext) : Prop := forall b, dechunk X (chunk_enc b) = Some b.

(* header keys unique (a Go map); a body travels under a framing: with
   ContentLength <= 0 and no transfer coding the Body is empty.  Nothing else
   is assumed of the (ContentLength, TransferEncoding, Body) triple. *)
Definition wf_req (m : rmsg) : Prop :=
  NoDup (keys (q_hdrs m)) /\ ((q_cl m <= 0)%Z -> q_te m = [] -> q_body m = []).
Definition wf_res (m : pmsg) : Prop := NoDup (keys (s_hdrs m)).

(* ------------------------------------------------------------- requests *)
Lemma har_req_inv : forall X o m e, har_req X o m = Ok e ->
  exists pd, post_data X (capture o (q_hdrs m)) m = Ok pd /\
    e = mkHreq (q_method m) (q_url m) (q_proto m) (q_cookies m)
               (flatten (header_map (q_host m) (q_cl m) (q_te m) (q_hdrs m)))
               (q_query m) pd (q_cl m).
Proof.
  intros X o m e H. unfold har_req in H.
  destruct (post_data X (capture o (q_hdrs m)) m) as [pd|] eqn:P; [|discriminate].
  exists pd. split; [reflexivity|]. inversion H. reflexivity.
Qed.

Theorem req_fields_equal : forall X o m e,
  wf_req m -> har_req X o m = Ok e -> req_fields_spec m e.
Proof.
  intros X o m e [ND _] H. destruct (har_req_inv _ _ _ _ H) as [pd [_ ->]].
  unfold req_fields_spec. cbn. repeat split; try reflexivity.
  apply header_map_perm. exact ND.
Qed.

Lemma blen_nil : forall b, (blen b <= 0)%Z -> b = [].
Proof. intros [|c b] H; [reflexivity|]. rewrite blen_spec in H. cbn [List.length] in H. lia. Qed.

Lemma snapshot_read_back : forall X te body, law_dechunk X ->
  (if is_chunked te then dechunk X (snapshot_body te body) else Some (snapshot_body te body)) = Some body.
Proof.
  intros X te body L. unfold snapshot_body. destruct (is_chunked te); [apply L|reflexivity].
Qed.

Theorem postdata_is_origin_body : forall X o m e,
  law_dechunk X -> wf_req m -> har_req X o m = Ok e ->
  post_spec X (capture o (q_hdrs m)) m e.
Proof.
  intros X o m e L [_ WF] H. destruct (har_req_inv _ _ _ _ H) as [pd [P ->]].
  unfold post_spec. cbn [r_post]. unfold post_data in P.
  destruct ((q_cl m <=? 0)%Z && is_nil (q_te m))%bool eqn:C.
  - inversion P; subst. apply andb_true_iff in C. destruct C as [C1 C2].
    apply is_nil_true in C2. apply Z.leb_le in C1. exact (WF C1 C2).
  - destruct (media X (hget k_ct (q_hdrs m))) as [mt bnd].
    destruct (capture o (q_hdrs m)); cbn [negb] in P.
    + rewrite (snapshot_read_back X _ _ L) in P.
      destruct (beq mt mt_multipart) eqn:E1.
      * destruct (mp_parse X bnd (q_body m)) as [ps|] eqn:MP; [|discriminate].
        inversion P; subst. cbn [pd_mime pd_text pd_params]. repeat split; reflexivity.
      * destruct (beq mt mt_form) eqn:E2.
        -- destruct (form_parse X (q_body m)) as [kvs|] eqn:FP; [|discriminate].
           inversion P; subst. cbn [pd_mime pd_text pd_params]. repeat split; reflexivity.
        -- inversion P; subst. cbn [pd_mime pd_text pd_params]. repeat split; reflexivity.
    + inversion P; subst. cbn [pd_mime pd_text pd_params]. repeat split; reflexivity.
Qed.

Lemma body_unparseable_b_iff : forall X m, body_unparseable_b X m = true <-> body_unparseable X m.
Proof.
  intros X m. unfold body_unparseable_b, body_unparseable.
  destruct (media X (hget k_ct (q_hdrs m))) as [mt bnd].
  destruct (beq mt mt_multipart) eqn:E1.
  - apply beq_eq in E1. subst mt. destruct (mp_parse X bnd (q_body m)); split; intro H; try discriminate; auto.
    + destruct H as [[_ H]|[H _]]; discriminate.
  - destruct (beq mt mt_form) eqn:E2.
    + apply beq_eq in E2. subst mt. destruct (form_parse X (q_body m)); split; intro H; try discriminate; auto.
      destruct H as [[H _]|[_ H]]; discriminate.
    + split; [discriminate|]. intros [[H _]|[H _]]; subst mt; rewrite beq_refl in *; discriminate.
Qed.

(* a request is missing from the log exactly when capture is on, it carries a
   body, and that body is declared form / multipart and does not parse: for
   ALL messages *)
Theorem request_dropped_iff : forall X o m, law_dechunk X ->
  (har_req X o m = Err <-> req_may_drop X (capture o (q_hdrs m)) m).
Proof.
  intros X o m L. unfold req_may_drop. rewrite <- body_unparseable_b_iff.
  unfold har_req, post_data, has_framing, body_unparseable_b.
  destruct ((q_cl m <=? 0)%Z && is_nil (q_te m))%bool; cbn [negb].
  { split; [discriminate|intros [_ [H _]]; discriminate]. }
  destruct (media X (hget k_ct (q_hdrs m))) as [mt bnd].
  destruct (capture o (q_hdrs m)); cbn [negb].
  2:{ split; [discriminate|intros [H _]; discriminate]. }
  rewrite (snapshot_read_back X _ _ L).
  destruct (beq mt mt_multipart).
  - destruct (mp_parse X bnd (q_body m)); split; intro H; try discriminate; auto.
    destruct H as [_ [_ H]]; discriminate.
  - destruct (beq mt mt_form).
    + destruct (form_parse X (q_body m)); split; intro H; try discriminate; auto.
      destruct H as [_ [_ H]]; discriminate.
    + split; [discriminate|intros [_ [_ H]]; discriminate].
Qed.

Theorem request_dropped_only_if_unparseable : forall X o m,
  law_dechunk X -> har_req X o m = Err ->
  capture o (q_hdrs m) = true /\
  let (mt, bnd) := media X (hget k_ct (q_hdrs m)) in
  (mt = mt_multipart /\ mp_parse X bnd (q_body m) = None) \/
  (mt = mt_form /\ form_parse X (q_body m) = None).
Proof.
  intros X o m L H. apply (request_dropped_iff X o m L) in H. destruct H as [C [_ U]].
  split; [exact C|exact U].
Qed.

(* ------------------------------------------------------------ responses *)
(* the content codings the code recognises are those of the specification,
   and its raw-deflate reader decodes what an HTTP deflate reader decodes *)
Definition coding_guard (X : ext) (m : pmsg) : Prop :=
  let ce := hget k_ce (s_hdrs m) in
  (spec_coding ce = CGzip -> ce = B "gzip") /\
  (spec_coding ce = CDeflate -> ce = B "deflate" /\ inflate_raw X (s_body m) = inflate_http X (s_body m)).

Definition res_model_spec (X : ext) (cap : bool) (m : pmsg) (r : result hres) : Prop :=
  match r with
  | Ok e => res_fields_spec m e /\ content_spec X cap m e
  | Err => cap = true /\ spec_decoded X m = None
  end.

Theorem response_entry_correct : forall X o m,
  law_dechunk X -> wf_res m -> coding_guard X m ->
  res_model_spec X (capture o (s_hdrs m)) m (har_res X o m).
Proof.
  intros X o m L ND [G1 G2]. unfold har_res.
  assert (FS : forall c, ct_mime c = hget k_ct (s_hdrs m) ->
     res_fields_spec m (mkHres (s_status m) (s_proto m) (s_cookies m)
        (flatten (header_map [] (s_cl m) (s_te m) (s_hdrs m))) c
        (redirect_of (s_status m) (s_hdrs m)) (s_cl m))).
  { intros c Hc. unfold res_fields_spec. cbn. repeat split; try reflexivity; [|exact Hc].
    apply header_map_perm. exact ND. }
  destruct (capture o (s_hdrs m)); cbn [negb].
  2:{ cbn. split; [apply FS; reflexivity|]. unfold content_spec. cbn. repeat split; reflexivity. }
  rewrite (snapshot_read_back X _ _ L).
  unfold spec_decoded.
  destruct (Z.eqb (s_status m) 204 || Z.eqb (s_status m) 206)%bool eqn:ST; cbn [orb].
  { cbn. split; [apply FS; reflexivity|]. unfold content_spec, spec_decoded. cbn. rewrite ST. cbn.
    repeat split; reflexivity. }
  destruct (is_nil (s_body m)) eqn:NB.
  { cbn. split; [apply FS; reflexivity|]. unfold content_spec, spec_decoded. cbn. rewrite ST, NB. cbn.
    repeat split; reflexivity. }
  set (ce := hget k_ce (s_hdrs m)) in *.
  assert (FIN : forall d, (match d with
        | Some t => Ok (mkHres (s_status m) (s_proto m) (s_cookies m)
             (flatten (header_map [] (s_cl m) (s_te m) (s_hdrs m)))
             (mkContent (blen t) (hget k_ct (s_hdrs m)) t b64name)
             (redirect_of (s_status m) (s_hdrs m)) (s_cl m))
        | None => Err end = match d with Some t => Ok (mkHres (s_status m) (s_proto m) (s_cookies m)
             (flatten (header_map [] (s_cl m) (s_te m) (s_hdrs m)))
             (mkContent (blen t) (hget k_ct (s_hdrs m)) t b64name)
             (redirect_of (s_status m) (s_hdrs m)) (s_cl m)) | None => Err end)) by reflexivity.
  clear FIN.
  assert (GOAL : forall d, spec_decoded X m = d ->
     res_model_spec X true m
       (match d with
        | Some t => Ok (mkHres (s_status m) (s_proto m) (s_cookies m)
             (flatten (header_map [] (s_cl m) (s_te m) (s_hdrs m)))
             (mkContent (blen t) (hget k_ct (s_hdrs m)) t b64name)
             (redirect_of (s_status m) (s_hdrs m)) (s_cl m))
        | None => Err end)).
  { intros d Hd. destruct d as [t|]; cbn.
    - split; [apply FS; reflexivity|]. unfold content_spec. cbn. rewrite Hd. repeat split; reflexivity.
    - split; [reflexivity|exact Hd]. }
  assert (SD : spec_decoded X m = match spec_coding ce with
            | CGzip => gunzip X (s_body m) | CDeflate => inflate_http X (s_body m) | CIdent => Some (s_body m) end).
  { unfold spec_decoded. rewrite ST, NB. reflexivity. }
  destruct (beq ce (B "gzip")) eqn:E1.
  - apply beq_eq in E1. apply (GOAL (gunzip X (s_body m))). rewrite SD, E1. reflexivity.
  - destruct (beq ce (B "deflate")) eqn:E2.
    + apply beq_eq in E2. apply (GOAL (inflate_raw X (s_body m))). rewrite SD.
      assert (SC : spec_coding ce = CDeflate) by (rewrite E2; reflexivity).
      rewrite SC. destruct (G2 SC) as [_ EQ]. symmetry. exact EQ.
    + apply (GOAL (Some (s_body m))). rewrite SD. destruct (spec_coding ce) eqn:SC.
      * rewrite (G1 eq_refl), beq_refl in E1. discriminate.
      * destruct (G2 eq_refl) as [EE _]. rewrite EE, beq_refl in E2. discriminate.
      * reflexivity.
Qed.

(* in terms of what the origin compressed: for a gzip (resp. raw deflate)
   response the logged content is the plain text, its size the plain size *)
Theorem content_is_plain_body : forall X o m e plain (gz_c : bytes -> bytes),
  law_dechunk X -> (forall p, gunzip X (gz_c p) = Some p) ->
  capture o (s_hdrs m) = true ->
  hget k_ce (s_hdrs m) = B "gzip" -> s_body m = gz_c plain -> s_body m <> [] ->
  s_status m <> 204%Z -> s_status m <> 206%Z ->
  har_res X o m = Ok e ->
  ct_text (e_content e) = plain /\ ct_size (e_content e) = Z.of_nat (List.length plain).
Proof.
  intros X o m e plain gz_c L GZ CAP CE BODY NE S1 S2 H. unfold har_res in H.
  rewrite CAP in H. cbn [negb] in H. rewrite (snapshot_read_back X _ _ L) in H.
  apply Z.eqb_neq in S1. apply Z.eqb_neq in S2. rewrite S1, S2 in H. cbn [orb] in H.
  destruct (is_nil (s_body m)) eqn:NB; [apply is_nil_true in NB; contradiction|].
  rewrite CE in H. cbn [beq] in H. change (beq (B "gzip") (B "gzip")) with true in H.
  rewrite BODY, GZ in H. inversion H; subst. cbn. split; [reflexivity|apply blen_spec].
Qed.

(* ------------------------------------------------------- JSON round trip *)
Definition kv_ok (X : ext) (p : kv) : Prop := utf8_ok X (fst p) = true /\ utf8_ok X (snd p) = true.
Definition param_ok (X : ext) (p : param) : Prop :=
  utf8_ok X (p_name p) = true /\ utf8_ok X (p_value p) = true /\ utf8_ok X (p_file p) = true /\
  utf8_ok X (p_ctype p) = true.
Definition cookie_ok (X : ext) (c : cookie) : Prop :=
  utf8_ok X (c_name c) = true /\ utf8_ok X (c_value c) = true /\ utf8_ok X (c_path c) = true /\
  utf8_ok X (c_domain c) = true /\ utf8_ok X (c_expires c) = true.

(* every Go string of the entry is valid UTF-8; the post data text and the
   content text are arbitrary bytes *)
Definition req_strings_ok (X : ext) (e : hreq) : Prop :=
  utf8_ok X (r_method e) = true /\ utf8_ok X (r_url e) = true /\ utf8_ok X (r_proto e) = true /\
  Forall (cookie_ok X) (r_cookies e) /\ Forall (kv_ok X) (r_headers e) /\ Forall (kv_ok X) (r_query e) /\
  match r_post e with
  | Some p => utf8_ok X (pd_mime p) = true /\ Forall (param_ok X) (pd_params p)
  | None => True
  end.
Definition res_strings_ok (X : ext) (e : hres) : Prop :=
  utf8_ok X (e_proto e) = true /\ utf8_ok X (e_redirect e) = true /\
  Forall (cookie_ok X) (e_cookies e) /\ Forall (kv_ok X) (e_headers e) /\
  utf8_ok X (ct_mime (e_content e)) = true.

Lemma map_id_Forall : forall (A : Type) (P : A -> Prop) (f : A -> A) l,
  (forall x, P x -> f x = x) -> Forall P l -> map f l = l.
Proof. intros A P f l Hf F. induction F as [|x l Hx F IH]; cbn; [reflexivity|]. rewrite Hf, IH; auto. Qed.

Lemma san_kv_id : forall X p, law_sanitize X -> kv_ok X p -> san_kv X p = p.
Proof. intros X [a b] L [H1 H2]. unfold san_kv. cbn in *. rewrite !L; auto. Qed.
Lemma san_param_id : forall X p, law_sanitize X -> param_ok X p -> san_param X p = p.
Proof. intros X [a b c d] L [H1 [H2 [H3 H4]]]. unfold san_param. cbn in *. rewrite !L; auto. Qed.
Lemma san_cookie_id : forall X c, law_sanitize X -> cookie_ok X c -> san_cookie X c = c.
Proof. intros X [a b c d e f g] L [H1 [H2 [H3 [H4 H5]]]]. unfold san_cookie. cbn in *. rewrite !L; auto. Qed.

Lemma b64name_not_nil : beq [] b64name = false.
Proof. reflexivity. Qed.

(* the body text survives for ALL byte strings, whatever the other fields hold *)
Theorem post_text_roundtrip_exact : forall X p, law_b64 X -> law_sanitize X ->
  exists p', unmarshal_post X (marshal_post X p) = Some p' /\ pd_text p' = pd_text p.
Proof.
  intros X p LB LS. unfold marshal_post, unmarshal_post.
  destruct (utf8_ok X (pd_text p)) eqn:U; cbn [jp_enc jp_text jp_mime jp_params].
  - rewrite b64name_not_nil. eexists. split; [reflexivity|]. cbn. apply LS. exact U.
  - rewrite beq_refl, LB. eexists. split; [reflexivity|]. reflexivity.
Qed.

Theorem content_text_roundtrip_exact : forall X c, law_b64 X -> ct_enc c = b64name ->
  exists j c', marshal_content X c = Some j /\ unmarshal_content X j = Some c' /\
               ct_text c' = ct_text c /\ ct_size c' = ct_size c /\ ct_enc c' = ct_enc c.
Proof.
  intros X c LB E. unfold marshal_content, unmarshal_content. rewrite E, beq_refl.
  eexists. eexists. split; [reflexivity|]. cbn [jc_enc jc_text jc_size jc_mime].
  rewrite beq_refl, LB. split; [reflexivity|]. cbn. repeat split; reflexivity.
Qed.

Lemma post_roundtrip : forall X p, law_b64 X -> law_sanitize X ->
  utf8_ok X (pd_mime p) = true -> Forall (param_ok X) (pd_params p) ->
  unmarshal_post X (marshal_post X p) = Some p.
Proof.
  intros X [mi ps tx] LB LS HM HP. cbn in HM, HP. unfold marshal_post, unmarshal_post. cbn [pd_text pd_mime pd_params].
  assert (EP : map (san_param X) ps = ps)
    by (apply (map_id_Forall _ (param_ok X)); [intros; apply san_param_id; assumption|exact HP]).
  destruct (utf8_ok X tx) eqn:U; cbn [jp_enc jp_text jp_mime jp_params].
  - rewrite b64name_not_nil, EP, (LS _ HM), (LS _ U). reflexivity.
  - rewrite beq_refl, LB, EP, (LS _ HM). reflexivity.
Qed.

Theorem json_roundtrip_req : forall X e, law_b64 X -> law_sanitize X ->
  req_strings_ok X e -> roundtrip_req X e = Some e.
Proof.
  intros X [me ur pr ck hs qs po bs] LB LS [H1 [H2 [H3 [H4 [H5 [H6 H7]]]]]]. cbn in *.
  unfold roundtrip_req, marshal_req, unmarshal_req. cbn.
  assert (E4 : map (san_cookie X) ck = ck)
    by (apply (map_id_Forall _ (cookie_ok X)); [intros; apply san_cookie_id; assumption|exact H4]).
  assert (E5 : map (san_kv X) hs = hs)
    by (apply (map_id_Forall _ (kv_ok X)); [intros; apply san_kv_id; assumption|exact H5]).
  assert (E6 : map (san_kv X) qs = qs)
    by (apply (map_id_Forall _ (kv_ok X)); [intros; apply san_kv_id; assumption|exact H6]).
  rewrite E4, E5, E6, (LS _ H1), (LS _ H2), (LS _ H3).
  destruct po as [p|]; [|reflexivity].
  destruct H7 as [HM HP]. rewrite (post_roundtrip X p LB LS HM HP). reflexivity.
Qed.

Theorem json_roundtrip_res : forall X e, law_b64 X -> law_sanitize X ->
  res_strings_ok X e -> ct_enc (e_content e) = b64name -> roundtrip_res X e = Some e.
Proof.
  intros X [st pr ck hs [sz mi tx en] rd bs] LB LS [H1 [H2 [H3 [H4 H5]]]] EN. cbn in *. subst en.
  unfold roundtrip_res, marshal_res, unmarshal_res, marshal_content, unmarshal_content. cbn.
  rewrite ?beq_refl. cbn. rewrite ?beq_refl. rewrite LB.
  assert (E3 : map (san_cookie X) ck = ck)
    by (apply (map_id_Forall _ (cookie_ok X)); [intros; apply san_cookie_id; assumption|exact H3]).
  assert (E4 : map (san_kv X) hs = hs)
    by (apply (map_id_Forall _ (kv_ok X)); [intros; apply san_kv_id; assumption|exact H4]).
  rewrite E3, E4, (LS _ H1), (LS _ H2), (LS _ H5). reflexivity.
Qed.

Lemma har_res_enc : forall X o m e, har_res X o m = Ok e -> ct_enc (e_content e) = b64name.
Proof.
  intros X o m e H. unfold har_res in H.
  destruct (negb (capture o (s_hdrs m))); [inversion H; reflexivity|].
  destruct (if is_chunked (s_te m) then _ else _); [|discriminate].
  destruct (if beq _ (B "gzip") then _ else _); [|discriminate]. inversion H. reflexivity.
Qed.

(* -------------------------------------------------------------- capture *)
Lemma prefixb_spec : forall p s, prefixb p s = true <-> exists rest, s = p ++ rest.
Proof.
  induction p as [|a p IH]; intros s; cbn.
  - split; [intros _; exists s; reflexivity|reflexivity].
  - destruct s as [|b s].
    + split; [discriminate|intros [r H]; discriminate].
    + destruct (Ascii.eqb a b) eqn:E.
      * apply Ascii.eqb_eq in E. subst b. rewrite IH. split; intros [r H]; exists r; [rewrite H; reflexivity|].
        inversion H. reflexivity.
      * split; [discriminate|]. intros [r H]. inversion H. subst. rewrite Ascii.eqb_refl in E. discriminate.
Qed.

Lemma ct_match_listed : forall cts rct, ct_match cts rct = true <-> listed cts rct.
Proof.
  intros cts rct. unfold ct_match, listed. rewrite existsb_exists. split.
  - intros [ct [Hin H]]. exists ct. split; [exact Hin|]. apply prefixb_spec. exact H.
  - intros [ct [Hin H]]. exists ct. split; [exact Hin|]. apply prefixb_spec. exact H.
Qed.

Theorem capture_follows_options : forall o h,
  capture o h = true <-> should_capture o (hget k_ct h).
Proof.
  intros [| |cts|cts] h; cbn [capture should_capture].
  - tauto.
  - split; [discriminate|contradiction].
  - apply ct_match_listed.
  - rewrite negb_true_iff. split.
    + intros H L. apply ct_match_listed in L. congruence.
    + intros H. destruct (ct_match cts (hget k_ct h)) eqn:E; [|reflexivity].
      exfalso. apply H. apply ct_match_listed. exact E.
Qed.

(* -------------------------------------------------- oracle = specification *)
Lemma req_fields_ok_iff : forall m e, req_fields_ok m e = true <-> req_fields_spec m e.
Proof.
  intros m e. unfold req_fields_ok, req_fields_spec.
  rewrite !andb_true_iff, !beq_eq, (leq_eq _ _ cookie_eq_ok), !(perm_b_ok _ _ kv_eq_ok). tauto.
Qed.

Lemma post_ok_iff : forall X cap m e, post_ok X cap m e = true <-> post_spec X cap m e.
Proof.
  intros X cap m e. unfold post_ok, post_spec. destruct (r_post e) as [pd|]; [|apply is_nil_true].
  destruct (media X (hget k_ct (q_hdrs m))) as [mt bnd].
  rewrite andb_true_iff, beq_eq. apply and_iff_compat_l.
  destruct cap.
  - destruct (beq mt mt_multipart).
    + rewrite andb_true_iff, is_nil_true, (opt_eq_eq _ _ (leq_eq _ _ param_eq_ok)). tauto.
    + destruct (beq mt mt_form).
      * rewrite andb_true_iff, is_nil_true. apply and_iff_compat_l.
        destruct (form_parse X (q_body m)); [apply (perm_b_ok _ _ param_eq_ok)|].
        split; [discriminate|contradiction].
      * rewrite andb_true_iff, beq_eq, is_nil_true. tauto.
  - rewrite andb_true_iff, !is_nil_true. tauto.
Qed.

Theorem c16_req_ok_iff : forall X cap m obs rt,
  c16_req_ok X cap m obs rt = true <-> req_spec X cap m obs rt.
Proof.
  intros X cap m [e|] rt; cbn.
  - rewrite !andb_true_iff, req_fields_ok_iff, post_ok_iff, (opt_eq_eq _ _ hreq_eq_ok). tauto.
  - unfold req_may_drop. rewrite !andb_true_iff, body_unparseable_b_iff. tauto.
Qed.

Lemma res_fields_ok_iff : forall m e, res_fields_ok m e = true <-> res_fields_spec m e.
Proof.
  intros m e. unfold res_fields_ok, res_fields_spec.
  rewrite !andb_true_iff, !beq_eq, Z.eqb_eq, (leq_eq _ _ cookie_eq_ok), (perm_b_ok _ _ kv_eq_ok). tauto.
Qed.

Lemma content_ok_iff : forall X cap m e, content_ok X cap m e = true <-> content_spec X cap m e.
Proof.
  intros X cap m e. unfold content_ok, content_spec. rewrite andb_true_iff, beq_eq. apply and_iff_compat_l.
  destruct cap.
  - destruct (spec_decoded X m); [rewrite andb_true_iff, beq_eq, Z.eqb_eq|]; tauto.
  - rewrite andb_true_iff, is_nil_true, Z.eqb_eq. tauto.
Qed.

Theorem c16_res_ok_iff : forall X cap m obs rt,
  c16_res_ok X cap m obs rt = true <-> res_spec X cap m obs rt.
Proof.
  intros X cap m [e|] rt; cbn.
  - rewrite !andb_true_iff, res_fields_ok_iff, content_ok_iff, (opt_eq_eq _ _ hres_eq_ok). tauto.
  - rewrite andb_true_iff. apply and_iff_compat_l.
    destruct (spec_decoded X m); split; intro H; try reflexivity; discriminate.
Qed.

(* ------------------------------------------------ everything put together *)
Theorem request_entry_meets_property : forall X o m,
  law_dechunk X -> law_b64 X -> law_sanitize X -> wf_req m ->
  (forall e, har_req X o m = Ok e -> req_strings_ok X e) ->
  req_spec X (capture o (q_hdrs m)) m (har_req X o m)
           (match har_req X o m with Ok e => roundtrip_req X e | Err => None end).
Proof.
  intros X o m LD LB LS WF ST. destruct (har_req X o m) as [e|] eqn:H; cbn;
    [|apply (request_dropped_iff X o m LD); exact H].
  split; [eapply req_fields_equal; eassumption|].
  split; [eapply postdata_is_origin_body; eassumption|].
  apply json_roundtrip_req; auto.
Qed.

Theorem response_entry_meets_property : forall X o m,
  law_dechunk X -> law_b64 X -> law_sanitize X -> wf_res m -> coding_guard X m ->
  (forall e, har_res X o m = Ok e -> res_strings_ok X e) ->
  res_spec X (capture o (s_hdrs m)) m (har_res X o m)
           (match har_res X o m with Ok e => roundtrip_res X e | Err => None end).
Proof.
  intros X o m LD LB LS WF G ST. pose proof (response_entry_correct X o m LD WF G) as R.
  destruct (har_res X o m) as [e|] eqn:H; cbn in *; [|exact R].
  destruct R as [R1 R2]. split; [exact R1|]. split; [exact R2|].
  apply json_roundtrip_res; auto. eapply har_res_enc. exact H.
Qed.

(* --------------------------------------------------------------- witnesses
   a concrete instance of the externals: identity base64, 7-bit "UTF-8",
   '?' replacement, the concrete chunk reader *)
Definition ascii7 (c : ascii) : bool := N.ltb (N_of_ascii c) 128.
Definition toyX (gz fl zl : bytes -> option bytes) : ext :=
  mkExt (fun b => b) (fun b => Some b) (forallb ascii7)
        (map (fun c => if ascii7 c then c else "?"%char))
        gz fl zl dechunk_concrete
        (fun ct => Some (ct, [])) (fun _ => Some []) (fun _ _ => Some []).

Lemma toy_laws : forall gz fl zl,
  law_b64 (toyX gz fl zl) /\ law_sanitize (toyX gz fl zl) /\ law_dechunk (toyX gz fl zl).
Proof.
  intros. split; [|split].
  - intro x. reflexivity.
  - intro s. cbn. induction s as [|c s IH]; cbn; [reflexivity|].
    intro H. apply andb_true_iff in H. destruct H as [H1 H2]. rewrite H1, (IH H2). reflexivity.
  - intro b. apply dechunk_concrete_chunk_enc.
Qed.

Definition hv (k v : string) : bytes * list bytes := (B k, [B v]).

(* D29: a header value that is not UTF-8 does not survive the round trip *)
Definition lossy_req : hreq :=
  mkHreq (B "GET") (B "http://h/") (B "HTTP/1.1") [] [(B "X-Bin", [ascii_of_N 255])] [] None 0.

Theorem json_roundtrip_refuted : exists X e,
  law_b64 X /\ law_sanitize X /\ roundtrip_req X e <> Some e.
Proof.
  exists (toyX Some Some Some), lossy_req. destruct (toy_laws Some Some Some) as [A [Bb _]].
  split; [exact A|]. split; [exact Bb|]. vm_compute. discriminate.
Qed.

(* a content coding spelled in upper case is not decoded *)
Definition upper_gzip_msg : pmsg :=
  mkPmsg 200 (B "HTTP/1.1") 2 [] [hv "Content-Encoding" "GZIP"] (B "zz") [].

Theorem content_decoded_refuted_case : exists X m e,
  law_dechunk X /\ wf_res m /\ har_res X OAll m = Ok e /\ ~ content_spec X true m e.
Proof.
  exists (toyX (fun _ => Some (B "plain")) Some Some), upper_gzip_msg.
  eexists. destruct (toy_laws (fun _ => Some (B "plain")) Some Some) as [_ [_ C]].
  split; [exact C|]. split.
  - unfold wf_res, upper_gzip_msg. cbn. constructor; [intros []|constructor].
  - split; [vm_compute; reflexivity|]. unfold content_spec. vm_compute. intros [_ [H _]]. discriminate.
Qed.

(* deflate in the zlib format (what RFC 7230 means by "deflate") makes the
   response disappear from the entry *)
Definition zlib_msg : pmsg :=
  mkPmsg 200 (B "HTTP/1.1") 2 [] [hv "Content-Encoding" "deflate"] (B "zz") [].

Theorem content_decoded_refuted_zlib : exists X m,
  law_dechunk X /\ wf_res m /\ har_res X OAll m = Err /\ spec_decoded X m <> None.
Proof.
  exists (toyX Some (fun _ => None) (fun _ => Some (B "plain"))), zlib_msg.
  destruct (toy_laws Some (fun _ => None) (fun _ => Some (B "plain"))) as [_ [_ C]].
  split; [exact C|]. split.
  - unfold wf_res, zlib_msg. cbn. constructor; [intros []|constructor].
  - split; vm_compute; [reflexivity|discriminate].
Qed.
