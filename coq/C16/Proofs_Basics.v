(* C16 — basic facts: boolean equalities, multiset comparison, header map. *)
From Coq Require Import List NArith ZArith Ascii String Bool Lia Permutation.
From Martian.C16 Require Import Model.
Import ListNotations.

Lemma beq_refl : forall a, beq a a = true.
Proof. induction a as [|x a IH]; cbn; [reflexivity|]. rewrite Ascii.eqb_refl. exact IH. Qed.

Lemma beq_eq : forall a b, beq a b = true <-> a = b.
Proof.
  induction a as [|x a IH]; destruct b as [|y b]; cbn; split; intro H; try reflexivity; try discriminate.
  - destruct (Ascii.eqb x y) eqn:E; [|discriminate].
    apply Ascii.eqb_eq in E. apply IH in H. subst. reflexivity.
  - inversion H; subst. rewrite Ascii.eqb_refl. apply beq_refl.
Qed.

Lemma beq_neq : forall a b, beq a b = false <-> a <> b.
Proof.
  intros a b. split; intro H.
  - intro E. apply beq_eq in E. congruence.
  - destruct (beq a b) eqn:E; [|reflexivity]. apply beq_eq in E. contradiction.
Qed.

Lemma is_nil_true : forall (A : Type) (l : list A), is_nil l = true <-> l = [].
Proof. intros A [|x l]; cbn; split; intro H; congruence. Qed.

Section Eqs.
  Variable A : Type.
  Variable eq : A -> A -> bool.
  Hypothesis eq_ok : forall x y, eq x y = true <-> x = y.

  Lemma leq_eq : forall a b, leq eq a b = true <-> a = b.
  Proof.
    induction a as [|x a IH]; destruct b as [|y b]; cbn; split; intro H; try reflexivity; try discriminate.
    - destruct (eq x y) eqn:E; [|discriminate]. apply eq_ok in E. apply IH in H. subst. reflexivity.
    - inversion H; subst. assert (E : eq y y = true) by (apply eq_ok; reflexivity).
      rewrite E. apply IH. reflexivity.
  Qed.

  Lemma opt_eq_eq : forall a b, opt_eq eq a b = true <-> a = b.
  Proof.
    intros [x|] [y|]; cbn; split; intro H; try reflexivity; try discriminate.
    - apply eq_ok in H. subst. reflexivity.
    - inversion H; subst. apply eq_ok. reflexivity.
  Qed.

  Lemma remove1_perm : forall x l l', remove1 eq x l = Some l' -> Permutation l (x :: l').
  Proof.
    induction l as [|y r IH]; cbn; intros l' H; [discriminate|].
    destruct (eq x y) eqn:E.
    - apply eq_ok in E. inversion H; subst. apply Permutation_refl.
    - destruct (remove1 eq x r) as [r'|] eqn:R; [|discriminate]. inversion H; subst.
      eapply perm_trans; [apply perm_skip; apply IH; reflexivity|]. apply perm_swap.
  Qed.

  Lemma remove1_in : forall x l, In x l -> exists l', remove1 eq x l = Some l'.
  Proof.
    induction l as [|y r IH]; cbn; intros H; [contradiction|].
    destruct (eq x y) eqn:E; [eexists; reflexivity|].
    destruct H as [H|H].
    - subst. assert (E' : eq x x = true) by (apply eq_ok; reflexivity). congruence.
    - destruct (IH H) as [l' Hl]. rewrite Hl. eexists; reflexivity.
  Qed.

  Lemma perm_b_ok : forall l1 l2, perm_b eq l1 l2 = true <-> Permutation l1 l2.
  Proof.
    induction l1 as [|x r IH]; cbn; intros l2.
    - rewrite is_nil_true. split; intro H.
      + subst. apply perm_nil.
      + apply Permutation_nil in H. exact H.
    - split; intro H.
      + destruct (remove1 eq x l2) as [l2'|] eqn:R; [|discriminate].
        apply remove1_perm in R. apply IH in H.
        apply Permutation_sym. eapply perm_trans; [exact R|]. apply perm_skip. apply Permutation_sym. exact H.
      + assert (Hin : In x l2) by (eapply Permutation_in; [exact H|left; reflexivity]).
        destruct (remove1_in x l2 Hin) as [l2' R]. rewrite R. apply IH.
        apply remove1_perm in R. eapply Permutation_cons_inv. eapply perm_trans; [exact H|exact R].
  Qed.
End Eqs.

Lemma andb3 : forall a b, (a && b)%bool = true <-> a = true /\ b = true.
Proof. intros. apply andb_true_iff. Qed.

Lemma kv_eq_ok : forall p q, kv_eq p q = true <-> p = q.
Proof.
  intros [a b] [c d]. unfold kv_eq. cbn. rewrite andb_true_iff, !beq_eq. split.
  - intros [-> ->]. reflexivity.
  - intro H. inversion H. split; reflexivity.
Qed.

Lemma param_eq_ok : forall p q, param_eq p q = true <-> p = q.
Proof.
  intros [a b c d] [a' b' c' d']. unfold param_eq. cbn. rewrite !andb_true_iff, !beq_eq. split.
  - intros [[[-> ->] ->] ->]. reflexivity.
  - intro H. inversion H. repeat split; reflexivity.
Qed.

Lemma cookie_eq_ok : forall p q, cookie_eq p q = true <-> p = q.
Proof.
  intros [a b c d e f g] [a' b' c' d' e' f' g']. unfold cookie_eq. cbn.
  rewrite !andb_true_iff, !beq_eq, !Bool.eqb_true_iff. split.
  - intros [[[[[[-> ->] ->] ->] ->] ->] ->]. reflexivity.
  - intro H. inversion H. repeat split; reflexivity.
Qed.

Lemma post_eq_ok : forall p q, post_eq p q = true <-> p = q.
Proof.
  intros [a b c] [a' b' c']. unfold post_eq. cbn.
  rewrite !andb_true_iff, !beq_eq, (leq_eq _ _ param_eq_ok). split.
  - intros [[-> ->] ->]. reflexivity.
  - intro H. inversion H. repeat split; reflexivity.
Qed.

Lemma content_eq_ok : forall p q, content_eq p q = true <-> p = q.
Proof.
  intros [a b c d] [a' b' c' d']. unfold content_eq. cbn.
  rewrite !andb_true_iff, !beq_eq, Z.eqb_eq. split.
  - intros [[[-> ->] ->] ->]. reflexivity.
  - intro H. inversion H. repeat split; reflexivity.
Qed.

Lemma hreq_eq_ok : forall p q, hreq_eq p q = true <-> p = q.
Proof.
  intros [a b c d e f g h] [a' b' c' d' e' f' g' h']. unfold hreq_eq. cbn.
  rewrite !andb_true_iff, !beq_eq, Z.eqb_eq, (leq_eq _ _ cookie_eq_ok), !(leq_eq _ _ kv_eq_ok),
    (opt_eq_eq _ _ post_eq_ok). split.
  - intros [[[[[[[-> ->] ->] ->] ->] ->] ->] ->]. reflexivity.
  - intro H. inversion H. repeat split; reflexivity.
Qed.

Lemma hres_eq_ok : forall p q, hres_eq p q = true <-> p = q.
Proof.
  intros [a b c d e f g] [a' b' c' d' e' f' g']. unfold hres_eq. cbn.
  rewrite !andb_true_iff, !beq_eq, !Z.eqb_eq, (leq_eq _ _ cookie_eq_ok), (leq_eq _ _ kv_eq_ok),
    content_eq_ok. split.
  - intros [[[[[[-> ->] ->] ->] ->] ->] ->]. reflexivity.
  - intro H. inversion H. repeat split; reflexivity.
Qed.

(* ------------------------------------------------------------- lengths *)
Lemma blen_acc_spec : forall l a, blen_acc l a = (a + Z.of_nat (List.length l))%Z.
Proof.
  induction l as [|x l IH]; intros a; cbn [blen_acc List.length].
  - lia.
  - rewrite IH. lia.
Qed.

Lemma blen_spec : forall l, blen l = Z.of_nat (List.length l).
Proof. intros. unfold blen. rewrite blen_acc_spec. lia. Qed.

Lemma bapp_app : forall a b, bapp a b = a ++ b.
Proof.
  intros. unfold bapp. rewrite !rev_append_rev, app_nil_r, rev_involutive. reflexivity.
Qed.

(* ----------------------------------------------------------- header map *)
Definition keys (h : hmap) : list bytes := map fst h.

Lemma flatten_app : forall a b, flatten (a ++ b) = flatten a ++ flatten b.
Proof. intros. unfold flatten. apply flat_map_app. Qed.

(* overlaying a key: the other entries stay, the key's entry is replaced or appended *)
Lemma hset_perm : forall k vs h, NoDup (keys h) ->
  Permutation (flatten (hset k vs h))
              (flatten (filter (fun e => negb (beq k (fst e))) h) ++ map (fun v => (k, v)) vs).
Proof.
  induction h as [|[k' vs'] r IH]; intros ND.
  - cbn. rewrite app_nil_r. apply Permutation_refl.
  - cbn [hset]. inversion ND as [|? ? Hnin ND']; subst.
    destruct (beq k k') eqn:E.
    + apply beq_eq in E. subst k'. cbn [filter fst]. rewrite beq_refl. cbn [negb].
      assert (F : filter (fun e => negb (beq k (fst e))) r = r).
      { clear -Hnin. induction r as [|[k2 v2] r IH]; [reflexivity|]. cbn [filter fst].
        destruct (beq k k2) eqn:E2.
        - apply beq_eq in E2. subst. exfalso. apply Hnin. left. reflexivity.
        - cbn [negb]. f_equal. apply IH. intro H. apply Hnin. right. exact H. }
      rewrite F. change (flatten ((k, vs) :: r)) with (map (fun v => (fst (k, vs), v)) (snd (k, vs)) ++ flatten r).
      cbn [fst snd]. apply Permutation_app_comm.
    + cbn [filter fst]. rewrite E. cbn [negb].
      change (flatten ((k', vs') :: hset k vs r)) with (map (fun v => (k', v)) vs' ++ flatten (hset k vs r)).
      change (flatten ((k', vs') :: filter (fun e => negb (beq k (fst e))) r))
        with (map (fun v => (k', v)) vs' ++ flatten (filter (fun e => negb (beq k (fst e))) r)).
      rewrite <- app_assoc. apply Permutation_app_head. apply IH. exact ND'.
Qed.

Lemma keys_hset : forall k vs h, NoDup (keys h) -> NoDup (keys (hset k vs h)).
Proof.
  induction h as [|[k' vs'] r IH]; intros ND.
  - cbn. constructor; [intros []|constructor].
  - cbn [hset]. inversion ND as [|? ? Hnin ND']; subst. destruct (beq k k') eqn:E.
    + apply beq_eq in E. subst. exact ND.
    + cbn [keys map fst]. constructor.
      * intro Hin. apply Hnin. clear -Hin E.
        induction r as [|[k2 v2] r IH]; cbn [hset keys map fst] in *.
        -- destruct Hin as [H|[]]. subst. rewrite beq_refl in E. discriminate.
        -- destruct (beq k k2) eqn:E2.
           ++ apply beq_eq in E2. subst. cbn [map fst] in Hin. exact Hin.
           ++ cbn [map fst] in Hin. destruct Hin as [H|H]; [left; exact H|right; apply IH; exact H].
      * apply IH. exact ND'.
Qed.

Lemma filter_filter : forall (A : Type) (f g : A -> bool) l,
  filter f (filter g l) = filter (fun x => (g x && f x)%bool) l.
Proof.
  induction l as [|x l IH]; [reflexivity|]. cbn [filter].
  destruct (g x) eqn:G; cbn [filter andb]; [destruct (f x); rewrite IH; reflexivity|exact IH].
Qed.

Lemma filter_ext' : forall (A : Type) (f g : A -> bool) l,
  (forall x, f x = g x) -> filter f l = filter g l.
Proof. intros. apply filter_ext. assumption. Qed.

Lemma NoDup_keys_filter : forall f h, NoDup (keys h) -> NoDup (keys (filter f h)).
Proof.
  induction h as [|e r IH]; intros ND; [constructor|].
  inversion ND as [|? ? Hnin ND']; subst. cbn [filter]. destruct (f e).
  - cbn [keys map]. constructor; [|apply IH; exact ND'].
    intro Hin. apply Hnin. clear -Hin. unfold keys in *. apply in_map_iff in Hin.
    destruct Hin as [y [Hy Hin]]. apply filter_In in Hin. apply in_map_iff. exists y. tauto.
  - apply IH. exact ND'.
Qed.

Lemma filter_true : forall (l : hmap), filter (fun _ => true) l = l.
Proof. induction l; cbn; congruence. Qed.

Lemma beq_sym : forall a b, beq a b = beq b a.
Proof.
  intros. destruct (beq a b) eqn:E1, (beq b a) eqn:E2; try reflexivity.
  - apply beq_eq in E1. subst. rewrite beq_refl in E2. discriminate.
  - apply beq_eq in E2. subst. rewrite beq_refl in E1. discriminate.
Qed.

Lemma filter_notin : forall c k (r : hmap), ~ In k (keys r) ->
  filter (fun e => negb (c && beq (fst e) k)) r = r.
Proof.
  induction r as [|[k3 v3] r IH]; intros Hn; [reflexivity|]. cbn [filter fst].
  destruct (beq k3 k) eqn:E3.
  - apply beq_eq in E3. subst. exfalso. apply Hn. left. reflexivity.
  - rewrite andb_false_r. cbn [negb]. f_equal. apply IH. intro H. apply Hn. right. exact H.
Qed.

(* one overlay step seen through an outer filter that keeps the overlaid key *)
Lemma step_f : forall (f : bytes * list bytes -> bool) (c : bool) k vs g,
  NoDup (keys g) -> (forall v, f (k, v) = true) ->
  Permutation (flatten (filter f (if c then hset k vs g else g)))
    (flatten (filter f (filter (fun e => negb (c && beq (fst e) k)) g))
     ++ (if c then map (fun v => (k, v)) vs else [])).
Proof.
  intros f c k vs g ND Fk. destruct c.
  - induction g as [|[k2 v2] r IH].
    + cbn [hset filter]. rewrite Fk. cbn. rewrite app_nil_r. apply Permutation_refl.
    + inversion ND as [|? ? Hn NDr]; subst. cbn [hset]. destruct (beq k k2) eqn:E.
      * apply beq_eq in E. subst k2. cbn [filter fst]. rewrite Fk, beq_refl. cbn [andb negb].
        pose proof (filter_notin true k r Hn) as FN. cbn [andb] in FN. rewrite FN.
        change (flatten ((k, vs) :: filter f r)) with (map (fun v => (k, v)) vs ++ flatten (filter f r)).
        apply Permutation_app_comm.
      * cbn [filter fst]. rewrite (beq_sym k2 k), E. cbn [andb negb filter].
        destruct (f (k2, v2)).
        -- change (flatten ((k2, v2) :: ?l)) with (map (fun v => (k2, v)) v2 ++ flatten l).
           rewrite <- app_assoc. apply Permutation_app_head. apply IH. exact NDr.
        -- apply IH. exact NDr.
  - cbn [andb negb]. rewrite app_nil_r, filter_true. apply Permutation_refl.
Qed.

(* proxyutil.Header.Map + har.headers give the message's header list *)
Lemma header_map_perm : forall host cl te h, NoDup (keys h) ->
  Permutation (flatten (header_map host cl te h)) (msg_headers host cl te h).
Proof.
  intros host cl te h ND. unfold header_map, msg_headers.
  set (c1 := negb (is_nil host)). set (c2 := (0 <? cl)%Z). set (c3 := negb (is_nil te)).
  set (h1 := if c1 then hset k_host [host] h else h).
  set (h2 := if c2 then hset k_cl [dec cl] h1 else h1).
  assert (E1 : (if is_nil host then h else hset k_host [host] h) = h1)
    by (subst h1 c1; destruct (is_nil host); reflexivity).
  rewrite E1. fold h2.
  assert (E3 : (if is_nil te then h2 else hset k_te te h2) = (if c3 then hset k_te te h2 else h2))
    by (subst c3; destruct (is_nil te); reflexivity).
  rewrite E3.
  assert (ND1 : NoDup (keys h1)) by (subst h1; destruct c1; [apply keys_hset; exact ND|exact ND]).
  assert (ND2 : NoDup (keys h2)) by (subst h2; destruct c2; [apply keys_hset; exact ND1|exact ND1]).
  set (g1 := fun e : bytes * list bytes => negb (c1 && beq (fst e) k_host)).
  set (g2 := fun e : bytes * list bytes => negb (c2 && beq (fst e) k_cl)).
  set (g3 := fun e : bytes * list bytes => negb (c3 && beq (fst e) k_te)).
  pose proof (step_f (fun _ => true) c3 k_te te h2 ND2 (fun _ => eq_refl)) as P3.
  rewrite !filter_true in P3. fold g3 in P3.
  assert (G3 : forall v, g3 (k_cl, v) = true).
  { intro v. unfold g3. cbn [fst]. replace (beq k_cl k_te) with false by reflexivity. rewrite andb_false_r. reflexivity. }
  pose proof (step_f g3 c2 k_cl [dec cl] h1 ND1 G3) as P2. fold h2 in P2. fold g2 in P2.
  assert (G23 : forall v, (fun e => (g2 e && g3 e)%bool) (k_host, v) = true).
  { intro v. unfold g2, g3. cbn [fst]. replace (beq k_host k_te) with false by reflexivity.
    replace (beq k_host k_cl) with false by reflexivity. rewrite !andb_false_r. reflexivity. }
  pose proof (step_f (fun e => (g2 e && g3 e)%bool) c1 k_host [host] h ND G23) as P1.
  fold h1 in P1. fold g1 in P1. rewrite <- (filter_filter _ g3 g2) in P1. rewrite <- (filter_filter _ g3 g2) in P1.
  assert (FF : filter g3 (filter g2 (filter g1 h)) = filter (fun e => negb (superseded host cl te (fst e))) h).
  { rewrite !filter_filter. apply filter_ext'. intros [k v]. unfold g1, g2, g3, superseded, c1, c2, c3. cbn [fst].
    destruct (is_nil host), (0 <? cl)%Z, (is_nil te), (beq k k_host), (beq k k_cl), (beq k k_te); reflexivity. }
  rewrite <- FF.
  eapply perm_trans; [exact P3|].
  eapply perm_trans; [apply Permutation_app_tail; exact P2|].
  eapply perm_trans; [apply Permutation_app_tail; apply Permutation_app_tail; exact P1|].
  rewrite <- !app_assoc. apply Permutation_app_head.
  subst c1 c2 c3. destruct (is_nil host); cbn [negb map app]; destruct (is_nil te) eqn:T; cbn [negb].
  all: try (apply is_nil_true in T; subst te; cbn [map]; rewrite ?app_nil_r; apply Permutation_refl).
  all: apply Permutation_refl.
Qed.
