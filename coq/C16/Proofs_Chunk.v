(* C16 — the chunk coding written by the snapshot is undone by the concrete
   chunked reader: the law assumed of the external reader is satisfiable. *)
From Coq Require Import List NArith ZArith Ascii String Bool Lia.
From Martian.C16 Require Import Model Proofs_Basics.
Import ListNotations.
Local Open Scope N_scope.

Lemma lt16_cases : forall d, d < 16 ->
  d = 0 \/ d = 1 \/ d = 2 \/ d = 3 \/ d = 4 \/ d = 5 \/ d = 6 \/ d = 7 \/ d = 8 \/ d = 9 \/
  d = 10 \/ d = 11 \/ d = 12 \/ d = 13 \/ d = 14 \/ d = 15.
Proof. intros. lia. Qed.

Lemma hexval_hexdigit : forall d, d < 16 -> hexval (hexdigit d) = Some d.
Proof.
  intros d H. destruct (lt16_cases d H) as [E|[E|[E|[E|[E|[E|[E|[E|[E|[E|[E|[E|[E|[E|[E|E]]]]]]]]]]]]]]];
    subst; vm_compute; reflexivity.
Qed.

Fixpoint digits_rev (fuel : nat) (n : N) : list N :=
  match fuel with
  | O => []
  | S f => (n mod 16) :: (if N.eqb (n / 16) 0 then [] else digits_rev f (n / 16))
  end.

Fixpoint val_rev (ds : list N) : N :=
  match ds with [] => 0 | d :: r => d + 16 * val_rev r end.

Lemma hex_rev_digits : forall f n, hex_rev f n = map hexdigit (digits_rev f n).
Proof.
  induction f as [|f IH]; intros n; cbn [hex_rev digits_rev map]; [reflexivity|].
  destruct (N.eqb (n / 16) 0); cbn [map]; [reflexivity|]. rewrite IH. reflexivity.
Qed.

Lemma digits_lt : forall f n, Forall (fun d => d < 16) (digits_rev f n).
Proof.
  induction f as [|f IH]; intros n; cbn [digits_rev]; constructor.
  - apply N.mod_lt. lia.
  - destruct (N.eqb (n / 16) 0); [constructor|apply IH].
Qed.

Lemma val_digits : forall f n, n < 16 ^ N.of_nat f -> val_rev (digits_rev f n) = n.
Proof.
  induction f as [|f IH]; intros n H.
  - cbn in H. cbn. lia.
  - cbn [digits_rev val_rev].
    assert (Hq : n / 16 < 16 ^ N.of_nat f).
    { apply N.div_lt_upper_bound; [lia|]. rewrite Nat2N.inj_succ, N.pow_succ_r' in H. exact H. }
    destruct (N.eqb (n / 16) 0) eqn:E.
    + apply N.eqb_eq in E. cbn [val_rev]. pose proof (N.div_mod n 16). lia.
    + rewrite (IH _ Hq). pose proof (N.div_mod n 16). lia.
Qed.

Lemma pos_size_bound : forall p, N.pos p < 2 ^ N.of_nat (Pos.size_nat p).
Proof.
  induction p as [p IH|p IH|]; cbn [Pos.size_nat]; rewrite Nat2N.inj_succ, N.pow_succ_r'.
  - lia.
  - lia.
  - cbn. lia.
Qed.

Lemma fuel_enough : forall n, n < 16 ^ N.of_nat (S (N.size_nat n)).
Proof.
  intros [|p].
  - cbn. lia.
  - cbn [N.size_nat]. pose proof (pos_size_bound p) as H.
    assert (L : 2 ^ N.of_nat (Pos.size_nat p) <= 16 ^ N.of_nat (Pos.size_nat p)) by (apply N.pow_le_mono_l; lia).
    rewrite Nat2N.inj_succ, N.pow_succ_r'. lia.
Qed.

Definition head_nonhex (l : bytes) : Prop :=
  match l with [] => True | c :: _ => hexval c = None end.

Lemma parse_hex_digits : forall ds acc seen rest,
  Forall (fun d => d < 16) ds -> head_nonhex rest ->
  parse_hex acc seen (map hexdigit ds ++ rest) =
  if (seen || negb (is_nil ds))%bool then Some (fold_left (fun a d => a * 16 + d) ds acc, rest) else None.
Proof.
  induction ds as [|d r IH]; intros acc seen rest F HN.
  - cbn [map app fold_left is_nil negb]. rewrite orb_false_r.
    destruct rest as [|c rest']; cbn [parse_hex]; [reflexivity|].
    cbn in HN. rewrite HN. reflexivity.
  - inversion F as [|? ? Hd Fr]; subst. cbn [map app parse_hex].
    rewrite (hexval_hexdigit d Hd). rewrite (IH _ true rest Fr HN). cbn [orb fold_left is_nil negb].
    rewrite orb_true_r. reflexivity.
Qed.

Lemma fold_val : forall ds, fold_left (fun a d => a * 16 + d) (rev ds) 0 = val_rev ds.
Proof.
  intros ds. rewrite <- fold_left_rev_right, rev_involutive.
  induction ds as [|d r IH]; cbn [fold_right val_rev]; [reflexivity|]. rewrite IH. lia.
Qed.

Lemma parse_to_hex : forall n rest, head_nonhex rest ->
  parse_hex 0 false (to_hex n ++ rest) = Some (n, rest).
Proof.
  intros n rest HN. unfold to_hex. rewrite hex_rev_digits, <- map_rev.
  rewrite parse_hex_digits; [| apply Forall_rev; apply digits_lt | exact HN].
  assert (NE : is_nil (rev (digits_rev (S (N.size_nat n)) n)) = false).
  { cbn [digits_rev]. destruct (rev _) eqn:R; [|reflexivity].
    apply (f_equal (@List.length N)) in R. rewrite rev_length in R. cbn in R. discriminate. }
  rewrite NE. cbn [orb negb]. rewrite fold_val, val_digits; [reflexivity|apply fuel_enough].
Qed.

Lemma take_rev_app : forall b rest acc,
  take_rev (List.length b) (b ++ rest) acc = Some (rev b ++ acc, rest).
Proof.
  induction b as [|c b IH]; intros rest acc; cbn [List.length take_rev app rev]; [reflexivity|].
  rewrite IH. rewrite <- app_assoc. reflexivity.
Qed.

Lemma strip_crlf_crlf : forall r, strip_crlf (crlf ++ r) = Some r.
Proof. intros. reflexivity. Qed.

Theorem dechunk_concrete_chunk_enc : forall b, dechunk_concrete (chunk_enc b) = Some b.
Proof.
  intros b. unfold dechunk_concrete, chunk_enc. destruct b as [|c b'] eqn:Eb.
  - vm_compute. reflexivity.
  - rewrite <- Eb. assert (Hne : b <> []) by (subst; discriminate). clear Eb c b'.
    rewrite bapp_app, blen_spec.
    set (n := Z.to_N (Z.of_nat (List.length b))).
    assert (Hn : N.to_nat n = List.length b) by (subst n; lia).
    assert (Hn0 : N.eqb n 0 = false).
    { apply N.eqb_neq. subst n. destruct b; [contradiction|]. cbn [List.length]. lia. }
    cbn [dechunk_c].
    rewrite parse_to_hex; [|vm_compute; reflexivity].
    rewrite strip_crlf_crlf, Hn0, Hn, take_rev_app, strip_crlf_crlf.
    change (parse_hex 0 false last_chunk) with (Some (0, crlf)).
    change (strip_crlf crlf) with (Some (@nil ascii)). cbn [N.eqb].
    rewrite rev_append_rev, !app_nil_r, rev_involutive. reflexivity.
Qed.
