(* C16 — HAR entries describe the exchange and survive a JSON round trip.
   Definitions only: executable model of har.NewRequest / har.NewResponse /
   postData / proxyutil.Header.Map / the option predicates / PostData and
   Content (Un)MarshalJSON at field level, the declarative specification the
   property text states, and the boolean oracles run on the real outputs.

   The model follows the code REPAIRED by fixes/C16-1 (post data de-chunked)
   and fixes/C16-2 (an empty body is never handed to a decompressor); the
   remaining known defects (lossy non-UTF-8 strings in JSON, content-coding
   names compared case-sensitively, zlib-wrapped deflate) are modelled as they
   are.

   External behaviour (Go stdlib: base64, UTF-8 validity, encoding/json's
   replacement of invalid UTF-8, gzip, flate, zlib, the chunked reader,
   mime.ParseMediaType, url.ParseQuery, mime/multipart) enters through the
   record [ext]; theorems assume only the laws they name. *)
From Coq Require Import List NArith ZArith Ascii String Bool DecimalString Permutation.
Import ListNotations.

Definition bytes := list ascii.
Definition B (s : string) : bytes := list_ascii_of_string s.

(* ---------------------------------------------------------------- bytes *)
Fixpoint beq (a b : bytes) : bool :=
  match a, b with
  | [], [] => true
  | x :: a', y :: b' => if Ascii.eqb x y then beq a' b' else false
  | _, _ => false
  end.

Fixpoint leq {A : Type} (eq : A -> A -> bool) (a b : list A) : bool :=
  match a, b with
  | [], [] => true
  | x :: a', y :: b' => if eq x y then leq eq a' b' else false
  | _, _ => false
  end.

Definition is_nil {A : Type} (l : list A) : bool :=
  match l with [] => true | _ => false end.

Fixpoint blen_acc (l : bytes) (acc : Z) : Z :=
  match l with [] => acc | _ :: r => blen_acc r (Z.succ acc) end.
Definition blen (l : bytes) : Z := blen_acc l 0%Z.

(* tail-recursive append for body-sized data *)
Definition bapp (a b : bytes) : bytes := rev_append (rev_append a []) b.

Definition lower_c (c : ascii) : ascii :=
  let n := N_of_ascii c in
  if (N.leb 65 n && N.leb n 90)%bool then ascii_of_N (n + 32) else c.
Definition lower (s : bytes) : bytes := map lower_c s.

Fixpoint prefixb (p s : bytes) : bool :=
  match p, s with
  | [], _ => true
  | a :: p', b :: s' => if Ascii.eqb a b then prefixb p' s' else false
  | _ :: _, [] => false
  end.

(* strconv.FormatInt(z, 10) *)
Definition dec (z : Z) : bytes := list_ascii_of_string (NilZero.string_of_int (Z.to_int z)).

Definition opt_eq {A : Type} (eq : A -> A -> bool) (a b : option A) : bool :=
  match a, b with
  | None, None => true
  | Some x, Some y => eq x y
  | _, _ => false
  end.

(* ------------------------------------------------------ multiset compare *)
Fixpoint remove1 {A : Type} (eq : A -> A -> bool) (x : A) (l : list A) : option (list A) :=
  match l with
  | [] => None
  | y :: r => if eq x y then Some r
              else match remove1 eq x r with Some r' => Some (y :: r') | None => None end
  end.

Fixpoint perm_b {A : Type} (eq : A -> A -> bool) (l1 l2 : list A) : bool :=
  match l1 with
  | [] => is_nil l2
  | x :: r => match remove1 eq x l2 with
              | Some l2' => perm_b eq r l2'
              | None => false
              end
  end.

(* ------------------------------------------------------------ chunk coding
   httputil.NewChunkedWriter: one Write of the whole body (nothing for an
   empty body), then Close writes "0\r\n".  The final CRLF is written by the
   snapshot after the body section and is not part of it. *)
Definition hexdigit (n : N) : ascii :=
  if N.ltb n 10 then ascii_of_N (48 + n) else ascii_of_N (87 + n).

Fixpoint hex_rev (fuel : nat) (n : N) : bytes :=
  match fuel with
  | O => []
  | S f => hexdigit (N.modulo n 16) ::
           (if N.eqb (N.div n 16) 0 then [] else hex_rev f (N.div n 16))
  end.
Definition to_hex (n : N) : bytes := rev (hex_rev (S (N.size_nat n)) n).

Definition crlf : bytes := [ascii_of_N 13; ascii_of_N 10].
Definition last_chunk : bytes := ascii_of_N 48 :: crlf.

Definition chunk_enc (b : bytes) : bytes :=
  match b with
  | [] => last_chunk
  | _ => to_hex (Z.to_N (blen b)) ++ crlf ++ bapp b (crlf ++ last_chunk)
  end.

(* a concrete chunked reader for exactly this shape (hex size, CRLF, data,
   CRLF, ... , "0" CRLF); used to show the law assumed of the external
   reader is satisfiable, and cross-checked against Go's reader by the driver *)
Definition hexval (c : ascii) : option N :=
  let n := N_of_ascii c in
  if (N.leb 48 n && N.leb n 57)%bool then Some (n - 48)%N
  else if (N.leb 97 n && N.leb n 102)%bool then Some (n - 87)%N
  else if (N.leb 65 n && N.leb n 70)%bool then Some (n - 55)%N
  else None.

Fixpoint parse_hex (acc : N) (seen : bool) (l : bytes) : option (N * bytes) :=
  match l with
  | c :: r => match hexval c with
              | Some d => parse_hex (acc * 16 + d) true r
              | None => if seen then Some (acc, l) else None
              end
  | [] => if seen then Some (acc, l) else None
  end.

Fixpoint take_rev (n : nat) (l acc : bytes) : option (bytes * bytes) :=
  match n with
  | O => Some (acc, l)
  | S k => match l with c :: r => take_rev k r (c :: acc) | [] => None end
  end.

Definition strip_crlf (l : bytes) : option bytes :=
  match l with
  | a :: b :: r => if (Ascii.eqb a (ascii_of_N 13) && Ascii.eqb b (ascii_of_N 10))%bool then Some r else None
  | _ => None
  end.

Fixpoint dechunk_c (fuel : nat) (l : bytes) (acc_rev : bytes) : option bytes :=
  match fuel with
  | O => None
  | S f =>
    match parse_hex 0 false l with
    | None => None
    | Some (n, r) =>
      match strip_crlf r with
      | None => None
      | Some r1 =>
        if N.eqb n 0 then Some (rev_append acc_rev [])
        else match take_rev (N.to_nat n) r1 acc_rev with
             | None => None
             | Some (acc', r2) =>
               match strip_crlf r2 with
               | None => None
               | Some r3 => dechunk_c f r3 acc'
               end
             end
      end
    end
  end.
Definition dechunk_concrete (l : bytes) : option bytes := dechunk_c 3 l [].

(* -------------------------------------------------------------- records *)
Record param := mkParam { p_name : bytes; p_value : bytes; p_file : bytes; p_ctype : bytes }.
Record cookie := mkCookie { c_name : bytes; c_value : bytes; c_path : bytes; c_domain : bytes;
                            c_expires : bytes; c_httponly : bool; c_secure : bool }.
Definition kv := (bytes * bytes)%type.
Definition hmap := list (bytes * list bytes).   (* http.Header: a Go map, keys unique *)

(* external behaviour *)
Record ext := mkExt {
  b64e : bytes -> bytes;
  b64d : bytes -> option bytes;
  utf8_ok : bytes -> bool;
  sanitize : bytes -> bytes;               (* encoding/json: invalid UTF-8 -> U+FFFD *)
  gunzip : bytes -> option bytes;          (* compress/gzip reader, ReadAll *)
  inflate_raw : bytes -> option bytes;     (* compress/flate reader (what the code calls) *)
  inflate_http : bytes -> option bytes;    (* HTTP "deflate": zlib-wrapped, or raw as sent by some servers *)
  dechunk : bytes -> option bytes;         (* httputil.NewChunkedReader, ReadAll *)
  parse_mt : bytes -> option (bytes * bytes);  (* mime.ParseMediaType: media type, boundary; None on error *)
  form_parse : bytes -> option (list kv);  (* url.ParseQuery flattened; None on error *)
  mp_parse : bytes -> bytes -> option (list param)  (* multipart reader: boundary, body; None on error *)
}.

(* the request as martian sees it (net/http's view) *)
Record rmsg := mkRmsg {
  q_method : bytes; q_url : bytes (* URL.String() *); q_proto : bytes; q_host : bytes;
  q_cl : Z; q_te : list bytes; q_hdrs : hmap; q_body : bytes (* as the origin receives it *);
  q_query : list kv (* URL.Query() flattened *); q_cookies : list cookie (* req.Cookies() *)
}.

Record pmsg := mkPmsg {
  s_status : Z; s_proto : bytes; s_cl : Z; s_te : list bytes; s_hdrs : hmap;
  s_body : bytes (* de-framed, still content-coded *); s_cookies : list cookie (* res.Cookies() *)
}.

Record postdata := mkPost { pd_mime : bytes; pd_params : list param; pd_text : bytes }.
Record jpost := mkJpost { jp_mime : bytes; jp_params : list param; jp_text : bytes; jp_enc : bytes }.
Record content := mkContent { ct_size : Z; ct_mime : bytes; ct_text : bytes; ct_enc : bytes }.
Record jcontent := mkJcontent { jc_size : Z; jc_mime : bytes; jc_text : bytes; jc_enc : bytes }.

(* har.Request / har.Response, generic in the post-data / content representation *)
Record hreq_ (P : Type) := mkHreq {
  r_method : bytes; r_url : bytes; r_proto : bytes; r_cookies : list cookie;
  r_headers : list kv; r_query : list kv; r_post : option P; r_bodysize : Z }.
Arguments mkHreq {P}. Arguments r_method {P}. Arguments r_url {P}. Arguments r_proto {P}.
Arguments r_cookies {P}. Arguments r_headers {P}. Arguments r_query {P}. Arguments r_post {P}.
Arguments r_bodysize {P}.
Definition hreq := hreq_ postdata.
Definition jreq := hreq_ jpost.

Record hres_ (C : Type) := mkHres {
  e_status : Z; e_proto : bytes; e_cookies : list cookie; e_headers : list kv;
  e_content : C; e_redirect : bytes; e_bodysize : Z }.
Arguments mkHres {C}. Arguments e_status {C}. Arguments e_proto {C}. Arguments e_cookies {C}.
Arguments e_headers {C}. Arguments e_content {C}. Arguments e_redirect {C}. Arguments e_bodysize {C}.
Definition hres := hres_ content.
Definition jres := hres_ jcontent.

Inductive result (A : Type) := Ok (a : A) | Err.
Arguments Ok {A}. Arguments Err {A}.

(* logging options *)
Inductive opt := OAll | ONone | OIn (cts : list bytes) | OOut (cts : list bytes).

(* ------------------------------------------------------------ header map *)
Fixpoint hfind (k : bytes) (h : hmap) : option (list bytes) :=
  match h with
  | [] => None
  | (k', vs) :: r => if beq k k' then Some vs else hfind k r
  end.

(* http.Header.Get for an already canonical key *)
Definition hget (k : bytes) (h : hmap) : bytes :=
  match hfind k h with Some (v :: _) => v | _ => [] end.

(* hm[k] = vs *)
Fixpoint hset (k : bytes) (vs : list bytes) (h : hmap) : hmap :=
  match h with
  | [] => [(k, vs)]
  | (k', vs') :: r => if beq k k' then (k, vs) :: r else (k', vs') :: hset k vs r
  end.

Definition k_host := B "Host".
Definition k_cl := B "Content-Length".
Definition k_te := B "Transfer-Encoding".
Definition k_ct := B "Content-Type".
Definition k_ce := B "Content-Encoding".
Definition k_loc := B "Location".

(* proxyutil.Header.Map: copy, then overlay Host (non-empty), Content-Length
   (> 0), Transfer-Encoding (non-nil) *)
Definition header_map (host : bytes) (cl : Z) (te : list bytes) (h : hmap) : hmap :=
  let h1 := if is_nil host then h else hset k_host [host] h in
  let h2 := if Z.ltb 0 cl then hset k_cl [dec cl] h1 else h1 in
  if is_nil te then h2 else hset k_te te h2.

(* har.headers *)
Definition flatten (h : hmap) : list kv :=
  flat_map (fun e => map (fun v => (fst e, v)) (snd e)) h.

(* --------------------------------------------------------- option predicates *)
Definition ct_match (cts : list bytes) (rct : bytes) : bool :=
  existsb (fun ct => prefixb (lower ct) (lower rct)) cts.

Definition capture (o : opt) (h : hmap) : bool :=
  match o with
  | OAll => true
  | ONone => false
  | OIn cts => ct_match cts (hget k_ct h)
  | OOut cts => negb (ct_match cts (hget k_ct h))
  end.

(* ------------------------------------------------------------- requests *)
Fixpoint last_te (te : list bytes) : bytes :=
  match te with [] => [] | [x] => x | _ :: r => last_te r end.
Definition is_chunked (te : list bytes) : bool := beq (last_te te) (B "chunked").

Definition mt_multipart := B "multipart/form-data".
Definition mt_form := B "application/x-www-form-urlencoded".

Definition media (X : ext) (ct : bytes) : bytes * bytes :=
  match parse_mt X ct with Some r => r | None => (ct, []) end.

Definition param_of_kv (p : kv) : param := mkParam (fst p) (snd p) [] [].

(* the body section of the messageview snapshot *)
Definition snapshot_body (te : list bytes) (body : bytes) : bytes :=
  if is_chunked te then chunk_enc body else body.

Definition post_data (X : ext) (logBody : bool) (m : rmsg) : result (option postdata) :=
  if (Z.leb (q_cl m) 0 && is_nil (q_te m))%bool then Ok None
  else
    let (mt, bnd) := media X (hget k_ct (q_hdrs m)) in
    if negb logBody then Ok (Some (mkPost mt [] []))
    else
      let raw := snapshot_body (q_te m) (q_body m) in
      (* fixes/C16-1: a chunked snapshot is read through a chunked reader *)
      match (if is_chunked (q_te m) then dechunk X raw else Some raw) with
      | None => Err
      | Some b =>
        if beq mt mt_multipart then
          match mp_parse X bnd b with
          | Some ps => Ok (Some (mkPost mt ps []))
          | None => Err
          end
        else if beq mt mt_form then
          match form_parse X b with
          | Some kvs => Ok (Some (mkPost mt (map param_of_kv kvs) []))
          | None => Err
          end
        else Ok (Some (mkPost mt [] b))
      end.

Definition har_req (X : ext) (o : opt) (m : rmsg) : result hreq :=
  match post_data X (capture o (q_hdrs m)) m with
  | Err => Err
  | Ok pd =>
    Ok (mkHreq (q_method m) (q_url m) (q_proto m) (q_cookies m)
               (flatten (header_map (q_host m) (q_cl m) (q_te m) (q_hdrs m)))
               (q_query m) pd (q_cl m))
  end.

(* ------------------------------------------------------------ responses *)
Definition b64name := B "base64".

Definition redirect_of (st : Z) (h : hmap) : bytes :=
  if (Z.leb 300 st && Z.ltb st 400)%bool then hget k_loc h else [].

Definition har_res (X : ext) (o : opt) (m : pmsg) : result hres :=
  let hs := flatten (header_map [] (s_cl m) (s_te m) (s_hdrs m)) in
  let mk c := mkHres (s_status m) (s_proto m) (s_cookies m) hs c
                     (redirect_of (s_status m) (s_hdrs m)) (s_cl m) in
  let mime := hget k_ct (s_hdrs m) in
  if negb (capture o (s_hdrs m)) then Ok (mk (mkContent 0 mime [] b64name))
  else
    let compress :=
      if (Z.eqb (s_status m) 204 || Z.eqb (s_status m) 206)%bool then []
      else if is_nil (s_body m) then []          (* fixes/C16-2 *)
      else hget k_ce (s_hdrs m) in
    let raw := snapshot_body (s_te m) (s_body m) in
    match (if is_chunked (s_te m) then dechunk X raw else Some raw) with
    | None => Err
    | Some b =>
      let d := if beq compress (B "gzip") then gunzip X b
               else if beq compress (B "deflate") then inflate_raw X b
               else Some b in
      match d with
      | None => Err
      | Some t => Ok (mk (mkContent (blen t) mime t b64name))
      end
    end.

(* ------------------------------------------------- JSON, at field level
   A Go string field is written through encoding/json, which replaces
   invalid UTF-8 ([sanitize]); reading a JSON string back is the identity.
   omitempty fields are represented by their zero value. *)
Definition san_kv (X : ext) (p : kv) : kv := (sanitize X (fst p), sanitize X (snd p)).
Definition san_param (X : ext) (p : param) : param :=
  mkParam (sanitize X (p_name p)) (sanitize X (p_value p)) (sanitize X (p_file p)) (sanitize X (p_ctype p)).
Definition san_cookie (X : ext) (c : cookie) : cookie :=
  mkCookie (sanitize X (c_name c)) (sanitize X (c_value c)) (sanitize X (c_path c))
           (sanitize X (c_domain c)) (sanitize X (c_expires c)) (c_httponly c) (c_secure c).

(* PostData.MarshalJSON *)
Definition marshal_post (X : ext) (p : postdata) : jpost :=
  if utf8_ok X (pd_text p)
  then mkJpost (sanitize X (pd_mime p)) (map (san_param X) (pd_params p)) (sanitize X (pd_text p)) []
  else mkJpost (sanitize X (pd_mime p)) (map (san_param X) (pd_params p)) (b64e X (pd_text p)) b64name.

(* PostData.UnmarshalJSON *)
Definition unmarshal_post (X : ext) (j : jpost) : option postdata :=
  if beq (jp_enc j) b64name
  then match b64d X (jp_text j) with
       | Some t => Some (mkPost (jp_mime j) (jp_params j) t)
       | None => None
       end
  else Some (mkPost (jp_mime j) (jp_params j) (jp_text j)).

(* Content.MarshalJSON; None = "unsupported encoding" error *)
Definition marshal_content (X : ext) (c : content) : option jcontent :=
  if beq (ct_enc c) b64name
  then Some (mkJcontent (ct_size c) (sanitize X (ct_mime c)) (b64e X (ct_text c)) (ct_enc c))
  else if is_nil (ct_enc c)
  then Some (mkJcontent (ct_size c) (sanitize X (ct_mime c)) (sanitize X (ct_text c)) [])
  else None.

(* Content.UnmarshalJSON *)
Definition unmarshal_content (X : ext) (j : jcontent) : option content :=
  if beq (jc_enc j) b64name
  then match b64d X (jc_text j) with
       | Some t => Some (mkContent (jc_size j) (jc_mime j) t (jc_enc j))
       | None => None
       end
  else if is_nil (jc_enc j) then Some (mkContent (jc_size j) (jc_mime j) (jc_text j) [])
  else None.

Definition marshal_req (X : ext) (e : hreq) : jreq :=
  mkHreq (sanitize X (r_method e)) (sanitize X (r_url e)) (sanitize X (r_proto e))
         (map (san_cookie X) (r_cookies e)) (map (san_kv X) (r_headers e))
         (map (san_kv X) (r_query e))
         (match r_post e with Some p => Some (marshal_post X p) | None => None end)
         (r_bodysize e).

Definition unmarshal_req (X : ext) (j : jreq) : option hreq :=
  match r_post j with
  | None => Some (mkHreq (r_method j) (r_url j) (r_proto j) (r_cookies j) (r_headers j)
                         (r_query j) None (r_bodysize j))
  | Some jp =>
    match unmarshal_post X jp with
    | Some p => Some (mkHreq (r_method j) (r_url j) (r_proto j) (r_cookies j) (r_headers j)
                             (r_query j) (Some p) (r_bodysize j))
    | None => None
    end
  end.

Definition marshal_res (X : ext) (e : hres) : option jres :=
  match marshal_content X (e_content e) with
  | Some jc => Some (mkHres (e_status e) (sanitize X (e_proto e)) (map (san_cookie X) (e_cookies e))
                            (map (san_kv X) (e_headers e)) jc (sanitize X (e_redirect e)) (e_bodysize e))
  | None => None
  end.

Definition unmarshal_res (X : ext) (j : jres) : option hres :=
  match unmarshal_content X (e_content j) with
  | Some c => Some (mkHres (e_status j) (e_proto j) (e_cookies j) (e_headers j) c
                           (e_redirect j) (e_bodysize j))
  | None => None
  end.

Definition roundtrip_req (X : ext) (e : hreq) : option hreq := unmarshal_req X (marshal_req X e).
Definition roundtrip_res (X : ext) (e : hres) : option hres :=
  match marshal_res X e with Some j => unmarshal_res X j | None => None end.

(* ------------------------------------------------------------------ spec
   What the property text demands, stated without reference to the model. *)

(* the header list of the message: the header map without the entries the
   message's own Host / Content-Length / Transfer-Encoding fields supersede,
   plus those fields *)
Definition superseded (host : bytes) (cl : Z) (te : list bytes) (k : bytes) : bool :=
  ((negb (is_nil host) && beq k k_host) || (Z.ltb 0 cl && beq k k_cl)
   || (negb (is_nil te) && beq k k_te))%bool.

Definition msg_headers (host : bytes) (cl : Z) (te : list bytes) (h : hmap) : list kv :=
  flatten (filter (fun e => negb (superseded host cl te (fst e))) h)
  ++ (if is_nil host then [] else [(k_host, host)])
  ++ (if Z.ltb 0 cl then [(k_cl, dec cl)] else [])
  ++ map (fun v => (k_te, v)) te.

(* configured capture, declaratively: some listed type is a case-insensitive
   prefix of the message's Content-Type *)
Definition listed (cts : list bytes) (rct : bytes) : Prop :=
  exists ct, In ct cts /\ exists rest, lower rct = lower ct ++ rest.

Definition should_capture (o : opt) (rct : bytes) : Prop :=
  match o with
  | OAll => True
  | ONone => False
  | OIn cts => listed cts rct
  | OOut cts => ~ listed cts rct
  end.

Definition req_fields_spec (m : rmsg) (e : hreq) : Prop :=
  r_method e = q_method m /\ r_url e = q_url m /\ r_proto e = q_proto m /\
  r_cookies e = q_cookies m /\
  Permutation (r_headers e) (msg_headers (q_host m) (q_cl m) (q_te m) (q_hdrs m)) /\
  Permutation (r_query e) (q_query m).

(* post data = the request body as the origin receives it; form and
   multipart bodies parsed into parameters; nothing when capture is off *)
Definition post_spec (X : ext) (cap : bool) (m : rmsg) (e : hreq) : Prop :=
  match r_post e with
  | None => q_body m = []
  | Some pd =>
    let (mt, bnd) := media X (hget k_ct (q_hdrs m)) in
    pd_mime pd = mt /\
    if cap then
      if beq mt mt_multipart then
        pd_text pd = [] /\ mp_parse X bnd (q_body m) = Some (pd_params pd)
      else if beq mt mt_form then
        pd_text pd = [] /\
        match form_parse X (q_body m) with
        | Some kvs => Permutation (pd_params pd) (map param_of_kv kvs)
        | None => False
        end
      else pd_text pd = q_body m /\ pd_params pd = []
    else pd_text pd = [] /\ pd_params pd = []
  end.

(* content codings are case-insensitive (RFC 7231 3.1.2.1); "deflate" is the
   zlib format, raw deflate tolerated (RFC 7230 4.2.2) *)
Inductive coding := CGzip | CDeflate | CIdent.
Definition spec_coding (ce : bytes) : coding :=
  if beq (lower ce) (B "gzip") then CGzip
  else if beq (lower ce) (B "deflate") then CDeflate else CIdent.

(* the fully decoded body; None: the stream is corrupt, nothing is demanded.
   204 / 206 and empty bodies have nothing to decode. *)
Definition spec_decoded (X : ext) (m : pmsg) : option bytes :=
  if (Z.eqb (s_status m) 204 || Z.eqb (s_status m) 206 || is_nil (s_body m))%bool then Some (s_body m)
  else match spec_coding (hget k_ce (s_hdrs m)) with
       | CGzip => gunzip X (s_body m)
       | CDeflate => inflate_http X (s_body m)
       | CIdent => Some (s_body m)
       end.

Definition res_fields_spec (m : pmsg) (e : hres) : Prop :=
  e_status e = s_status m /\ e_proto e = s_proto m /\ e_cookies e = s_cookies m /\
  Permutation (e_headers e) (msg_headers [] (s_cl m) (s_te m) (s_hdrs m)) /\
  e_redirect e = redirect_of (s_status m) (s_hdrs m) /\
  ct_mime (e_content e) = hget k_ct (s_hdrs m).

Definition content_spec (X : ext) (cap : bool) (m : pmsg) (e : hres) : Prop :=
  ct_enc (e_content e) = b64name /\
  if cap then
    match spec_decoded X m with
    | Some d => ct_text (e_content e) = d /\ ct_size (e_content e) = blen d
    | None => True
    end
  else ct_text (e_content e) = [] /\ ct_size (e_content e) = 0%Z.

(* whole-observation specs.  obs = what the logger recorded (Err: nothing),
   rt = the entry after export-to-JSON and parsing back (None: parse error) *)
(* the message carries a body framing (Content-Length > 0 or a transfer coding) *)
Definition has_framing (m : rmsg) : bool := negb (Z.leb (q_cl m) 0 && is_nil (q_te m))%bool.

(* the body is declared a form / multipart body and does not parse as one *)
Definition body_unparseable (X : ext) (m : rmsg) : Prop :=
  let (mt, bnd) := media X (hget k_ct (q_hdrs m)) in
  (mt = mt_multipart /\ mp_parse X bnd (q_body m) = None) \/
  (mt = mt_form /\ form_parse X (q_body m) = None).

Definition body_unparseable_b (X : ext) (m : rmsg) : bool :=
  let (mt, bnd) := media X (hget k_ct (q_hdrs m)) in
  if beq mt mt_multipart then match mp_parse X bnd (q_body m) with None => true | Some _ => false end
  else if beq mt mt_form then match form_parse X (q_body m) with None => true | Some _ => false end
  else false.

(* a request may be missing from the log only if its body was to be parsed
   into parameters (capture on, a body present) and cannot be *)
Definition req_may_drop (X : ext) (cap : bool) (m : rmsg) : Prop :=
  cap = true /\ has_framing m = true /\ body_unparseable X m.

Definition req_spec (X : ext) (cap : bool) (m : rmsg) (obs : result hreq) (rt : option hreq) : Prop :=
  match obs with
  | Err => req_may_drop X cap m
  | Ok e => req_fields_spec m e /\ post_spec X cap m e /\ rt = Some e
  end.

Definition res_spec (X : ext) (cap : bool) (m : pmsg) (obs : result hres) (rt : option hres) : Prop :=
  match obs with
  | Err => cap = true /\ spec_decoded X m = None   (* a response may be missing only if undecodable *)
  | Ok e => res_fields_spec m e /\ content_spec X cap m e /\ rt = Some e
  end.

(* ---------------------------------------------------------------- oracles *)
Definition kv_eq (p q : kv) : bool := (beq (fst p) (fst q) && beq (snd p) (snd q))%bool.
Definition param_eq (p q : param) : bool :=
  (beq (p_name p) (p_name q) && beq (p_value p) (p_value q) && beq (p_file p) (p_file q)
   && beq (p_ctype p) (p_ctype q))%bool.
Definition cookie_eq (c d : cookie) : bool :=
  (beq (c_name c) (c_name d) && beq (c_value c) (c_value d) && beq (c_path c) (c_path d)
   && beq (c_domain c) (c_domain d) && beq (c_expires c) (c_expires d)
   && Bool.eqb (c_httponly c) (c_httponly d) && Bool.eqb (c_secure c) (c_secure d))%bool.
Definition post_eq (p q : postdata) : bool :=
  (beq (pd_mime p) (pd_mime q) && leq param_eq (pd_params p) (pd_params q) && beq (pd_text p) (pd_text q))%bool.
Definition content_eq (c d : content) : bool :=
  (Z.eqb (ct_size c) (ct_size d) && beq (ct_mime c) (ct_mime d) && beq (ct_text c) (ct_text d)
   && beq (ct_enc c) (ct_enc d))%bool.
Definition hreq_eq (a b : hreq) : bool :=
  (beq (r_method a) (r_method b) && beq (r_url a) (r_url b) && beq (r_proto a) (r_proto b)
   && leq cookie_eq (r_cookies a) (r_cookies b) && leq kv_eq (r_headers a) (r_headers b)
   && leq kv_eq (r_query a) (r_query b) && opt_eq post_eq (r_post a) (r_post b)
   && Z.eqb (r_bodysize a) (r_bodysize b))%bool.
Definition hres_eq (a b : hres) : bool :=
  (Z.eqb (e_status a) (e_status b) && beq (e_proto a) (e_proto b)
   && leq cookie_eq (e_cookies a) (e_cookies b) && leq kv_eq (e_headers a) (e_headers b)
   && content_eq (e_content a) (e_content b) && beq (e_redirect a) (e_redirect b)
   && Z.eqb (e_bodysize a) (e_bodysize b))%bool.

Definition req_fields_ok (m : rmsg) (e : hreq) : bool :=
  (beq (r_method e) (q_method m) && beq (r_url e) (q_url m) && beq (r_proto e) (q_proto m)
   && leq cookie_eq (r_cookies e) (q_cookies m)
   && perm_b kv_eq (r_headers e) (msg_headers (q_host m) (q_cl m) (q_te m) (q_hdrs m))
   && perm_b kv_eq (r_query e) (q_query m))%bool.

Definition post_ok (X : ext) (cap : bool) (m : rmsg) (e : hreq) : bool :=
  match r_post e with
  | None => is_nil (q_body m)
  | Some pd =>
    let (mt, bnd) := media X (hget k_ct (q_hdrs m)) in
    (beq (pd_mime pd) mt &&
     if cap then
       if beq mt mt_multipart then
         (is_nil (pd_text pd) && opt_eq (leq param_eq) (mp_parse X bnd (q_body m)) (Some (pd_params pd)))
       else if beq mt mt_form then
         (is_nil (pd_text pd) &&
          match form_parse X (q_body m) with
          | Some kvs => perm_b param_eq (pd_params pd) (map param_of_kv kvs)
          | None => false
          end)
       else (beq (pd_text pd) (q_body m) && is_nil (pd_params pd))
     else (is_nil (pd_text pd) && is_nil (pd_params pd)))%bool
  end.

Definition res_fields_ok (m : pmsg) (e : hres) : bool :=
  (Z.eqb (e_status e) (s_status m) && beq (e_proto e) (s_proto m)
   && leq cookie_eq (e_cookies e) (s_cookies m)
   && perm_b kv_eq (e_headers e) (msg_headers [] (s_cl m) (s_te m) (s_hdrs m))
   && beq (e_redirect e) (redirect_of (s_status m) (s_hdrs m))
   && beq (ct_mime (e_content e)) (hget k_ct (s_hdrs m)))%bool.

Definition content_ok (X : ext) (cap : bool) (m : pmsg) (e : hres) : bool :=
  (beq (ct_enc (e_content e)) b64name &&
   if cap then
     match spec_decoded X m with
     | Some d => (beq (ct_text (e_content e)) d && Z.eqb (ct_size (e_content e)) (blen d))
     | None => true
     end
   else (is_nil (ct_text (e_content e)) && Z.eqb (ct_size (e_content e)) 0))%bool.

Definition c16_req_ok (X : ext) (cap : bool) (m : rmsg) (obs : result hreq) (rt : option hreq) : bool :=
  match obs with
  | Err => (cap && has_framing m && body_unparseable_b X m)%bool
  | Ok e => (req_fields_ok m e && post_ok X cap m e && opt_eq hreq_eq rt (Some e))%bool
  end.

Definition c16_res_ok (X : ext) (cap : bool) (m : pmsg) (obs : result hres) (rt : option hres) : bool :=
  match obs with
  | Err => (cap && match spec_decoded X m with None => true | Some _ => false end)%bool
  | Ok e => (res_fields_ok m e && content_ok X cap m e && opt_eq hres_eq rt (Some e))%bool
  end.

(* model-versus-observation comparison (header / query / form-parameter
   order is Go map iteration order: compared as multisets) *)
Definition post_sim (p q : postdata) : bool :=
  (beq (pd_mime p) (pd_mime q) && perm_b param_eq (pd_params p) (pd_params q) && beq (pd_text p) (pd_text q))%bool.
Definition hreq_sim (a b : hreq) : bool :=
  (beq (r_method a) (r_method b) && beq (r_url a) (r_url b) && beq (r_proto a) (r_proto b)
   && leq cookie_eq (r_cookies a) (r_cookies b) && perm_b kv_eq (r_headers a) (r_headers b)
   && perm_b kv_eq (r_query a) (r_query b) && opt_eq post_sim (r_post a) (r_post b)
   && Z.eqb (r_bodysize a) (r_bodysize b))%bool.
Definition hres_sim (a b : hres) : bool :=
  (Z.eqb (e_status a) (e_status b) && beq (e_proto a) (e_proto b)
   && leq cookie_eq (e_cookies a) (e_cookies b) && perm_b kv_eq (e_headers a) (e_headers b)
   && content_eq (e_content a) (e_content b) && beq (e_redirect a) (e_redirect b)
   && Z.eqb (e_bodysize a) (e_bodysize b))%bool.
Definition res_sim {A : Type} (sim : A -> A -> bool) (a b : result A) : bool :=
  match a, b with
  | Ok x, Ok y => sim x y
  | Err, Err => true
  | _, _ => false
  end.

Definition jpost_eq (p q : jpost) : bool :=
  (beq (jp_mime p) (jp_mime q) && leq param_eq (jp_params p) (jp_params q) && beq (jp_text p) (jp_text q)
   && beq (jp_enc p) (jp_enc q))%bool.
Definition jcontent_eq (c d : jcontent) : bool :=
  (Z.eqb (jc_size c) (jc_size d) && beq (jc_mime c) (jc_mime d) && beq (jc_text c) (jc_text d)
   && beq (jc_enc c) (jc_enc d))%bool.

(* which clause of the oracle fails first (for the verdict's clause name) *)
Definition req_clause (X : ext) (cap : bool) (m : rmsg) (e : hreq) (rt : option hreq) : nat :=
  if negb (req_fields_ok m e) then 1
  else if negb (post_ok X cap m e) then 2
  else if negb (opt_eq hreq_eq rt (Some e)) then 3 else 0.
Definition res_clause (X : ext) (cap : bool) (m : pmsg) (e : hres) (rt : option hres) : nat :=
  if negb (res_fields_ok m e) then 1
  else if negb (content_ok X cap m e) then 2
  else if negb (opt_eq hres_eq rt (Some e)) then 3 else 0.

(* ------------------------------------------------- audit round additions *)

(* What the JSON round trip makes of ANY entry: every Go string goes through
   [sanitize]; the post-data text and the base64 content text are kept. *)
Definition san_post (X : ext) (p : postdata) : postdata :=
  mkPost (sanitize X (pd_mime p)) (map (san_param X) (pd_params p)) (pd_text p).
Definition san_req (X : ext) (e : hreq) : hreq :=
  mkHreq (sanitize X (r_method e)) (sanitize X (r_url e)) (sanitize X (r_proto e))
         (map (san_cookie X) (r_cookies e)) (map (san_kv X) (r_headers e)) (map (san_kv X) (r_query e))
         (match r_post e with Some p => Some (san_post X p) | None => None end) (r_bodysize e).
Definition san_content (X : ext) (c : content) : content :=
  mkContent (ct_size c) (sanitize X (ct_mime c)) (ct_text c) (ct_enc c).
Definition san_res (X : ext) (e : hres) : hres :=
  mkHres (e_status e) (sanitize X (e_proto e)) (map (san_cookie X) (e_cookies e))
         (map (san_kv X) (e_headers e)) (san_content X (e_content e)) (sanitize X (e_redirect e))
         (e_bodysize e).

(* "every Go string of the entry is valid UTF-8", decidably *)
Definition kv_ok_b (X : ext) (p : kv) : bool := (utf8_ok X (fst p) && utf8_ok X (snd p))%bool.
Definition param_ok_b (X : ext) (p : param) : bool :=
  (utf8_ok X (p_name p) && utf8_ok X (p_value p) && utf8_ok X (p_file p) && utf8_ok X (p_ctype p))%bool.
Definition cookie_ok_b (X : ext) (c : cookie) : bool :=
  (utf8_ok X (c_name c) && utf8_ok X (c_value c) && utf8_ok X (c_path c) && utf8_ok X (c_domain c)
   && utf8_ok X (c_expires c))%bool.
Definition req_strings_b (X : ext) (e : hreq) : bool :=
  (utf8_ok X (r_method e) && utf8_ok X (r_url e) && utf8_ok X (r_proto e)
   && forallb (cookie_ok_b X) (r_cookies e) && forallb (kv_ok_b X) (r_headers e)
   && forallb (kv_ok_b X) (r_query e)
   && match r_post e with
      | Some p => (utf8_ok X (pd_mime p) && forallb (param_ok_b X) (pd_params p))%bool
      | None => true
      end)%bool.
Definition res_strings_b (X : ext) (e : hres) : bool :=
  (utf8_ok X (e_proto e) && utf8_ok X (e_redirect e) && forallb (cookie_ok_b X) (e_cookies e)
   && forallb (kv_ok_b X) (e_headers e) && utf8_ok X (ct_mime (e_content e)))%bool.

(* the two response defects the guarded theorem excludes, decidably: a
   content coding that is gzip / deflate up to case but not spelled so, and a
   deflate body on which the raw reader and the HTTP reader differ *)
Definition coding_case_b (ce : bytes) : bool :=
  match spec_coding ce with
  | CGzip => negb (beq ce (B "gzip"))
  | CDeflate => negb (beq ce (B "deflate"))
  | CIdent => false
  end.
Definition zlib_b (X : ext) (m : pmsg) : bool :=
  match spec_coding (hget k_ce (s_hdrs m)) with
  | CDeflate => negb (opt_eq beq (inflate_raw X (s_body m)) (inflate_http X (s_body m)))
  | _ => false
  end.

(* what the code itself decodes (for the exact characterisation of a missing response) *)
Definition code_decode (X : ext) (m : pmsg) : option bytes :=
  if (Z.eqb (s_status m) 204 || Z.eqb (s_status m) 206 || is_nil (s_body m))%bool then Some (s_body m)
  else if beq (hget k_ce (s_hdrs m)) (B "gzip") then gunzip X (s_body m)
  else if beq (hget k_ce (s_hdrs m)) (B "deflate") then inflate_raw X (s_body m)
  else Some (s_body m).

(* oracles of the direct codec cases *)
Definition pd_rt_ok (e : postdata) (rt : option postdata) : bool := opt_eq post_eq rt (Some e).
Definition ct_rt_ok (e : content) (rt : option content) : bool := opt_eq content_eq rt (Some e).

(* the relation the model-versus-implementation comparison decides *)
Definition post_equiv (p q : postdata) : Prop :=
  pd_mime p = pd_mime q /\ Permutation (pd_params p) (pd_params q) /\ pd_text p = pd_text q.
Definition hreq_equiv (a b : hreq) : Prop :=
  r_method a = r_method b /\ r_url a = r_url b /\ r_proto a = r_proto b /\ r_cookies a = r_cookies b /\
  Permutation (r_headers a) (r_headers b) /\ Permutation (r_query a) (r_query b) /\
  match r_post a, r_post b with
  | Some p, Some q => post_equiv p q
  | None, None => True
  | _, _ => False
  end /\ r_bodysize a = r_bodysize b.
Definition hres_equiv (a b : hres) : Prop :=
  e_status a = e_status b /\ e_proto a = e_proto b /\ e_cookies a = e_cookies b /\
  Permutation (e_headers a) (e_headers b) /\ e_content a = e_content b /\
  e_redirect a = e_redirect b /\ e_bodysize a = e_bodysize b.

(* a body that travels without a framing the logger recognises: ContentLength
   <= 0 and no transfer coding, yet a non-empty Body (a request built or
   edited by a modifier; the transport probes the Body and sends it chunked) *)
Definition unframed_body_b (m : rmsg) : bool := (negb (has_framing m) && negb (is_nil (q_body m)))%bool.
