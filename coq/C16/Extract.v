From Coq Require Import ExtrOcamlBasic ExtrOcamlString.
From Martian.Common Require Import ExtractBase.
From Martian.C16 Require Import Model.
Extraction Language OCaml.
Extraction "model.ml" base_anchor har_req har_res capture c16_req_ok c16_res_ok
  req_clause res_clause roundtrip_req roundtrip_res marshal_post marshal_content
  hreq_sim hres_sim res_sim hreq_eq hres_eq chunk_enc dechunk_concrete is_chunked
  hget k_ce spec_decoded unmarshal_post unmarshal_content post_eq content_eq msg_headers redirect_of k_ct pd_rt_ok ct_rt_ok req_strings_b res_strings_b coding_case_b zlib_b media has_framing body_unparseable_b unframed_body_b.
