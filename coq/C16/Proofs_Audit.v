(* C16 — audit round: every verdict of the driver is decided by a function
   with an iff theorem; exact characterisations (for ALL entries / messages)
   of the JSON round trip and of a missing response; unguarded response
   fields; capture off. *)
From Coq Require Import List NArith ZArith Ascii String Bool Lia Permutation.
From Martian.C16 Require Import Model Proofs_Basics Proofs_Chunk Proofs.
Import ListNotations.

(* ---------------------------------------------------- strings, decidably *)
Lemma kv_ok_b_iff : forall X p, kv_ok_b X p = true <-> kv_ok X p.
Proof. intros. unfold kv_ok_b, kv_ok. rewrite andb_true_iff. tauto. Qed.
Lemma param_ok_b_iff : forall X p, param_ok_b X p = true <-> param_ok X p.
Proof. intros. unfold param_ok_b, param_ok. rewrite !andb_true_iff. tauto. Qed.
Lemma cookie_ok_b_iff : forall X c, cookie_ok_b X c = true <-> cookie_ok X c.
Proof. intros. unfold cookie_ok_b, cookie_ok. rewrite !andb_true_iff. tauto. Qed.

Lemma forallb_Forall_iff : forall (A : Type) (f : A -> bool) (P : A -> Prop) l,
  (forall x, f x = true <-> P x) -> (forallb f l = true <-> Forall P l).
Proof.
  intros A f P l H. rewrite forallb_forall, Forall_forall. split; intros G x Hx; apply H; apply G; exact Hx.
Qed.

Theorem req_strings_b_iff : forall X e, req_strings_b X e = true <-> req_strings_ok X e.
Proof.
  intros X e. unfold req_strings_b, req_strings_ok. rewrite !andb_true_iff.
  rewrite (forallb_Forall_iff _ _ _ _ (cookie_ok_b_iff X)), !(forallb_Forall_iff _ _ _ _ (kv_ok_b_iff X)).
  destruct (r_post e) as [p|].
  - rewrite andb_true_iff, (forallb_Forall_iff _ _ _ _ (param_ok_b_iff X)). tauto.
  - tauto.
Qed.

Theorem res_strings_b_iff : forall X e, res_strings_b X e = true <-> res_strings_ok X e.
Proof.
  intros X e. unfold res_strings_b, res_strings_ok. rewrite !andb_true_iff.
  rewrite (forallb_Forall_iff _ _ _ _ (cookie_ok_b_iff X)), (forallb_Forall_iff _ _ _ _ (kv_ok_b_iff X)). tauto.
Qed.

(* ----------------------------- the JSON round trip of ANY entry, exactly *)
Lemma post_roundtrip_any : forall X p, law_b64 X -> law_sanitize X ->
  unmarshal_post X (marshal_post X p) = Some (san_post X p).
Proof.
  intros X [mi ps tx] LB LS. unfold marshal_post, unmarshal_post, san_post. cbn [pd_text pd_mime pd_params].
  destruct (utf8_ok X tx) eqn:U; cbn [jp_enc jp_text jp_mime jp_params].
  - rewrite b64name_not_nil, (LS _ U). reflexivity.
  - rewrite beq_refl, LB. reflexivity.
Qed.

Theorem roundtrip_req_any : forall X e, law_b64 X -> law_sanitize X ->
  roundtrip_req X e = Some (san_req X e).
Proof.
  intros X [me ur pr ck hs qs po bs] LB LS. unfold roundtrip_req, marshal_req, unmarshal_req, san_req.
  cbn [r_method r_url r_proto r_cookies r_headers r_query r_post r_bodysize].
  destruct po as [p|]; [|reflexivity]. rewrite (post_roundtrip_any X p LB LS). reflexivity.
Qed.

Theorem roundtrip_res_any : forall X e, law_b64 X -> ct_enc (e_content e) = b64name ->
  roundtrip_res X e = Some (san_res X e).
Proof.
  intros X [st pr ck hs [sz mi tx en] rd bs] LB EN. cbn in EN. subst en.
  unfold roundtrip_res, marshal_res, unmarshal_res, marshal_content, unmarshal_content, san_res, san_content.
  cbn [e_status e_proto e_cookies e_headers e_content e_redirect e_bodysize ct_size ct_mime ct_text ct_enc].
  rewrite beq_refl. cbn [jc_enc jc_text jc_size jc_mime e_status e_proto e_cookies e_headers e_content e_redirect e_bodysize].
  rewrite beq_refl, LB. reflexivity.
Qed.

(* hence: an entry that comes back different contains a Go string that is not UTF-8 *)
Theorem roundtrip_req_differs_only_by_strings : forall X e, law_b64 X -> law_sanitize X ->
  roundtrip_req X e <> Some e -> req_strings_b X e = false.
Proof.
  intros X e LB LS H. destruct (req_strings_b X e) eqn:S; [|reflexivity].
  exfalso. apply H. apply json_roundtrip_req; auto. apply req_strings_b_iff. exact S.
Qed.

Theorem roundtrip_res_differs_only_by_strings : forall X e, law_b64 X -> law_sanitize X ->
  ct_enc (e_content e) = b64name -> roundtrip_res X e <> Some e -> res_strings_b X e = false.
Proof.
  intros X e LB LS EN H. destruct (res_strings_b X e) eqn:S; [|reflexivity].
  exfalso. apply H. apply json_roundtrip_res; auto. apply res_strings_b_iff. exact S.
Qed.

(* ------------------------------------------- response fields, no guard *)
Theorem res_fields_equal : forall X o m e,
  wf_res m -> har_res X o m = Ok e -> res_fields_spec m e /\ e_bodysize e = s_cl m.
Proof.
  intros X o m e ND H. unfold har_res in H.
  assert (FS : forall c, ct_mime c = hget k_ct (s_hdrs m) ->
     res_fields_spec m (mkHres (s_status m) (s_proto m) (s_cookies m)
        (flatten (header_map [] (s_cl m) (s_te m) (s_hdrs m))) c
        (redirect_of (s_status m) (s_hdrs m)) (s_cl m))).
  { intros c Hc. unfold res_fields_spec. cbn. repeat split; try reflexivity; [|exact Hc].
    apply header_map_perm. exact ND. }
  destruct (negb (capture o (s_hdrs m))).
  - inversion H; subst. split; [apply FS; reflexivity|reflexivity].
  - destruct (if is_chunked (s_te m) then _ else _) as [b|]; [|discriminate].
    destruct (if beq _ (B "gzip") then _ else _) as [t|]; [|discriminate].
    inversion H; subst. split; [apply FS; reflexivity|reflexivity].
Qed.

(* a response is missing from the entry exactly when capture is on and the
   code's own decoding of the body fails — for ALL messages *)
Theorem response_dropped_iff : forall X o m, law_dechunk X ->
  (har_res X o m = Err <-> capture o (s_hdrs m) = true /\ code_decode X m = None).
Proof.
  intros X o m L. unfold har_res, code_decode.
  destruct (capture o (s_hdrs m)); cbn [negb].
  2:{ split; [discriminate|intros [H _]; discriminate]. }
  rewrite (snapshot_read_back X _ _ L).
  destruct (Z.eqb (s_status m) 204 || Z.eqb (s_status m) 206)%bool; cbn [orb].
  { cbn. split; [discriminate|intros [_ H]; discriminate]. }
  destruct (is_nil (s_body m)).
  { cbn. split; [discriminate|intros [_ H]; discriminate]. }
  set (ce := hget k_ce (s_hdrs m)).
  destruct (beq ce (B "gzip")).
  - destruct (gunzip X (s_body m)); split; try discriminate; try (intros [_ H]; discriminate); auto.
  - destruct (beq ce (B "deflate")).
    + destruct (inflate_raw X (s_body m)); split; try discriminate; try (intros [_ H]; discriminate); auto.
    + split; [discriminate|intros [_ H]; discriminate].
Qed.

(* the logged content, for ALL messages: the code's decoding, its length *)
Theorem response_content_is_code_decode : forall X o m e, law_dechunk X ->
  capture o (s_hdrs m) = true -> har_res X o m = Ok e ->
  code_decode X m = Some (ct_text (e_content e)) /\
  ct_size (e_content e) = Z.of_nat (List.length (ct_text (e_content e))) /\
  ct_enc (e_content e) = b64name.
Proof.
  intros X o m e L CAP H. unfold har_res in H. unfold code_decode. rewrite CAP in H. cbn [negb] in H.
  rewrite (snapshot_read_back X _ _ L) in H.
  destruct (Z.eqb (s_status m) 204 || Z.eqb (s_status m) 206)%bool; cbn [orb] in *.
  { cbn in H. inversion H; subst. cbn. repeat split; try reflexivity. apply blen_spec. }
  destruct (is_nil (s_body m)).
  { cbn in H. inversion H; subst. cbn. repeat split; try reflexivity. apply blen_spec. }
  set (ce := hget k_ce (s_hdrs m)) in *.
  destruct (beq ce (B "gzip")).
  - destruct (gunzip X (s_body m)) as [t|]; [|discriminate]. inversion H; subst. cbn.
    repeat split; try reflexivity. apply blen_spec.
  - destruct (beq ce (B "deflate")).
    + destruct (inflate_raw X (s_body m)) as [t|]; [|discriminate]. inversion H; subst. cbn.
      repeat split; try reflexivity. apply blen_spec.
    + inversion H; subst. cbn. repeat split; try reflexivity. apply blen_spec.
Qed.

(* capture off: nothing of the body is recorded, and nothing is dropped *)
Theorem nothing_captured_when_off : forall X o,
  (forall m, capture o (q_hdrs m) = false ->
     exists e, har_req X o m = Ok e /\
       match r_post e with Some p => pd_text p = [] /\ pd_params p = [] | None => True end) /\
  (forall m, capture o (s_hdrs m) = false ->
     exists e, har_res X o m = Ok e /\ ct_text (e_content e) = [] /\ ct_size (e_content e) = 0%Z).
Proof.
  intros X o. split; intros m C.
  - unfold har_req, post_data. rewrite C. cbn [negb].
    destruct ((q_cl m <=? 0)%Z && is_nil (q_te m))%bool.
    + eexists. split; [reflexivity|]. exact I.
    + destruct (media X (hget k_ct (q_hdrs m))) as [mt bnd]. eexists. split; [reflexivity|]. cbn. split; reflexivity.
  - unfold har_res. rewrite C. cbn [negb]. eexists. split; [reflexivity|]. cbn. split; reflexivity.
Qed.

(* ----------------------------------- the guard = neither known signature *)
Lemma opt_beq_iff : forall a b : option bytes, opt_eq beq a b = true <-> a = b.
Proof. intros. apply opt_eq_eq. apply beq_eq. Qed.

Theorem coding_guard_iff : forall X m,
  coding_guard X m <-> coding_case_b (hget k_ce (s_hdrs m)) = false /\ zlib_b X m = false.
Proof.
  intros X m. unfold coding_guard, coding_case_b, zlib_b. cbv zeta.
  set (ce := hget k_ce (s_hdrs m)). destruct (spec_coding ce) eqn:SC.
  - rewrite negb_false_iff, beq_eq. split.
    + intros [G1 _]. split; [apply G1; reflexivity|reflexivity].
    + intros [E _]. split; [intros _; exact E|discriminate].
  - rewrite !negb_false_iff, beq_eq, opt_beq_iff. split.
    + intros [_ G2]. destruct (G2 eq_refl) as [E1 E2]. split; assumption.
    + intros [E1 E2]. split; [discriminate|intros _; split; assumption].
  - split; [intros _; split; reflexivity|]. intros _. split; discriminate.
Qed.

(* --------------------------------------------------- verdict functions *)
Ltac fin := split; [|split; [|split]]; (split; intro HH; try congruence; try tauto; try (exfalso; tauto)).

Theorem req_clause_spec : forall X cap m e rt,
  (req_clause X cap m e rt = 0 <-> req_spec X cap m (Ok e) rt) /\
  (req_clause X cap m e rt = 1 <-> ~ req_fields_spec m e) /\
  (req_clause X cap m e rt = 2 <-> req_fields_spec m e /\ ~ post_spec X cap m e) /\
  (req_clause X cap m e rt = 3 <-> req_fields_spec m e /\ post_spec X cap m e /\ rt <> Some e).
Proof.
  intros X cap m e rt. unfold req_clause. cbn [req_spec].
  pose proof (req_fields_ok_iff m e) as F. pose proof (post_ok_iff X cap m e) as P.
  pose proof (opt_eq_eq _ _ hreq_eq_ok rt (Some e)) as R.
  destruct (req_fields_ok m e); cbn [negb].
  - assert (YF : req_fields_spec m e) by (apply F; reflexivity).
    destruct (post_ok X cap m e); cbn [negb].
    + assert (YP : post_spec X cap m e) by (apply P; reflexivity).
      destruct (opt_eq hreq_eq rt (Some e)); cbn [negb].
      * assert (YR : rt = Some e) by (apply R; reflexivity). fin.
      * assert (NR : rt <> Some e) by (intro H; apply R in H; discriminate). fin.
    + assert (NP : ~ post_spec X cap m e) by (intro H; apply P in H; discriminate). fin.
  - assert (NF : ~ req_fields_spec m e) by (intro H; apply F in H; discriminate). fin.
Qed.

Theorem res_clause_spec : forall X cap m e rt,
  (res_clause X cap m e rt = 0 <-> res_spec X cap m (Ok e) rt) /\
  (res_clause X cap m e rt = 1 <-> ~ res_fields_spec m e) /\
  (res_clause X cap m e rt = 2 <-> res_fields_spec m e /\ ~ content_spec X cap m e) /\
  (res_clause X cap m e rt = 3 <-> res_fields_spec m e /\ content_spec X cap m e /\ rt <> Some e).
Proof.
  intros X cap m e rt. unfold res_clause. cbn [res_spec].
  pose proof (res_fields_ok_iff m e) as F. pose proof (content_ok_iff X cap m e) as P.
  pose proof (opt_eq_eq _ _ hres_eq_ok rt (Some e)) as R.
  destruct (res_fields_ok m e); cbn [negb].
  - assert (YF : res_fields_spec m e) by (apply F; reflexivity).
    destruct (content_ok X cap m e); cbn [negb].
    + assert (YP : content_spec X cap m e) by (apply P; reflexivity).
      destruct (opt_eq hres_eq rt (Some e)); cbn [negb].
      * assert (YR : rt = Some e) by (apply R; reflexivity). fin.
      * assert (NR : rt <> Some e) by (intro H; apply R in H; discriminate). fin.
    + assert (NP : ~ content_spec X cap m e) by (intro H; apply P in H; discriminate). fin.
  - assert (NF : ~ res_fields_spec m e) by (intro H; apply F in H; discriminate). fin.
Qed.

(* "response_dropped": the oracle rejects a missing response exactly when
   capture is off or the body is decodable per the specification *)
Theorem response_dropped_verdict : forall X cap m rt,
  c16_res_ok X cap m Err rt = false <-> (cap = false \/ exists d, spec_decoded X m = Some d).
Proof.
  intros X cap m rt. cbn. destruct cap; cbn [andb].
  - destruct (spec_decoded X m) as [d|]; split; intro H; try reflexivity; try discriminate.
    + right. exists d. reflexivity.
    + destruct H as [H|[d H]]; discriminate.
  - split; [intros _; left; reflexivity|reflexivity].
Qed.

Theorem pd_rt_ok_iff : forall e rt, pd_rt_ok e rt = true <-> rt = Some e.
Proof. intros. unfold pd_rt_ok. apply opt_eq_eq. apply post_eq_ok. Qed.
Theorem ct_rt_ok_iff : forall e rt, ct_rt_ok e rt = true <-> rt = Some e.
Proof. intros. unfold ct_rt_ok. apply opt_eq_eq. apply content_eq_ok. Qed.

(* ------------------------------- the model-versus-implementation relation *)
Lemma post_sim_iff : forall p q, post_sim p q = true <-> post_equiv p q.
Proof.
  intros p q. unfold post_sim, post_equiv.
  rewrite !andb_true_iff, !beq_eq, (perm_b_ok _ _ param_eq_ok). tauto.
Qed.

Theorem hreq_sim_iff : forall a b, hreq_sim a b = true <-> hreq_equiv a b.
Proof.
  intros a b. unfold hreq_sim, hreq_equiv.
  rewrite !andb_true_iff, !beq_eq, Z.eqb_eq, (leq_eq _ _ cookie_eq_ok), !(perm_b_ok _ _ kv_eq_ok).
  assert (O : opt_eq post_sim (r_post a) (r_post b) = true <->
              match r_post a, r_post b with
              | Some p, Some q => post_equiv p q | None, None => True | _, _ => False end).
  { destruct (r_post a), (r_post b); cbn; try apply post_sim_iff; split; try discriminate; try tauto. }
  rewrite O. tauto.
Qed.

Theorem hres_sim_iff : forall a b, hres_sim a b = true <-> hres_equiv a b.
Proof.
  intros a b. unfold hres_sim, hres_equiv.
  rewrite !andb_true_iff, !beq_eq, !Z.eqb_eq, (leq_eq _ _ cookie_eq_ok), (perm_b_ok _ _ kv_eq_ok),
    content_eq_ok. tauto.
Qed.

(* an observation equivalent to the model's prediction satisfies the request
   specification whenever the prediction does (so DISAGREE-free + proved
   model => property, clause by clause, for the fields and post data) *)
Theorem req_spec_respects_equiv : forall X cap m a b,
  hreq_equiv a b -> req_fields_spec m a -> post_spec X cap m a ->
  req_fields_spec m b /\
  (match r_post b with
   | Some q => pd_mime q = fst (media X (hget k_ct (q_hdrs m))) | None => q_body m = [] end).
Proof.
  intros X cap m a b [E1 [E2 [E3 [E4 [P1 [P2 [EP _]]]]]]] [F1 [F2 [F3 [F4 [F5 F6]]]]] PS.
  split.
  - unfold req_fields_spec. rewrite <- E1, <- E2, <- E3, <- E4. repeat split; try assumption.
    + eapply perm_trans; [apply Permutation_sym; exact P1|exact F5].
    + eapply perm_trans; [apply Permutation_sym; exact P2|exact F6].
  - unfold post_spec in PS. destruct (r_post a) as [p|], (r_post b) as [q|]; try contradiction.
    + destruct (media X (hget k_ct (q_hdrs m))) as [mt bnd]. destruct EP as [EM _]. destruct PS as [PM _].
      cbn. congruence.
    + exact PS.
Qed.

(* ------------------------------------------------------------ witnesses *)
Definition ex_entry : hreq :=
  mkHreq (B "POST") (B "http://h/x?a=1") (B "HTTP/1.1")
         [mkCookie (B "sid") (B "1") [] [] [] false false]
         [(B "Host", B "h")] [(B "a", B "1")]
         (Some (mkPost (B "application/octet-stream") [] [ascii_of_N 255; ascii_of_N 0])) 2.

Definition noform_X : ext :=
  mkExt (fun b => b) (fun b => Some b) (forallb ascii7) (fun s => s) Some Some Some dechunk_concrete
        (fun ct => Some (ct, [])) (fun _ => None) (fun _ _ => None).
Definition bad_form_req : rmsg :=
  mkRmsg (B "POST") (B "http://h/") (B "HTTP/1.1") (B "h") 5 []
         [(B "Content-Type", [B "application/x-www-form-urlencoded"])] (B "a=%zz") [] [].

(* "request_dropped": the oracle rejects a missing request exactly when the
   specification does not allow it to be missing *)
Theorem request_dropped_verdict : forall X cap m rt,
  c16_req_ok X cap m Err rt = false <-> ~ req_may_drop X cap m.
Proof.
  intros X cap m rt. pose proof (c16_req_ok_iff X cap m Err rt) as H. cbn [req_spec] in H.
  destruct (c16_req_ok X cap m Err rt); split; intro G; try reflexivity; try discriminate.
  - exfalso. apply G. apply H. reflexivity.
  - intro D. apply H in D. discriminate.
Qed.

(* a multipart upload with a browser-style mixed-case boundary *)
Definition webkit_X : ext :=
  mkExt (fun b => b) (fun b => Some b) (forallb ascii7) (fun s => s) Some Some Some dechunk_concrete
        (fun ct => Some (B "multipart/form-data", B "----WebKitFormBoundary7MA4YWxkTrZu0gW"))
        (fun _ => Some [])
        (fun bnd _ => if beq bnd (B "----WebKitFormBoundary7MA4YWxkTrZu0gW")
                      then Some [mkParam (B "f") (B "v") [] []] else None).
Definition webkit_req : rmsg :=
  mkRmsg (B "POST") (B "http://h/") (B "HTTP/1.1") (B "h") 9 []
         [(B "Content-Type", [B "Multipart/Form-Data; Boundary=----WebKitFormBoundary7MA4YWxkTrZu0gW"])]
         (B "multipart") [] [].

(* ------------- the (ContentLength, TransferEncoding, Body) triple, freely *)
Theorem unframed_body_b_iff : forall m,
  unframed_body_b m = false <-> ((q_cl m <= 0)%Z -> q_te m = [] -> q_body m = []).
Proof.
  intros m. unfold unframed_body_b, has_framing. rewrite negb_involutive.
  destruct (Z.leb (q_cl m) 0) eqn:C; cbn [andb].
  - apply Z.leb_le in C. destruct (q_te m) as [|t r]; cbn [is_nil andb].
    + destruct (q_body m); cbn; split; intro H; try reflexivity; try discriminate; auto.
      exfalso. specialize (H C eq_refl). discriminate.
    + split; [intros _ _ H; discriminate|reflexivity].
  - apply Z.leb_gt in C. split; [intros _ H; lia|reflexivity].
Qed.

(* whatever ContentLength says, a request that carries a framing is logged
   with the whole Body *)
Theorem postdata_with_framing_any_length : forall X o m e,
  law_dechunk X -> NoDup (keys (q_hdrs m)) -> has_framing m = true ->
  har_req X o m = Ok e -> post_spec X (capture o (q_hdrs m)) m e.
Proof.
  intros X o m e L ND HF H. apply (postdata_is_origin_body X o m e L); [|exact H].
  split; [exact ND|]. intros C T. unfold has_framing in HF.
  apply Z.leb_le in C. rewrite C, T in HF. discriminate.
Qed.

(* the response content does not depend on the ContentLength field at all *)
Definition with_cl (m : pmsg) (cl : Z) : pmsg :=
  mkPmsg (s_status m) (s_proto m) cl (s_te m) (s_hdrs m) (s_body m) (s_cookies m).

Theorem response_content_ignores_content_length : forall X o m cl,
  match har_res X o m, har_res X o (with_cl m cl) with
  | Ok e, Ok e' => e_content e = e_content e'
  | Err, Err => True
  | _, _ => False
  end.
Proof.
  intros X o m cl. unfold har_res, with_cl. cbn [s_status s_proto s_cl s_te s_hdrs s_body s_cookies].
  destruct (negb (capture o (s_hdrs m))); [reflexivity|].
  destruct (if is_chunked (s_te m) then _ else _) as [b|]; [|exact I].
  destruct (if beq _ (B "gzip") then _ else _) as [t|]; [reflexivity|exact I].
Qed.

(* the unframed body: ContentLength 0, no transfer coding, Body "xyz" — the
   transport would send it, the entry has no post data *)
Definition unframed_req : rmsg :=
  mkRmsg (B "POST") (B "http://h/") (B "HTTP/1.1") (B "h") 0 []
         [(B "Content-Type", [B "text/plain"])] (B "xyz") [] [].

Theorem postdata_refuted_unframed : exists X m e,
  law_dechunk X /\ NoDup (keys (q_hdrs m)) /\ har_req X OAll m = Ok e /\ ~ post_spec X true m e.
Proof.
  exists (toyX Some Some Some), unframed_req. eexists.
  destruct (toy_laws Some Some Some) as [_ [_ C]]. split; [exact C|]. split.
  - cbn. constructor; [intros []|constructor].
  - split; [vm_compute; reflexivity|]. vm_compute. discriminate.
Qed.
