(* C06 — lemmas about strings, dns_eq and the net.SplitHostPort mirror. *)
From Coq Require Import List ZArith NArith Bool Ascii Arith Lia.
From Martian.C06 Require Import Model.
Import ListNotations.

(* ---------------- equality tests ---------------- *)

Lemma str_eqb_refl : forall a, str_eqb a a = true.
Proof.
  induction a as [|x a IH]; cbn; [reflexivity|].
  rewrite Ascii.eqb_refl, IH. reflexivity.
Qed.

Lemma str_eqb_eq : forall a b, str_eqb a b = true <-> a = b.
Proof.
  induction a as [|x a IH]; destruct b as [|y b]; cbn; split; intro H;
    try reflexivity; try discriminate.
  - apply andb_true_iff in H as [H1 H2]. apply Ascii.eqb_eq in H1. apply IH in H2. congruence.
  - inversion H; subst. rewrite Ascii.eqb_refl. cbn. apply IH. reflexivity.
Qed.

Lemma str_eqb_neq : forall a b, str_eqb a b = false <-> a <> b.
Proof.
  intros a b. split; intro H.
  - intro E. apply str_eqb_eq in E. congruence.
  - destruct (str_eqb a b) eqn:E; [|reflexivity]. apply str_eqb_eq in E. contradiction.
Qed.

Lemma str_eqb_sym : forall a b, str_eqb a b = str_eqb b a.
Proof.
  intros a b. destruct (str_eqb a b) eqn:E.
  - apply str_eqb_eq in E. subst. symmetry. apply str_eqb_refl.
  - destruct (str_eqb b a) eqn:E2; [|reflexivity].
    apply str_eqb_eq in E2. subst. rewrite str_eqb_refl in E. discriminate.
Qed.

Lemma san_eqb_eq : forall a b, san_eqb a b = true <-> a = b.
Proof.
  destruct a, b; cbn; split; intro H; try discriminate.
  - apply str_eqb_eq in H. congruence.
  - inversion H. apply str_eqb_refl.
  - apply str_eqb_eq in H. congruence.
  - inversion H. apply str_eqb_refl.
Qed.

Lemma cert_eqb_eq : forall a b, cert_eqb a b = true <-> a = b.
Proof.
  intros [s1 n1 b1 a1 o1 g1 k1] [s2 n2 b2 a2 o2 g2 k2]. unfold cert_eqb. cbn.
  split; intro H.
  - apply andb_true_iff in H as [H Hk]. apply andb_true_iff in H as [H Hg].
    apply andb_true_iff in H as [H Ho]. apply andb_true_iff in H as [H Ha].
    apply andb_true_iff in H as [H Hb]. apply andb_true_iff in H as [Hs Hn].
    apply Nat.eqb_eq in Hs. apply san_eqb_eq in Hn. apply Z.eqb_eq in Hb. apply Z.eqb_eq in Ha.
    apply str_eqb_eq in Ho. apply N.eqb_eq in Hg. apply N.eqb_eq in Hk. congruence.
  - inversion H; subst.
    rewrite Nat.eqb_refl, !Z.eqb_refl, !N.eqb_refl, str_eqb_refl.
    replace (san_eqb n2 n2) with true by (symmetry; apply san_eqb_eq; reflexivity).
    reflexivity.
Qed.

(* ---------------- dns_eq is an equivalence ---------------- *)

Lemma dns_eq_refl : forall a, dns_eq a a = true.
Proof. intro a. unfold dns_eq. apply str_eqb_refl. Qed.

Lemma dns_eq_sym : forall a b, dns_eq a b = dns_eq b a.
Proof. intros a b. unfold dns_eq. apply str_eqb_sym. Qed.

Lemma dns_eq_trans : forall a b c, dns_eq a b = true -> dns_eq b c = true -> dns_eq a c = true.
Proof.
  unfold dns_eq. intros a b c H1 H2.
  apply str_eqb_eq in H1. apply str_eqb_eq in H2. apply str_eqb_eq. congruence.
Qed.

(* letter case does not matter *)
Lemma lower_idem : forall c, lower (lower c) = lower c.
Proof.
  intro c. unfold lower.
  destruct (N.leb 65 (N_of_ascii c) && N.leb (N_of_ascii c) 90)%bool eqn:E.
  - apply andb_true_iff in E as [E1 E2]. apply N.leb_le in E1. apply N.leb_le in E2.
    assert (Hlt : (N_of_ascii c + 32 < 256)%N) by lia.
    rewrite N_ascii_embedding by exact Hlt.
    destruct (N.leb 65 (N_of_ascii c + 32) && N.leb (N_of_ascii c + 32) 90)%bool eqn:E3; [|reflexivity].
    apply andb_true_iff in E3 as [_ E4]. apply N.leb_le in E4. lia.
  - rewrite E. reflexivity.
Qed.

Lemma dns_eq_lower : forall a, dns_eq (lower_str a) a = true.
Proof.
  intro a. unfold dns_eq, lower_str. rewrite map_map.
  apply str_eqb_eq. apply map_ext. intro c. apply lower_idem.
Qed.

(* ---------------- index_of / last_index_of ---------------- *)

Lemma contains_cons : forall c x s,
  contains c (x :: s) = (Ascii.eqb x c || contains c s)%bool.
Proof.
  intros c x s. unfold contains. cbn.
  destruct (Ascii.eqb x c); [reflexivity|].
  destruct (index_of c s); reflexivity.
Qed.

Lemma contains_nil : forall c, contains c [] = false.
Proof. reflexivity. Qed.

Lemma contains_app : forall c a b,
  contains c (a ++ b) = (contains c a || contains c b)%bool.
Proof.
  induction a as [|x a IH]; intro b; [reflexivity|].
  cbn [app]. rewrite !contains_cons, IH. apply orb_assoc.
Qed.

Lemma contains_false_index : forall c s, contains c s = false <-> index_of c s = None.
Proof.
  intros c s. unfold contains. destruct (index_of c s); split; intro H; congruence.
Qed.

Lemma last_none_iff : forall c s, last_index_of c s = None <-> contains c s = false.
Proof.
  induction s as [|x s IH]; [cbn; tauto|].
  rewrite contains_cons. cbn.
  destruct (last_index_of c s) eqn:E.
  - split; [discriminate|]. intro H. apply orb_false_iff in H as [_ H].
    apply IH in H. discriminate.
  - assert (contains c s = false) as -> by (apply IH; reflexivity).
    rewrite orb_false_r. destruct (Ascii.eqb x c); split; congruence.
Qed.

Lemma last_index_app : forall c a p,
  contains c p = false -> last_index_of c (a ++ c :: p) = Some (length a).
Proof.
  intros c a p Hp. induction a as [|x a IH]; cbn.
  - apply last_none_iff in Hp. rewrite Hp, Ascii.eqb_refl. reflexivity.
  - rewrite IH. reflexivity.
Qed.

Lemma index_app : forall c a r,
  contains c a = false -> index_of c (a ++ c :: r) = Some (length a).
Proof.
  intros c a r. induction a as [|x a IH]; intro Ha; cbn.
  - rewrite Ascii.eqb_refl. reflexivity.
  - rewrite contains_cons in Ha. apply orb_false_iff in Ha as [Hx Ha].
    rewrite Hx, (IH Ha). reflexivity.
Qed.

Lemma firstn_len_app : forall (a b : str), firstn (length a) (a ++ b) = a.
Proof.
  intros a b. rewrite firstn_app, Nat.sub_diag, firstn_all. cbn. apply app_nil_r.
Qed.

Lemma skipn_len_app : forall (a b : str), skipn (length a) (a ++ b) = b.
Proof.
  intros a b. rewrite skipn_app, Nat.sub_diag, skipn_all. reflexivity.
Qed.

(* last colon is at or after any colon *)
Lemma last_index_ge : forall c a b,
  exists i, last_index_of c (a ++ c :: b) = Some i /\ length a <= i.
Proof.
  intros c a b. induction a as [|x a IH]; cbn.
  - destruct (last_index_of c b) as [j|].
    + exists (S j). split; [reflexivity|lia].
    + rewrite Ascii.eqb_refl. exists 0. split; [reflexivity|lia].
  - destruct IH as [i [Hi Hle]]. rewrite Hi. exists (S i). split; [reflexivity|lia].
Qed.

(* ---------------- normalize on the spellings a client uses ---------------- *)

Definition plain (s : str) : Prop :=
  contains ch_colon s = false /\ contains ch_lbr s = false /\ contains ch_rbr s = false.

Definition no_brackets (s : str) : Prop :=
  contains ch_lbr s = false /\ contains ch_rbr s = false.

(* a host without colon has no port to remove *)
Lemma normalize_no_colon : forall h, contains ch_colon h = false -> normalize h = h.
Proof.
  intros h H. unfold normalize, split_host_port.
  apply last_none_iff in H. rewrite H. reflexivity.
Qed.

(* host:port, host without colon or brackets *)
Lemma normalize_host_port : forall h p,
  plain h -> plain p -> normalize (h ++ ch_colon :: p) = h.
Proof.
  intros h p [Hc [Hl Hr]] [Pc [Pl Pr]]. unfold normalize, split_host_port.
  rewrite (last_index_app ch_colon h p Pc).
  assert (Hhd : forall c0 rest, h ++ ch_colon :: p = c0 :: rest -> Ascii.eqb c0 ch_lbr = false).
  { intros c0 rest E. destruct h as [|x h']; cbn in E; inversion E; subst.
    - reflexivity.
    - rewrite contains_cons in Hl. apply orb_false_iff in Hl as [Hx _]. exact Hx. }
  destruct (h ++ ch_colon :: p) as [|c0 rest] eqn:E.
  - destruct h; discriminate.
  - rewrite (Hhd c0 rest eq_refl). rewrite <- E.
    rewrite firstn_len_app, Hc. unfold split_tail. cbn [skipn].
    rewrite !contains_app, !contains_cons, Hl, Hr, Pl, Pr. cbn.
    reflexivity.
Qed.

(* [v6]:port — the host may contain colons *)
Lemma split_bracket_port : forall h p,
  no_brackets h -> plain p ->
  split_host_port (ch_lbr :: h ++ ch_rbr :: ch_colon :: p) = SplitOk h p.
Proof.
  intros h p [Hl Hr] [Pc [Pl Pr]].
  remember (h ++ ch_rbr :: ch_colon :: p) as tl eqn:Etl.
  assert (Etl2 : tl = (h ++ [ch_rbr]) ++ ch_colon :: p)
    by (subst; rewrite <- app_assoc; reflexivity).
  assert (F1 : last_index_of ch_colon (ch_lbr :: tl) = Some (S (S (length h)))).
  { change (ch_lbr :: tl) with ([ch_lbr] ++ tl). rewrite Etl2, app_assoc.
    rewrite (last_index_app ch_colon _ p Pc). rewrite !app_length. cbn. f_equal. lia. }
  assert (F2 : index_of ch_rbr (ch_lbr :: tl) = Some (S (length h))).
  { cbn [index_of]. replace (Ascii.eqb ch_lbr ch_rbr) with false by reflexivity.
    rewrite Etl, (index_app ch_rbr h _ Hr). reflexivity. }
  assert (F3 : length (ch_lbr :: tl) = S (length h + S (S (length p)))).
  { rewrite Etl. cbn. rewrite app_length. reflexivity. }
  assert (F4 : firstn (length h) tl = h) by (rewrite Etl; apply firstn_len_app).
  assert (F5 : contains ch_lbr tl = false).
  { rewrite Etl, contains_app, !contains_cons, Hl, Pl. reflexivity. }
  assert (F6 : skipn (S (length h)) tl = ch_colon :: p).
  { rewrite Etl2. replace (S (length h)) with (length (h ++ [ch_rbr]))
      by (rewrite app_length; cbn; lia). apply skipn_len_app. }
  assert (F7 : skipn (S (S (length h))) tl = p).
  { rewrite Etl2. replace (S (S (length h))) with (length ((h ++ [ch_rbr]) ++ [ch_colon]))
      by (rewrite !app_length; cbn; lia).
    replace ((h ++ [ch_rbr]) ++ ch_colon :: p) with (((h ++ [ch_rbr]) ++ [ch_colon]) ++ p)
      by (rewrite <- app_assoc; reflexivity).
    apply skipn_len_app. }
  unfold split_host_port. rewrite F1, F2, F3.
  replace (Ascii.eqb ch_lbr ch_lbr) with true by reflexivity.
  replace (Nat.eqb (S (S (length h))) (S (length h + S (S (length p))))) with false
    by (symmetry; apply Nat.eqb_neq; lia).
  rewrite Nat.eqb_refl.
  unfold split_tail.
  change (skipn 1 (ch_lbr :: tl)) with tl.
  change (skipn (S (S (length h))) (ch_lbr :: tl)) with (skipn (S (length h)) tl).
  change (skipn (S (S (S (length h)))) (ch_lbr :: tl)) with (skipn (S (S (length h))) tl).
  replace (S (length h) - 1) with (length h) by lia.
  rewrite F4, F5, F6, F7, contains_cons, Pr.
  replace (Ascii.eqb ch_colon ch_rbr) with false by reflexivity.
  reflexivity.
Qed.

Lemma normalize_bracket_port : forall h p,
  no_brackets h -> plain p ->
  normalize (ch_lbr :: h ++ ch_rbr :: ch_colon :: p) = h.
Proof.
  intros h p Hh Hp. unfold normalize. rewrite (split_bracket_port h p Hh Hp). reflexivity.
Qed.

(* a bare IPv6 literal: two or more colons, no leading bracket: "too many
   colons", the name is kept as it is *)
Definition two_colons (h : str) : Prop :=
  exists a b, h = a ++ ch_colon :: b /\ contains ch_colon b = true.

Lemma normalize_bare_v6 : forall h,
  two_colons h -> contains ch_lbr h = false -> normalize h = h.
Proof.
  intros h [a [b [E Hb]]] Hl. unfold normalize, split_host_port.
  (* split b at its own colon: h = (a ++ ":" ++ b1) ++ ":" ++ b2 *)
  assert (Hb' : exists b1 b2, b = b1 ++ ch_colon :: b2).
  { clear - Hb. induction b as [|x b IH]; [discriminate|].
    rewrite contains_cons in Hb. destruct (Ascii.eqb x ch_colon) eqn:Ex.
    - apply Ascii.eqb_eq in Ex. subst. exists [], b. reflexivity.
    - cbn in Hb. destruct (IH Hb) as [b1 [b2 Eb]]. exists (x :: b1), b2. subst. reflexivity. }
  destruct Hb' as [b1 [b2 Eb]].
  assert (E' : h = (a ++ ch_colon :: b1) ++ ch_colon :: b2).
  { subst. rewrite <- app_assoc. reflexivity. }
  destruct (last_index_ge ch_colon (a ++ ch_colon :: b1) b2) as [i [Hi Hle]].
  rewrite <- E' in Hi. rewrite Hi.
  destruct h as [|c0 rest] eqn:Eh.
  - destruct a; discriminate.
  - rewrite contains_cons in Hl. apply orb_false_iff in Hl as [Hc0 _]. rewrite Hc0.
    rewrite <- Eh in *. clear Eh.
    assert (Hcont : contains ch_colon (firstn i h) = true).
    { rewrite E'. rewrite app_length in Hle. cbn in Hle.
      rewrite <- app_assoc. cbn [app].
      rewrite firstn_app. rewrite contains_app.
      replace (firstn i a) with a by (symmetry; apply firstn_all2; lia).
      destruct (i - length a) as [|k] eqn:Ek; [lia|].
      cbn [firstn]. rewrite contains_cons, Ascii.eqb_refl. cbn. apply orb_true_r. }
    rewrite Hcont. reflexivity.
Qed.

(* net.JoinHostPort followed by the port removal of cert() is the identity *)
Lemma normalize_join : forall h p,
  no_brackets h -> plain p -> normalize (join_host_port h p) = h.
Proof.
  intros h p Hh Hp. unfold join_host_port.
  destruct (contains ch_colon h) eqn:Hc.
  - apply normalize_bracket_port; assumption.
  - apply normalize_host_port; [|assumption]. destruct Hh. repeat split; assumption.
Qed.
