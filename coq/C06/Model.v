(* C06 — forged certificates verify for the requested host under the
   configured CA.

   Definitions only (no proofs).  Mirrors mitm/mitm.go:

     TLS().GetCertificate         -> [choose_host ApiTLS]           (refuses an empty SNI)
     TLSForHost(h).GetCertificate -> [choose_host (ApiForHost h)]   (SNI, else the fallback)
     Config.cert (method)          -> [cert_key] (net.SplitHostPort port removal,
                                     and — the REPAIRED code, fixes/C06-1 — refusal of
                                     an empty name), then lookup under RLock, re-verify
                                     a hit with x509 Verify{DNSName: hostname}, else
                                     issue (SAN = IP if net.ParseIP succeeds else DNS,
                                     window now -/+ validity truncated to whole seconds
                                     by the ASN.1 time encoding, org, CA signature,
                                     config key) and store under Lock.

   External behaviour enters as Section variables:
     parse_ip : Go's net.ParseIP, returning the canonical text (IP.String())
                of the address, or None.  Instantiated per case by a finite
                table the harness computes with Go's stdlib.
   Cryptography is abstracted: "signature by the CA verifies" is
   [c_signer c = cfg_ca cfg]; "the proxy holds the key" is [c_key c = cfg_key cfg].
   Both are DECIDED on the real code by the harness (real x509.Verify, real
   tls handshakes) and enter the oracle as observed fields.

   Time is in milliseconds relative to a second-aligned epoch chosen by the
   harness; x509 times have second granularity ([trunc_s]). *)

From Coq Require Import List ZArith NArith Bool Ascii Arith.
Import ListNotations.

Definition str := list ascii.

(* ------------------------------------------------------------------ *)
(* strings                                                             *)
(* ------------------------------------------------------------------ *)

Fixpoint str_eqb (a b : str) : bool :=
  match a, b with
  | [], [] => true
  | x :: a', y :: b' => Ascii.eqb x y && str_eqb a' b'
  | _, _ => false
  end.

Definition is_empty (s : str) : bool := match s with [] => true | _ => false end.

Definition ch_colon : ascii := ":"%char.
Definition ch_lbr : ascii := "["%char.
Definition ch_rbr : ascii := "]"%char.
Definition ch_dot : ascii := "."%char.

(* bytealg.IndexByteString *)
Fixpoint index_of (c : ascii) (s : str) : option nat :=
  match s with
  | [] => None
  | x :: r => if Ascii.eqb x c then Some 0
              else match index_of c r with Some i => Some (S i) | None => None end
  end.

(* bytealg.LastIndexByteString *)
Fixpoint last_index_of (c : ascii) (s : str) : option nat :=
  match s with
  | [] => None
  | x :: r => match last_index_of c r with
              | Some i => Some (S i)
              | None => if Ascii.eqb x c then Some 0 else None
              end
  end.

Definition contains (c : ascii) (s : str) : bool :=
  match index_of c s with Some _ => true | None => false end.

(* strings.ToLower restricted to ASCII (x509.toLowerCaseASCII) *)
Definition lower (c : ascii) : ascii :=
  let n := N_of_ascii c in
  if (N.leb 65 n && N.leb n 90)%bool then ascii_of_N (n + 32) else c.

Definition lower_str (s : str) : str := map lower s.

(* ASCII case-insensitive equality of DNS names *)
Definition dns_eq (a b : str) : bool := str_eqb (lower_str a) (lower_str b).

Definition is_ia5 (s : str) : bool := forallb (fun c => N.ltb (N_of_ascii c) 128) s.

(* ------------------------------------------------------------------ *)
(* net.SplitHostPort (net/ipsock.go), branch by branch                 *)
(* ------------------------------------------------------------------ *)

Inductive split_err :=
| MissingPort | TooManyColons | MissingRBr | UnexpectedLBr | UnexpectedRBr.

Inductive split_res :=
| SplitOk (host port : str)
| SplitErr (e : split_err).

(* the two trailing bracket checks and the port slice *)
Definition split_tail (hp : str) (j k i : nat) (host : str) : split_res :=
  if contains ch_lbr (skipn j hp) then SplitErr UnexpectedLBr
  else if contains ch_rbr (skipn k hp) then SplitErr UnexpectedRBr
  else SplitOk host (skipn (S i) hp).

Definition split_host_port (hp : str) : split_res :=
  match last_index_of ch_colon hp with
  | None => SplitErr MissingPort
  | Some i =>
      match hp with
      | [] => SplitErr MissingPort              (* unreachable: i exists *)
      | c0 :: _ =>
          if Ascii.eqb c0 ch_lbr then
            match index_of ch_rbr hp with
            | None => SplitErr MissingRBr
            | Some e =>
                if Nat.eqb (S e) (length hp) then SplitErr MissingPort
                else if Nat.eqb (S e) i then
                  split_tail hp 1 (S e) i (firstn (e - 1) (skipn 1 hp))   (* hostport[1:end] *)
                else if Ascii.eqb (nth (S e) hp ch_dot) ch_colon then SplitErr TooManyColons
                else SplitErr MissingPort
            end
          else
            let host := firstn i hp in
            if contains ch_colon host then SplitErr TooManyColons
            else split_tail hp 0 0 i host
      end
  end.

(* cert(): host, _, err := net.SplitHostPort(hostname); if err == nil { hostname = host } *)
Definition normalize (hostname : str) : str :=
  match split_host_port hostname with
  | SplitOk host _ => host
  | SplitErr _ => hostname
  end.

(* net.JoinHostPort: what a client writes as CONNECT authority *)
Definition join_host_port (h p : str) : str :=
  if contains ch_colon h then ch_lbr :: h ++ ch_rbr :: ch_colon :: p
  else h ++ ch_colon :: p.

(* ------------------------------------------------------------------ *)
(* certificates                                                        *)
(* ------------------------------------------------------------------ *)

Record config := mkConfig
  { cfg_ca : N;          (* identity of the CA key pair *)
    cfg_key : N;         (* identity of the config's leaf key pair *)
    cfg_org : str;
    cfg_validity : Z;    (* milliseconds *)
    (* options that exist on mitm.Config but must NOT enter any certificate
       decision (C06_options_do_not_enter_the_decision): *)
    cfg_skip_verify : bool;   (* SkipTLSVerify: InsecureSkipVerify of the returned tls.Config *)
    cfg_h2 : bool }.          (* SetH2Config: only NextProtos *)

Inductive san :=
| SanIP (canon : str)    (* IPAddresses = [ip]; canonical text of ip *)
| SanDNS (name : str).   (* DNSNames = [name] *)

Record cert := mkCert
  { c_serial : nat;      (* identity of the *tls.Certificate object *)
    c_san : san;
    c_nb : Z; c_na : Z;  (* NotBefore, NotAfter *)
    c_org : str;
    c_signer : N;
    c_key : N }.

Definition san_eqb (a b : san) : bool :=
  match a, b with
  | SanIP x, SanIP y => str_eqb x y
  | SanDNS x, SanDNS y => str_eqb x y
  | _, _ => false
  end.

Definition cert_eqb (a b : cert) : bool :=
  Nat.eqb (c_serial a) (c_serial b) && san_eqb (c_san a) (c_san b)
  && Z.eqb (c_nb a) (c_nb b) && Z.eqb (c_na a) (c_na b)
  && str_eqb (c_org a) (c_org b) && N.eqb (c_signer a) (c_signer b)
  && N.eqb (c_key a) (c_key b).

Definition second : Z := 1000.
Definition trunc_s (x : Z) : Z := (x / second) * second.

(* x509.Certificate.VerifyHostname: brackets are stripped from the candidate *)
Definition strip_brackets (h : str) : str :=
  match h with
  | c0 :: r =>
      if (Ascii.eqb c0 ch_lbr && Nat.leb 3 (length h)
          && Ascii.eqb (last h ch_dot) ch_rbr)%bool
      then removelast r else h
  | [] => h
  end.

Definition empty_or_dot (s : str) : bool :=
  match s with
  | [] => true
  | [c] => Ascii.eqb c ch_dot
  | _ => false
  end.

Section WithParseIP.

Variable parse_ip : str -> option str.

Definition is_ip (h : str) : bool :=
  match parse_ip h with Some _ => true | None => false end.

(* leaf template: if ip := net.ParseIP(hostname); ip != nil {IPAddresses} else {DNSNames} *)
Definition san_for (h : str) : san :=
  match parse_ip h with
  | Some c => SanIP c
  | None => SanDNS h
  end.

(* VerifyHostname for a certificate with exactly one SAN.  IP candidates
   match IP SANs only (net.IP.Equal = equal canonical text); DNS candidates
   match case-insensitively; empty and "." never match.  Wildcard labels and
   the trailing-dot trimming of matchHostnames are NOT modelled (the names of
   this property contain neither). *)
Definition host_matches (s : san) (h : str) : bool :=
  match parse_ip (strip_brackets h) with
  | Some c => match s with SanIP c' => str_eqb c c' | SanDNS _ => false end
  | None =>
      match s with
      | SanDNS p => negb (empty_or_dot p) && negb (empty_or_dot h) && dns_eq p h
      | SanIP _ => false
      end
  end.

Definition in_window (c : cert) (t : Z) : bool :=
  Z.leb (c_nb c) t && Z.leb t (c_na c).

Definition chains (cfg : config) (c : cert) : bool := N.eqb (c_signer c) (cfg_ca cfg).

(* Leaf.Verify(x509.VerifyOptions{DNSName: name, Roots: {ca}}) at time t.
   An empty DNSName skips the host name check (x509 semantics). *)
Definition x509_verify (cfg : config) (c : cert) (name : str) (t : Z) : bool :=
  chains cfg c && in_window c t
  && (if is_empty name then true else host_matches (c_san c) name).

(* x509.CreateCertificate refuses a DNS SAN that is not an IA5String *)
Definition issuable (h : str) : bool :=
  match parse_ip h with Some _ => true | None => is_ia5 h end.

(* the leaf minted by cert(): two separate time.Now() calls t1 <= t2 *)
Definition issue (cfg : config) (serial : nat) (h : str) (t1 t2 : Z) : cert :=
  mkCert serial (san_for h)
         (trunc_s (t1 - cfg_validity cfg)) (trunc_s (t2 + cfg_validity cfg))
         (cfg_org cfg) (cfg_ca cfg) (cfg_key cfg).

(* ------------------------------------------------------------------ *)
(* host selection                                                      *)
(* ------------------------------------------------------------------ *)

Inductive api :=
| ApiTLS                          (* Config.TLS() *)
| ApiForHost (fallback : str).    (* Config.TLSForHost(fallback) *)

Definition choose_host (a : api) (sni : str) : option str :=
  match a with
  | ApiTLS => if is_empty sni then None else Some sni
  | ApiForHost fb => Some (if is_empty sni then fb else sni)
  end.

(* cert(): port removal; an empty name is refused (repaired code) *)
Definition cert_key (hostname : str) : option str :=
  let h := normalize hostname in
  if is_empty h then None else Some h.

(* the cache key / certificate name of a request, None = refused *)
Definition req_name (a : api) (sni : str) : option str :=
  match choose_host a sni with
  | None => None
  | Some hostname => cert_key hostname
  end.

(* ------------------------------------------------------------------ *)
(* cache (Go map[string]*tls.Certificate)                              *)
(* ------------------------------------------------------------------ *)

Definition cache := list (str * cert).

Fixpoint cache_get (k : str) (m : cache) : option cert :=
  match m with
  | [] => None
  | (k', c) :: m' => if str_eqb k' k then Some c else cache_get k m'
  end.

Definition cache_put (k : str) (c : cert) (m : cache) : cache :=
  (k, c) :: filter (fun p => negb (str_eqb (fst p) k)) m.

(* ------------------------------------------------------------------ *)
(* sequential GetCertificate                                           *)
(* ------------------------------------------------------------------ *)

Inductive result :=
| Refused
| Hit (c : cert)        (* the cached object was returned *)
| Issued (c : cert).    (* a new certificate was minted, stored and returned *)

Definition res_cert (r : result) : option cert :=
  match r with Refused => None | Hit c | Issued c => Some c end.

Record state := mkState { st_cache : cache; st_next : nat }.

Definition init_state : state := mkState [] 0.

Definition miss (cfg : config) (st : state) (h : str) (t1 t2 : Z) : result * state :=
  if issuable h then
    let c := issue cfg (st_next st) h t1 t2 in
    (Issued c, mkState (cache_put h c (st_cache st)) (S (st_next st)))
  else (Refused, st).

(* t: time of the re-verification of a hit; t1, t2: the two time.Now() of
   the template (t <= t1 <= t2 in any execution). *)
Definition get_cert (cfg : config) (st : state) (a : api) (sni : str)
           (t t1 t2 : Z) : result * state :=
  match req_name a sni with
  | None => (Refused, st)
  | Some h =>
      match cache_get h (st_cache st) with
      | Some c =>
          if x509_verify cfg c h t then (Hit c, st) else miss cfg st h t1 t2
      | None => miss cfg st h t1 t2
      end
  end.

Record request := mkReq
  { r_api : api; r_sni : str; r_t : Z; r_t1 : Z; r_t2 : Z }.

Fixpoint run (cfg : config) (st : state) (rs : list request) : list result * state :=
  match rs with
  | [] => ([], st)
  | r :: rs' =>
      let '(x, st1) := get_cert cfg st (r_api r) (r_sni r) (r_t r) (r_t1 r) (r_t2 r) in
      let '(xs, st2) := run cfg st1 rs' in
      (x :: xs, st2)
  end.

(* ------------------------------------------------------------------ *)
(* concurrent requesters: labelled transition system                   *)
(* ------------------------------------------------------------------ *)

Inductive pc :=
| Idle
| Started (h : str)                        (* name chosen, port removed *)
| Looked (h : str) (found : option cert)   (* after RLock; map read; RUnlock *)
| Missed (h : str)                         (* not found, or the hit did not verify *)
| Made (h : str) (c : cert) (t : Z)        (* after CreateCertificate/ParseCertificate *)
| Done (r : result) (t : Z).               (* value returned; t = time it was decided *)

Record thread := mkTh { th_api : api; th_sni : str; th_pc : pc }.

Inductive label :=
| LBegin (i : nat) (a : api) (sni : str)
| LLookup (i : nat)
| LVerify (i : nat) (t : Z)
| LIssue (i : nat) (t1 t2 : Z)
| LStore (i : nat)
| LReturn (i : nat).

(* l_issued: ghost history of every certificate minted so far, in order;
   the object identity of a new certificate is its position in it. *)
Record lts := mkLts
  { l_cache : cache; l_issued : list cert; l_now : Z; l_threads : list thread;
    l_returned : list (str * cert) }.   (* ghost: (name, certificate) of every answer handed out so far *)

Definition idle_thread : thread := mkTh ApiTLS [] Idle.

Definition lts_init (k : nat) : lts := mkLts [] [] 0 (repeat idle_thread k) [].

Fixpoint set_nth {A} (l : list A) (i : nat) (x : A) : list A :=
  match l, i with
  | [], _ => []
  | _ :: l', 0 => x :: l'
  | y :: l', S i' => y :: set_nth l' i' x
  end.

Definition upd (s : lts) (i : nat) (th : thread) : lts :=
  mkLts (l_cache s) (l_issued s) (l_now s) (set_nth (l_threads s) i th) (l_returned s).

Definition with_pc (th : thread) (p : pc) : thread := mkTh (th_api th) (th_sni th) p.

(* None = the label is not enabled in this state *)
Definition step (cfg : config) (s : lts) (l : label) : option lts :=
  match l with
  | LBegin i a sni =>
      match nth_error (l_threads s) i with
      | Some th =>
          match th_pc th with
          | Idle =>
              Some (upd s i (mkTh a sni
                      (match req_name a sni with
                       | None => Done Refused (l_now s)
                       | Some h => Started h
                       end)))
          | _ => None
          end
      | None => None
      end
  | LLookup i =>
      match nth_error (l_threads s) i with
      | Some th =>
          match th_pc th with
          | Started h => Some (upd s i (with_pc th (Looked h (cache_get h (l_cache s)))))
          | _ => None
          end
      | None => None
      end
  | LVerify i t =>
      match nth_error (l_threads s) i with
      | Some th =>
          match th_pc th with
          | Looked h found =>
              if Z.leb (l_now s) t then
                let s' := mkLts (l_cache s) (l_issued s) t (l_threads s) (l_returned s) in
                match found with
                | Some c =>
                    if x509_verify cfg c h t
                    then Some (upd s' i (with_pc th (Done (Hit c) t)))
                    else Some (upd s' i (with_pc th (Missed h)))
                | None => Some (upd s' i (with_pc th (Missed h)))
                end
              else None
          | _ => None
          end
      | None => None
      end
  | LIssue i t1 t2 =>
      match nth_error (l_threads s) i with
      | Some th =>
          match th_pc th with
          | Missed h =>
              if (Z.leb (l_now s) t1 && Z.leb t1 t2)%bool then
                if issuable h then
                  let c := issue cfg (length (l_issued s)) h t1 t2 in
                  Some (mkLts (l_cache s) (l_issued s ++ [c]) t2
                              (set_nth (l_threads s) i (with_pc th (Made h c t2))) (l_returned s))
                else
                  Some (mkLts (l_cache s) (l_issued s) t2
                              (set_nth (l_threads s) i (with_pc th (Done Refused t2))) (l_returned s))
              else None
          | _ => None
          end
      | None => None
      end
  | LStore i =>
      match nth_error (l_threads s) i with
      | Some th =>
          match th_pc th with
          | Made h c t =>
              Some (mkLts (cache_put h c (l_cache s)) (l_issued s) (l_now s)
                          (set_nth (l_threads s) i (with_pc th (Done (Issued c) t))) (l_returned s))
          | _ => None
          end
      | None => None
      end
  | LReturn i =>
      match nth_error (l_threads s) i with
      | Some th =>
          match th_pc th with
          | Done r _ =>
              Some (mkLts (l_cache s) (l_issued s) (l_now s)
                          (set_nth (l_threads s) i (with_pc th Idle))
                          (l_returned s ++
                           match req_name (th_api th) (th_sni th), res_cert r with
                           | Some h, Some c => [(h, c)]
                           | _, _ => []
                           end))
          | _ => None
          end
      | None => None
      end
  end.

Fixpoint exec (cfg : config) (s : lts) (ls : list label) : option lts :=
  match ls with
  | [] => Some s
  | l :: ls' => match step cfg s l with
                | Some s' => exec cfg s' ls'
                | None => None
                end
  end.

(* the schedule of one uninterrupted GetCertificate by thread i *)
Definition solo (i : nat) (a : api) (sni : str) (t t1 t2 : Z) : list label :=
  [LBegin i a sni; LLookup i; LVerify i t; LIssue i t1 t2; LStore i].

(* ------------------------------------------------------------------ *)
(* the oracle: evaluated on what the REAL code returned                *)
(* ------------------------------------------------------------------ *)

(* [vname]: the host the client named (what it verifies against);
   [tv]: the handshake time.  The observed certificate's fields come from
   the real leaf: c_signer = cfg_ca iff the real chain verification against
   the CA succeeds, c_key = cfg_key iff the key checks succeed. *)
Definition cert_for_name (c : cert) (h : str) : bool := san_eqb (c_san c) (san_for h).
Definition cert_org_ok (cfg : config) (c : cert) : bool := str_eqb (c_org c) (cfg_org cfg).
Definition cert_key_ok (cfg : config) (c : cert) : bool := N.eqb (c_key c) (cfg_key cfg).

Definition answer_ok (cfg : config) (a : api) (sni vname : str) (r : result) (tv : Z) : bool :=
  match req_name a sni with
  | None => match r with Refused => true | _ => false end
  | Some h =>
      match r with
      | Refused => negb (issuable h)
      | Hit c | Issued c =>
          cert_for_name c h && cert_org_ok cfg c && cert_key_ok cfg c
          && x509_verify cfg c vname tv
      end
  end.

Record observed := mkObs
  { ob_api : api; ob_sni : str; ob_vname : str; ob_res : result; ob_tv : Z }.

Definition c06_ok (cfg : config) (obs : list observed) : bool :=
  forallb (fun o => answer_ok cfg (ob_api o) (ob_sni o) (ob_vname o) (ob_res o) (ob_tv o)) obs.

(* Concurrent batch: the answers of the requesters, then answers to
   sequential requests made after all requesters returned.  Besides every
   answer being good: two answers carrying the same object identity are the
   same certificate, and an answer after the join that is a cache hit is one
   of the certificates handed to a requester of the same name. *)
Definition same_identity_same_cert (rs : list result) : bool :=
  forallb (fun r1 =>
    forallb (fun r2 =>
      match res_cert r1, res_cert r2 with
      | Some c1, Some c2 =>
          if Nat.eqb (c_serial c1) (c_serial c2) then cert_eqb c1 c2 else true
      | _, _ => true
      end) rs) rs.

Definition final_hit_known (ths : list observed) (f : observed) : bool :=
  match ob_res f with
  | Hit c =>
      existsb (fun o =>
        match res_cert (ob_res o), req_name (ob_api o) (ob_sni o), req_name (ob_api f) (ob_sni f) with
        | Some c', Some h', Some h => str_eqb h' h && cert_eqb c' c
        | _, _, _ => false
        end) ths
  | _ => true
  end.

Definition c06_conc_ok (cfg : config) (ths fin : list observed) : bool :=
  c06_ok cfg ths && c06_ok cfg fin
  && same_identity_same_cert (map ob_res (ths ++ fin))
  && forallb (final_hit_known ths) fin.

End WithParseIP.
