(* C06 — proofs about certificates, the sequential GetCertificate and the
   labelled transition system of concurrent requesters. *)
From Coq Require Import List ZArith NArith Bool Ascii Arith Lia.
From Martian.C06 Require Import Model Proofs_Strings.
Import ListNotations.

(* ---------------- second granularity ---------------- *)

Lemma trunc_s_le : forall x, (trunc_s x <= x)%Z.
Proof.
  intro x. unfold trunc_s, second.
  pose proof (Z.div_mod x 1000 ltac:(lia)). pose proof (Z.mod_pos_bound x 1000 ltac:(lia)). lia.
Qed.

Lemma trunc_s_gt : forall x, (x - second < trunc_s x)%Z.
Proof.
  intro x. unfold trunc_s, second.
  pose proof (Z.div_mod x 1000 ltac:(lia)). pose proof (Z.mod_pos_bound x 1000 ltac:(lia)). lia.
Qed.

(* ---------------- cache ---------------- *)

Lemma cache_get_filter_other : forall k k' m,
  str_eqb k' k = false ->
  cache_get k (filter (fun p => negb (str_eqb (fst p) k')) m) = cache_get k m.
Proof.
  intros k k' m Hne. induction m as [|[k0 c0] m IH]; [reflexivity|].
  cbn [filter fst]. destruct (str_eqb k0 k') eqn:E0; cbn [negb].
  - cbn [cache_get]. apply str_eqb_eq in E0. subst k0. rewrite Hne. exact IH.
  - cbn [cache_get]. rewrite IH. reflexivity.
Qed.

Lemma cache_get_put_same : forall k c m, cache_get k (cache_put k c m) = Some c.
Proof. intros. unfold cache_put. cbn. rewrite str_eqb_refl. reflexivity. Qed.

Lemma cache_get_put_other : forall k k' c m,
  str_eqb k' k = false -> cache_get k (cache_put k' c m) = cache_get k m.
Proof.
  intros k k' c m Hne. unfold cache_put. cbn [cache_get]. rewrite Hne.
  apply cache_get_filter_other. exact Hne.
Qed.

Lemma set_nth_length : forall {A} (l : list A) i x, length (set_nth l i x) = length l.
Proof. induction l as [|y l IH]; intros [|i] x; cbn; auto. Qed.

Lemma nth_error_set_nth_same : forall {A} (l : list A) i x y,
  nth_error l i = Some y -> nth_error (set_nth l i x) i = Some x.
Proof.
  induction l as [|z l IH]; intros [|i] x y H; cbn in *; try discriminate; auto.
  eapply IH; eauto.
Qed.

Lemma nth_error_set_nth_other : forall {A} (l : list A) i j x,
  i <> j -> nth_error (set_nth l i x) j = nth_error l j.
Proof.
  induction l as [|z l IH]; intros [|i] [|j] x H; cbn; auto; try congruence.
Qed.

Lemma Forall_set_nth : forall {A} (P : A -> Prop) (l : list A) i x,
  Forall P l -> P x -> Forall P (set_nth l i x).
Proof.
  induction l as [|z l IH]; intros [|i] x Hl Hx; cbn; auto;
    inversion Hl; subst; constructor; auto.
Qed.

Lemma Forall_nth_error : forall {A} (P : A -> Prop) (l : list A) i x,
  Forall P l -> nth_error l i = Some x -> P x.
Proof.
  intros A P l i x Hl Hn. rewrite Forall_forall in Hl. apply Hl. eapply nth_error_In; eauto.
Qed.

Section WithParseIP.

Variable parse_ip : str -> option str.

(* The only law of net.ParseIP that is used: text that parses as an address
   is not enclosed in brackets.  The driver checks it on every table entry. *)
Hypothesis parse_ip_unbracketed :
  forall h c, parse_ip h = Some c -> strip_brackets h = h.

(* "[v6]" without a port is kept WITH its brackets by net.SplitHostPort's
   error path; it then fails net.ParseIP and gets a DNS SAN "[v6]" that
   x509 (which strips brackets) can never match. *)
Definition bracketed_ip (h : str) : bool :=
  is_ip parse_ip (strip_brackets h) && negb (is_ip parse_ip h).

Definition verifiable_name (h : str) : bool :=
  negb (empty_or_dot h) && negb (bracketed_ip h).

Lemma host_matches_self : forall h,
  verifiable_name h = true -> host_matches parse_ip (san_for parse_ip h) h = true.
Proof.
  intros h Hv. unfold verifiable_name in Hv. apply andb_true_iff in Hv as [Hne Hnb].
  apply negb_true_iff in Hne. apply negb_true_iff in Hnb.
  unfold host_matches, san_for. destruct (parse_ip h) as [c|] eqn:E.
  - rewrite (parse_ip_unbracketed h c E), E. apply str_eqb_refl.
  - unfold bracketed_ip, is_ip in Hnb. rewrite E in Hnb. cbn in Hnb.
    rewrite andb_true_r in Hnb.
    destruct (parse_ip (strip_brackets h)); [discriminate|].
    rewrite Hne, dns_eq_refl. reflexivity.
Qed.

(* "valid for exactly that host": what else a certificate minted for h matches *)
Lemma host_matches_only_same_name : forall h h',
  host_matches parse_ip (san_for parse_ip h) h' = true ->
  (exists c, parse_ip h = Some c /\ parse_ip (strip_brackets h') = Some c)
  \/ (parse_ip h = None /\ parse_ip (strip_brackets h') = None /\ dns_eq h h' = true).
Proof.
  intros h h' H. unfold host_matches, san_for in H.
  destruct (parse_ip (strip_brackets h')) as [c'|] eqn:E'; destruct (parse_ip h) as [c|] eqn:E;
    try discriminate.
  - left. exists c. apply str_eqb_eq in H. subst. auto.
  - right. apply andb_true_iff in H as [_ H]. auto.
Qed.

Lemma issue_window : forall cfg n h t1 t2 t',
  (second <= cfg_validity cfg)%Z -> (t1 <= t')%Z -> (t' <= t2 + cfg_validity cfg - second)%Z ->
  in_window (issue parse_ip cfg n h t1 t2) t' = true.
Proof.
  intros cfg n h t1 t2 t' Hv H1 H2. unfold in_window, issue. cbn [c_nb c_na].
  pose proof (trunc_s_le (t1 - cfg_validity cfg)).
  pose proof (trunc_s_gt (t2 + cfg_validity cfg)).
  unfold second in *.
  apply andb_true_iff. split; apply Z.leb_le; lia.
Qed.

Lemma issue_verifies : forall cfg n h t1 t2 t',
  verifiable_name h = true ->
  (second <= cfg_validity cfg)%Z -> (t1 <= t')%Z -> (t' <= t2 + cfg_validity cfg - second)%Z ->
  x509_verify parse_ip cfg (issue parse_ip cfg n h t1 t2) h t' = true.
Proof.
  intros cfg n h t1 t2 t' Hn Hv H1 H2. unfold x509_verify.
  rewrite (issue_window cfg n h t1 t2 t' Hv H1 H2).
  unfold chains, issue. cbn [c_signer c_san]. rewrite N.eqb_refl. cbn [andb].
  destruct (is_empty h); [reflexivity|]. apply host_matches_self. exact Hn.
Qed.

(* ---------------- host selection ---------------- *)

Lemma req_name_nonempty : forall a sni h, req_name a sni = Some h -> h <> [].
Proof.
  intros a sni h H. unfold req_name in H. destruct (choose_host a sni) as [hn|]; [|discriminate].
  unfold cert_key in H. destruct (normalize hn) eqn:E; cbn in H; [discriminate|].
  inversion H; subst. discriminate.
Qed.

Lemma req_name_none_iff : forall a sni,
  req_name a sni = None <->
  (a = ApiTLS /\ sni = [])
  \/ (exists hn, choose_host a sni = Some hn /\ normalize hn = []).
Proof.
  intros a sni. unfold req_name. split.
  - destruct (choose_host a sni) as [hn|] eqn:E.
    + unfold cert_key. destruct (normalize hn) eqn:En; cbn; [|discriminate].
      intros _. right. exists hn. auto.
    + intros _. left. destruct a; cbn in E; [|discriminate].
      destruct sni; cbn in E; [auto|discriminate].
  - intros [[-> ->]|[hn [E En]]]; [reflexivity|].
    rewrite E. unfold cert_key. rewrite En. reflexivity.
Qed.

(* neither SNI nor a fallback host *)
Lemma no_name_no_request : forall a,
  (a = ApiTLS \/ a = ApiForHost []) -> req_name a [] = None.
Proof. intros a [->| ->]; reflexivity. Qed.

(* SNI wins over the fallback; without SNI the fallback decides *)
Lemma req_name_sni : forall a sni,
  sni <> [] -> contains ch_colon sni = false -> req_name a sni = Some sni.
Proof.
  intros a sni Hne Hc. unfold req_name.
  assert (choose_host a sni = Some sni) as ->.
  { destruct a; destruct sni as [|x r]; try (exfalso; apply Hne; reflexivity); reflexivity. }
  unfold cert_key. rewrite (normalize_no_colon sni Hc). destruct sni; [congruence|reflexivity].
Qed.

Lemma req_name_fallback : forall fb, req_name (ApiForHost fb) [] = cert_key fb.
Proof. reflexivity. Qed.

(* ---------------- sequential GetCertificate ---------------- *)

Definition sgood (cfg : config) (n : nat) (h : str) (c : cert) : Prop :=
  c_san c = san_for parse_ip h /\ c_org c = cfg_org cfg /\ c_signer c = cfg_ca cfg
  /\ c_key c = cfg_key cfg /\ c_serial c < n /\ h <> [].

Definition st_inv (cfg : config) (st : state) : Prop :=
  forall k c, cache_get k (st_cache st) = Some c -> sgood cfg (st_next st) k c.

Lemma st_inv_init : forall cfg, st_inv cfg init_state.
Proof. intros cfg k c H. discriminate. Qed.

Lemma sgood_mono : forall cfg n m h c, sgood cfg n h c -> n <= m -> sgood cfg m h c.
Proof. unfold sgood. intros. intuition lia. Qed.

Lemma issue_sgood : forall cfg n h t1 t2,
  h <> [] -> sgood cfg (S n) h (issue parse_ip cfg n h t1 t2).
Proof. intros. unfold sgood, issue. cbn. intuition lia. Qed.

(* what one answer guarantees, given a good cache *)
Definition answer_spec (cfg : config) (st : state) (a : api) (sni : str)
           (t t1 t2 : Z) (r : result) (st' : state) : Prop :=
  match r with
  | Refused =>
      st' = st /\
      (req_name a sni = None \/ exists h, req_name a sni = Some h /\ issuable parse_ip h = false)
  | Hit c =>
      st' = st /\ exists h, req_name a sni = Some h /\ cache_get h (st_cache st) = Some c
      /\ sgood cfg (st_next st) h c /\ x509_verify parse_ip cfg c h t = true
  | Issued c =>
      exists h, req_name a sni = Some h /\ c = issue parse_ip cfg (st_next st) h t1 t2
      /\ st' = mkState (cache_put h c (st_cache st)) (S (st_next st))
      /\ (forall c0, cache_get h (st_cache st) = Some c0 -> x509_verify parse_ip cfg c0 h t = false)
  end.

Lemma get_cert_spec : forall cfg st a sni t t1 t2 r st',
  st_inv cfg st ->
  get_cert parse_ip cfg st a sni t t1 t2 = (r, st') ->
  answer_spec cfg st a sni t t1 t2 r st' /\ st_inv cfg st'.
Proof.
  intros cfg st a sni t t1 t2 r st' Hinv H. unfold get_cert in H.
  destruct (req_name a sni) as [h|] eqn:En.
  2:{ inversion H; subst. split; [|exact Hinv]. cbn. auto. }
  pose proof (req_name_nonempty _ _ _ En) as Hne.
  assert (Hmiss : forall r st', miss parse_ip cfg st h t1 t2 = (r, st') ->
            (forall c0, cache_get h (st_cache st) = Some c0 -> x509_verify parse_ip cfg c0 h t = false) ->
            answer_spec cfg st a sni t t1 t2 r st' /\ st_inv cfg st').
  { clear H r st'. intros r st' H Hold. unfold miss in H.
    destruct (issuable parse_ip h) eqn:Ei; inversion H; subst; clear H.
    - split.
      + cbn. exists h. repeat split; auto.
      + intros k c Hk. cbn [st_cache st_next] in *.
        destruct (str_eqb h k) eqn:Ek.
        * apply str_eqb_eq in Ek. subst k. rewrite cache_get_put_same in Hk.
          inversion Hk; subst. apply issue_sgood. exact Hne.
        * rewrite (cache_get_put_other k h _ _ Ek) in Hk.
          eapply sgood_mono; [apply Hinv; exact Hk|lia].
    - split; [|exact Hinv]. cbn. split; [reflexivity|]. right. exists h. auto. }
  destruct (cache_get h (st_cache st)) as [c|] eqn:Ec.
  - destruct (x509_verify parse_ip cfg c h t) eqn:Ev.
    + inversion H; subst. split; [|exact Hinv]. cbn. split; [reflexivity|].
      exists h. split; [exact En|]. split; [exact Ec|]. split; [apply Hinv; exact Ec|exact Ev].
    + apply Hmiss; [exact H|]. intros c0 E0. inversion E0; subst. exact Ev.
  - apply Hmiss; [exact H|]. intros c0 E0. discriminate.
Qed.

(* every history: all answers obey answer_spec w.r.t. the state they saw *)
Lemma run_inv : forall cfg rs st xs st',
  st_inv cfg st -> run parse_ip cfg st rs = (xs, st') -> st_inv cfg st'.
Proof.
  intros cfg rs. induction rs as [|q rs IH]; intros st xs st' Hinv H; cbn in H.
  - inversion H; subst. exact Hinv.
  - destruct (get_cert parse_ip cfg st (r_api q) (r_sni q) (r_t q) (r_t1 q) (r_t2 q)) as [x st1] eqn:E1.
    destruct (run parse_ip cfg st1 rs) as [xs' st2] eqn:E2. inversion H; subst.
    destruct (get_cert_spec _ _ _ _ _ _ _ _ _ Hinv E1) as [_ Hinv1].
    eapply IH; eauto.
Qed.

(* the k-th answer of a history, with the state it was computed in *)
Inductive answered (cfg : config) : state -> list request -> request -> state -> result -> state -> Prop :=
| ans_here : forall st q rs x st1,
    get_cert parse_ip cfg st (r_api q) (r_sni q) (r_t q) (r_t1 q) (r_t2 q) = (x, st1) ->
    answered cfg st (q :: rs) q st x st1
| ans_later : forall st q rs x st1 q' sta x' stb,
    get_cert parse_ip cfg st (r_api q) (r_sni q) (r_t q) (r_t1 q) (r_t2 q) = (x, st1) ->
    answered cfg st1 rs q' sta x' stb ->
    answered cfg st (q :: rs) q' sta x' stb.

Lemma answered_inv : forall cfg st rs q sta x stb,
  st_inv cfg st -> answered cfg st rs q sta x stb ->
  st_inv cfg sta /\ get_cert parse_ip cfg sta (r_api q) (r_sni q) (r_t q) (r_t1 q) (r_t2 q) = (x, stb).
Proof.
  intros cfg st rs q sta x stb Hinv H. induction H.
  - auto.
  - apply IHanswered. eapply get_cert_spec; eauto.
Qed.

(* --- the property clauses, sequential form --- *)

Definition well_timed (q : request) : Prop := (r_t q <= r_t1 q)%Z /\ (r_t1 q <= r_t2 q)%Z.

Lemma seq_returned_cert_verifies : forall cfg rs q sta x stb c h,
  answered cfg init_state rs q sta x stb ->
  (x = Hit c \/ x = Issued c) ->
  req_name (r_api q) (r_sni q) = Some h ->
  verifiable_name h = true -> (second <= cfg_validity cfg)%Z -> well_timed q ->
  c_san c = san_for parse_ip h /\ c_org c = cfg_org cfg /\ c_key c = cfg_key cfg
  /\ c_signer c = cfg_ca cfg
  /\ x509_verify parse_ip cfg c h (match x with Issued _ => r_t2 q | _ => r_t q end) = true.
Proof.
  intros cfg rs q sta x stb c h Hans Hx Hn Hv Hval [Ht1 Ht2].
  destruct (answered_inv _ _ _ _ _ _ _ (st_inv_init cfg) Hans) as [Hinv Hg].
  destruct (get_cert_spec _ _ _ _ _ _ _ _ _ Hinv Hg) as [Hs _].
  destruct Hx as [-> | ->]; cbn in Hs.
  - destruct Hs as [_ [h' [Hn' [_ [Hgood Hver]]]]]. rewrite Hn in Hn'. inversion Hn'; subst h'.
    destruct Hgood as [? [? [? [? _]]]]. auto.
  - destruct Hs as [h' [Hn' [Hc _]]]. rewrite Hn in Hn'. inversion Hn'; subst h'.
    subst c. repeat split; try reflexivity.
    apply issue_verifies; auto; lia.
Qed.

Lemma seq_never_other_name : forall cfg rs q sta x stb c,
  answered cfg init_state rs q sta x stb ->
  (x = Hit c \/ x = Issued c) ->
  exists h, req_name (r_api q) (r_sni q) = Some h /\ c_san c = san_for parse_ip h.
Proof.
  intros cfg rs q sta x stb c Hans Hx.
  destruct (answered_inv _ _ _ _ _ _ _ (st_inv_init cfg) Hans) as [Hinv Hg].
  destruct (get_cert_spec _ _ _ _ _ _ _ _ _ Hinv Hg) as [Hs _].
  destruct Hx as [-> | ->]; cbn in Hs.
  - destruct Hs as [_ [h [Hn [_ [[Hsan _] _]]]]]. eauto.
  - destruct Hs as [h [Hn [Hc _]]]. exists h. subst c. auto.
Qed.

Lemma seq_hit_only_if_still_valid : forall cfg rs q sta x stb c,
  answered cfg init_state rs q sta x stb -> x = Hit c ->
  exists h, req_name (r_api q) (r_sni q) = Some h
    /\ cache_get h (st_cache sta) = Some c
    /\ x509_verify parse_ip cfg c h (r_t q) = true /\ stb = sta.
Proof.
  intros cfg rs q sta x stb c Hans ->.
  destruct (answered_inv _ _ _ _ _ _ _ (st_inv_init cfg) Hans) as [Hinv Hg].
  destruct (get_cert_spec _ _ _ _ _ _ _ _ _ Hinv Hg) as [Hs _]. cbn in Hs.
  destruct Hs as [-> [h [Hn [Hc [_ Hv]]]]]. exists h. auto.
Qed.

(* a cached certificate whose window has passed is not handed out again: a
   fresh object, valid now, replaces it in the cache *)
Lemma seq_expired_reissued : forall cfg rs q sta x stb h c0,
  answered cfg init_state rs q sta x stb ->
  req_name (r_api q) (r_sni q) = Some h ->
  cache_get h (st_cache sta) = Some c0 ->
  (c_na c0 < r_t q)%Z ->
  issuable parse_ip h = true -> (second <= cfg_validity cfg)%Z -> well_timed q ->
  exists c, x = Issued c /\ c_serial c <> c_serial c0
    /\ c_san c = san_for parse_ip h
    /\ in_window c (r_t2 q) = true
    /\ cache_get h (st_cache stb) = Some c.
Proof.
  intros cfg rs q sta x stb h c0 Hans Hn Hc Hexp Hiss Hval [Ht1 Ht2].
  destruct (answered_inv _ _ _ _ _ _ _ (st_inv_init cfg) Hans) as [Hinv Hg].
  assert (Hbad : x509_verify parse_ip cfg c0 h (r_t q) = false).
  { unfold x509_verify, in_window.
    replace (Z.leb (r_t q) (c_na c0)) with false by (symmetry; apply Z.leb_gt; lia).
    rewrite !andb_false_r. reflexivity. }
  unfold get_cert in Hg. rewrite Hn, Hc, Hbad in Hg. unfold miss in Hg. rewrite Hiss in Hg.
  inversion Hg; subst. eexists. split; [reflexivity|].
  destruct (Hinv _ _ Hc) as [_ [_ [_ [_ [Hlt _]]]]].
  repeat split.
  - cbn. lia.
  - apply issue_window; auto; lia.
  - cbn. apply cache_get_put_same.
Qed.

Lemma seq_refuse_when_no_name : forall cfg st a sni t t1 t2,
  req_name a sni = None -> get_cert parse_ip cfg st a sni t t1 t2 = (Refused, st).
Proof. intros. unfold get_cert. rewrite H. reflexivity. Qed.

Lemma seq_refused_only_without_name : forall cfg rs q sta x stb,
  answered cfg init_state rs q sta x stb -> x = Refused ->
  req_name (r_api q) (r_sni q) = None
  \/ exists h, req_name (r_api q) (r_sni q) = Some h /\ issuable parse_ip h = false.
Proof.
  intros cfg rs q sta x stb Hans ->.
  destruct (answered_inv _ _ _ _ _ _ _ (st_inv_init cfg) Hans) as [Hinv Hg].
  destruct (get_cert_spec _ _ _ _ _ _ _ _ _ Hinv Hg) as [Hs _]. cbn in Hs. tauto.
Qed.

(* ---------------- concurrent requesters ---------------- *)

Definition good (cfg : config) (iss : list cert) (h : str) (c : cert) : Prop :=
  c_san c = san_for parse_ip h /\ c_org c = cfg_org cfg /\ c_signer c = cfg_ca cfg
  /\ c_key c = cfg_key cfg /\ nth_error iss (c_serial c) = Some c /\ h <> [].

Definition thread_ok (cfg : config) (iss : list cert) (th : thread) : Prop :=
  match th_pc th with
  | Idle => True
  | Started h => req_name (th_api th) (th_sni th) = Some h
  | Looked h f => req_name (th_api th) (th_sni th) = Some h
                  /\ forall c, f = Some c -> good cfg iss h c
  | Missed h => req_name (th_api th) (th_sni th) = Some h
  | Made h c t => req_name (th_api th) (th_sni th) = Some h /\ good cfg iss h c
                  /\ exists t1, (t1 <= t)%Z /\ c = issue parse_ip cfg (c_serial c) h t1 t
  | Done Refused _ =>
      req_name (th_api th) (th_sni th) = None
      \/ exists h, req_name (th_api th) (th_sni th) = Some h /\ issuable parse_ip h = false
  | Done (Hit c) t => exists h, req_name (th_api th) (th_sni th) = Some h /\ good cfg iss h c
                      /\ x509_verify parse_ip cfg c h t = true
  | Done (Issued c) t => exists h, req_name (th_api th) (th_sni th) = Some h /\ good cfg iss h c
                      /\ exists t1, (t1 <= t)%Z /\ c = issue parse_ip cfg (c_serial c) h t1 t
  end.

Definition Inv (cfg : config) (s : lts) : Prop :=
  (forall k c, cache_get k (l_cache s) = Some c -> good cfg (l_issued s) k c)
  /\ Forall (thread_ok cfg (l_issued s)) (l_threads s).

Definition reachable (cfg : config) (k : nat) (s : lts) : Prop :=
  exists ls, exec parse_ip cfg (lts_init k) ls = Some s.

Lemma good_mono : forall cfg iss c' h c, good cfg iss h c -> good cfg (iss ++ [c']) h c.
Proof.
  unfold good. intros cfg iss c' h c [? [? [? [? [Hn ?]]]]]. repeat split; auto.
  rewrite nth_error_app1; [exact Hn|]. apply nth_error_Some. congruence.
Qed.

Lemma thread_ok_mono : forall cfg iss c' th,
  thread_ok cfg iss th -> thread_ok cfg (iss ++ [c']) th.
Proof.
  intros cfg iss c' th H. unfold thread_ok in *. destruct (th_pc th) as [|h|h f|h|h c t|r t]; auto.
  - destruct H as [H1 H2]. split; [exact H1|]. intros c Hc. apply good_mono. auto.
  - destruct H as [H1 [H2 H3]]. split; [exact H1|]. split; [apply good_mono; exact H2|exact H3].
  - destruct r as [|c|c]; auto.
    + destruct H as [h [H1 [H2 H3]]]. exists h. split; [exact H1|]. split; [apply good_mono; exact H2|exact H3].
    + destruct H as [h [H1 [H2 H3]]]. exists h. split; [exact H1|]. split; [apply good_mono; exact H2|exact H3].
Qed.

Lemma inv_init : forall cfg k, Inv cfg (lts_init k).
Proof.
  intros cfg k. split.
  - intros k0 c H. discriminate.
  - cbn. induction k; cbn; constructor; auto. exact I.
Qed.

Lemma step_inv : forall cfg s l s', Inv cfg s -> step parse_ip cfg s l = Some s' -> Inv cfg s'.
Proof.
  intros cfg s l s' [Hc Ht] H.
  destruct l as [i a sni|i|i t|i t1 t2|i|i]; cbn in H;
    destruct (nth_error (l_threads s) i) as [th|] eqn:Eth; try discriminate;
    pose proof (Forall_nth_error _ _ _ _ Ht Eth) as Hth; unfold thread_ok in Hth;
    destruct (th_pc th) as [|h|h f|h|h c t'|r t'] eqn:Epc; try discriminate.
  - (* Begin *)
    inversion H; subst; clear H. split; [exact Hc|]. cbn.
    apply Forall_set_nth; [exact Ht|]. unfold thread_ok. cbn.
    destruct (req_name a sni) eqn:En; cbn; auto.
  - (* Lookup *)
    inversion H; subst; clear H. split; [exact Hc|]. cbn.
    apply Forall_set_nth; [exact Ht|]. unfold thread_ok. cbn. split; [exact Hth|].
    intros c Hg. apply Hc. exact Hg.
  - (* Verify *)
    destruct (Z.leb (l_now s) t); [|discriminate]. destruct Hth as [Hn Hf].
    destruct f as [c|].
    + destruct (x509_verify parse_ip cfg c h t) eqn:Ev; inversion H; subst; clear H;
        (split; [exact Hc|]); cbn; (apply Forall_set_nth; [exact Ht|]); unfold thread_ok; cbn.
      * exists h. auto.
      * exact Hn.
    + inversion H; subst; clear H. split; [exact Hc|]. cbn.
      apply Forall_set_nth; [exact Ht|]. unfold thread_ok. cbn. exact Hn.
  - (* Issue *)
    destruct (Z.leb (l_now s) t1 && Z.leb t1 t2)%bool eqn:Et; [|discriminate].
    apply andb_true_iff in Et as [_ Et]. apply Z.leb_le in Et.
    destruct (issuable parse_ip h) eqn:Ei; inversion H; subst; clear H.
    + split; cbn.
      * intros k c Hk. apply good_mono. apply Hc. exact Hk.
      * apply Forall_set_nth.
        -- eapply Forall_impl; [|exact Ht]. intros th0. apply thread_ok_mono.
        -- unfold thread_ok. cbn. split; [exact Hth|]. split.
           ++ unfold good, issue. cbn. repeat split; auto.
              ** rewrite nth_error_app2 by lia. rewrite Nat.sub_diag. reflexivity.
              ** eapply req_name_nonempty; eauto.
           ++ exists t1. split; [exact Et|]. reflexivity.
    + split; [exact Hc|]. cbn. apply Forall_set_nth; [exact Ht|].
      unfold thread_ok. cbn. right. exists h. auto.
  - (* Store *)
    inversion H; subst; clear H. destruct Hth as [Hn [Hg Hw]]. split; cbn [l_cache l_issued l_threads].
    + intros k c0 Hk. destruct (str_eqb h k) eqn:Ek.
      * apply str_eqb_eq in Ek. subst k. rewrite cache_get_put_same in Hk. inversion Hk; subst. exact Hg.
      * rewrite (cache_get_put_other k h _ _ Ek) in Hk. apply Hc. exact Hk.
    + apply Forall_set_nth; [exact Ht|]. unfold thread_ok. cbn. exists h. auto.
  - (* Return *)
    inversion H; subst; clear H. split; [exact Hc|]. cbn.
    apply Forall_set_nth; [exact Ht|]. unfold thread_ok. cbn. exact I.
Qed.

Lemma exec_inv : forall cfg ls s s', Inv cfg s -> exec parse_ip cfg s ls = Some s' -> Inv cfg s'.
Proof.
  intros cfg ls. induction ls as [|l ls IH]; intros s s' Hi H; cbn in H.
  - inversion H; subst. exact Hi.
  - destruct (step parse_ip cfg s l) as [s1|] eqn:E; [|discriminate].
    eapply IH; [eapply step_inv; eauto|exact H].
Qed.

Lemma reachable_inv : forall cfg k s, reachable cfg k s -> Inv cfg s.
Proof. intros cfg k s [ls H]. eapply exec_inv; [apply inv_init|exact H]. Qed.

(* --- the property clauses, for every interleaving --- *)

Definition returned (s : lts) (i : nat) (a : api) (sni : str) (r : result) (t : Z) : Prop :=
  exists th, nth_error (l_threads s) i = Some th
             /\ th_api th = a /\ th_sni th = sni /\ th_pc th = Done r t.

Lemma lts_never_other_name : forall cfg k s i a sni r t c,
  reachable cfg k s -> returned s i a sni r t -> (r = Hit c \/ r = Issued c) ->
  exists h, req_name a sni = Some h /\ c_san c = san_for parse_ip h.
Proof.
  intros cfg k s i a sni r t c Hr [th [Hn [Ha [Hs Hp]]]] Hx.
  destruct (reachable_inv _ _ _ Hr) as [_ Ht].
  pose proof (Forall_nth_error _ _ _ _ Ht Hn) as Hth. unfold thread_ok in Hth.
  rewrite Hp, Ha, Hs in Hth.
  destruct Hx as [-> | ->]; destruct Hth as [h [H1 [[H2 _] _]]]; eauto.
Qed.

Lemma lts_returned_cert_verifies : forall cfg k s i a sni r t c h,
  reachable cfg k s -> returned s i a sni r t -> (r = Hit c \/ r = Issued c) ->
  req_name a sni = Some h -> verifiable_name h = true -> (second <= cfg_validity cfg)%Z ->
  c_san c = san_for parse_ip h /\ c_org c = cfg_org cfg /\ c_key c = cfg_key cfg
  /\ c_signer c = cfg_ca cfg /\ x509_verify parse_ip cfg c h t = true
  /\ (r = Issued c -> forall t', (t <= t')%Z -> (t' <= t + cfg_validity cfg - second)%Z ->
        x509_verify parse_ip cfg c h t' = true).
Proof.
  intros cfg k s i a sni r t c h Hr [th [Hn [Ha [Hs Hp]]]] Hx Hname Hv Hval.
  destruct (reachable_inv _ _ _ Hr) as [_ Ht].
  pose proof (Forall_nth_error _ _ _ _ Ht Hn) as Hth. unfold thread_ok in Hth.
  rewrite Hp, Ha, Hs in Hth.
  destruct Hx as [-> | ->].
  - destruct Hth as [h' [H1 [[G1 [G2 [G3 [G4 _]]]] H3]]]. rewrite Hname in H1. inversion H1; subst h'.
    repeat split; auto. intro E; discriminate.
  - destruct Hth as [h' [H1 [[G1 [G2 [G3 [G4 _]]]] [t1 [Hle Hc]]]]].
    rewrite Hname in H1. inversion H1; subst h'.
    repeat split; auto.
    + rewrite Hc. apply issue_verifies; auto; lia.
    + intros _ t' Ht1 Ht2. rewrite Hc. apply issue_verifies; auto; lia.
Qed.

Lemma lts_hit_only_if_still_valid : forall cfg k s i a sni t c,
  reachable cfg k s -> returned s i a sni (Hit c) t ->
  exists h, req_name a sni = Some h /\ x509_verify parse_ip cfg c h t = true.
Proof.
  intros cfg k s i a sni t c Hr [th [Hn [Ha [Hs Hp]]]].
  destruct (reachable_inv _ _ _ Hr) as [_ Ht].
  pose proof (Forall_nth_error _ _ _ _ Ht Hn) as Hth. unfold thread_ok in Hth.
  rewrite Hp, Ha, Hs in Hth. destruct Hth as [h [H1 [_ H3]]]. eauto.
Qed.

(* a requester that found an entry which no longer verifies (in particular an
   expired one) never returns it: its only enabled continuation mints a
   certificate with a fresh identity whose window contains the minting time *)
Lemma lts_expired_reissued : forall cfg k s i th h c0 t,
  reachable cfg k s ->
  nth_error (l_threads s) i = Some th -> th_pc th = Looked h (Some c0) ->
  (l_now s <= t)%Z -> (c_na c0 < t)%Z ->
  exists s1, step parse_ip cfg s (LVerify i t) = Some s1
    /\ (exists th1, nth_error (l_threads s1) i = Some th1 /\ th_pc th1 = Missed h)
    /\ forall t1 t2, (t <= t1)%Z -> (t1 <= t2)%Z -> issuable parse_ip h = true ->
         (second <= cfg_validity cfg)%Z ->
         exists s2 c, step parse_ip cfg s1 (LIssue i t1 t2) = Some s2
           /\ (exists th2, nth_error (l_threads s2) i = Some th2 /\ th_pc th2 = Made h c t2)
           /\ c_serial c <> c_serial c0 /\ in_window c t2 = true
           /\ c_san c = san_for parse_ip h.
Proof.
  intros cfg k s i th h c0 t Hr Hn Hp Hnow Hexp.
  destruct (reachable_inv _ _ _ Hr) as [_ Ht].
  pose proof (Forall_nth_error _ _ _ _ Ht Hn) as Hth. unfold thread_ok in Hth. rewrite Hp in Hth.
  destruct Hth as [_ Hg]. specialize (Hg c0 eq_refl). destruct Hg as [_ [_ [_ [_ [Hser _]]]]].
  assert (Hbad : x509_verify parse_ip cfg c0 h t = false).
  { unfold x509_verify, in_window.
    replace (Z.leb t (c_na c0)) with false by (symmetry; apply Z.leb_gt; lia).
    rewrite !andb_false_r. reflexivity. }
  cbn. rewrite Hn, Hp. replace (Z.leb (l_now s) t) with true by (symmetry; apply Z.leb_le; lia).
  rewrite Hbad. eexists. split; [reflexivity|]. split.
  - eexists. split; [cbn; eapply nth_error_set_nth_same; eauto|reflexivity].
  - intros t1 t2 H1 H2 Hi Hval. cbn.
    rewrite (nth_error_set_nth_same _ _ _ _ Hn). cbn.
    replace (Z.leb t t1 && Z.leb t1 t2)%bool with true
      by (symmetry; apply andb_true_iff; split; apply Z.leb_le; lia).
    rewrite Hi. eexists. eexists. split; [reflexivity|]. split.
    + eexists. split; [cbn; eapply nth_error_set_nth_same; cbn; eapply nth_error_set_nth_same; eauto|reflexivity].
    + repeat split.
      * cbn. assert (c_serial c0 < length (l_issued s)) by (apply nth_error_Some; congruence). lia.
      * apply issue_window; auto; lia.
Qed.

Lemma lts_refuse_when_no_name : forall cfg s i th a sni,
  nth_error (l_threads s) i = Some th -> th_pc th = Idle ->
  req_name a sni = None ->
  exists s1 th1, step parse_ip cfg s (LBegin i a sni) = Some s1
    /\ nth_error (l_threads s1) i = Some th1 /\ th_pc th1 = Done Refused (l_now s)
    /\ l_cache s1 = l_cache s /\ l_issued s1 = l_issued s.
Proof.
  intros cfg s i th a sni Hn Hp Hnone. cbn [step]. rewrite Hn, Hp, Hnone.
  exists (upd s i (mkTh a sni (Done Refused (l_now s)))), (mkTh a sni (Done Refused (l_now s))).
  split; [reflexivity|]. split; [cbn; eapply nth_error_set_nth_same; eauto|]. cbn. auto.
Qed.

Lemma lts_refused_only_without_name : forall cfg k s i a sni t,
  reachable cfg k s -> returned s i a sni Refused t ->
  req_name a sni = None \/ exists h, req_name a sni = Some h /\ issuable parse_ip h = false.
Proof.
  intros cfg k s i a sni t Hr [th [Hn [Ha [Hs Hp]]]].
  destruct (reachable_inv _ _ _ Hr) as [_ Ht].
  pose proof (Forall_nth_error _ _ _ _ Ht Hn) as Hth. unfold thread_ok in Hth.
  rewrite Hp, Ha, Hs in Hth. exact Hth.
Qed.

(* one object identity = one certificate, across all requesters and the cache *)
Lemma lts_same_identity_same_cert : forall cfg k s i j a1 s1 r1 t1 a2 s2 r2 t2 c1 c2,
  reachable cfg k s -> returned s i a1 s1 r1 t1 -> returned s j a2 s2 r2 t2 ->
  res_cert r1 = Some c1 -> res_cert r2 = Some c2 -> c_serial c1 = c_serial c2 -> c1 = c2.
Proof.
  intros cfg k s i j a1 s1 r1 t1 a2 s2 r2 t2 c1 c2 Hr
         [th1 [Hn1 [_ [_ Hp1]]]] [th2 [Hn2 [_ [_ Hp2]]]] E1 E2 Es.
  destruct (reachable_inv _ _ _ Hr) as [_ Ht].
  pose proof (Forall_nth_error _ _ _ _ Ht Hn1) as H1. unfold thread_ok in H1. rewrite Hp1 in H1.
  pose proof (Forall_nth_error _ _ _ _ Ht Hn2) as H2. unfold thread_ok in H2. rewrite Hp2 in H2.
  assert (G1 : nth_error (l_issued s) (c_serial c1) = Some c1).
  { destruct r1 as [|c|c]; cbn in E1; inversion E1; subst;
      destruct H1 as [h [_ [[_ [_ [_ [_ [G _]]]]] _]]]; exact G. }
  assert (G2 : nth_error (l_issued s) (c_serial c2) = Some c2).
  { destruct r2 as [|c|c]; cbn in E2; inversion E2; subst;
      destruct H2 as [h [_ [[_ [_ [_ [_ [G _]]]]] _]]]; exact G. }
  rewrite Es in G1. congruence.
Qed.

(* what the cache holds for a name was minted for that name *)
Lemma lts_cache_entry_for_its_name : forall cfg k s h c,
  reachable cfg k s -> cache_get h (l_cache s) = Some c ->
  c_san c = san_for parse_ip h /\ h <> [] /\ c_signer c = cfg_ca cfg.
Proof.
  intros cfg k s h c Hr Hc. destruct (reachable_inv _ _ _ Hr) as [Hcache _].
  destruct (Hcache _ _ Hc) as [? [? [? [? [? ?]]]]]. auto.
Qed.

(* ---------------- the sequential function is one schedule of the LTS ---------------- *)

Definition lts_of (st : state) (iss : list cert) (now : Z) : lts :=
  mkLts (st_cache st) iss now [idle_thread] [].

Lemma seq_is_a_schedule : forall cfg st iss now a sni t t1 t2 r st',
  length iss = st_next st -> (now <= t)%Z -> (t <= t1)%Z -> (t1 <= t2)%Z ->
  get_cert parse_ip cfg st a sni t t1 t2 = (r, st') ->
  exists ls s' td th,
    exec parse_ip cfg (lts_of st iss now) ls = Some s'
    /\ l_threads s' = [th] /\ th_api th = a /\ th_sni th = sni /\ th_pc th = Done r td
    /\ l_cache s' = st_cache st' /\ length (l_issued s') = st_next st'.
Proof.
  intros cfg st iss now a sni t t1 t2 r st' Hlen H0 H1 H2 H. unfold get_cert in H.
  destruct (req_name a sni) as [h|] eqn:En.
  2:{ inversion H; subst. exists [LBegin 0 a sni]. cbn. rewrite En. cbn.
      eexists. eexists. eexists. repeat split; eauto. }
  assert (Hmiss : forall f, (forall c, f = Some c -> x509_verify parse_ip cfg c h t = false) ->
            cache_get h (st_cache st) = f ->
            miss parse_ip cfg st h t1 t2 = (r, st') ->
            exists ls s' td th,
              exec parse_ip cfg (lts_of st iss now) ls = Some s'
              /\ l_threads s' = [th] /\ th_api th = a /\ th_sni th = sni /\ th_pc th = Done r td
              /\ l_cache s' = st_cache st' /\ length (l_issued s') = st_next st').
  { intros f Hf Ef Hm. subst f. clear H. unfold miss in Hm.
    assert (Hb : (Z.leb now t = true) /\ (Z.leb t t1 && Z.leb t1 t2)%bool = true).
    { split; [apply Z.leb_le; lia|]. apply andb_true_iff. split; apply Z.leb_le; lia. }
    destruct Hb as [Hb1 Hb2].
    destruct (issuable parse_ip h) eqn:Ei; injection Hm as <- <-; cbn [st_cache st_next]; rewrite <- ?Hlen.
    - exists (solo 0 a sni t t1 t2). unfold solo, lts_of. cbn. rewrite En. cbn. rewrite Hb1.
      destruct (cache_get h (st_cache st)) as [c|] eqn:Ec.
      + rewrite (Hf c eq_refl). cbn. rewrite Hb2, Ei. cbn.
        eexists; eexists; eexists; repeat split; cbn; rewrite ?app_length; cbn; eauto; lia.
      + cbn. rewrite Hb2, Ei. cbn.
        eexists; eexists; eexists; repeat split; cbn; rewrite ?app_length; cbn; eauto; lia.
    - exists [LBegin 0 a sni; LLookup 0; LVerify 0 t; LIssue 0 t1 t2]. unfold lts_of. cbn.
      rewrite En. cbn. rewrite Hb1.
      destruct (cache_get h (st_cache st)) as [c|] eqn:Ec.
      + rewrite (Hf c eq_refl). cbn. rewrite Hb2, Ei. cbn.
        eexists; eexists; eexists; repeat split; cbn; eauto.
      + cbn. rewrite Hb2, Ei. cbn.
        eexists; eexists; eexists; repeat split; cbn; eauto. }
  destruct (cache_get h (st_cache st)) as [c|] eqn:Ec.
  - destruct (x509_verify parse_ip cfg c h t) eqn:Ev.
    + inversion H; subst. exists [LBegin 0 a sni; LLookup 0; LVerify 0 t]. unfold lts_of. cbn.
      rewrite En. cbn. rewrite Ec. replace (Z.leb now t) with true by (symmetry; apply Z.leb_le; lia).
      rewrite Ev. cbn. eexists. eexists. eexists. repeat split; eauto.
    + eapply Hmiss; eauto. intros c1 E. inversion E; subst. exact Ev.
  - eapply Hmiss; eauto. intros c1 E. discriminate.
Qed.

(* ---------------- the oracle is the property ---------------- *)

Definition answer_prop (cfg : config) (a : api) (sni vname : str) (r : result) (tv : Z) : Prop :=
  match req_name a sni with
  | None => r = Refused
  | Some h =>
      match r with
      | Refused => issuable parse_ip h = false
      | Hit c | Issued c =>
          c_san c = san_for parse_ip h /\ c_org c = cfg_org cfg /\ c_key c = cfg_key cfg
          /\ x509_verify parse_ip cfg c vname tv = true
      end
  end.

Lemma answer_ok_iff : forall cfg a sni vname r tv,
  answer_ok parse_ip cfg a sni vname r tv = true <-> answer_prop cfg a sni vname r tv.
Proof.
  intros cfg a sni vname r tv. unfold answer_ok, answer_prop.
  destruct (req_name a sni) as [h|].
  - destruct r as [|c|c].
    + rewrite negb_true_iff. tauto.
    + unfold cert_for_name, cert_org_ok, cert_key_ok.
      rewrite !andb_true_iff, san_eqb_eq, str_eqb_eq, N.eqb_eq. tauto.
    + unfold cert_for_name, cert_org_ok, cert_key_ok.
      rewrite !andb_true_iff, san_eqb_eq, str_eqb_eq, N.eqb_eq. tauto.
  - destruct r; split; intro H; try reflexivity; try discriminate.
Qed.

Lemma c06_ok_iff : forall cfg obs,
  c06_ok parse_ip cfg obs = true <->
  Forall (fun o => answer_prop cfg (ob_api o) (ob_sni o) (ob_vname o) (ob_res o) (ob_tv o)) obs.
Proof.
  intros cfg obs. unfold c06_ok. rewrite forallb_forall, Forall_forall.
  split; intros H o Ho; apply answer_ok_iff; apply H; exact Ho.
Qed.

(* x509 verification implies chaining: the oracle's conjunct covers "chains to the CA" *)
Lemma x509_verify_chains : forall cfg c n t,
  x509_verify parse_ip cfg c n t = true -> c_signer c = cfg_ca cfg /\ in_window c t = true.
Proof.
  intros cfg c n t H. unfold x509_verify, chains in H.
  apply andb_true_iff in H as [H _]. apply andb_true_iff in H as [H1 H2].
  apply N.eqb_eq in H1. auto.
Qed.

Definition conc_prop (cfg : config) (ths fin : list observed) : Prop :=
  Forall (fun o => answer_prop cfg (ob_api o) (ob_sni o) (ob_vname o) (ob_res o) (ob_tv o)) (ths ++ fin)
  /\ (forall r1 r2 c1 c2, In r1 (map ob_res (ths ++ fin)) -> In r2 (map ob_res (ths ++ fin)) ->
        res_cert r1 = Some c1 -> res_cert r2 = Some c2 -> c_serial c1 = c_serial c2 -> c1 = c2)
  /\ (forall f c, In f fin -> ob_res f = Hit c ->
        exists o h, In o ths /\ res_cert (ob_res o) = Some c
                    /\ req_name (ob_api o) (ob_sni o) = Some h
                    /\ req_name (ob_api f) (ob_sni f) = Some h).

Lemma same_identity_iff : forall rs,
  same_identity_same_cert rs = true <->
  (forall r1 r2 c1 c2, In r1 rs -> In r2 rs ->
     res_cert r1 = Some c1 -> res_cert r2 = Some c2 -> c_serial c1 = c_serial c2 -> c1 = c2).
Proof.
  intro rs. unfold same_identity_same_cert. rewrite forallb_forall. split.
  - intros H r1 r2 c1 c2 I1 I2 E1 E2 Es. specialize (H r1 I1). rewrite forallb_forall in H.
    specialize (H r2 I2). rewrite E1, E2 in H.
    apply Nat.eqb_eq in Es. rewrite Es in H.
    apply cert_eqb_eq. exact H.
  - intros H r1 I1. rewrite forallb_forall. intros r2 I2.
    destruct (res_cert r1) as [c1|] eqn:E1; [|reflexivity].
    destruct (res_cert r2) as [c2|] eqn:E2; [|reflexivity].
    destruct (Nat.eqb (c_serial c1) (c_serial c2)) eqn:Es; [|reflexivity].
    apply Nat.eqb_eq in Es. apply cert_eqb_eq. exact (H r1 r2 c1 c2 I1 I2 E1 E2 Es).
Qed.

Lemma final_hit_known_iff : forall ths f,
  final_hit_known ths f = true <->
  (forall c, ob_res f = Hit c ->
     exists o h, In o ths /\ res_cert (ob_res o) = Some c
                 /\ req_name (ob_api o) (ob_sni o) = Some h
                 /\ req_name (ob_api f) (ob_sni f) = Some h).
Proof.
  intros ths f. unfold final_hit_known. destruct (ob_res f) as [|c|c].
  - split; [intros _ c E; discriminate|reflexivity].
  - rewrite existsb_exists. split.
    + intros [o [Ho H]] c' E. inversion E; subst c'.
      destruct (res_cert (ob_res o)) as [c'|] eqn:E1; [|discriminate].
      destruct (req_name (ob_api o) (ob_sni o)) as [h'|] eqn:E2; [|discriminate].
      destruct (req_name (ob_api f) (ob_sni f)) as [h|] eqn:E3; [|discriminate].
      apply andb_true_iff in H as [H1 H2]. apply str_eqb_eq in H1. apply cert_eqb_eq in H2. subst.
      exists o, h. auto.
    + intros H. destruct (H c eq_refl) as [o [h [Ho [E1 [E2 E3]]]]].
      exists o. split; [exact Ho|]. rewrite E1, E2, E3.
      rewrite str_eqb_refl. cbn. apply cert_eqb_eq. reflexivity.
  - split; [intros _ c' E; discriminate|reflexivity].
Qed.

Lemma c06_conc_ok_iff : forall cfg ths fin,
  c06_conc_ok parse_ip cfg ths fin = true <-> conc_prop cfg ths fin.
Proof.
  intros cfg ths fin. unfold c06_conc_ok, conc_prop.
  rewrite !andb_true_iff, !c06_ok_iff, same_identity_iff, forallb_forall, Forall_app.
  split.
  - intros [[[H1 H2] H3] H4]. repeat split; auto.
    intros f c Hf E. apply (proj1 (final_hit_known_iff ths f) (H4 f Hf) c E).
  - intros [[H1 H2] [H3 H4]]. repeat split; auto.
    intros f Hf. apply final_hit_known_iff. intros c E. eapply H4; eauto.
Qed.

End WithParseIP.

(* ---------------- every spelling a client uses names the host ---------------- *)

Lemma cert_key_fixed : forall v, v <> [] -> normalize v = v -> cert_key v = Some v.
Proof.
  intros v Hne Hn. unfold cert_key. rewrite Hn. destruct v; [congruence|reflexivity].
Qed.

Lemma every_spelling_names_the_host : forall v p,
  v <> [] -> no_brackets v -> plain p ->
  (contains ch_colon v = false \/ two_colons v) ->
  (contains ch_colon v = false -> forall a, req_name a v = Some v)
  /\ req_name (ApiForHost v) [] = Some v
  /\ req_name (ApiForHost (join_host_port v p)) [] = Some v
  /\ (forall other, req_name (ApiForHost other) v = req_name ApiTLS v).
Proof.
  intros v p Hne Hnb Hp Hshape. repeat split.
  - intros Hc a. apply req_name_sni; assumption.
  - rewrite req_name_fallback. apply cert_key_fixed; [exact Hne|].
    destruct Hshape as [Hc|H2]; [apply normalize_no_colon; exact Hc|].
    apply normalize_bare_v6; [exact H2|apply Hnb].
  - rewrite req_name_fallback. unfold cert_key. rewrite (normalize_join v p Hnb Hp).
    destruct v; [congruence|reflexivity].
  - intro other. unfold req_name. destruct v; [congruence|reflexivity].
Qed.

(* ---------------- a concrete net.ParseIP table for witnesses and examples ---------------- *)

From Coq Require Import String.

Definition lit (s : string) : str := list_ascii_of_string s.

Definition demo_ip (s : str) : option str :=
  if str_eqb s (lit "::1") then Some (lit "::1")
  else if str_eqb s (lit "10.0.0.1") then Some (lit "10.0.0.1")
  else None.

Lemma demo_ip_law : forall h c, demo_ip h = Some c -> strip_brackets h = h.
Proof.
  intros h c H. unfold demo_ip in H.
  destruct (str_eqb h (lit "::1")) eqn:E1.
  - apply str_eqb_eq in E1. subst. reflexivity.
  - destruct (str_eqb h (lit "10.0.0.1")) eqn:E2; [|discriminate].
    apply str_eqb_eq in E2. subst. reflexivity.
Qed.

Definition demo_cfg : config := mkConfig 1 1 (lit "Martian Proxy") 2000 false false.

(* "[::1]" (brackets, no port): the certificate handed out does not verify for
   the name it was requested under, nor for the address the client means *)
Lemma returned_cert_verifies_refuted :
  exists parse_ip, (forall h c, parse_ip h = Some c -> strip_brackets h = h) /\
  exists cfg k s i a sni t c h,
    reachable parse_ip cfg k s /\ returned s i a sni (Issued c) t
    /\ req_name a sni = Some h /\ (second <= cfg_validity cfg)%Z
    /\ x509_verify parse_ip cfg c h t = false
    /\ x509_verify parse_ip cfg c (lit "::1") t = false.
Proof.
  exists demo_ip. split; [exact demo_ip_law|].
  exists demo_cfg, 1. eexists. exists 0, (ApiForHost (lit "[::1]")), []. eexists. eexists. eexists.
  split.
  { exists (solo 0 (ApiForHost (lit "[::1]")) [] 5000 5000 5000). vm_compute. reflexivity. }
  split.
  { eexists. split; [vm_compute; reflexivity|]. vm_compute. repeat split; reflexivity. }
  split; [vm_compute; reflexivity|].
  split; [vm_compute; discriminate|].
  split; vm_compute; reflexivity.
Qed.

(* sub-second validity: x509 times are whole seconds, so a certificate minted
   with validity < 1 s can be expired on arrival; the theorems assume >= 1 s *)
Lemma subsecond_validity_refuted :
  exists cfg t, (0 < cfg_validity cfg)%Z /\
    in_window (issue demo_ip cfg 0 (lit "example.com") t t) t = false.
Proof. exists (mkConfig 1 1 (lit "o") 500 false false), 5400%Z. split; [reflexivity|vm_compute; reflexivity]. Qed.
