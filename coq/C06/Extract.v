From Coq Require Import ExtrOcamlBasic ExtrOcamlString.
From Martian.Common Require Import ExtractBase.
From Martian.C06 Require Import Model.
Extraction Language OCaml.
Extraction "model.ml" base_anchor split_host_port normalize join_host_port
  strip_brackets san_for host_matches x509_verify issuable issue req_name
  init_state get_cert run cert_eqb san_eqb str_eqb
  cert_for_name cert_org_ok cert_key_ok answer_ok c06_ok c06_conc_ok
  same_identity_same_cert final_hit_known
  lts_init step exec solo trunc_s.
