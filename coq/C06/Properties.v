(* C06 — property theorems.  Nothing but statements closed by [exact] and
   Print Assumptions, so a weakened statement is visible in review.

   Every theorem is quantified over [parse_ip] (Go's net.ParseIP, as canonical
   text) under the single law [ip_law]: text that parses as an address is not
   enclosed in brackets.  "Chains to the CA" is [c_signer c = cfg_ca cfg] and
   "the proxy holds the key" is [c_key c = cfg_key cfg]: the cryptography is
   decided by real x509 verification and real TLS handshakes in the harness
   (partial, see notes/C06.md). *)
From Coq Require Import List ZArith NArith Bool Ascii Arith String.
From Martian.C06 Require Import Model Proofs_Strings Proofs Proofs_Audit.
Import ListNotations.

Definition ip_law (parse_ip : str -> option str) : Prop :=
  forall h c, parse_ip h = Some c -> strip_brackets h = h.

(* ---- all interleavings of K concurrent requesters, all request histories,
        all non-decreasing clocks (the LTS only enables time labels >= now) ---- *)

(* Whatever a requester is handed verifies for the name it asked for at the
   time it was decided, carries the configured organization and key, is
   signed by the configured CA; a new certificate keeps verifying for
   validity - 1 s.  Guards: validity >= 1 s (x509 second granularity) and
   [verifiable_name]: excludes "", "." and a bracketed IP literal without
   port ("[::1]"), see C06_returned_cert_verifies_refuted. *)
Theorem C06_returned_cert_verifies_partial : forall parse_ip, ip_law parse_ip ->
  forall cfg k s i a sni r t c h,
  reachable parse_ip cfg k s -> returned s i a sni r t -> (r = Hit c \/ r = Issued c) ->
  req_name a sni = Some h -> verifiable_name parse_ip h = true -> (second <= cfg_validity cfg)%Z ->
  c_san c = san_for parse_ip h /\ c_org c = cfg_org cfg /\ c_key c = cfg_key cfg
  /\ c_signer c = cfg_ca cfg /\ x509_verify parse_ip cfg c h t = true
  /\ (r = Issued c -> forall t', (t <= t')%Z -> (t' <= t + cfg_validity cfg - second)%Z ->
        x509_verify parse_ip cfg c h t' = true).
Proof. exact lts_returned_cert_verifies. Qed.
Print Assumptions C06_returned_cert_verifies_partial.

Theorem C06_returned_cert_verifies_refuted :
  exists parse_ip, ip_law parse_ip /\
  exists cfg k s i a sni t c h,
    reachable parse_ip cfg k s /\ returned s i a sni (Issued c) t
    /\ req_name a sni = Some h /\ (second <= cfg_validity cfg)%Z
    /\ x509_verify parse_ip cfg c h t = false
    /\ x509_verify parse_ip cfg c (lit "::1") t = false.
Proof. exact returned_cert_verifies_refuted. Qed.
Print Assumptions C06_returned_cert_verifies_refuted.

(* A cached certificate is handed out only if it verified at that moment. *)
Theorem C06_hit_only_if_still_valid : forall parse_ip,
  forall cfg k s i a sni t c,
  reachable parse_ip cfg k s -> returned s i a sni (Hit c) t ->
  exists h, req_name a sni = Some h /\ x509_verify parse_ip cfg c h t = true.
Proof. exact lts_hit_only_if_still_valid. Qed.
Print Assumptions C06_hit_only_if_still_valid.

(* A requester that looked up an entry whose window has passed cannot return
   it: the verification step leads to a miss, and the issue step mints a
   certificate with a different identity, for the same name, valid now. *)
Theorem C06_expired_reissued : forall parse_ip,
  forall cfg k s i th h c0 t,
  reachable parse_ip cfg k s ->
  nth_error (l_threads s) i = Some th -> th_pc th = Looked h (Some c0) ->
  (l_now s <= t)%Z -> (c_na c0 < t)%Z ->
  exists s1, step parse_ip cfg s (LVerify i t) = Some s1
    /\ (exists th1, nth_error (l_threads s1) i = Some th1 /\ th_pc th1 = Missed h)
    /\ forall t1 t2, (t <= t1)%Z -> (t1 <= t2)%Z -> issuable parse_ip h = true ->
         (second <= cfg_validity cfg)%Z ->
         exists s2 c, step parse_ip cfg s1 (LIssue i t1 t2) = Some s2
           /\ (exists th2, nth_error (l_threads s2) i = Some th2 /\ th_pc th2 = Made h c t2)
           /\ c_serial c <> c_serial c0 /\ in_window c t2 = true
           /\ c_san c = san_for parse_ip h.
Proof. exact lts_expired_reissued. Qed.
Print Assumptions C06_expired_reissued.

(* No requester ever receives a certificate minted for another name. *)
Theorem C06_never_other_name : forall parse_ip,
  forall cfg k s i a sni r t c,
  reachable parse_ip cfg k s -> returned s i a sni r t -> (r = Hit c \/ r = Issued c) ->
  exists h, req_name a sni = Some h /\ c_san c = san_for parse_ip h.
Proof. exact lts_never_other_name. Qed.
Print Assumptions C06_never_other_name.

Theorem C06_cache_entry_minted_for_its_key : forall parse_ip,
  forall cfg k s h c,
  reachable parse_ip cfg k s -> cache_get h (l_cache s) = Some c ->
  c_san c = san_for parse_ip h /\ h <> [] /\ c_signer c = cfg_ca cfg.
Proof. exact lts_cache_entry_for_its_name. Qed.
Print Assumptions C06_cache_entry_minted_for_its_key.

Theorem C06_one_identity_one_certificate : forall parse_ip,
  forall cfg k s i j a1 s1 r1 t1 a2 s2 r2 t2 c1 c2,
  reachable parse_ip cfg k s -> returned s i a1 s1 r1 t1 -> returned s j a2 s2 r2 t2 ->
  res_cert r1 = Some c1 -> res_cert r2 = Some c2 -> c_serial c1 = c_serial c2 -> c1 = c2.
Proof. exact lts_same_identity_same_cert. Qed.
Print Assumptions C06_one_identity_one_certificate.

(* Without SNI and without a fallback host (also: a fallback that is only a
   port) the request is refused at once and nothing is minted or cached; and
   a refusal happens only then (or for a name x509 cannot encode). *)
Theorem C06_refuse_when_no_name : forall parse_ip, ip_law parse_ip ->
  (forall a, a = ApiTLS \/ a = ApiForHost [] -> req_name a [] = None)
  /\ (forall a sni, req_name a sni = None <->
        (a = ApiTLS /\ sni = []) \/ exists hn, choose_host a sni = Some hn /\ normalize hn = [])
  /\ (forall cfg s i th a sni,
        nth_error (l_threads s) i = Some th -> th_pc th = Idle -> req_name a sni = None ->
        exists s1 th1, step parse_ip cfg s (LBegin i a sni) = Some s1
          /\ nth_error (l_threads s1) i = Some th1 /\ th_pc th1 = Done Refused (l_now s)
          /\ l_cache s1 = l_cache s /\ l_issued s1 = l_issued s)
  /\ (forall cfg k s i a sni t,
        reachable parse_ip cfg k s -> returned s i a sni Refused t ->
        req_name a sni = None \/ exists h, req_name a sni = Some h /\ issuable parse_ip h = false).
Proof.
  intros parse_ip Hlaw. split; [exact no_name_no_request|].
  split; [exact req_name_none_iff|].
  split; [exact (lts_refuse_when_no_name parse_ip)|exact (lts_refused_only_without_name parse_ip)].
Qed.
Print Assumptions C06_refuse_when_no_name.

(* Every way a client may name host v — SNI (through TLS() or TLSForHost with
   any CONNECT authority), bare fallback, host:port, [v6]:port — selects the
   certificate name v.  v: no brackets; either no colon (DNS name, IPv4) or
   at least two (IPv6 literal). *)
Theorem C06_every_spelling_names_the_host : forall v p,
  v <> [] -> no_brackets v -> plain p ->
  (contains ch_colon v = false \/ two_colons v) ->
  (contains ch_colon v = false -> forall a, req_name a v = Some v)
  /\ req_name (ApiForHost v) [] = Some v
  /\ req_name (ApiForHost (join_host_port v p)) [] = Some v
  /\ (forall other, req_name (ApiForHost other) v = req_name ApiTLS v).
Proof. exact every_spelling_names_the_host. Qed.
Print Assumptions C06_every_spelling_names_the_host.

(* "valid for exactly that host": a certificate minted for h matches h' only
   if both are the same address or the same DNS name up to letter case; DNS
   comparison is an equivalence that ignores ASCII case. *)
Theorem C06_valid_for_exactly_that_host : forall parse_ip, ip_law parse_ip ->
  (forall h, verifiable_name parse_ip h = true -> host_matches parse_ip (san_for parse_ip h) h = true)
  /\ (forall h h', host_matches parse_ip (san_for parse_ip h) h' = true ->
        (exists c, parse_ip h = Some c /\ parse_ip (strip_brackets h') = Some c)
        \/ (parse_ip h = None /\ parse_ip (strip_brackets h') = None /\ dns_eq h h' = true)).
Proof.
  intros parse_ip Hlaw. split;
    [exact (host_matches_self parse_ip Hlaw)|exact (host_matches_only_same_name parse_ip)].
Qed.
Print Assumptions C06_valid_for_exactly_that_host.

Theorem C06_dns_eq_is_case_insensitive_equivalence :
  (forall a, dns_eq a a = true) /\ (forall a b, dns_eq a b = dns_eq b a)
  /\ (forall a b c, dns_eq a b = true -> dns_eq b c = true -> dns_eq a c = true)
  /\ (forall a, dns_eq (lower_str a) a = true).
Proof. exact (conj dns_eq_refl (conj dns_eq_sym (conj dns_eq_trans dns_eq_lower))). Qed.
Print Assumptions C06_dns_eq_is_case_insensitive_equivalence.

(* ---- sequential histories (what the driver replays) ---- *)

Theorem C06_seq_returned_cert_verifies_partial : forall parse_ip, ip_law parse_ip ->
  forall cfg rs q sta x stb c h,
  answered parse_ip cfg init_state rs q sta x stb ->
  (x = Hit c \/ x = Issued c) ->
  req_name (r_api q) (r_sni q) = Some h ->
  verifiable_name parse_ip h = true -> (second <= cfg_validity cfg)%Z -> well_timed q ->
  c_san c = san_for parse_ip h /\ c_org c = cfg_org cfg /\ c_key c = cfg_key cfg
  /\ c_signer c = cfg_ca cfg
  /\ x509_verify parse_ip cfg c h (match x with Issued _ => r_t2 q | _ => r_t q end) = true.
Proof. exact seq_returned_cert_verifies. Qed.
Print Assumptions C06_seq_returned_cert_verifies_partial.

Theorem C06_seq_hit_only_if_still_valid : forall parse_ip,
  forall cfg rs q sta x stb c,
  answered parse_ip cfg init_state rs q sta x stb -> x = Hit c ->
  exists h, req_name (r_api q) (r_sni q) = Some h
    /\ cache_get h (st_cache sta) = Some c
    /\ x509_verify parse_ip cfg c h (r_t q) = true /\ stb = sta.
Proof. exact seq_hit_only_if_still_valid. Qed.
Print Assumptions C06_seq_hit_only_if_still_valid.

Theorem C06_seq_expired_reissued : forall parse_ip,
  forall cfg rs q sta x stb h c0,
  answered parse_ip cfg init_state rs q sta x stb ->
  req_name (r_api q) (r_sni q) = Some h ->
  cache_get h (st_cache sta) = Some c0 ->
  (c_na c0 < r_t q)%Z ->
  issuable parse_ip h = true -> (second <= cfg_validity cfg)%Z -> well_timed q ->
  exists c, x = Issued c /\ c_serial c <> c_serial c0
    /\ c_san c = san_for parse_ip h
    /\ in_window c (r_t2 q) = true
    /\ cache_get h (st_cache stb) = Some c.
Proof. exact seq_expired_reissued. Qed.
Print Assumptions C06_seq_expired_reissued.

Theorem C06_seq_never_other_name : forall parse_ip,
  forall cfg rs q sta x stb c,
  answered parse_ip cfg init_state rs q sta x stb ->
  (x = Hit c \/ x = Issued c) ->
  exists h, req_name (r_api q) (r_sni q) = Some h /\ c_san c = san_for parse_ip h.
Proof. exact seq_never_other_name. Qed.
Print Assumptions C06_seq_never_other_name.

Theorem C06_seq_refuse_when_no_name : forall parse_ip cfg st a sni t t1 t2,
  req_name a sni = None -> get_cert parse_ip cfg st a sni t t1 t2 = (Refused, st).
Proof. exact seq_refuse_when_no_name. Qed.
Print Assumptions C06_seq_refuse_when_no_name.

(* the sequential function the driver runs is one schedule of the LTS *)
Theorem C06_sequential_is_a_schedule : forall parse_ip cfg st iss now a sni t t1 t2 r st',
  List.length iss = st_next st -> (now <= t)%Z -> (t <= t1)%Z -> (t1 <= t2)%Z ->
  get_cert parse_ip cfg st a sni t t1 t2 = (r, st') ->
  exists ls s' td th,
    exec parse_ip cfg (lts_of st iss now) ls = Some s'
    /\ l_threads s' = [th] /\ th_api th = a /\ th_sni th = sni /\ th_pc th = Done r td
    /\ l_cache s' = st_cache st' /\ List.length (l_issued s') = st_next st'.
Proof. exact seq_is_a_schedule. Qed.
Print Assumptions C06_sequential_is_a_schedule.

(* ---- the executable oracle run on the real answers is the property ---- *)

Theorem C06_oracle_is_the_property : forall parse_ip cfg,
  (forall a sni vname r tv,
     answer_ok parse_ip cfg a sni vname r tv = true <->
     match req_name a sni with
     | None => r = Refused
     | Some h =>
         match r with
         | Refused => issuable parse_ip h = false
         | Hit c | Issued c =>
             c_san c = san_for parse_ip h /\ c_org c = cfg_org cfg /\ c_key c = cfg_key cfg
             /\ x509_verify parse_ip cfg c vname tv = true
         end
     end)
  /\ (forall obs, c06_ok parse_ip cfg obs = true <->
        Forall (fun o => answer_prop parse_ip cfg (ob_api o) (ob_sni o) (ob_vname o) (ob_res o) (ob_tv o)) obs)
  /\ (forall ths fin, c06_conc_ok parse_ip cfg ths fin = true <-> conc_prop parse_ip cfg ths fin)
  /\ (forall c n t, x509_verify parse_ip cfg c n t = true ->
        c_signer c = cfg_ca cfg /\ in_window c t = true).
Proof.
  intros parse_ip cfg.
  exact (conj (answer_ok_iff parse_ip cfg)
        (conj (c06_ok_iff parse_ip cfg)
        (conj (c06_conc_ok_iff parse_ip cfg) (x509_verify_chains parse_ip cfg)))).
Qed.
Print Assumptions C06_oracle_is_the_property.

Theorem C06_subsecond_validity_refuted :
  exists cfg t, (0 < cfg_validity cfg)%Z /\
    in_window (issue demo_ip cfg 0 (lit "example.com") t t) t = false.
Proof. exact subsecond_validity_refuted. Qed.
Print Assumptions C06_subsecond_validity_refuted.

(* ---- non-vacuity ---- *)

(* the guards of the _partial theorems hold for ordinary names *)
Example C06_guards_satisfiable :
  ip_law demo_ip
  /\ verifiable_name demo_ip (lit "Example.COM") = true
  /\ verifiable_name demo_ip (lit "10.0.0.1") = true
  /\ verifiable_name demo_ip (lit "::1") = true
  /\ verifiable_name demo_ip (lit "[::1]") = false
  /\ req_name (ApiForHost (lit "[::1]:443")) [] = Some (lit "::1")
  /\ req_name (ApiForHost (lit "::1")) [] = Some (lit "::1")
  /\ req_name (ApiForHost (lit "10.0.0.1:8443")) [] = Some (lit "10.0.0.1")
  /\ req_name (ApiForHost (lit "front.example:443")) (lit "Example.COM") = Some (lit "Example.COM")
  /\ req_name (ApiForHost (lit ":443")) [] = None
  /\ two_colons (lit "::1").
Proof.
  split; [exact demo_ip_law|]. repeat (split; [vm_compute; reflexivity|]).
  exists [], (lit ":1"). split; reflexivity.
Qed.

(* a history with an issue, a hit through another spelling, an expiry and a refusal *)
Example C06_example_history :
  exists c0 c1,
  fst (run demo_ip demo_cfg init_state
         [ mkReq (ApiForHost (lit "[::1]:443")) [] 5400 5400 5400;
           mkReq (ApiForHost (lit "::1")) [] 5500 5500 5500;
           mkReq (ApiForHost (lit "[::1]:8443")) [] 7001 7001 7001;
           mkReq (ApiForHost []) [] 7002 7002 7002;
           mkReq ApiTLS (lit "ExAmple.com") 7003 7003 7003 ])
  = [Issued c0; Hit c0; Issued c1; Refused;
     Issued (mkCert 2 (SanDNS (lit "ExAmple.com")) 5000 9000 (lit "Martian Proxy") 1 1)]
  /\ c0 = mkCert 0 (SanIP (lit "::1")) 3000 7000 (lit "Martian Proxy") 1 1
  /\ c1 = mkCert 1 (SanIP (lit "::1")) 5000 9000 (lit "Martian Proxy") 1 1
  /\ x509_verify demo_ip demo_cfg c0 (lit "::1") 7000 = true
  /\ x509_verify demo_ip demo_cfg c0 (lit "::1") 7001 = false
  /\ x509_verify demo_ip demo_cfg c1 (lit "10.0.0.1") 7001 = false.
Proof. eexists. eexists. vm_compute. repeat split; reflexivity. Qed.

(* two requesters race for one name: both miss, both mint, both are answered
   with a certificate for that name; the second store wins the cache *)
Example C06_example_race :
  exists s c0 c1,
  exec demo_ip demo_cfg (lts_init 2)
    [ LBegin 0 ApiTLS (lit "a.test"); LBegin 1 (ApiForHost (lit "a.test:443")) [];
      LLookup 0; LLookup 1; LVerify 0 5000; LVerify 1 5001;
      LIssue 0 5002 5002; LIssue 1 5003 5003; LStore 0; LStore 1 ] = Some s
  /\ returned s 0 ApiTLS (lit "a.test") (Issued c0) 5002
  /\ returned s 1 (ApiForHost (lit "a.test:443")) [] (Issued c1) 5003
  /\ c_san c0 = SanDNS (lit "a.test") /\ c_san c1 = SanDNS (lit "a.test")
  /\ c_serial c0 <> c_serial c1
  /\ cache_get (lit "a.test") (l_cache s) = Some c1.
Proof.
  eexists. eexists. eexists. split; [vm_compute; reflexivity|].
  split; [eexists; vm_compute; repeat split; reflexivity|].
  split; [eexists; vm_compute; repeat split; reflexivity|].
  vm_compute. repeat split; try reflexivity. discriminate.
Qed.

(* ================= theorem-audit round ================= *)

(* THE property for one handshake, end to end: whatever spelling of host v
   the client used (SNI through TLS() or through TLSForHost with any CONNECT
   authority; no SNI and the bare host, host:port or [v6]:port as authority),
   in every interleaving with any number of other requesters and at every
   clock, the certificate it is handed was minted for v, verifies for v at
   the time it is decided, carries the configured organization and key and
   is signed by the configured CA.  v: not empty, not ".", no brackets, no
   colon (DNS name in any letter case, IPv4) or >= 2 colons (IPv6 literal). *)
Theorem C06_client_end_to_end : forall parse_ip, ip_law parse_ip ->
  forall cfg k s i v p a sni r t c,
  v <> [] -> empty_or_dot v = false -> no_brackets v -> plain p ->
  (contains ch_colon v = false \/ two_colons v) ->
  spelling v p a sni ->
  (second <= cfg_validity cfg)%Z ->
  reachable parse_ip cfg k s -> returned s i a sni r t -> (r = Hit c \/ r = Issued c) ->
  c_san c = san_for parse_ip v /\ c_org c = cfg_org cfg /\ c_key c = cfg_key cfg
  /\ c_signer c = cfg_ca cfg /\ x509_verify parse_ip cfg c v t = true.
Proof. exact client_end_to_end. Qed.
Print Assumptions C06_client_end_to_end.

(* ... and such a client is never refused (the handshake can complete) *)
Theorem C06_client_never_refused : forall parse_ip cfg k s i v p a sni t,
  v <> [] -> no_brackets v -> plain p ->
  (contains ch_colon v = false \/ two_colons v) ->
  spelling v p a sni -> issuable parse_ip v = true ->
  reachable parse_ip cfg k s -> ~ returned s i a sni Refused t.
Proof. exact client_never_refused. Qed.
Print Assumptions C06_client_never_refused.

(* What a step does NOT change: other requesters; every cache entry except,
   for a Store, the storing requester's own name; the certificate history
   only grows; the clock never goes back. *)
Theorem C06_step_frame : forall parse_ip cfg s l s',
  step parse_ip cfg s l = Some s' ->
  (forall j, j <> label_thread l -> nth_error (l_threads s') j = nth_error (l_threads s) j)
  /\ (forall k, cache_get k (l_cache s') <> cache_get k (l_cache s) ->
        exists i th c t, l = LStore i /\ nth_error (l_threads s) i = Some th
                         /\ th_pc th = Made k c t /\ cache_get k (l_cache s') = Some c)
  /\ (l_issued s' = l_issued s \/ exists c, l_issued s' = l_issued s ++ [c])
  /\ (l_now s <= l_now s')%Z.
Proof. exact step_frame. Qed.
Print Assumptions C06_step_frame.

Theorem C06_seq_frame : forall parse_ip cfg st a sni t t1 t2 r st',
  get_cert parse_ip cfg st a sni t t1 t2 = (r, st') ->
  (forall k, req_name a sni <> Some k -> cache_get k (st_cache st') = cache_get k (st_cache st))
  /\ (match r with Issued _ => True | _ => st' = st end).
Proof. exact seq_frame. Qed.
Print Assumptions C06_seq_frame.

(* Every boolean the driver evaluates to name a failing clause is its Prop,
   and their conjunction, in the driver's order, is answer_ok. *)
Theorem C06_clause_oracles : forall parse_ip cfg,
  (forall c h, cert_for_name parse_ip c h = true <-> c_san c = san_for parse_ip h)
  /\ (forall c, cert_org_ok cfg c = true <-> c_org c = cfg_org cfg)
  /\ (forall c, cert_key_ok cfg c = true <-> c_key c = cfg_key cfg)
  /\ (forall c, chains cfg c = true <-> c_signer c = cfg_ca cfg)
  /\ (forall c t, in_window c t = true <-> (c_nb c <= t <= c_na c)%Z)
  /\ (forall c name t, x509_verify parse_ip cfg c name t = true <->
        c_signer c = cfg_ca cfg /\ (c_nb c <= t <= c_na c)%Z
        /\ (name = [] \/ host_matches parse_ip (c_san c) name = true))
  /\ (forall a sni vname r tv h c,
        req_name a sni = Some h -> (r = Hit c \/ r = Issued c) ->
        answer_ok parse_ip cfg a sni vname r tv =
        (cert_for_name parse_ip c h && cert_org_ok cfg c && cert_key_ok cfg c
         && (chains cfg c && in_window c tv
             && (if is_empty vname then true else host_matches parse_ip (c_san c) vname)))%bool).
Proof.
  intros parse_ip cfg.
  exact (conj (cert_for_name_iff parse_ip) (conj (cert_org_ok_iff cfg) (conj (cert_key_ok_iff cfg)
        (conj (chains_iff cfg) (conj in_window_iff (conj (x509_verify_iff parse_ip cfg)
        (answer_ok_components parse_ip cfg))))))).
Qed.
Print Assumptions C06_clause_oracles.

(* A PROPFAIL is a violation: each clause the driver can name from the model
   side, failing on an observation, falsifies the per-answer statement.  (The
   clauses decided only by real Go code — the V bit of x509.Verify, the
   other-name bits, the handshake bit, PANIC — are observations, not model
   functions; the driver additionally requires the model's x509_verify to
   agree with the real bits, otherwise it reports DISAGREE.) *)
Theorem C06_propfail_is_violation : forall parse_ip cfg a sni vname r tv,
  (req_name a sni = None -> r <> Refused -> ~ answer_prop parse_ip cfg a sni vname r tv)
  /\ (forall h, req_name a sni = Some h -> issuable parse_ip h = true -> r = Refused ->
        ~ answer_prop parse_ip cfg a sni vname r tv)
  /\ (forall h c, req_name a sni = Some h -> (r = Hit c \/ r = Issued c) ->
        (cert_for_name parse_ip c h = false \/ cert_org_ok cfg c = false \/ cert_key_ok cfg c = false
         \/ chains cfg c = false \/ x509_verify parse_ip cfg c vname tv = false) ->
        ~ answer_prop parse_ip cfg a sni vname r tv).
Proof. exact clause_failure_is_violation. Qed.
Print Assumptions C06_propfail_is_violation.

(* Every execution of the model is accepted by the oracle: for every
   interleaving, every answer a requester holds passes answer_ok for its own
   name at its decision time.  (Atomicity assumed: each label is one atomic
   step — the map read under RLock, the map write under Lock; verification
   and minting touch only requester-local data.) *)
Theorem C06_lts_answers_accepted : forall parse_ip, ip_law parse_ip ->
  forall cfg k s i a sni r t,
  reachable parse_ip cfg k s -> returned s i a sni r t ->
  (forall h, req_name a sni = Some h -> verifiable_name parse_ip h = true) ->
  (second <= cfg_validity cfg)%Z ->
  answer_ok parse_ip cfg a sni (name_or_empty a sni) r t = true.
Proof. exact lts_answers_accepted. Qed.
Print Assumptions C06_lts_answers_accepted.

(* After all requesters have returned, whatever the cache holds for a name
   was handed to a requester of that name: what the driver's after-join check
   (final_hit_known) demands of the real code holds in every execution. *)
Theorem C06_quiescent_cache_was_returned : forall parse_ip cfg k s h c,
  reachable parse_ip cfg k s -> quiescent s ->
  cache_get h (l_cache s) = Some c -> In (h, c) (l_returned s).
Proof. exact lts_quiescent_cache_was_returned. Qed.
Print Assumptions C06_quiescent_cache_was_returned.

(* Port removal removes a port and nothing else. *)
Theorem C06_split_accepts_only_host_port_shapes : forall hp h p,
  split_host_port hp = SplitOk h p ->
  contains ch_colon p = false /\
  ((hp = h ++ ch_colon :: p /\ contains ch_colon h = false)
   \/ (hp = ch_lbr :: h ++ ch_rbr :: ch_colon :: p /\ contains ch_rbr h = false)).
Proof. exact split_ok_shape. Qed.
Print Assumptions C06_split_accepts_only_host_port_shapes.

Theorem C06_certificate_name_is_host_part_or_unchanged : forall hp,
  (exists p, (hp = normalize hp ++ ch_colon :: p
              \/ hp = ch_lbr :: normalize hp ++ ch_rbr :: ch_colon :: p)
             /\ contains ch_colon p = false)
  \/ normalize hp = hp.
Proof. exact normalize_cases. Qed.
Print Assumptions C06_certificate_name_is_host_part_or_unchanged.

(* Totalisation: the model's only [nth _ _ default] (hostport[end+1]) is in
   range and default-independent where it is evaluated; the only [last _
   default] is applied to a non-empty string; index functions return
   in-range positions; the divisor of trunc_s is not zero. *)
Theorem C06_totalisation :
  (forall hp e d1 d2, index_of ch_rbr hp = Some e -> Nat.eqb (S e) (List.length hp) = false ->
     S e < List.length hp /\ nth (S e) hp d1 = nth (S e) hp d2)
  /\ (forall (l : str) d1 d2, l <> [] -> last l d1 = last l d2)
  /\ (forall c s e, index_of c s = Some e -> e < List.length s)
  /\ (forall c s i, last_index_of c s = Some i -> i < List.length s)
  /\ (forall c, last_index_of c [] = None)
  /\ second <> 0%Z.
Proof.
  exact (conj split_nth_in_range (conj last_nonempty_indep (conj index_of_lt
        (conj last_index_of_lt (conj last_index_of_nil second_nonzero))))).
Qed.
Print Assumptions C06_totalisation.

(* ---- non-vacuity of the audit theorems ---- *)

(* the hypotheses of C06_client_end_to_end hold for an IPv6 literal and for a mixed-case DNS name *)
Example C06_example_spellings :
  spelling (lit "2001:DB8::1") (lit "443") (ApiForHost (lit "[2001:DB8::1]:443")) []
  /\ spelling (lit "2001:DB8::1") (lit "443") (ApiForHost (lit "2001:DB8::1")) []
  /\ spelling (lit "Example.COM") (lit "8443") (ApiForHost (lit "front.example:443")) (lit "Example.COM")
  /\ spelling (lit "Example.COM") (lit "8443") ApiTLS (lit "Example.COM")
  /\ two_colons (lit "2001:DB8::1") /\ no_brackets (lit "2001:DB8::1") /\ plain (lit "443")
  /\ empty_or_dot (lit "2001:DB8::1") = false /\ contains ch_colon (lit "Example.COM") = false.
Proof.
  split; [exact (sp_port (lit "2001:DB8::1") (lit "443"))|].
  split; [exact (sp_bare (lit "2001:DB8::1") (lit "443"))|].
  split; [apply sp_sni_forhost; reflexivity|].
  split; [apply sp_sni_tls; reflexivity|].
  split; [exists (lit "2001"), (lit "DB8::1"); split; reflexivity|].
  repeat split; reflexivity.
Qed.

(* the hypotheses of C06_expired_reissued: a reachable state where a requester has
   looked up an entry that has expired by the time it verifies *)
Example C06_example_expired_lookup_state :
  exists s th c0,
  exec demo_ip demo_cfg (lts_init 2)
    [ LBegin 0 ApiTLS (lit "a.test"); LLookup 0; LVerify 0 5000; LIssue 0 5000 5000; LStore 0; LReturn 0;
      LBegin 1 (ApiForHost (lit "a.test:443")) []; LLookup 1 ] = Some s
  /\ nth_error (l_threads s) 1 = Some th /\ th_pc th = Looked (lit "a.test") (Some c0)
  /\ c_na c0 = 7000%Z /\ l_now s = 5000%Z.
Proof.
  eexists. eexists. eexists. split; [vm_compute; reflexivity|].
  split; [vm_compute; reflexivity|]. vm_compute. repeat split; reflexivity.
Qed.

(* the hypotheses of C06_quiescent_cache_was_returned, and its conclusion computed *)
Example C06_example_quiescent :
  exists s c,
  exec demo_ip demo_cfg (lts_init 2)
    [ LBegin 0 ApiTLS (lit "a.test"); LBegin 1 (ApiForHost (lit "a.test:443")) [];
      LLookup 0; LLookup 1; LVerify 0 5000; LVerify 1 5001;
      LIssue 0 5002 5002; LIssue 1 5003 5003; LStore 0; LStore 1; LReturn 1; LReturn 0 ] = Some s
  /\ Forall (fun th => th_pc th = Idle) (l_threads s)
  /\ cache_get (lit "a.test") (l_cache s) = Some c
  /\ l_returned s = [(lit "a.test", c); (lit "a.test", mkCert 0 (SanDNS (lit "a.test")) 3000 7000 (lit "Martian Proxy") 1 1)].
Proof.
  eexists. eexists. split; [vm_compute; reflexivity|].
  split; [vm_compute; repeat constructor|]. vm_compute. split; reflexivity.
Qed.

(* a concrete violation is rejected clause by clause: a certificate with a DNS
   SAN for an IPv6 literal (the IP-SAN-only-for-IPv4 defect) fails cert_for_name
   AND x509_verify; the right certificate passes *)
Example C06_example_clause_failure :
  let bad := mkCert 0 (SanDNS (lit "::1")) 0 9000 (lit "Martian Proxy") 1 1 in
  let good := mkCert 0 (SanIP (lit "::1")) 0 9000 (lit "Martian Proxy") 1 1 in
  cert_for_name demo_ip bad (lit "::1") = false
  /\ x509_verify demo_ip demo_cfg bad (lit "::1") 5000 = false
  /\ answer_ok demo_ip demo_cfg (ApiForHost (lit "[::1]:443")) [] (lit "::1") (Issued bad) 5000 = false
  /\ answer_ok demo_ip demo_cfg (ApiForHost (lit "[::1]:443")) [] (lit "::1") (Issued good) 5000 = true.
Proof. vm_compute. repeat split; reflexivity. Qed.

(* Config OPTIONS that must not change the cache-reuse rule: SkipTLSVerify and
   SetH2Config.  Every certificate decision is the same function of (CA, key,
   organization, validity) whatever they are; so all theorems above — in
   particular C06_hit_only_if_still_valid and C06_expired_reissued — hold
   verbatim with SkipTLSVerify(true). *)
Theorem C06_options_do_not_enter_the_decision : forall parse_ip cfg cfg',
  cfg_ca cfg = cfg_ca cfg' /\ cfg_key cfg = cfg_key cfg' /\ cfg_org cfg = cfg_org cfg'
  /\ cfg_validity cfg = cfg_validity cfg' ->
  (forall c n t, x509_verify parse_ip cfg c n t = x509_verify parse_ip cfg' c n t)
  /\ (forall n h t1 t2, issue parse_ip cfg n h t1 t2 = issue parse_ip cfg' n h t1 t2)
  /\ (forall st a sni t t1 t2,
        get_cert parse_ip cfg st a sni t t1 t2 = get_cert parse_ip cfg' st a sni t t1 t2)
  /\ (forall s l, step parse_ip cfg s l = step parse_ip cfg' s l)
  /\ (forall a sni vname r tv,
        answer_ok parse_ip cfg a sni vname r tv = answer_ok parse_ip cfg' a sni vname r tv).
Proof. exact options_do_not_enter_the_decision. Qed.
Print Assumptions C06_options_do_not_enter_the_decision.

(* with SkipTLSVerify(true) and an H2 config: the expired entry is still replaced *)
Example C06_example_expiry_with_skip_verify :
  let cfg := mkConfig 1 1 (lit "Martian Proxy") 2000 true true in
  exists c0 c1,
  fst (run demo_ip cfg init_state
         [ mkReq ApiTLS (lit "a.test") 5400 5400 5400;
           mkReq ApiTLS (lit "a.test") 6900 6900 6900;
           mkReq ApiTLS (lit "a.test") 7001 7001 7001 ])
  = [Issued c0; Hit c0; Issued c1] /\ c_na c0 = 7000%Z /\ c_serial c1 = 1.
Proof. eexists. eexists. vm_compute. repeat split; reflexivity. Qed.
