(* C06 — theorem-audit round: totalisation facts, clause oracles, frame
   ("what must not change"), end-to-end statement per client spelling,
   every LTS execution is accepted by the oracle, and the backing of the
   after-join check (a cached certificate was handed to a requester of that
   name). *)
From Coq Require Import List ZArith NArith Bool Ascii Arith Lia.
From Martian.C06 Require Import Model Proofs_Strings Proofs.
Import ListNotations.

(* ---------------- totalisation: defaults are never what decides ---------------- *)

Lemma index_of_lt : forall c s e, index_of c s = Some e -> e < length s.
Proof.
  induction s as [|x s IH]; intros e H; cbn in H; [discriminate|].
  destruct (Ascii.eqb x c).
  - inversion H; subst. cbn. lia.
  - destruct (index_of c s) as [j|]; [|discriminate]. inversion H; subst.
    specialize (IH j eq_refl). cbn. lia.
Qed.

Lemma last_index_of_lt : forall c s i, last_index_of c s = Some i -> i < length s.
Proof.
  induction s as [|x s IH]; intros i H; cbn in H; [discriminate|].
  destruct (last_index_of c s) as [j|].
  - inversion H; subst. specialize (IH j eq_refl). cbn. lia.
  - destruct (Ascii.eqb x c); [|discriminate]. inversion H; subst. cbn. lia.
Qed.

(* the only [nth _ _ default] of the model (hostport[end+1]) is in range *)
Lemma split_nth_in_range : forall hp e d1 d2,
  index_of ch_rbr hp = Some e -> Nat.eqb (S e) (length hp) = false ->
  S e < length hp /\ nth (S e) hp d1 = nth (S e) hp d2.
Proof.
  intros hp e d1 d2 He Hne. apply index_of_lt in He. apply Nat.eqb_neq in Hne.
  assert (S e < length hp) by lia. split; [assumption|]. apply nth_indep. assumption.
Qed.

(* the only [last _ default] of the model is applied to a non-empty string *)
Lemma last_nonempty_indep : forall (l : str) d1 d2, l <> [] -> last l d1 = last l d2.
Proof.
  induction l as [|x l IH]; intros d1 d2 H; [congruence|].
  destruct l as [|y l]; [reflexivity|]. cbn [last]. apply IH. discriminate.
Qed.

(* the "unreachable" arm of split_host_port: a string with a colon is not empty *)
Lemma last_index_of_nil : forall c, last_index_of c [] = None.
Proof. reflexivity. Qed.

Lemma second_nonzero : second <> 0%Z.
Proof. unfold second. lia. Qed.

(* ---------------- net.SplitHostPort mirror: what an accepted split looks like ---------------- *)

Lemma last_index_split : forall c s i,
  last_index_of c s = Some i ->
  s = firstn i s ++ c :: skipn (S i) s /\ contains c (skipn (S i) s) = false.
Proof.
  induction s as [|x s IH]; intros i H; cbn in H; [discriminate|].
  destruct (last_index_of c s) as [j|] eqn:E.
  - inversion H; subst. destruct (IH j eq_refl) as [E1 E2]. cbn [firstn skipn app].
    split; [f_equal; exact E1|exact E2].
  - destruct (Ascii.eqb x c) eqn:Ex; [|discriminate]. inversion H; subst.
    apply Ascii.eqb_eq in Ex. subst x. cbn. split; [reflexivity|].
    apply last_none_iff. exact E.
Qed.

Lemma index_split : forall c s e,
  index_of c s = Some e ->
  s = firstn e s ++ c :: skipn (S e) s /\ contains c (firstn e s) = false.
Proof.
  induction s as [|x s IH]; intros e H; cbn in H; [discriminate|].
  destruct (Ascii.eqb x c) eqn:Ex.
  - inversion H; subst. apply Ascii.eqb_eq in Ex. subst x. cbn. split; reflexivity.
  - destruct (index_of c s) as [j|] eqn:E; [|discriminate]. inversion H; subst.
    destruct (IH j eq_refl) as [E1 E2]. cbn [firstn skipn app].
    split; [f_equal; exact E1|]. rewrite contains_cons, Ex, E2. reflexivity.
Qed.

(* Port removal removes a port and nothing else: an accepted split is
   host ":" port with a colon-free host, or "[" host "]:" port; the port has
   no colon.  (Soundness of the mirror w.r.t. the shape net.JoinHostPort writes.) *)
Lemma split_ok_shape : forall hp h p,
  split_host_port hp = SplitOk h p ->
  contains ch_colon p = false /\
  ((hp = h ++ ch_colon :: p /\ contains ch_colon h = false)
   \/ (hp = ch_lbr :: h ++ ch_rbr :: ch_colon :: p /\ contains ch_rbr h = false)).
Proof.
  intros hp h p H. unfold split_host_port in H.
  destruct (last_index_of ch_colon hp) as [i|] eqn:Ei; [|discriminate].
  destruct (last_index_split _ _ _ Ei) as [Esplit Hport].
  destruct hp as [|c0 tl] eqn:Ehp; [discriminate|]. rewrite <- Ehp in *.
  destruct (Ascii.eqb c0 ch_lbr) eqn:Ec0.
  - destruct (index_of ch_rbr hp) as [e|] eqn:Ee; [|discriminate].
    destruct (Nat.eqb (S e) (length hp)) eqn:El; [discriminate|].
    destruct (Nat.eqb (S e) i) eqn:Eie.
    2:{ destruct (Ascii.eqb (nth (S e) hp ch_dot) ch_colon); discriminate. }
    apply Nat.eqb_eq in Eie. subst i. unfold split_tail in H.
    destruct (contains ch_lbr (skipn 1 hp)); [discriminate|].
    destruct (contains ch_rbr (skipn (S e) hp)); [discriminate|].
    inversion H; subst h p; clear H. split; [exact Hport|]. right.
    destruct (index_split _ _ _ Ee) as [E1 E2].
    apply Ascii.eqb_eq in Ec0. subst c0.
    (* e >= 1 because hp[0] = '[' <> ']' *)
    destruct e as [|e'].
    { rewrite Ehp in Ee. cbn [index_of] in Ee. change (Ascii.eqb ch_lbr ch_rbr) with false in Ee.
      cbv iota in Ee. destruct (index_of ch_rbr tl); discriminate. }
    replace (S e' - 1) with e' by lia.
    assert (Hlen : S (S e') < length hp).
    { apply index_of_lt in Ee. apply Nat.eqb_neq in El. lia. }
    rewrite Ehp in E1, E2, Esplit, Hlen |- *.
    change (firstn (S e') (ch_lbr :: tl)) with (ch_lbr :: firstn e' tl) in E1, E2.
    change (skipn (S (S e')) (ch_lbr :: tl)) with (skipn (S e') tl) in E1.
    change (firstn (S (S e')) (ch_lbr :: tl)) with (ch_lbr :: firstn (S e') tl) in Esplit.
    change (skipn (S (S (S e'))) (ch_lbr :: tl)) with (skipn (S (S e')) tl) in Esplit |- *.
    change (skipn 1 (ch_lbr :: tl)) with tl.
    rewrite contains_cons in E2. apply orb_false_iff in E2 as [_ E2].
    split; [|exact E2].
    assert (E1' : tl = firstn e' tl ++ ch_rbr :: skipn (S e') tl).
    { change ((ch_lbr :: firstn e' tl) ++ ch_rbr :: skipn (S e') tl)
        with (ch_lbr :: (firstn e' tl ++ ch_rbr :: skipn (S e') tl)) in E1. congruence. }
    assert (Es' : tl = firstn (S e') tl ++ ch_colon :: skipn (S (S e')) tl).
    { change ((ch_lbr :: firstn (S e') tl) ++ ch_colon :: skipn (S (S e')) tl)
        with (ch_lbr :: (firstn (S e') tl ++ ch_colon :: skipn (S (S e')) tl)) in Esplit. congruence. }
    assert (Hsk : skipn (S e') tl = ch_colon :: skipn (S (S e')) tl).
    { assert (HlenA : length (firstn (S e') tl) = S e').
      { apply firstn_length_le. cbn in Hlen. lia. }
      remember (firstn (S e') tl) as A eqn:EA. remember (skipn (S (S e')) tl) as B eqn:EB.
      transitivity (skipn (length A) (A ++ ch_colon :: B)).
      - rewrite HlenA, <- Es'. reflexivity.
      - apply skipn_len_app. }
    change (ch_lbr :: tl = ch_lbr :: firstn e' tl ++ ch_rbr :: ch_colon :: skipn (S (S e')) tl).
    rewrite <- Hsk, <- E1'. reflexivity.
  - destruct (contains ch_colon (firstn i hp)) eqn:Eh; [discriminate|].
    unfold split_tail in H.
    destruct (contains ch_lbr (skipn 0 hp)); [discriminate|].
    destruct (contains ch_rbr (skipn 0 hp)); [discriminate|].
    inversion H; subst h p; clear H. split; [exact Hport|]. left. split; [exact Esplit|exact Eh].
Qed.

(* cert(): when the port removal applies, the certificate name is the host
   part of the authority; otherwise the name is kept unchanged *)
Lemma normalize_cases : forall hp,
  (exists p, (hp = normalize hp ++ ch_colon :: p
              \/ hp = ch_lbr :: normalize hp ++ ch_rbr :: ch_colon :: p)
             /\ contains ch_colon p = false)
  \/ normalize hp = hp.
Proof.
  intro hp. unfold normalize. destruct (split_host_port hp) as [h p|e] eqn:E; [|right; reflexivity].
  left. exists p. destruct (split_ok_shape _ _ _ E) as [Hp [[H1 _]|[H1 _]]]; auto.
Qed.

Section WithParseIP.

Variable parse_ip : str -> option str.
Hypothesis parse_ip_unbracketed :
  forall h c, parse_ip h = Some c -> strip_brackets h = h.

(* ---------------- clause oracles: each boolean the driver names is its Prop ---------------- *)

Lemma cert_for_name_iff : forall c h,
  cert_for_name parse_ip c h = true <-> c_san c = san_for parse_ip h.
Proof. intros. unfold cert_for_name. apply san_eqb_eq. Qed.

Lemma cert_org_ok_iff : forall cfg c, cert_org_ok cfg c = true <-> c_org c = cfg_org cfg.
Proof. intros. unfold cert_org_ok. apply str_eqb_eq. Qed.

Lemma cert_key_ok_iff : forall cfg c, cert_key_ok cfg c = true <-> c_key c = cfg_key cfg.
Proof. intros. unfold cert_key_ok. apply N.eqb_eq. Qed.

Lemma chains_iff : forall cfg c, chains cfg c = true <-> c_signer c = cfg_ca cfg.
Proof. intros. unfold chains. apply N.eqb_eq. Qed.

Lemma in_window_iff : forall c t, in_window c t = true <-> (c_nb c <= t <= c_na c)%Z.
Proof. intros. unfold in_window. rewrite andb_true_iff, !Z.leb_le. tauto. Qed.

Lemma x509_verify_iff : forall cfg c name t,
  x509_verify parse_ip cfg c name t = true <->
  c_signer c = cfg_ca cfg /\ (c_nb c <= t <= c_na c)%Z
  /\ (name = [] \/ host_matches parse_ip (c_san c) name = true).
Proof.
  intros cfg c name t. unfold x509_verify.
  rewrite !andb_true_iff, chains_iff, in_window_iff.
  destruct name as [|x name]; cbn [is_empty]; split.
  - intros [[H1 H2] _]. auto.
  - intros [H1 [H2 _]]. auto.
  - intros [[H1 H2] H3]. auto.
  - intros [H1 [H2 [H3|H3]]]; [discriminate|auto].
Qed.

(* the order in which the driver names a failing clause is a decomposition of answer_ok *)
Lemma answer_ok_components : forall cfg a sni vname r tv h c,
  req_name a sni = Some h -> (r = Hit c \/ r = Issued c) ->
  answer_ok parse_ip cfg a sni vname r tv =
  (cert_for_name parse_ip c h && cert_org_ok cfg c && cert_key_ok cfg c
   && (chains cfg c && in_window c tv
       && (if is_empty vname then true else host_matches parse_ip (c_san c) vname)))%bool.
Proof.
  intros cfg a sni vname r tv h c Hn [-> | ->]; unfold answer_ok; rewrite Hn; reflexivity.
Qed.

(* a PROPFAIL is a violation: each clause the driver can name, when it fails
   on the observation, falsifies the per-answer statement *)
Lemma clause_failure_is_violation : forall cfg a sni vname r tv,
  (* refuse_when_no_name *)
  (req_name a sni = None -> r <> Refused -> ~ answer_prop parse_ip cfg a sni vname r tv)
  /\ (* handshake_refused_for_real_name *)
  (forall h, req_name a sni = Some h -> issuable parse_ip h = true -> r = Refused ->
     ~ answer_prop parse_ip cfg a sni vname r tv)
  /\ (* never_other_name, organization, key_held_by_proxy, chains_to_ca, verifies_for_host_at_handshake *)
  (forall h c, req_name a sni = Some h -> (r = Hit c \/ r = Issued c) ->
     (cert_for_name parse_ip c h = false \/ cert_org_ok cfg c = false \/ cert_key_ok cfg c = false
      \/ chains cfg c = false \/ x509_verify parse_ip cfg c vname tv = false) ->
     ~ answer_prop parse_ip cfg a sni vname r tv).
Proof.
  intros cfg a sni vname r tv. repeat split.
  - intros Hn Hr Hp. unfold answer_prop in Hp. rewrite Hn in Hp. contradiction.
  - intros h Hn Hi -> Hp. unfold answer_prop in Hp. rewrite Hn in Hp. congruence.
  - intros h c Hn Hr Hbad Hp. apply answer_ok_iff in Hp.
    rewrite (answer_ok_components cfg a sni vname r tv h c Hn Hr) in Hp.
    apply andb_true_iff in Hp as [Hp Hx]. apply andb_true_iff in Hp as [Hp Hk].
    apply andb_true_iff in Hp as [Hs Ho].
    assert (Hx' : x509_verify parse_ip cfg c vname tv = true) by exact Hx.
    assert (Hc : chains cfg c = true).
    { unfold x509_verify in Hx'. apply andb_true_iff in Hx' as [Hx' _].
      apply andb_true_iff in Hx' as [Hx' _]. exact Hx'. }
    destruct Hbad as [B|[B|[B|[B|B]]]]; congruence.
Qed.

(* ---------------- verifiable names from their shape ---------------- *)

Lemma strip_brackets_no_lbr : forall v, contains ch_lbr v = false -> strip_brackets v = v.
Proof.
  intros [|x v] H; [reflexivity|]. rewrite contains_cons in H.
  apply orb_false_iff in H as [Hx _]. unfold strip_brackets. rewrite Hx. reflexivity.
Qed.

Lemma verifiable_of_shape : forall v,
  empty_or_dot v = false -> contains ch_lbr v = false -> verifiable_name parse_ip v = true.
Proof.
  intros v Hne Hl. unfold verifiable_name, bracketed_ip. rewrite Hne.
  rewrite (strip_brackets_no_lbr v Hl). destruct (is_ip parse_ip v); reflexivity.
Qed.

(* every way a client may name host v *)
Inductive spelling (v p : str) : api -> str -> Prop :=
| sp_sni_tls : contains ch_colon v = false -> spelling v p ApiTLS v
| sp_sni_forhost : forall other, contains ch_colon v = false -> spelling v p (ApiForHost other) v
| sp_bare : spelling v p (ApiForHost v) []
| sp_port : spelling v p (ApiForHost (join_host_port v p)) [].

Lemma spelling_req_name : forall v p a sni,
  v <> [] -> no_brackets v -> plain p ->
  (contains ch_colon v = false \/ two_colons v) ->
  spelling v p a sni -> req_name a sni = Some v.
Proof.
  intros v p a sni Hne Hnb Hp Hshape Hs.
  destruct (every_spelling_names_the_host v p Hne Hnb Hp Hshape) as [H1 [H2 [H3 _]]].
  destruct Hs; auto.
Qed.

(* THE statement of the property for one handshake: whatever spelling of v
   the client used, under every interleaving with any other requesters, the
   certificate it is handed was minted for v, verifies for v at the time it
   is decided, carries the configured organization and key, and is signed by
   the configured CA. *)
Lemma client_end_to_end : forall cfg k s i v p a sni r t c,
  v <> [] -> empty_or_dot v = false -> no_brackets v -> plain p ->
  (contains ch_colon v = false \/ two_colons v) ->
  spelling v p a sni ->
  (second <= cfg_validity cfg)%Z ->
  reachable parse_ip cfg k s -> returned s i a sni r t -> (r = Hit c \/ r = Issued c) ->
  c_san c = san_for parse_ip v /\ c_org c = cfg_org cfg /\ c_key c = cfg_key cfg
  /\ c_signer c = cfg_ca cfg /\ x509_verify parse_ip cfg c v t = true.
Proof.
  intros cfg k s i v p a sni r t c Hne Hnd Hnb Hp Hshape Hs Hval Hr Hret Hx.
  pose proof (spelling_req_name v p a sni Hne Hnb Hp Hshape Hs) as Hn.
  assert (Hv : verifiable_name parse_ip v = true) by (apply verifiable_of_shape; [exact Hnd|apply Hnb]).
  destruct (lts_returned_cert_verifies parse_ip parse_ip_unbracketed cfg k s i a sni r t c v
              Hr Hret Hx Hn Hv Hval) as [H1 [H2 [H3 [H4 [H5 _]]]]].
  auto.
Qed.

(* and it is never refused (the handshake can complete) when the name can be encoded *)
Lemma client_never_refused : forall cfg k s i v p a sni t,
  v <> [] -> no_brackets v -> plain p ->
  (contains ch_colon v = false \/ two_colons v) ->
  spelling v p a sni -> issuable parse_ip v = true ->
  reachable parse_ip cfg k s -> ~ returned s i a sni Refused t.
Proof.
  intros cfg k s i v p a sni t Hne Hnb Hp Hshape Hs Hi Hr Hret.
  pose proof (spelling_req_name v p a sni Hne Hnb Hp Hshape Hs) as Hn.
  destruct (lts_refused_only_without_name parse_ip cfg k s i a sni t Hr Hret) as [H|[h [H1 H2]]];
    congruence.
Qed.

(* ---------------- frame: what a step does NOT change ---------------- *)

Definition label_thread (l : label) : nat :=
  match l with
  | LBegin i _ _ | LLookup i | LVerify i _ | LIssue i _ _ | LStore i | LReturn i => i
  end.

Lemma step_frame : forall cfg s l s',
  step parse_ip cfg s l = Some s' ->
  (* other requesters are untouched *)
  (forall j, j <> label_thread l -> nth_error (l_threads s') j = nth_error (l_threads s) j)
  (* the cache changes only by a Store, and only at the storing requester's own name *)
  /\ (forall k, cache_get k (l_cache s') <> cache_get k (l_cache s) ->
        exists i th c t, l = LStore i /\ nth_error (l_threads s) i = Some th
                         /\ th_pc th = Made k c t /\ cache_get k (l_cache s') = Some c)
  (* certificates are only ever added to the history, one per Issue *)
  /\ (l_issued s' = l_issued s \/ exists c, l_issued s' = l_issued s ++ [c])
  (* the clock never goes back *)
  /\ (l_now s <= l_now s')%Z.
Proof.
  intros cfg s l s' H.
  destruct l as [i a sni|i|i t|i t1 t2|i|i]; cbn in H;
    destruct (nth_error (l_threads s) i) as [th|] eqn:Eth; try discriminate;
    destruct (th_pc th) as [|h|h f|h|h c t'|r t'] eqn:Epc; try discriminate.
  - inversion H; subst; clear H. cbn. repeat split; auto; try lia.
    + intros j Hj. apply nth_error_set_nth_other. cbn in Hj. congruence.
    + intros k Hk. congruence.
  - inversion H; subst; clear H. cbn. repeat split; auto; try lia.
    + intros j Hj. apply nth_error_set_nth_other. cbn in Hj. congruence.
    + intros k Hk. congruence.
  - destruct (Z.leb (l_now s) t) eqn:Et; [|discriminate]. apply Z.leb_le in Et.
    assert (Hgen : forall p, Some (upd (mkLts (l_cache s) (l_issued s) t (l_threads s) (l_returned s)) i (with_pc th p)) = Some s' ->
       (forall j, j <> i -> nth_error (l_threads s') j = nth_error (l_threads s) j)
       /\ (forall k, cache_get k (l_cache s') <> cache_get k (l_cache s) ->
             exists i0 th0 c t0, LVerify i t = LStore i0 /\ nth_error (l_threads s) i0 = Some th0
                         /\ th_pc th0 = Made k c t0 /\ cache_get k (l_cache s') = Some c)
       /\ (l_issued s' = l_issued s \/ exists c, l_issued s' = l_issued s ++ [c])
       /\ (l_now s <= l_now s')%Z).
    { intros p Hp. inversion Hp; subst; clear Hp. cbn. repeat split; auto.
      - intros j Hj. apply nth_error_set_nth_other. congruence.
      - intros k Hk. congruence. }
    destruct f as [c|]; [destruct (x509_verify parse_ip cfg c h t)|]; eapply Hgen; exact H.
  - destruct (Z.leb (l_now s) t1 && Z.leb t1 t2)%bool eqn:Et; [|discriminate].
    apply andb_true_iff in Et as [Et1 Et2]. apply Z.leb_le in Et1. apply Z.leb_le in Et2.
    destruct (issuable parse_ip h); inversion H; subst; clear H; cbn; repeat split; auto; try lia.
    + intros j Hj. apply nth_error_set_nth_other. cbn in Hj. congruence.
    + intros k Hk. congruence.
    + right. eexists. reflexivity.
    + intros j Hj. apply nth_error_set_nth_other. cbn in Hj. congruence.
    + intros k Hk. congruence.
  - inversion H; subst; clear H. cbn [l_cache l_issued l_threads l_now label_thread].
    repeat split; auto; try lia.
    + intros j Hj. apply nth_error_set_nth_other. congruence.
    + intros k Hk. destruct (str_eqb h k) eqn:Ek.
      * apply str_eqb_eq in Ek. subst k. exists i, th, c, t'.
        rewrite cache_get_put_same. auto.
      * rewrite (cache_get_put_other k h _ _ Ek) in Hk. congruence.
  - inversion H; subst; clear H. cbn. repeat split; auto; try lia.
    + intros j Hj. apply nth_error_set_nth_other. cbn in Hj. congruence.
    + intros k Hk. congruence.
Qed.

(* sequential form: a request touches at most the entry of its own name;
   hits and refusals change nothing *)
Lemma seq_frame : forall cfg st a sni t t1 t2 r st',
  get_cert parse_ip cfg st a sni t t1 t2 = (r, st') ->
  (forall k, req_name a sni <> Some k -> cache_get k (st_cache st') = cache_get k (st_cache st))
  /\ (match r with Issued _ => True | _ => st' = st end).
Proof.
  intros cfg st a sni t t1 t2 r st' H. unfold get_cert in H.
  destruct (req_name a sni) as [h|] eqn:En.
  2:{ inversion H; subst. split; auto. }
  assert (Hm : forall r st', miss parse_ip cfg st h t1 t2 = (r, st') ->
     (forall k, Some h <> Some k -> cache_get k (st_cache st') = cache_get k (st_cache st))
     /\ (match r with Issued _ => True | _ => st' = st end)).
  { clear H r st'. intros r st' H. unfold miss in H.
    destruct (issuable parse_ip h); inversion H; subst; clear H; cbn [st_cache]; split; auto.
    intros k Hk. apply cache_get_put_other. apply str_eqb_neq. congruence. }
  destruct (cache_get h (st_cache st)) as [c|].
  - destruct (x509_verify parse_ip cfg c h t).
    + inversion H; subst. split; auto.
    + apply Hm. exact H.
  - apply Hm. exact H.
Qed.

(* ---------------- every execution of the LTS is accepted by the oracle ---------------- *)

Definition name_or_empty (a : api) (sni : str) : str :=
  match req_name a sni with Some h => h | None => [] end.

Lemma lts_answers_accepted : forall cfg k s i a sni r t,
  reachable parse_ip cfg k s -> returned s i a sni r t ->
  (forall h, req_name a sni = Some h -> verifiable_name parse_ip h = true) ->
  (second <= cfg_validity cfg)%Z ->
  answer_ok parse_ip cfg a sni (name_or_empty a sni) r t = true.
Proof.
  intros cfg k s i a sni r t Hr Hret Hv Hval. apply answer_ok_iff.
  unfold answer_prop, name_or_empty.
  destruct (req_name a sni) as [h|] eqn:En.
  - destruct r as [|c|c].
    + destruct (lts_refused_only_without_name parse_ip cfg k s i a sni t Hr Hret) as [H|[h' [H1 H2]]];
        congruence.
    + destruct (lts_returned_cert_verifies parse_ip parse_ip_unbracketed cfg k s i a sni (Hit c) t c h
                  Hr Hret (or_introl eq_refl) En (Hv h eq_refl) Hval) as [H1 [H2 [H3 [_ [H5 _]]]]]. auto.
    + destruct (lts_returned_cert_verifies parse_ip parse_ip_unbracketed cfg k s i a sni (Issued c) t c h
                  Hr Hret (or_intror eq_refl) En (Hv h eq_refl) Hval) as [H1 [H2 [H3 [_ [H5 _]]]]]. auto.
  - destruct Hret as [th [Hn [Ha [Hs Hp]]]].
    destruct (reachable_inv parse_ip cfg k s Hr) as [_ Ht].
    pose proof (Forall_nth_error _ _ _ _ Ht Hn) as Hth. unfold thread_ok in Hth.
    rewrite Hp, Ha, Hs in Hth.
    destruct r as [|c|c]; [reflexivity| |]; destruct Hth as [h [H1 _]]; congruence.
Qed.

(* ---------------- a cached certificate was handed to a requester of that name ---------------- *)

Definition Inv2 (cfg : config) (s : lts) : Prop :=
  forall h c, cache_get h (l_cache s) = Some c ->
    (exists i th t, nth_error (l_threads s) i = Some th /\ th_pc th = Done (Issued c) t
                    /\ req_name (th_api th) (th_sni th) = Some h)
    \/ In (h, c) (l_returned s).

Lemma step_inv2 : forall cfg s l s',
  Inv parse_ip cfg s -> Inv2 cfg s -> step parse_ip cfg s l = Some s' -> Inv2 cfg s'.
Proof.
  intros cfg s l s' [_ Ht] H2 H.
  (* a witness requester j stays a witness unless it is the stepping one *)
  assert (Hkeep : forall i (threads' : list thread) ret' h c,
            (forall j, j <> i -> nth_error threads' j = nth_error (l_threads s) j) ->
            (forall x, In x (l_returned s) -> In x ret') ->
            (forall th t, nth_error (l_threads s) i = Some th -> th_pc th = Done (Issued c) t ->
                          req_name (th_api th) (th_sni th) = Some h -> In (h, c) ret') ->
            ((exists j th t, nth_error (l_threads s) j = Some th /\ th_pc th = Done (Issued c) t
                             /\ req_name (th_api th) (th_sni th) = Some h)
             \/ In (h, c) (l_returned s)) ->
            (exists j th t, nth_error threads' j = Some th /\ th_pc th = Done (Issued c) t
                            /\ req_name (th_api th) (th_sni th) = Some h)
            \/ In (h, c) ret').
  { intros i threads' ret' h c Hoth Hret Hself [[j [th [t [Hn [Hp Hr]]]]]|Hin].
    - destruct (Nat.eq_dec j i) as [->|Hne].
      + right. eapply Hself; eauto.
      + left. exists j, th, t. rewrite (Hoth j Hne). auto.
    - right. apply Hret. exact Hin. }
  destruct l as [i a sni|i|i t|i t1 t2|i|i]; cbn in H;
    destruct (nth_error (l_threads s) i) as [th|] eqn:Eth; try discriminate;
    pose proof (Forall_nth_error _ _ _ _ Ht Eth) as Hth; unfold thread_ok in Hth;
    destruct (th_pc th) as [|h0 |h0 f|h0 |h0 c0 t'|r t'] eqn:Epc; try discriminate.
  - inversion H; subst; clear H. intros h c Hc. cbn in *.
    eapply (Hkeep i); eauto.
    + intros j Hj. apply nth_error_set_nth_other. congruence.
    + intros th0 t0 E0 P0. rewrite Eth in E0. inversion E0; subst. congruence.
  - inversion H; subst; clear H. intros h c Hc. cbn in *.
    eapply (Hkeep i); eauto.
    + intros j Hj. apply nth_error_set_nth_other. congruence.
    + intros th0 t0 E0 P0. rewrite Eth in E0. inversion E0; subst. congruence.
  - destruct (Z.leb (l_now s) t); [|discriminate].
    assert (Hgen : forall p, Some (upd (mkLts (l_cache s) (l_issued s) t (l_threads s) (l_returned s)) i (with_pc th p)) = Some s' ->
              Inv2 cfg s').
    { intros p Hp. inversion Hp; subst; clear Hp. intros h c Hc. cbn in *.
      eapply (Hkeep i); eauto.
      + intros j Hj. apply nth_error_set_nth_other. congruence.
      + intros th0 t0 E0 P0. rewrite Eth in E0. inversion E0; subst. congruence. }
    destruct f as [c|]; [destruct (x509_verify parse_ip cfg c h0 t)|]; eapply Hgen; exact H.
  - destruct (Z.leb (l_now s) t1 && Z.leb t1 t2)%bool; [|discriminate].
    destruct (issuable parse_ip h0); inversion H; subst; clear H; intros h c Hc; cbn in *;
      (eapply (Hkeep i); eauto;
       [intros j Hj; apply nth_error_set_nth_other; congruence
       |intros th0 t0 E0 P0; rewrite Eth in E0; inversion E0; subst; congruence]).
  - inversion H; subst; clear H. destruct Hth as [Hn _]. intros h c Hc.
    cbn [l_cache l_threads l_returned] in *.
    destruct (str_eqb h0 h) eqn:Ek.
    + apply str_eqb_eq in Ek. subst h0. rewrite cache_get_put_same in Hc. inversion Hc; subst c0.
      left. exists i, (with_pc th (Done (Issued c) t')), t'.
      split; [eapply nth_error_set_nth_same; eauto|]. cbn. auto.
    + rewrite (cache_get_put_other h h0 _ _ Ek) in Hc.
      eapply (Hkeep i); eauto.
      * intros j Hj. apply nth_error_set_nth_other. congruence.
      * intros th0 t0 E0 P0. rewrite Eth in E0. inversion E0; subst. congruence.
  - inversion H; subst; clear H. intros h c Hc. cbn [l_cache l_threads l_returned] in *.
    eapply (Hkeep i); eauto.
    + intros j Hj. apply nth_error_set_nth_other. congruence.
    + intros x Hx. apply in_or_app. left. exact Hx.
    + intros th0 t0 E0 P0 R0. rewrite Eth in E0. inversion E0; subst th0.
      rewrite Epc in P0. inversion P0; subst. rewrite R0. cbn. apply in_or_app. right. left. reflexivity.
Qed.

Lemma exec_inv2 : forall cfg ls s s',
  Inv parse_ip cfg s -> Inv2 cfg s -> exec parse_ip cfg s ls = Some s' -> Inv2 cfg s'.
Proof.
  intros cfg ls. induction ls as [|l ls IH]; intros s s' Hi H2 H; cbn in H.
  - inversion H; subst. exact H2.
  - destruct (step parse_ip cfg s l) as [s1|] eqn:E; [|discriminate].
    eapply IH; [eapply step_inv; eauto|eapply step_inv2; eauto|exact H].
Qed.

Definition quiescent (s : lts) : Prop := Forall (fun th => th_pc th = Idle) (l_threads s).

(* after all requesters have returned, whatever the cache holds for a name is
   a certificate that was handed to a requester of that name: a later cache
   hit can only be such an object (this is what the driver's after-join check
   [final_hit_known] demands of the real code) *)
Lemma lts_quiescent_cache_was_returned : forall cfg k s h c,
  reachable parse_ip cfg k s -> quiescent s ->
  cache_get h (l_cache s) = Some c -> In (h, c) (l_returned s).
Proof.
  intros cfg k s h c [ls Hr] Hq Hc.
  assert (H2 : Inv2 cfg s).
  { eapply exec_inv2; [apply inv_init| |exact Hr]. intros h0 c0 H0. discriminate. }
  destruct (H2 h c Hc) as [[i [th [t [Hn [Hp _]]]]]|Hin]; [|exact Hin].
  pose proof (Forall_nth_error _ _ _ _ Hq Hn) as Hidle. cbn in Hidle. congruence.
Qed.

(* ---------------- options that must not matter ---------------- *)

Definition same_cert_params (cfg cfg' : config) : Prop :=
  cfg_ca cfg = cfg_ca cfg' /\ cfg_key cfg = cfg_key cfg' /\ cfg_org cfg = cfg_org cfg'
  /\ cfg_validity cfg = cfg_validity cfg'.

(* SkipTLSVerify and the H2 configuration occur in no certificate decision:
   re-verification of a hit, minting, the whole GetCertificate and every step
   of every requester are the same function of (CA, key, organization,
   validity) whatever those options are.  In particular an expired cached
   certificate is re-minted with SkipTLSVerify(true) exactly as without. *)
Lemma options_do_not_enter_the_decision : forall cfg cfg',
  same_cert_params cfg cfg' ->
  (forall c n t, x509_verify parse_ip cfg c n t = x509_verify parse_ip cfg' c n t)
  /\ (forall n h t1 t2, issue parse_ip cfg n h t1 t2 = issue parse_ip cfg' n h t1 t2)
  /\ (forall st a sni t t1 t2,
        get_cert parse_ip cfg st a sni t t1 t2 = get_cert parse_ip cfg' st a sni t t1 t2)
  /\ (forall s l, step parse_ip cfg s l = step parse_ip cfg' s l)
  /\ (forall a sni vname r tv,
        answer_ok parse_ip cfg a sni vname r tv = answer_ok parse_ip cfg' a sni vname r tv).
Proof.
  intros [ca k o v sk h2] [ca' k' o' v' sk' h2'] [H1 [H2 [H3 H4]]]. cbn in *. subst.
  repeat split; reflexivity.
Qed.

End WithParseIP.
