(* C11 — basic facts: big-endian lengths, list surgery, boolean equalities,
   the strict stream parser is the inverse of [wire]. *)
From Coq Require Import List NArith Bool Arith Ascii Lia ZArith.
From Martian.C11 Require Import Model.
Import ListNotations.

Ltac dlia := zify; Z.to_euclidean_division_equations; lia.

(* ---------------- bytes and big-endian ---------------- *)

Lemma N_of_ascii_byte_of_N n : N_of_ascii (byte_of_N n) = (n mod 256)%N.
Proof. unfold byte_of_N. apply N_ascii_embedding. apply N.mod_lt. discriminate. Qed.

Lemma N_of_be32_be32 n :
  (n < 4294967296)%N ->
  N_of_be32 (byte_of_N (n / 16777216)) (byte_of_N (n / 65536)) (byte_of_N (n / 256)) (byte_of_N n) = n.
Proof.
  intros Hn. unfold N_of_be32. rewrite !N_of_ascii_byte_of_N. dlia.
Qed.

Lemma be32_N_of_be32 a b c d : be32 (N_of_be32 a b c d) = [a; b; c; d].
Proof.
  pose proof (N_ascii_bounded a) as Ha. pose proof (N_ascii_bounded b) as Hb.
  pose proof (N_ascii_bounded c) as Hc. pose proof (N_ascii_bounded d) as Hd.
  unfold be32, byte_of_N, N_of_be32.
  set (x := (N_of_ascii a * 16777216 + N_of_ascii b * 65536 + N_of_ascii c * 256 + N_of_ascii d)%N).
  replace ((x / 16777216) mod 256)%N with (N_of_ascii a) by (subst x; dlia).
  replace ((x / 65536) mod 256)%N with (N_of_ascii b) by (subst x; dlia).
  replace ((x / 256) mod 256)%N with (N_of_ascii c) by (subst x; dlia).
  replace (x mod 256)%N with (N_of_ascii d) by (subst x; dlia).
  now rewrite !ascii_N_embedding.
Qed.

Lemma N_of_be32_lt a b c d : (N_of_be32 a b c d < 4294967296)%N.
Proof.
  pose proof (N_ascii_bounded a). pose proof (N_ascii_bounded b).
  pose proof (N_ascii_bounded c). pose proof (N_ascii_bounded d).
  unfold N_of_be32. lia.
Qed.

Lemma be32_length n : length (be32 n) = 4.
Proof. reflexivity. Qed.

Lemma be32_inj n m :
  (n < 4294967296)%N -> (m < 4294967296)%N -> be32 n = be32 m -> n = m.
Proof.
  intros Hn Hm H. rewrite <- (N_of_be32_be32 n Hn), <- (N_of_be32_be32 m Hm).
  unfold be32 in H. injection H as H1 H2 H3 H4. now rewrite H1, H2, H3, H4.
Qed.

Lemma ascii_eqb_eq a b : ascii_eqb a b = true <-> a = b.
Proof.
  unfold ascii_eqb. rewrite N.eqb_eq. split; [|now intros ->].
  intros H. rewrite <- (ascii_N_embedding a), <- (ascii_N_embedding b). now rewrite H.
Qed.

Lemma ascii_eqb_refl a : ascii_eqb a a = true.
Proof. now apply ascii_eqb_eq. Qed.

Lemma bytes_eqb_eq a b : bytes_eqb a b = true <-> a = b.
Proof.
  revert b. induction a as [|x a IH]; destruct b as [|y b]; cbn; try (split; congruence).
  rewrite andb_true_iff, ascii_eqb_eq, IH. split; [intros [-> ->]; reflexivity|].
  intros H. injection H as -> ->. now split.
Qed.

Lemma flag_byte_inj c c' : flag_byte c = flag_byte c' -> c = c'.
Proof. destruct c, c'; unfold flag_byte, one, zero; intros H; try reflexivity; discriminate H. Qed.

Lemma flag_of_flag_byte c : negb (ascii_eqb (flag_byte c) zero) = c.
Proof. now destruct c. Qed.

Lemma flag_byte_strict c : ascii_eqb (flag_byte c) zero || ascii_eqb (flag_byte c) one = true.
Proof. now destruct c. Qed.

Lemma strict_flag_byte c :
  ascii_eqb c zero || ascii_eqb c one = true -> flag_byte (negb (ascii_eqb c zero)) = c.
Proof.
  destruct (ascii_eqb c zero) eqn:H0; cbn.
  - intros _. apply ascii_eqb_eq in H0. now subst.
  - intros H1. apply ascii_eqb_eq in H1. now subst.
Qed.

(* ---------------- lists ---------------- *)

Lemma firstn_length_app {A} (p x : list A) : firstn (length p) (p ++ x) = p.
Proof. induction p; cbn; [now destruct x|]. now rewrite IHp. Qed.

Lemma skipn_length_app {A} (p x : list A) : skipn (length p) (p ++ x) = x.
Proof. induction p; cbn; [reflexivity|]. exact IHp. Qed.

Lemma is_nil_true {A} (l : list A) : is_nil l = true <-> l = [].
Proof. destruct l; cbn; split; congruence. Qed.

Lemma is_nil_false {A} (l : list A) : is_nil l = false <-> l <> [].
Proof. destruct l; cbn; split; congruence. Qed.

(* a shorter left operand is a prefix of the other left operand *)
Lemma app_eq_app_shorter {A} (x1 x2 y1 y2 : list A) :
  x1 ++ x2 = y1 ++ y2 -> length x1 <= length y1 -> exists l, y1 = x1 ++ l /\ x2 = l ++ y2.
Proof.
  intros H Hl. destruct (app_eq_app _ _ _ _ H) as [l [[H1 H2]|[H1 H2]]].
  - subst x1. rewrite app_length in Hl. destruct l as [|a l]. 2:{ cbn in Hl. lia. }
    exists []. rewrite !app_nil_r. cbn in H2. subst. split; reflexivity.
  - now exists l.
Qed.

Lemma app_inv_length {A} (x1 x2 y1 y2 : list A) :
  x1 ++ x2 = y1 ++ y2 -> length x1 = length y1 -> x1 = y1 /\ x2 = y2.
Proof.
  revert y1. induction x1 as [|a x1 IH]; destruct y1 as [|b y1]; cbn; try discriminate; auto.
  intros H Hl. injection H as -> H. injection Hl as Hl. destruct (IH _ H Hl) as [-> ->]. auto.
Qed.

(* ---------------- wire ---------------- *)

Lemma frame_msg_length c p : length (frame_msg c p) = 5 + length p.
Proof. unfold frame_msg, be32. cbn. reflexivity. Qed.

Lemma wire1_length m : length (wire1 m) = 5 + length (mpayload m).
Proof. apply frame_msg_length. Qed.

Lemma wire_cons m ms : wire (m :: ms) = wire1 m ++ wire ms.
Proof. reflexivity. Qed.

Lemma wire_app a b : wire (a ++ b) = wire a ++ wire b.
Proof. unfold wire. apply flat_map_app. Qed.

Lemma wire_nil_inv ms : wire ms = [] -> ms = [].
Proof. destruct ms as [|m ms]; [reflexivity|]. rewrite wire_cons. unfold wire1, frame_msg. discriminate. Qed.

Lemma wire_length_ge ms : length ms <= length (wire ms).
Proof.
  induction ms as [|m ms IH]; [cbn; lia|].
  rewrite wire_cons, app_length, wire1_length. cbn [length]. lia.
Qed.

Lemma len32_true b : len32 b = true <-> (N.of_nat (length b) < 4294967296)%N.
Proof. unfold len32. apply N.ltb_lt. Qed.

(* ---------------- the strict parser inverts [wire] ---------------- *)

Lemma parse_wire_complete ms : forall fuel,
  Forall (fun m => len32 (mpayload m) = true) ms -> length ms < fuel ->
  parse_wire fuel (wire ms) = Some ms.
Proof.
  induction ms as [|m ms IH]; intros fuel Hwf Hf.
  - destruct fuel; [lia|reflexivity].
  - destruct fuel as [|f]; [lia|]. inversion Hwf as [|? ? Hm Hms]; subst.
    apply len32_true in Hm. destruct m as [c p]. cbn [mpayload mflag] in *.
    rewrite wire_cons. unfold wire1, frame_msg, be32. cbn [mflag mpayload app parse_wire].
    rewrite (N_of_be32_be32 _ Hm), flag_byte_strict. cbn [andb].
    rewrite app_length.
    replace (N.of_nat (length p) <=? N.of_nat (length p + length (wire ms)))%N with true
      by (symmetry; apply N.leb_le; lia).
    rewrite Nat2N.id, skipn_length_app, firstn_length_app, flag_of_flag_byte.
    rewrite IH by (auto; cbn in Hf; lia). reflexivity.
Qed.

Lemma parse_wire_sound : forall fuel b ms,
  parse_wire fuel b = Some ms ->
  b = wire ms /\ Forall (fun m => len32 (mpayload m) = true) ms.
Proof.
  induction fuel as [|f IH]; intros b ms H; [discriminate|].
  cbn [parse_wire] in H.
  destruct b as [|c [|l1 [|l2 [|l3 [|l4 rest]]]]]; try discriminate.
  - injection H as <-. split; [reflexivity|constructor].
  - destruct (ascii_eqb c zero || ascii_eqb c one) eqn:Hc; cbn [andb] in H; [|discriminate].
    destruct (N.leb (N_of_be32 l1 l2 l3 l4) (N.of_nat (length rest))) eqn:Hle; [|discriminate].
    destruct (parse_wire f (skipn (N.to_nat (N_of_be32 l1 l2 l3 l4)) rest)) as [ms'|] eqn:Hp; [|discriminate].
    injection H as <-. apply IH in Hp. destruct Hp as [Hw Hwf].
    apply N.leb_le in Hle.
    assert (Hk : N.to_nat (N_of_be32 l1 l2 l3 l4) <= length rest) by lia.
    assert (Hlen : length (firstn (N.to_nat (N_of_be32 l1 l2 l3 l4)) rest) = N.to_nat (N_of_be32 l1 l2 l3 l4))
      by (apply firstn_length_le; exact Hk).
    split.
    + rewrite wire_cons. unfold wire1, frame_msg. cbn [mflag mpayload].
      rewrite Hlen, N2Nat.id, be32_N_of_be32, (strict_flag_byte _ Hc). cbn [app].
      rewrite <- Hw, firstn_skipn. reflexivity.
    + constructor; [|exact Hwf]. cbn [mpayload]. apply len32_true.
      rewrite Hlen, N2Nat.id. apply N_of_be32_lt.
Qed.

Lemma parse_stream_iff b ms :
  parse_stream b = Some ms <-> b = wire ms /\ Forall (fun m => len32 (mpayload m) = true) ms.
Proof.
  unfold parse_stream. split.
  - apply parse_wire_sound.
  - intros [-> Hwf]. apply parse_wire_complete; [exact Hwf|].
    pose proof (wire_length_ge ms). lia.
Qed.

(* ---------------- boolean list equality ---------------- *)

Lemma list_eqb_eq {A} (eqb : A -> A -> bool) (a b : list A) :
  (forall x y, eqb x y = true <-> x = y) -> (list_eqb eqb a b = true <-> a = b).
Proof.
  intros Heq. revert b. induction a as [|x a IH]; destruct b as [|y b]; cbn; try (split; congruence).
  rewrite andb_true_iff, Heq, IH. split; [intros [-> ->]; reflexivity|].
  intros H. injection H as -> ->. now split.
Qed.

Lemma obytes_eqb_eq a b : obytes_eqb a b = true <-> a = b.
Proof.
  destruct a, b; cbn; try (split; congruence).
  rewrite bytes_eqb_eq. split; congruence.
Qed.

Lemma bool_eqb_eq a b : Bool.eqb a b = true <-> a = b.
Proof. destruct a, b; cbn; split; congruence. Qed.
