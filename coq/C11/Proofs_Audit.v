(* C11 — theorem audit: every boolean the driver evaluates is tied to a
   proposition (conjuncts of the oracle, the finer failure diagnoses, the
   deciders of the property's hypotheses, the non-gRPC oracle), the pinned
   detection / encoding rules are shown to be what the regenerated tables
   compute, and the frame-level theorems are lifted to the op scripts
   ([run_ops]) that the driver actually compares with the implementation. *)
From Coq Require Import String.
From Coq Require Import List NArith Bool Arith Ascii Lia.
From Martian.C11 Require Import Gen_GrpcEnc Model Proofs_Base Proofs_Loop Proofs.
Import ListNotations.

(* ================= oracle conjuncts ================= *)

Section Conjuncts.

Variable decomp : enc -> bytes -> option bytes.
Variable e : enc.

Lemma proc_msgs_ok_iff ms calls :
  proc_msgs_ok decomp e ms calls = true <-> map (decode decomp e) ms = map Some (shown calls).
Proof. unfold proc_msgs_ok. apply list_eqb_eq, obytes_eqb_eq. Qed.

Lemma proc_eos_ok_iff esl (calls : list (option bytes * bool)) :
  proc_eos_ok esl calls = true <-> eos_once_last esl (map snd calls).
Proof. unfold proc_eos_ok. apply eos_ok_iff. Qed.

Lemma sink_eos_ok_iff esl (datas : list (bytes * bool)) :
  sink_eos_ok esl datas = true <-> eos_once_last esl (map snd datas).
Proof. unfold sink_eos_ok. apply eos_ok_iff. Qed.

Definition sink_spec (ms : list msg) (datas : list (bytes * bool)) : Prop :=
  exists ms', sink_bytes datas = wire ms' /\
              Forall (fun m => len32 (mpayload m) = true) ms' /\
              Forall2 (same_msg_prop decomp e) ms ms'.

Lemma sink_msgs_ok_iff ms datas : sink_msgs_ok decomp e ms datas = true <-> sink_spec ms datas.
Proof.
  unfold sink_msgs_ok, sink_spec. split.
  - destruct (parse_stream (sink_bytes datas)) as [ms'|] eqn:Hp; [|discriminate].
    intros H. apply parse_stream_iff in Hp. destruct Hp as [Hw Hl].
    exists ms'. repeat split; auto. now apply same_msgs_iff.
  - intros [ms' [Hw [Hl Hs]]].
    replace (parse_stream (sink_bytes datas)) with (Some ms')
      by (symmetry; apply parse_stream_iff; auto).
    now apply same_msgs_iff.
Qed.

Lemma c11_ok_conjuncts ms esl calls datas :
  c11_ok decomp e ms esl calls datas =
  proc_msgs_ok decomp e ms calls && proc_eos_ok esl calls &&
  sink_msgs_ok decomp e ms datas && sink_eos_ok esl datas.
Proof. reflexivity. Qed.

(* ---- the finer diagnoses printed as clause ids: each is, by theorem, a
   failure of the sink clause, and says what it says ---- *)

(* "sink_parse": the bytes at the sink are not a sequence of gRPC messages *)
Lemma sink_parse_fail datas :
  sink_msg_count datas = None <->
  ~ exists ms', sink_bytes datas = wire ms' /\ Forall (fun m => len32 (mpayload m) = true) ms'.
Proof.
  unfold sink_msg_count. split.
  - destruct (parse_stream (sink_bytes datas)) eqn:Hp; [discriminate|].
    intros _ [ms' H]. apply parse_stream_iff in H. congruence.
  - intros H. destruct (parse_stream (sink_bytes datas)) as [ms'|] eqn:Hp; [|reflexivity].
    exfalso. apply H. exists ms'. now apply parse_stream_iff.
Qed.

(* "sink_extra_message" / "sink_lost_message": it is a sequence of k messages *)
Lemma sink_msg_count_iff datas k :
  sink_msg_count datas = Some k <->
  exists ms', sink_bytes datas = wire ms' /\ Forall (fun m => len32 (mpayload m) = true) ms' /\ length ms' = k.
Proof.
  unfold sink_msg_count. split.
  - destruct (parse_stream (sink_bytes datas)) as [ms'|] eqn:Hp; [|discriminate].
    intros H. injection H as <-. apply parse_stream_iff in Hp. exists ms'. tauto.
  - intros [ms' [Hw [Hl <-]]].
    replace (parse_stream (sink_bytes datas)) with (Some ms')
      by (symmetry; apply parse_stream_iff; auto).
    reflexivity.
Qed.

Lemma list_eqb_length {A} (f : A -> A -> bool) a b : list_eqb f a b = true -> length a = length b.
Proof.
  revert b. induction a as [|x a IH]; destruct b as [|y b]; cbn; try discriminate; auto.
  intros H. apply andb_true_iff in H. destruct H as [_ H]. now rewrite (IH _ H).
Qed.

Lemma sink_count_mismatch_fails ms datas k :
  sink_msg_count datas = Some k -> k <> length ms -> sink_msgs_ok decomp e ms datas = false.
Proof.
  unfold sink_msg_count, sink_msgs_ok.
  destruct (parse_stream (sink_bytes datas)) as [ms'|]; [|discriminate].
  intros H Hne. injection H as <-.
  destruct (list_eqb (same_msg decomp e) ms ms') eqn:Heq; [|reflexivity].
  apply list_eqb_length in Heq. congruence.
Qed.

Lemma sink_parse_fail_fails ms datas :
  sink_msg_count datas = None -> sink_msgs_ok decomp e ms datas = false.
Proof.
  unfold sink_msg_count, sink_msgs_ok.
  destruct (parse_stream (sink_bytes datas)); [discriminate|reflexivity].
Qed.

(* "sink_flags": the compressed-flags of the received messages differ *)
Lemma same_msgs_flags ms ms' :
  list_eqb (same_msg decomp e) ms ms' = true -> list_eqb Bool.eqb (map mflag ms) (map mflag ms') = true.
Proof.
  revert ms'. induction ms as [|m ms IH]; destruct ms' as [|m' ms']; cbn; try discriminate; auto.
  intros H. apply andb_true_iff in H. destruct H as [H1 H2].
  unfold same_msg in H1. apply andb_true_iff in H1. destruct H1 as [H1 _].
  now rewrite H1, (IH _ H2).
Qed.

Lemma sink_flags_fail_fails ms datas :
  sink_flags_lens_ok ms datas = false -> sink_msgs_ok decomp e ms datas = false.
Proof.
  unfold sink_flags_lens_ok, sink_msgs_ok.
  destruct (parse_stream (sink_bytes datas)) as [ms'|]; [|reflexivity].
  intros H. destruct (list_eqb (same_msg decomp e) ms ms') eqn:Heq; [|reflexivity].
  apply same_msgs_flags in Heq. congruence.
Qed.

Lemma sink_flags_ok_iff ms datas :
  sink_flags_lens_ok ms datas = true <->
  exists ms', sink_bytes datas = wire ms' /\ Forall (fun m => len32 (mpayload m) = true) ms' /\
              map mflag ms = map mflag ms'.
Proof.
  unfold sink_flags_lens_ok. split.
  - destruct (parse_stream (sink_bytes datas)) as [ms'|] eqn:Hp; [|discriminate].
    intros H. apply parse_stream_iff in Hp. exists ms'. repeat split; try tauto.
    now apply (list_eqb_eq Bool.eqb _ _ bool_eqb_eq).
  - intros [ms' [Hw [Hl Hf]]].
    replace (parse_stream (sink_bytes datas)) with (Some ms')
      by (symmetry; apply parse_stream_iff; auto).
    now apply (list_eqb_eq Bool.eqb _ _ bool_eqb_eq).
Qed.

(* ---- deciders of the property's hypotheses ---- *)

Lemma is_partition_iff ms (fs : list (bytes * bool)) :
  is_partition ms fs = true <-> flat_map fst fs = wire ms.
Proof. unfold is_partition. apply bytes_eqb_eq. Qed.

Lemma decodable_iff ms :
  decodable decomp e ms = true <-> Forall (fun m => exists p, decode decomp e m = Some p) ms.
Proof.
  unfold decodable. rewrite forallb_forall, Forall_forall. split; intros H m Hin; specialize (H m Hin).
  - destruct (decode decomp e m) as [p|]; [now exists p|discriminate].
  - destruct H as [p ->]. reflexivity.
Qed.

End Conjuncts.

Lemma frame_eqb_eq a b : frame_eqb a b = true <-> a = b.
Proof.
  destruct a as [x u], b as [y w]. unfold frame_eqb. cbn [fst snd].
  rewrite andb_true_iff, bytes_eqb_eq, bool_eqb_eq. split; [intros [-> ->]; reflexivity|].
  intros H. injection H as -> ->. auto.
Qed.

(* the oracle for a stream that is not gRPC *)
Theorem untouched_ok_iff frames calls datas :
  untouched_ok frames calls datas = true <-> calls = [] /\ datas = frames.
Proof.
  unfold untouched_ok. rewrite andb_true_iff, is_nil_true.
  now rewrite (list_eqb_eq frame_eqb _ _ frame_eqb_eq).
Qed.

(* ---- frames with END_STREAM only on the last one = [frames_of] ---- *)

Lemma flat_map_fst_no_es ds : flat_map fst (map no_es ds) = concat ds.
Proof. induction ds as [|d ds IH]; [reflexivity|]. cbn. now rewrite IH. Qed.

Lemma es_only_last_shape : forall fs : list (bytes * bool),
  fs <> [] -> es_only_last fs = true ->
  exists ds dl, fs = frames_of ds dl (last_es fs).
Proof.
  intros fs Hne Hes.
  destruct (exists_last Hne) as [init [[dl esl] ->]].
  unfold es_only_last in Hes. rewrite removelast_last in Hes.
  unfold last_es. rewrite rev_app_distr. cbn [rev app snd].
  exists (map fst init), dl. unfold frames_of. f_equal.
  rewrite map_map. rewrite forallb_forall in Hes.
  transitivity (map (fun x : bytes * bool => x) init); [now rewrite map_id|]. apply map_ext_in.
  intros [d es] Hin. specialize (Hes _ Hin). cbn in Hes. unfold no_es. cbn.
  destruct es; [discriminate|reflexivity].
Qed.

Section Checked.

Variable decomp : enc -> bytes -> option bytes.
Variable comp : enc -> bytes -> bytes.
Variable e : enc.

Lemma checks_give_wf ms :
  decodable decomp e ms = true -> lens_ok decomp comp e ms = true ->
  wf decomp e ms /\ lens_fit decomp comp e ms.
Proof.
  intros Hd Hl. apply decodable_iff in Hd. unfold lens_ok in Hl. rewrite forallb_forall in Hl.
  rewrite Forall_forall in Hd. split.
  - apply Forall_forall. intros m Hin. split; [|exact (Hd m Hin)].
    specialize (Hl m Hin). apply andb_true_iff in Hl. tauto.
  - unfold lens_fit. apply Forall_forall. intros m' Hin. apply in_map_iff in Hin.
    destruct Hin as [m [<- Hin]]. specialize (Hl m Hin). apply andb_true_iff in Hl. tauto.
Qed.

(* The hypotheses exactly as the driver decides them are enough: whenever
   the driver evaluates the oracle on a case, the model's own output passes
   it (so a PROPFAIL is never an artefact of an unmet hypothesis). *)
Theorem checked_hypotheses_suffice ms (fs : list (bytes * bool)) :
  (forall e' b, decomp e' (comp e' b) = Some b) ->
  is_partition ms fs = true -> es_only_last fs = true ->
  decodable decomp e ms = true -> lens_ok decomp comp e ms = true ->
  exists s' evs,
    run_frames decomp repaired e st0 fs = Done s' evs /\
    c11_ok decomp e ms (last_es fs) (calls_of evs) (datas_of comp repaired e evs) = true.
Proof.
  intros Hlaw Hp Hes Hd Hl. apply is_partition_iff in Hp.
  destruct (checks_give_wf ms Hd Hl) as [Hwf Hfit].
  destruct (is_nil fs) eqn:Hnil.
  - apply is_nil_true in Hnil. subst fs.
    cbn in Hp. symmetry in Hp. apply wire_nil_inv in Hp. subst ms.
    exists st0, []. split; reflexivity.
  - apply is_nil_false in Hnil.
    destruct (es_only_last_shape fs Hnil Hes) as [ds [dl Hshape]].
    remember (last_es fs) as esl eqn:Hesl. subst fs. unfold frames_of in Hp.
    rewrite flat_map_app, flat_map_fst_no_es in Hp. cbn [flat_map fst] in Hp. rewrite app_nil_r in Hp.
    now apply model_satisfies_oracle.
Qed.

End Checked.

(* ================= pinned rules = regenerated tables ================= *)

(* gRPC detection: exactly `content-type: application/grpc` *)
Theorem is_grpc_std hs : is_grpc hs = std_is_grpc hs.
Proof. reflexivity. Qed.

(* the `switch h.Value` read from the source is the gRPC specification's table *)
Theorem enc_of_name_std v : enc_of_name v = std_enc_of_name v.
Proof.
  unfold enc_of_name, std_enc_of_name, gen_encodings, lookup_enc.
  repeat match goal with
         | |- context [bytes_eqb v ?x] => destruct (bytes_eqb v x) eqn:?
         end; reflexivity.
Qed.

Theorem default_enc_identity : default_enc = Identity.
Proof. reflexivity. Qed.

Lemma announced_some : forall hs x, exists v, announced (Some x) hs = Some v.
Proof.
  induction hs as [|h hs IH]; intros x; cbn [announced]; [now exists x|].
  destruct (bytes_eqb (fst h) _); apply IH.
Qed.

(* what adapter.Header selects is what the direction announced *)
Lemma select_enc_announced e : forall hs cur a,
  select_enc cur hs = Some e ->
  match a with None => True | Some v => std_enc_of_name v = Some cur end ->
  match announced a hs with None => e = cur | Some v => std_enc_of_name v = Some e end.
Proof.
  induction hs as [|h hs IH]; intros cur a Hsel Ha.
  - cbn in *. injection Hsel as <-. destruct a; auto.
  - cbn [select_enc announced] in *.
    change s_grpc_encoding with (list_ascii_of_string "grpc-encoding"%string) in Hsel.
    destruct (bytes_eqb (fst h) (list_ascii_of_string "grpc-encoding")).
    + destruct (enc_of_name (snd h)) as [e1|] eqn:He1; [|discriminate].
      pose proof (IH e1 (Some (snd h)) Hsel) as IH'.
      destruct (announced_some hs (snd h)) as [w Hw]. rewrite Hw in *.
      apply IH'. now rewrite <- enc_of_name_std.
    + exact (IH cur a Hsel Ha).
Qed.

Theorem encoding_selection_standard hs e :
  select_enc default_enc hs = Some e ->
  match announced None hs with
  | None => e = Identity
  | Some v => std_enc_of_name v = Some e
  end.
Proof.
  intros H. pose proof (select_enc_announced e hs default_enc None H I) as H'.
  now rewrite default_enc_identity in H'.
Qed.

(* an unknown grpc-encoding value is an error, never a silent fallback *)
Theorem unknown_encoding_rejected : forall hs cur,
  select_enc cur hs = None <->
  exists v, In v (map snd (filter (fun h => bytes_eqb (fst h) (list_ascii_of_string "grpc-encoding"%string)) hs))
            /\ std_enc_of_name v = None.
Proof.
  induction hs as [|h hs IH]; intros cur.
  - cbn. split; [discriminate|]. intros [v [[] _]].
  - cbn [select_enc filter].
    change s_grpc_encoding with (list_ascii_of_string "grpc-encoding"%string).
    destruct (bytes_eqb (fst h) (list_ascii_of_string "grpc-encoding")).
    + cbn [map In]. rewrite enc_of_name_std. destruct (std_enc_of_name (snd h)) as [e1|] eqn:He1.
      * rewrite IH. split; intros [v [Hin Hv]]; exists v; split; auto.
        destruct Hin as [<-|Hin]; [congruence|exact Hin].
      * split; [intros _|reflexivity]. exists (snd h). auto.
    + apply IH.
Qed.

(* Header fails with "unrecognized grpc-encoding" exactly when the standard
   table rejects the header list: no standard announcement (in particular an
   explicit `identity`) is ever refused, no unknown one is ever accepted. *)
Theorem select_enc_none_iff_std_rejects hs cur :
  select_enc cur hs = None <-> std_rejects hs = true.
Proof.
  rewrite unknown_encoding_rejected. unfold std_rejects. rewrite existsb_exists. split.
  - intros [v [Hin Hv]]. apply in_map_iff in Hin. destruct Hin as [h [<- Hin]].
    apply filter_In in Hin. destruct Hin as [Hin Hn]. exists h. split; [exact Hin|].
    now rewrite Hn, Hv.
  - intros [h [Hin Hh]]. apply andb_true_iff in Hh. destruct Hh as [Hn Hv].
    exists (snd h). split.
    + apply in_map, filter_In. auto.
    + destruct (std_enc_of_name (snd h)); [discriminate|reflexivity].
Qed.

(* ================= HEADERS are forwarded verbatim ================= *)

Theorem header_forwarded decomp comp v p d hs es p' out c :
  op_step decomp comp v p (OpHeader d hs es) = Some (p', out, c) ->
  out = [OErr ErrEncoding] \/ out = [PHeader d hs es; SHeader d hs es] \/ out = [SHeader d hs es].
Proof.
  unfold op_step. cbn [op_dir adapter_step]. destruct (has_proc d p).
  - destruct (enabled (if enabled p then p else if is_grpc hs then set_enabled p else p)).
    + destruct (select_enc _ hs); intros H; injection H as _ <- _; auto.
    + intros H; injection H as _ <- _; auto.
  - intros H; injection H as _ <- _; auto.
Qed.

(* ================= factory configuration ================= *)

(* A direction for which the ProcessorFactory returned no processor: every
   frame goes to its sink as it is, nothing is shown to anybody, and the
   stream's state (gRPC flag included) does not change. *)
Theorem no_processor_untouched decomp comp v p o :
  has_proc (op_dir o) p = false ->
  op_step decomp comp v p o = Some (p, untouched o, true).
Proof. intros H. unfold op_step. rewrite H. destruct o; reflexivity. Qed.

Lemma has_proc_set_enc d' d e p : has_proc d' (set_enc d e p) = has_proc d' p.
Proof. destruct d, d'; reflexivity. Qed.
Lemma has_proc_set_ad d' d s p : has_proc d' (set_ad d s p) = has_proc d' p.
Proof. destruct d, d'; reflexivity. Qed.
Lemma has_proc_set_enabled d' p : has_proc d' (set_enabled p) = has_proc d' p.
Proof. destruct d'; reflexivity. Qed.

(* gRPC detection, one HEADERS at a time: the flag is raised exactly by a
   content-type: application/grpc seen by an adapter that exists, never
   lowered; the configuration never changes. *)
Theorem detection_step decomp comp v p d hs es p' out c :
  op_step decomp comp v p (OpHeader d hs es) = Some (p', out, c) ->
  enabled p' = (enabled p || (has_proc d p && std_is_grpc hs)) /\
  forall d', has_proc d' p' = has_proc d' p.
Proof.
  unfold op_step. cbn [op_dir adapter_step]. change (std_is_grpc hs) with (is_grpc hs).
  destruct (has_proc d p) eqn:Hd;
    [|intros H; injection H as <- _ _; rewrite andb_false_l, orb_false_r; auto].
  set (q := if enabled p then p else if is_grpc hs then set_enabled p else p).
  assert (Hq : enabled q = enabled p || is_grpc hs).
  { subst q. destruct (enabled p) eqn:E; [now rewrite E|].
    destruct (is_grpc hs); [reflexivity|now rewrite E]. }
  assert (Hh : forall d', has_proc d' q = has_proc d' p).
  { intros d'. subst q. destruct (enabled p); [reflexivity|].
    destruct (is_grpc hs); [apply has_proc_set_enabled|reflexivity]. }
  rewrite andb_true_l, <- Hq.
  destruct (enabled q) eqn:Eq.
  - destruct (select_enc (get_enc d q) hs); intros H; injection H as <- _ _.
    + split; [destruct d; exact Eq|]. intros d'. now rewrite has_proc_set_enc.
    + split; [exact Eq|exact Hh].
  - intros H; injection H as <- _ _. split; [exact Eq|exact Hh].
Qed.

Theorem data_keeps_detection decomp comp v p d b es p' out c :
  op_step decomp comp v p (OpData d b es) = Some (p', out, c) ->
  enabled p' = enabled p /\ forall d', has_proc d' p' = has_proc d' p.
Proof.
  unfold op_step. cbn [op_dir adapter_step]. destruct (has_proc d p).
  - destruct (enabled p) eqn:Hen.
    + destruct (adapter_data decomp v (get_enc d p) (get_ad d p) b es); try discriminate;
        intros H; injection H as <- _ _; (split; [now destruct d|intros d'; apply has_proc_set_ad]).
    + intros H; injection H as <- _ _. auto.
  - intros H; injection H as <- _ _. auto.
Qed.

(* ================= from DATA frame lists to op scripts ================= *)

Section Ops.

Variable decomp : enc -> bytes -> option bytes.
Variable comp : enc -> bytes -> bytes.
Variable v : variant.

Definition data_ops (d : dir) (fs : list (bytes * bool)) : list op :=
  map (fun f => OpData d (fst f) (snd f)) fs.

Lemma through_app d e a b : through comp v d e (a ++ b) = through comp v d e a ++ through comp v d e b.
Proof. unfold through. apply flat_map_app. Qed.

Lemma get_set_ad d s p : get_ad d (set_ad d s p) = s /\ get_enc d (set_ad d s p) = get_enc d p
                         /\ enabled (set_ad d s p) = enabled p /\ has_proc d (set_ad d s p) = has_proc d p.
Proof. destruct d; cbn; auto. Qed.

(* On a gRPC stream, feeding DATA ops of one direction is [run_frames] on
   that direction's adapter, each event going through the processor to the
   emitter and the sink. *)
Lemma run_ops_data d : forall fs p s' evs,
  has_proc d p = true -> enabled p = true ->
  run_frames decomp v (get_enc d p) (get_ad d p) fs = Done s' evs ->
  exists outs,
    run_ops decomp comp v p (data_ops d fs) = Some outs /\
    concat outs = through comp v d (get_enc d p) evs /\
    length outs = length fs.
Proof.
  induction fs as [|[b es] fs IH]; intros p s' evs Hpr Hen Hrun.
  - cbn in Hrun. injection Hrun as _ <-. exists []. auto.
  - cbn [run_frames] in Hrun. cbn [data_ops map fst snd run_ops]. unfold op_step.
    cbn [op_dir adapter_step]. rewrite Hpr, Hen.
    destruct (adapter_data decomp v (get_enc d p) (get_ad d p) b es) as [s1 evs1| |] eqn:Had; try discriminate.
    destruct (run_frames decomp v (get_enc d p) s1 fs) as [s2 evs2| |] eqn:Hrest; try discriminate.
    cbn [app_ev] in Hrun. injection Hrun as _ <-.
    destruct (get_set_ad d s1 p) as [Ha [He [Hn Hh]]].
    destruct (IH (set_ad d s1 p) s2 evs2) as [outs [Ho [Hc Hl]]].
    + now rewrite Hh.
    + now rewrite Hn.
    + now rewrite Ha, He.
    + fold (data_ops d fs). rewrite Ho. eexists. split; [reflexivity|].
      cbn [concat length]. rewrite Hc, He, through_app, Hl. auto.
Qed.

End Ops.

(* The property at the level of the scripts the driver runs: on a gRPC
   stream (either direction, any selected encoding, fresh adapter), any
   partition of [wire ms] as DATA ops yields -- processor and sink calls
   interleaved as Message, Data, Message, Data ... -- calls that satisfy the
   oracle. *)
Theorem ops_level decomp comp p d ms ds dl esl :
  (forall e' b, decomp e' (comp e' b) = Some b) ->
  has_proc d p = true -> enabled p = true -> get_ad d p = st0 ->
  wf decomp (get_enc d p) ms -> lens_fit decomp comp (get_enc d p) ms ->
  concat ds ++ dl = wire ms ->
  exists outs evs,
    run_ops decomp comp repaired p (data_ops d (frames_of ds dl esl)) = Some outs /\
    concat outs = through comp repaired d (get_enc d p) evs /\
    c11_ok decomp (get_enc d p) ms esl (calls_of evs) (datas_of comp repaired (get_enc d p) evs) = true.
Proof.
  intros Hlaw Hpr Hen Had Hwf Hfit Hp.
  destruct (model_satisfies_oracle decomp comp (get_enc d p) ms ds dl esl Hlaw Hwf Hfit Hp)
    as [s' [evs [Hrun Hok]]].
  rewrite <- Had in Hrun.
  destruct (run_ops_data decomp comp repaired d _ p s' evs Hpr Hen Hrun) as [outs [Ho [Hc _]]].
  exists outs, evs. auto.
Qed.

(* [through] is what the recording processor and sink see: projecting its
   output gives back the oracle's two views *)
Lemma through_views comp v d e evs :
  flat_map (fun o => match o with PMsg _ x es => [(x, es)] | _ => [] end) (through comp v d e evs) = calls_of evs /\
  flat_map (fun o => match o with SData _ b es => [(b, es)] | _ => [] end) (through comp v d e evs) = datas_of comp v e evs.
Proof.
  unfold through, calls_of, datas_of. split; induction evs as [|x evs IH]; cbn; try reflexivity.
  - now rewrite IH.
  - rewrite IH. now destruct (emit comp v e x).
Qed.

(* ================= totalisation audit ================= *)

(* The `| _ => Done s []` arm of [loop]'s readingMetadata case (Model.v) is
   dead code: it is guarded by `length (buf s) <? 5 = false`, and a list of
   at least five elements always has the five-cons shape the other arm
   matches.  No theorem can therefore be true because of that arm. *)
Lemma five_shape {A} (b : list A) :
  Nat.ltb (length b) 5 = false -> exists c l1 l2 l3 l4 rest, b = c :: l1 :: l2 :: l3 :: l4 :: rest.
Proof.
  intros H. apply Nat.ltb_ge in H.
  destruct b as [|c [|l1 [|l2 [|l3 [|l4 rest]]]]]; cbn in H; try lia.
  now exists c, l1, l2, l3, l4, rest.
Qed.

(* firstn/skipn in the readingMessageData case never run past the buffer:
   they are guarded by `len(buffer) < length` being false *)
Lemma payload_split_exact (b : bytes) (n : N) :
  N.ltb (N.of_nat (length b)) n = false ->
  length (firstn (N.to_nat n) b) = N.to_nat n /\ firstn (N.to_nat n) b ++ skipn (N.to_nat n) b = b.
Proof.
  intros H. apply N.ltb_ge in H. split; [apply firstn_length_le; lia|apply firstn_skipn].
Qed.
