(* C11 — property theorems.  Statements closed by [exact] + Print Assumptions.

   [decomp]/[comp] are the real (de)compressors, universally quantified; the
   only fact ever assumed about them is the round-trip law, and only where a
   clause needs it.  [repaired] is h2/grpc/grpc.go with fixes/C11-1..3
   applied; [original] the code as found (refutation witnesses at the end).

   Vocabulary (Model.v): [wire ms] the length-prefixed byte stream of the
   messages [ms]; [frames_of ds dl esl] the DATA frames [ds] (any byte
   strings, empty ones allowed, no END_STREAM) followed by a last frame [dl]
   that carries END_STREAM iff [esl] -- so [concat ds ++ dl = wire ms] says
   "any way the stream is cut", [dl = []] with [esl = true] is the separate
   empty END_STREAM frame and [esl = false] a stream that ends with trailers;
   [calls_of evs] the Message(data, streamEnded) calls a processor is shown
   ([None] = nil data = no message); [datas_of .. evs] the Data(bytes,
   streamEnded) calls the pass-through emitter makes on the sink;
   [wf decomp e ms]: every payload is shorter than 2^32 and, if flagged,
   decompresses under [e]. *)
From Coq Require Import String.
From Coq Require Import List NArith Bool Arith Ascii.
From Martian.C11 Require Import Model Proofs_Base Proofs_Loop Proofs Proofs_Audit.
Import ListNotations.

(* For ALL message lists and ALL partitions: the processor is shown exactly
   the decompressed messages, end-of-stream exactly once and on the last call
   (iff the DATA frames carried it), and nothing stays in the adapter. *)
Theorem C11_fragmentation_invariance :
  forall decomp e ms ds dl esl,
    wf decomp e ms -> concat ds ++ dl = wire ms ->
    exists s' evs,
      run_frames decomp repaired e st0 (frames_of ds dl esl) = Done s' evs /\
      map (decode decomp e) ms = map Some (shown (calls_of evs)) /\
      eos_once_last esl (map snd (calls_of evs)) /\
      buf s' = [] /\ rd_data s' = false.
Proof. intros decomp e. exact (fragmentation_invariance decomp (fun _ b => b) e). Qed.
Print Assumptions C11_fragmentation_invariance.

(* Pass-through: the bytes that reach the destination are the wire form of
   the same messages, each re-encoded ([reenc]: same flag, payload
   recompressed iff flagged) ... *)
Theorem C11_passthrough_same_messages :
  forall decomp comp e ms ds dl esl,
    wf decomp e ms -> concat ds ++ dl = wire ms ->
    exists s' evs,
      run_frames decomp repaired e st0 (frames_of ds dl esl) = Done s' evs /\
      sink_bytes (datas_of comp repaired e evs) = wire (map (reenc decomp comp e) ms) /\
      eos_once_last esl (map snd (datas_of comp repaired e evs)).
Proof. exact passthrough_bytes. Qed.
Print Assumptions C11_passthrough_same_messages.

(* ... and under the round-trip law each forwarded message has the same flag
   and decodes, with the SAME decoder that accepted the input, to the same
   bytes (same wire format, same encoding, same container). *)
Theorem C11_same_container :
  forall decomp comp e ms,
    (forall e' b, decomp e' (comp e' b) = Some b) ->
    wf decomp e ms ->
    Forall (fun m => mflag (reenc decomp comp e m) = mflag m /\
                     decode decomp e (reenc decomp comp e m) = decode decomp e m) ms.
Proof. exact same_container. Qed.
Print Assumptions C11_same_container.

(* End-of-stream exactly once and last, at the processor and at the sink
   (the two previous theorems restated together as booleans). *)
Theorem C11_eos_exactly_once_last :
  forall decomp comp e ms ds dl esl,
    wf decomp e ms -> concat ds ++ dl = wire ms ->
    exists s' evs,
      run_frames decomp repaired e st0 (frames_of ds dl esl) = Done s' evs /\
      eos_ok esl (map snd (calls_of evs)) = true /\
      eos_ok esl (map snd (datas_of comp repaired e evs)) = true.
Proof.
  intros decomp comp e ms ds dl esl Hwf Hp.
  destruct (run_wf decomp comp e ms ds dl esl Hwf Hp) as [s' [c [Hrun [_ [_ Hne]]]]].
  exists s', (expected decomp e ms dl esl c). split; [exact Hrun|].
  rewrite map_snd_calls_of, map_snd_datas_of. split; apply eos_expected, Hne.
Qed.
Print Assumptions C11_eos_exactly_once_last.

(* An end-of-stream that carries no message adds no message: compared with
   the same frames without END_STREAM, the processor gets one extra call
   with nil data, the sink one extra EMPTY DATA with END_STREAM. *)
Theorem C11_empty_eos_adds_nothing :
  forall decomp comp e ms ds,
    wf decomp e ms -> concat ds = wire ms ->
    exists s1 s2 evs c,
      run_frames decomp repaired e st0 (frames_of ds [] false) = Done s1 evs /\
      run_frames decomp repaired e st0 (frames_of ds [] true) = Done s2 (evs ++ [EvMsg c None true]) /\
      shown (calls_of (evs ++ [EvMsg c None true])) = shown (calls_of evs) /\
      datas_of comp repaired e (evs ++ [EvMsg c None true]) = datas_of comp repaired e evs ++ [([], true)] /\
      sink_bytes (datas_of comp repaired e (evs ++ [EvMsg c None true])) = sink_bytes (datas_of comp repaired e evs).
Proof. exact empty_eos_adds_nothing. Qed.
Print Assumptions C11_empty_eos_adds_nothing.

(* Streams that are not gRPC (no HEADERS with content-type exactly
   application/grpc): every HEADERS and DATA of both directions reaches its
   sink unchanged, the processor sees nothing; any code variant, any codecs. *)
Theorem C11_non_grpc_untouched :
  forall decomp comp v hc hs ops,
    forallb (fun o => negb (header_is_grpc o)) ops = true ->
    run_ops decomp comp v (pair_cfg hc hs) ops = Some (map untouched ops).
Proof. intros decomp comp v hc hs ops H. now apply non_grpc_untouched. Qed.
Print Assumptions C11_non_grpc_untouched.

(* Streams created by ONE factory value are independent.  [run_session] runs
   HEADERS/DATA ops of several streams in any interleaving, each stream on its
   own state (own gRPC flag, encodings, reassembly buffers), an error stopping
   only its stream.  What stream [i] is shown / what reaches its sinks is
   exactly the run of stream [i]'s own ops alone ... *)
Theorem C11_session_projection :
  forall decomp comp v hc hs sops outs i,
    run_session decomp comp v (sess_cfg hc hs) sops = Some outs ->
    run_ops decomp comp v (pair_cfg hc hs) (ops_of i sops) = Some (outs_of i outs).
Proof.
  intros decomp comp v hc hs sops outs i H.
  exact (session_projection decomp comp v sops (sess_cfg hc hs) outs i eq_refl H).
Qed.
Print Assumptions C11_session_projection.

(* ... hence non-interference: it depends only on stream [i]'s own headers and
   frames, for all other streams and all interleavings (so every per-stream
   theorem above holds for each stream of a session, and a non-gRPC stream is
   untouched whatever gRPC streams came before it); [hc]/[hs] = which
   directions the factory gives a processor. *)
Theorem C11_streams_independent :
  forall decomp comp v hc hs sops sops' outs outs' i,
    run_session decomp comp v (sess_cfg hc hs) sops = Some outs ->
    run_session decomp comp v (sess_cfg hc hs) sops' = Some outs' ->
    ops_of i sops = ops_of i sops' -> outs_of i outs = outs_of i outs'.
Proof. exact streams_independent. Qed.
Print Assumptions C11_streams_independent.

Theorem C11_session_total :
  forall decomp comp v hc hs sops, run_session decomp comp v (sess_cfg hc hs) sops <> None.
Proof. intros decomp comp v hc hs sops. apply session_total. Qed.
Print Assumptions C11_session_total.

(* The executable oracle evaluated on the real implementation's calls is the
   conjunction of the clauses above, as a proposition. *)
Theorem C11_oracle_is_the_property :
  forall decomp e ms esl calls datas,
    c11_ok decomp e ms esl calls datas = true <-> C11_spec decomp e ms esl calls datas.
Proof. exact c11_ok_iff. Qed.
Print Assumptions C11_oracle_is_the_property.

(* The model satisfies the oracle on every well-formed input. *)
Theorem C11_model_satisfies_oracle :
  forall decomp comp e ms ds dl esl,
    (forall e' b, decomp e' (comp e' b) = Some b) ->
    wf decomp e ms -> lens_fit decomp comp e ms -> concat ds ++ dl = wire ms ->
    exists s' evs,
      run_frames decomp repaired e st0 (frames_of ds dl esl) = Done s' evs /\
      c11_ok decomp e ms esl (calls_of evs) (datas_of comp repaired e evs) = true.
Proof. exact model_satisfies_oracle. Qed.
Print Assumptions C11_model_satisfies_oracle.

(* The strict parser used by the oracle is exactly the inverse of [wire]. *)
Theorem C11_parser_inverts_wire :
  forall b ms,
    parse_stream b = Some ms <-> b = wire ms /\ Forall (fun m => len32 (mpayload m) = true) ms.
Proof. exact parse_stream_iff. Qed.
Print Assumptions C11_parser_inverts_wire.

(* The loop's fuel is always sufficient: whatever the state, the bytes (also
   malformed ones), the flag and the code variant. *)
Theorem C11_never_out_of_fuel :
  forall decomp v e s d es, adapter_data decomp v e s d es <> OutOfFuel.
Proof. exact adapter_data_fuel. Qed.
Print Assumptions C11_never_out_of_fuel.

(* ------------------------------------------------------------------ *)
(* The ORIGINAL code violates the property (witnesses; fixes/C11-1, -2) *)
(* ------------------------------------------------------------------ *)

Definition id_decomp : enc -> bytes -> option bytes := fun _ b => Some b.
Definition id_comp : enc -> bytes -> bytes := fun _ b => b.

(* one empty message, END_STREAM on the frame that carries its prefix: the
   original loop returns with the message parsed but never delivered -- the
   processor is shown nothing, not even the end of the stream *)
Theorem C11_original_loses_empty_final_message_refuted :
  exists ms fs,
    wf id_decomp Identity ms /\ is_partition ms fs = true /\ es_only_last fs = true /\
    run_frames id_decomp original Identity st0 fs = Done (mkSt [] true false 0) [].
Proof.
  exists [mkMsg false []], [(wire [mkMsg false []], true)].
  split; [|vm_compute; auto].
  constructor; [|constructor]. split; [reflexivity|]. now exists [].
Qed.
Print Assumptions C11_original_loses_empty_final_message_refuted.

(* a message, then a separate empty END_STREAM frame: the original emitter
   puts TWO messages on the wire *)
Theorem C11_original_empty_eos_adds_message_refuted :
  exists ms ds s evs,
    wf id_decomp Identity ms /\ concat ds = wire ms /\
    run_frames id_decomp original Identity st0 (frames_of ds [] true) = Done s evs /\
    sink_bytes (datas_of id_comp original Identity evs) = wire (ms ++ [mkMsg false []]).
Proof.
  exists [mkMsg false ["A"%char]], [wire [mkMsg false ["A"%char]]].
  eexists. eexists. split; [|vm_compute; auto].
  constructor; [|constructor]. split; [reflexivity|]. now eexists.
Qed.
Print Assumptions C11_original_empty_eos_adds_message_refuted.

(* ------------------------------------------------------------------ *)
(* Non-vacuity                                                         *)
(* ------------------------------------------------------------------ *)

Definition ex_ms : list msg :=
  [mkMsg false ["A"; "B"]%char; mkMsg true []; mkMsg true ["C"]%char; mkMsg false []].

(* the hypotheses of the theorems are met by a non-trivial instance: four
   messages (two empty, two flagged), cut inside a prefix, inside a payload,
   between an empty message's prefix and the next one, with empty frames *)
Example C11_hypotheses_example :
  wf id_decomp Identity ex_ms /\
  concat [[zero; zero]; [zero; zero; "002"; "A"]%char; []; ["B"; one; zero; zero; zero; zero]%char;
          [one; zero; zero; zero; one; "C"]%char; []] ++ [zero; zero; zero; zero; zero] = wire ex_ms /\
  (forall e b, id_decomp e (id_comp e b) = Some b) /\
  lens_fit id_decomp id_comp Identity ex_ms.
Proof.
  repeat split.
  - repeat constructor; cbn; eauto.
  - repeat constructor.
Qed.

(* ... and on it the repaired model computes what the theorems say *)
Example C11_run_example :
  run_frames id_decomp repaired Identity st0
    (frames_of [[zero; zero]; [zero; zero; "002"; "A"]%char; []; ["B"; one; zero; zero; zero; zero]%char;
                [one; zero; zero; zero; one; "C"]%char; []] [zero; zero; zero; zero; zero] true)
  = Done (mkSt [] false false 0)
      [EvMsg false (Some ["A"; "B"]%char) false; EvMsg true (Some []) false;
       EvMsg true (Some ["C"]%char) false; EvMsg false (Some []) true].
Proof. vm_compute. reflexivity. Qed.

(* the two witnesses above, on the repaired code *)
Example C11_repaired_delivers_empty_final_message :
  run_frames id_decomp repaired Identity st0 [(wire [mkMsg false []], true)]
  = Done (mkSt [] false false 0) [EvMsg false (Some []) true].
Proof. vm_compute. reflexivity. Qed.

Example C11_repaired_empty_eos_is_an_empty_frame :
  exists s evs,
    run_frames id_decomp repaired Identity st0 (frames_of [wire [mkMsg false ["A"%char]]] [] true) = Done s evs /\
    datas_of id_comp repaired Identity evs = [(wire [mkMsg false ["A"%char]], false); ([], true)].
Proof. eexists. eexists. vm_compute. auto. Qed.

(* header handling on a concrete gRPC stream: detection, encoding selection,
   both directions, an empty response message followed by trailers *)
Example C11_ops_example :
  let h (n v : string) := (list_ascii_of_string n, list_ascii_of_string v) in
  let hc := [h "content-type" "application/grpc"; h "grpc-encoding" "gzip"]%string in
  let hs := [h "content-type" "application/grpc"]%string in
  let ht := [h "grpc-status" "0"]%string in
  run_ops id_decomp id_comp repaired pair0
    [OpHeader CtoS hc false; OpHeader StoC hs false;
     OpData StoC [zero; zero; zero; zero; zero] false;
     OpHeader StoC ht true]
  = Some [[PHeader CtoS hc false; SHeader CtoS hc false]; [PHeader StoC hs false; SHeader StoC hs false];
          [PMsg StoC (Some []) false; SData StoC [zero; zero; zero; zero; zero] false];
          [PHeader StoC ht true; SHeader StoC ht true]].
Proof. vm_compute. reflexivity. Qed.

(* a gRPC stream then a non-gRPC stream from the same factory, interleaved:
   the second one's DATA reaches its sink untouched *)
Example C11_session_example :
  let h (n v : string) := (list_ascii_of_string n, list_ascii_of_string v) in
  let hg := [h "content-type" "application/grpc"]%string in
  let hj := [h "content-type" "application/json"]%string in
  run_session id_decomp id_comp repaired sess0
    [(0, OpHeader CtoS hg false);
     (1, OpHeader CtoS hj false);
     (0, OpData CtoS [zero; zero; zero] false);
     (1, OpData CtoS ["{"; "}"]%char true);
     (0, OpData CtoS [zero; zero] true)]
  = Some [(0, [PHeader CtoS hg false; SHeader CtoS hg false]); (1, [SHeader CtoS hj false]);
          (0, []); (1, [SData CtoS ["{"; "}"]%char true]);
          (0, [PMsg CtoS (Some []) true; SData CtoS [zero; zero; zero; zero; zero] true])].
Proof. vm_compute. reflexivity. Qed.

(* ------------------------------------------------------------------ *)
(* Theorem audit: every boolean the driver evaluates, as a proposition  *)
(* ------------------------------------------------------------------ *)

(* clause ids proc_messages / proc_eos / sink_eos / sink_xxx : the four
   conjuncts of [c11_ok], each equivalent to its clause *)
Theorem C11_oracle_proc_messages : forall decomp e ms calls,
  proc_msgs_ok decomp e ms calls = true <-> map (decode decomp e) ms = map Some (shown calls).
Proof. exact proc_msgs_ok_iff. Qed.
Print Assumptions C11_oracle_proc_messages.

Theorem C11_oracle_proc_eos : forall esl (calls : list (option bytes * bool)),
  proc_eos_ok esl calls = true <-> eos_once_last esl (map snd calls).
Proof. exact proc_eos_ok_iff. Qed.
Print Assumptions C11_oracle_proc_eos.

Theorem C11_oracle_sink_eos : forall esl (datas : list (bytes * bool)),
  sink_eos_ok esl datas = true <-> eos_once_last esl (map snd datas).
Proof. exact sink_eos_ok_iff. Qed.
Print Assumptions C11_oracle_sink_eos.

Theorem C11_oracle_sink_messages : forall decomp e ms datas,
  sink_msgs_ok decomp e ms datas = true <->
  exists ms', sink_bytes datas = wire ms' /\
              Forall (fun m => len32 (mpayload m) = true) ms' /\
              Forall2 (same_msg_prop decomp e) ms ms'.
Proof. exact sink_msgs_ok_iff. Qed.
Print Assumptions C11_oracle_sink_messages.

(* the finer diagnoses: what each says, and that each is a failure of the
   sink clause (clause ids sink_parse, sink_extra_message, sink_lost_message,
   sink_flags; sink_container is the remaining way [sink_msgs_ok] fails) *)
Theorem C11_diagnosis_sink_parse : forall decomp e ms datas,
  sink_msg_count datas = None ->
  sink_msgs_ok decomp e ms datas = false /\
  ~ exists ms', sink_bytes datas = wire ms' /\ Forall (fun m => len32 (mpayload m) = true) ms'.
Proof.
  intros decomp e ms datas H. split; [now apply sink_parse_fail_fails|now apply sink_parse_fail].
Qed.
Print Assumptions C11_diagnosis_sink_parse.

Theorem C11_diagnosis_sink_count : forall decomp e ms datas k,
  sink_msg_count datas = Some k -> k <> length ms ->
  sink_msgs_ok decomp e ms datas = false /\
  exists ms', sink_bytes datas = wire ms' /\ Forall (fun m => len32 (mpayload m) = true) ms' /\ length ms' = k.
Proof.
  intros decomp e ms datas k H Hne. split; [now apply (sink_count_mismatch_fails decomp e ms datas k)|].
  now apply sink_msg_count_iff.
Qed.
Print Assumptions C11_diagnosis_sink_count.

Theorem C11_diagnosis_sink_flags : forall decomp e ms datas,
  sink_flags_lens_ok ms datas = false -> sink_msgs_ok decomp e ms datas = false.
Proof. exact sink_flags_fail_fails. Qed.
Print Assumptions C11_diagnosis_sink_flags.

(* clause id non_grpc_untouched *)
Theorem C11_oracle_untouched : forall frames calls datas,
  untouched_ok frames calls datas = true <-> calls = [] /\ datas = frames.
Proof. exact untouched_ok_iff. Qed.
Print Assumptions C11_oracle_untouched.

(* the hypotheses of the property exactly as the driver decides them are
   sufficient for the model to pass the oracle: a PROPFAIL is never caused by
   an unmet hypothesis *)
Theorem C11_checked_hypotheses_suffice :
  forall decomp comp e ms (fs : list (bytes * bool)),
    (forall e' b, decomp e' (comp e' b) = Some b) ->
    is_partition ms fs = true -> es_only_last fs = true ->
    decodable decomp e ms = true -> lens_ok decomp comp e ms = true ->
    exists s' evs,
      run_frames decomp repaired e st0 fs = Done s' evs /\
      c11_ok decomp e ms (last_es fs) (calls_of evs) (datas_of comp repaired e evs) = true.
Proof. exact checked_hypotheses_suffice. Qed.
Print Assumptions C11_checked_hypotheses_suffice.

(* clause ids grpc_detection / encoding_selection: the rules pinned by hand
   ([std_is_grpc], [std_enc_of_name]) are exactly what the tables regenerated
   from the source compute; unknown encodings are errors *)
Theorem C11_detection_is_exact_content_type : forall hs, is_grpc hs = std_is_grpc hs.
Proof. exact is_grpc_std. Qed.
Print Assumptions C11_detection_is_exact_content_type.

Theorem C11_encoding_table_is_standard :
  (forall v, enc_of_name v = std_enc_of_name v) /\ default_enc = Identity.
Proof. split; [exact enc_of_name_std|exact default_enc_identity]. Qed.
Print Assumptions C11_encoding_table_is_standard.

Theorem C11_encoding_selection : forall hs e,
  select_enc default_enc hs = Some e ->
  match announced None hs with
  | None => e = Identity
  | Some v => std_enc_of_name v = Some e
  end.
Proof. exact encoding_selection_standard. Qed.
Print Assumptions C11_encoding_selection.

Theorem C11_unknown_encoding_rejected : forall hs cur,
  select_enc cur hs = None <->
  exists v, In v (map snd (filter (fun h => bytes_eqb (fst h) (list_ascii_of_string "grpc-encoding"%string)) hs))
            /\ std_enc_of_name v = None.
Proof. exact unknown_encoding_rejected. Qed.
Print Assumptions C11_unknown_encoding_rejected.

(* "same wire format and encoding": HEADERS (grpc-encoding included) reach the
   processor and the sink with exactly the fields received, gRPC or not *)
Theorem C11_headers_forwarded_verbatim : forall decomp comp v p d hs es p' out c,
  op_step decomp comp v p (OpHeader d hs es) = Some (p', out, c) ->
  out = [OErr ErrEncoding] \/ out = [PHeader d hs es; SHeader d hs es] \/ out = [SHeader d hs es].
Proof. exact header_forwarded. Qed.
Print Assumptions C11_headers_forwarded_verbatim.

(* The property at the level of the HEADERS/DATA scripts the driver runs
   against the implementation: either direction [d] of a gRPC stream with a
   fresh adapter, whatever encoding was selected. *)
Theorem C11_ops_level : forall decomp comp p d ms ds dl esl,
  (forall e' b, decomp e' (comp e' b) = Some b) ->
  has_proc d p = true -> enabled p = true -> get_ad d p = st0 ->
  wf decomp (get_enc d p) ms -> lens_fit decomp comp (get_enc d p) ms ->
  concat ds ++ dl = wire ms ->
  exists outs evs,
    run_ops decomp comp repaired p (data_ops d (frames_of ds dl esl)) = Some outs /\
    concat outs = through comp repaired d (get_enc d p) evs /\
    c11_ok decomp (get_enc d p) ms esl (calls_of evs) (datas_of comp repaired (get_enc d p) evs) = true.
Proof. exact ops_level. Qed.
Print Assumptions C11_ops_level.

(* non-vacuity of the audit theorems' hypotheses *)
Example C11_checked_hypotheses_example :
  let fs := [([zero; zero], false); ([zero; zero; "002"; "A"; "B"; one; zero]%char, false);
             ([zero; zero; zero], true)] in
  let ms := [mkMsg false ["A"; "B"]%char; mkMsg true []] in
  is_partition ms fs = true /\ es_only_last fs = true /\ last_es fs = true /\
  decodable id_decomp Identity ms = true /\ lens_ok id_decomp id_comp Identity ms = true.
Proof. vm_compute. auto. Qed.

Example C11_ops_level_example :
  let h (n v : string) := (list_ascii_of_string n, list_ascii_of_string v) in
  exists p, pair_after id_decomp id_comp repaired pair0
              [OpHeader CtoS [h "content-type" "application/grpc"; h "grpc-encoding" "deflate"]%string false;
               OpHeader StoC [h "content-type" "application/grpc"; h "grpc-encoding" "snappy"]%string false] = Some p /\
            has_proc StoC p = true /\ enabled p = true /\ get_ad StoC p = st0 /\ get_enc StoC p = Snappy /\ get_enc CtoS p = Deflate.
Proof. eexists. vm_compute. repeat split. Qed.

Example C11_non_grpc_example :
  let h (n v : string) := (list_ascii_of_string n, list_ascii_of_string v) in
  forallb (fun o => negb (header_is_grpc o))
    [OpHeader CtoS [h "content-type" "application/grpc+proto"]%string false; OpData CtoS [zero] true;
     OpHeader StoC [h "content-type" "application/json"]%string false; OpData StoC [] true] = true.
Proof. vm_compute. reflexivity. Qed.

Example C11_encoding_examples :
  let h (n v : string) := (list_ascii_of_string n, list_ascii_of_string v) in
  select_enc default_enc [h "grpc-encoding" "gzip"; h "te" "trailers"; h "grpc-encoding" "snappy"]%string = Some Snappy /\
  select_enc default_enc [h "grpc-encoding" "br"]%string = None /\
  select_enc default_enc [h "te" "trailers"]%string = Some Identity.
Proof. vm_compute. auto. Qed.

(* totalisation audit (see notes): the fallback arm of the loop is dead, and
   the payload slice is always exact *)
Theorem C11_loop_fallback_arm_dead : forall (b : bytes),
  Nat.ltb (length b) 5 = false -> exists c l1 l2 l3 l4 rest, b = c :: l1 :: l2 :: l3 :: l4 :: rest.
Proof. exact (@five_shape ascii). Qed.
Print Assumptions C11_loop_fallback_arm_dead.

Theorem C11_payload_slice_exact : forall (b : bytes) (n : N),
  N.ltb (N.of_nat (length b)) n = false ->
  length (firstn (N.to_nat n) b) = N.to_nat n /\ firstn (N.to_nat n) b ++ skipn (N.to_nat n) b = b.
Proof. exact payload_split_exact. Qed.
Print Assumptions C11_payload_slice_exact.

(* ------------------------------------------------------------------ *)
(* Factory configuration: (c2s, s2c) processors, either may be nil      *)
(* ------------------------------------------------------------------ *)

(* the side that has no processor: untouched, state unchanged *)
Theorem C11_no_processor_untouched : forall decomp comp v p o,
  has_proc (op_dir o) p = false ->
  op_step decomp comp v p o = Some (p, untouched o, true).
Proof. exact no_processor_untouched. Qed.
Print Assumptions C11_no_processor_untouched.

(* gRPC detection in every configuration: raised exactly by a content-type:
   application/grpc on a HEADERS of a direction that has a processor --
   whichever direction that is -- never lowered, never by DATA; the
   configuration is constant.  (So a factory that observes responses only
   still gets the stream enabled by the response HEADERS, and its processor
   is shown the messages: [C11_ops_level] with [d = StoC].) *)
Theorem C11_detection_step : forall decomp comp v p d hs es p' out c,
  op_step decomp comp v p (OpHeader d hs es) = Some (p', out, c) ->
  enabled p' = (enabled p || (has_proc d p && std_is_grpc hs)) /\
  forall d', has_proc d' p' = has_proc d' p.
Proof. exact detection_step. Qed.
Print Assumptions C11_detection_step.

Theorem C11_data_keeps_detection : forall decomp comp v p d b es p' out c,
  op_step decomp comp v p (OpData d b es) = Some (p', out, c) ->
  enabled p' = enabled p /\ forall d', has_proc d' p' = has_proc d' p.
Proof. exact data_keeps_detection. Qed.
Print Assumptions C11_data_keeps_detection.

(* responses-only factory (nil, processor): the response HEADERS enable the
   stream, the response processor is shown the message, the request side
   passes untouched although it is a gRPC stream *)
Example C11_responses_only_example :
  let h (n v : string) := (list_ascii_of_string n, list_ascii_of_string v) in
  let hq := [h "content-type" "application/grpc"]%string in
  let hr := [h ":status" "200"; h "content-type" "application/grpc"]%string in
  run_ops id_decomp id_comp repaired (pair_cfg false true)
    [OpHeader CtoS hq false; OpData CtoS [zero; zero; zero; zero; one; "Q"]%char true;
     OpHeader StoC hr false; OpData StoC [zero; zero; zero] false; OpData StoC [zero; one; "R"]%char false]
  = Some [[SHeader CtoS hq false]; [SData CtoS [zero; zero; zero; zero; one; "Q"]%char true];
          [PHeader StoC hr false; SHeader StoC hr false]; [];
          [PMsg StoC (Some ["R"%char]) false; SData StoC [zero; zero; zero; zero; one; "R"]%char false]].
Proof. vm_compute. reflexivity. Qed.

(* clause id encoding_selection, error side: adapter.Header returns the
   "unrecognized grpc-encoding" error exactly when the gRPC specification's
   table rejects the announcement; `grpc-encoding: identity` (explicit), gzip,
   deflate, snappy are always accepted; other spellings (upper case,
   surrounding whitespace, lists) are rejected by the unchanged code. *)
Theorem C11_encoding_error_iff_nonstandard : forall hs cur,
  select_enc cur hs = None <-> std_rejects hs = true.
Proof. exact select_enc_none_iff_std_rejects. Qed.
Print Assumptions C11_encoding_error_iff_nonstandard.

Example C11_announcement_examples :
  let h (n v : string) := (list_ascii_of_string n, list_ascii_of_string v) in
  std_rejects [h "grpc-encoding" "identity"]%string = false /\
  std_rejects [h "grpc-encoding" "gzip"; h "grpc-encoding" "deflate"; h "grpc-encoding" "snappy"]%string = false /\
  std_rejects [h "te" "trailers"]%string = false /\
  std_rejects [h "grpc-encoding" "Identity"]%string = true /\
  std_rejects [h "grpc-encoding" "GZIP"]%string = true /\
  std_rejects [h "grpc-encoding" " gzip"]%string = true /\
  std_rejects [h "grpc-encoding" "gzip "]%string = true /\
  std_rejects [h "grpc-encoding" ""]%string = true /\
  select_enc default_enc [h "grpc-encoding" "identity"]%string = Some Identity.
Proof. vm_compute. repeat split. Qed.
