From Coq Require Import ExtrOcamlBasic ExtrOcamlString.
From Martian.Common Require Import ExtractBase.
From Martian.C11 Require Import Model.
Extraction Language OCaml.
Extraction "model.ml" base_anchor
  repaired original st0 pair0 loop adapter_data emit run_frames run_ops run_session sess0 sess_cfg pair_cfg has_proc std_stream_is_grpc ops_of outs_of pair_after
  wire parse_stream decode reenc
  c11_ok proc_msgs_ok proc_eos_ok sink_msgs_ok sink_eos_ok sink_msg_count sink_flags_lens_ok
  decodable lens_ok es_only_last last_es is_partition calls_of datas_of
  enabled get_enc bytes_eqb std_is_grpc std_enc_of_name std_rejects announced untouched_ok.
