(* C11 — gRPC reframing is invariant to DATA fragmentation and compression.

   Definitions only.  Executable model of h2/grpc/grpc.go:

   - [loop] / [adapter_data]  : adapter.Data (lines 174-251): append to the
     reassembly buffer, then the two-state parser loop, test by test.
   - [emit]                   : emitter.Message (lines 285-324).
   - [header_step]            : adapter.Header (lines 138-172): gRPC detection
     on the exact content-type, grpc-encoding selection.
   - [run_ops]                : a script of HEADERS / DATA on both directions
     through the adapter -> pass-through processor -> emitter -> sink chain
     built by AsStreamProcessorFactory (lines 59-102).

   The model is parameterised by a [variant] so that both the code as
   REPAIRED by fixes/C11-1..2 ([repaired], the one the theorems are about)
   and the ORIGINAL code ([original], for the refutation witnesses) can be
   run.  The third repair (snappy container) is not a control-flow change:
   it is the law [decomp e (comp e b) = Some b], which the original code's
   snappy pair (stream decoder, block encoder) does not satisfy.

   Real (de)compressors are function arguments ([decomp], [comp]); the
   theorems assume only the round-trip law, the driver instantiates them
   with finite tables computed by the Go harness with independent decoders.

   Not modelled: Go [int]/[uint32] wrap-around of buffer lengths >= 2^32
   (the emitted length field is [len mod 2^32] as in Go), errors returned by
   a processor or a sink (the pass-through processor and the recording sinks
   never fail), Priority/RSTStream/PushPromise (forwarded verbatim). *)

From Coq Require Import String.
From Coq Require Import List NArith Bool Arith Ascii.
From Martian.C11 Require Import Gen_GrpcEnc.
Import ListNotations.

Definition bytes := list ascii.

Inductive enc := Identity | Gzip | Deflate | Snappy.

Definition enc_eqb (a b : enc) : bool :=
  match a, b with
  | Identity, Identity | Gzip, Gzip | Deflate, Deflate | Snappy, Snappy => true
  | _, _ => false
  end.

(* ------------------------------------------------------------------ *)
(* bytes, big-endian uint32                                            *)
(* ------------------------------------------------------------------ *)

Definition byte_of_N (n : N) : ascii := ascii_of_N (n mod 256).

(* binary.Write(BigEndian, uint32(len)) : the conversion to uint32 wraps. *)
Definition be32 (n : N) : bytes :=
  [byte_of_N (n / 16777216); byte_of_N (n / 65536); byte_of_N (n / 256); byte_of_N n].

Definition N_of_be32 (a b c d : ascii) : N :=
  (N_of_ascii a * 16777216 + N_of_ascii b * 65536 + N_of_ascii c * 256 + N_of_ascii d)%N.

Definition is_nil {A} (l : list A) : bool :=
  match l with [] => true | _ => false end.

Definition ascii_eqb (a b : ascii) : bool := N.eqb (N_of_ascii a) (N_of_ascii b).

Fixpoint bytes_eqb (a b : bytes) : bool :=
  match a, b with
  | [], [] => true
  | x :: a', y :: b' => ascii_eqb x y && bytes_eqb a' b'
  | _, _ => false
  end.

Definition flag_byte (c : bool) : ascii := if c then one else zero.

(* One length-prefixed gRPC message on the wire. *)
Definition frame_msg (c : bool) (payload : bytes) : bytes :=
  flag_byte c :: be32 (N.of_nat (length payload)) ++ payload.

(* ------------------------------------------------------------------ *)
(* Which code is modelled                                              *)
(* ------------------------------------------------------------------ *)

Record variant := mkVariant
  { (* fixes/C11-1: the loop's bottom exit test `buffer.Len()==0 -> return`
       only applies between messages (state == readingMetadata) *)
    exit_between_messages_only : bool;
    (* fixes/C11-2: emitter.Message(nil, true) forwards an empty END_STREAM
       DATA frame instead of framing a zero-length message *)
    nil_eos_as_empty_frame : bool }.

Definition repaired : variant := mkVariant true true.
Definition original : variant := mkVariant false false.

(* ------------------------------------------------------------------ *)
(* adapter state and what it calls                                     *)
(* ------------------------------------------------------------------ *)

(* adapter fields buffer, state, compressed, length (lines 131-135) *)
Record st := mkSt
  { buf : bytes;
    rd_data : bool;     (* state == readingMessageData *)
    cflag : bool;       (* compressed *)
    mlen : N }.         (* length *)

Definition st0 : st := mkSt [] false false 0.

(* processor.Message(data, streamEnded); [None] is a nil slice.  [ec] is the
   adapter's [compressed] field at the time of the call: the emitter reads
   it back (e.adapter.compressed); a processor cannot see it. *)
Inductive ev := EvMsg (ec : bool) (data : option bytes) (es : bool).

Definition ev_es (x : ev) : bool := match x with EvMsg _ _ es => es end.
Definition ev_data (x : ev) : option bytes := match x with EvMsg _ d _ => d end.

Inductive res :=
| Done (s : st) (evs : list ev)        (* Data returned nil *)
| DecErr (s : st) (evs : list ev)      (* Data returned a decompression error *)
| OutOfFuel.

Definition cons_ev (x : ev) (r : res) : res :=
  match r with
  | Done s evs => Done s (x :: evs)
  | DecErr s evs => DecErr s (x :: evs)
  | OutOfFuel => OutOfFuel
  end.

Definition app_ev (xs : list ev) (r : res) : res :=
  match r with
  | Done s evs => Done s (xs ++ evs)
  | DecErr s evs => DecErr s (xs ++ evs)
  | OutOfFuel => OutOfFuel
  end.

Section Codec.

(* The real codecs: gunzip/deflate/snappy reader (lines 207-229) and the
   gzip/flate/snappy writers (lines 287-313). *)
Variable decomp : enc -> bytes -> option bytes.
Variable comp : enc -> bytes -> bytes.

(* `switch a.encoding { case Identity: (nothing) ...` *)
Definition decompress (e : enc) (b : bytes) : option bytes :=
  match e with Identity => Some b | _ => decomp e b end.

Definition compress (e : enc) (b : bytes) : bytes :=
  match e with Identity => b | _ => comp e b end.

(* The `for { switch a.state {...} ; if a.buffer.Len()==0 {return nil} }` loop
   after `a.buffer.Write(data)`.  [es] is the frame's streamEnded. *)
Fixpoint loop (v : variant) (e : enc) (es : bool) (fuel : nat) (s : st) : res :=
  match fuel with
  | O => OutOfFuel
  | S f =>
    if rd_data s then
      (* case readingMessageData *)
      if N.ltb (N.of_nat (length (buf s))) (mlen s) then Done s []
      else
        let k := N.to_nat (mlen s) in
        let data := firstn k (buf s) in
        let rest := skipn k (buf s) in
        match (if cflag s then decompress e data else Some data) with
        | None =>
            (* error returned before `a.state = readingMetadata` *)
            DecErr (mkSt rest true (cflag s) (mlen s)) []
        | Some d =>
            let s' := mkSt rest false (cflag s) (mlen s) in
            cons_ev (EvMsg (cflag s) (Some d) (es && is_nil rest))
              (* bottom of the loop: state is readingMetadata here, both
                 variants return when the buffer is empty *)
              (if is_nil rest then Done s' [] else loop v e es f s')
        end
    else
      (* case readingMetadata *)
      let nil_ev :=
        if es && is_nil (buf s) then [EvMsg (cflag s) None true] else [] in
      app_ev nil_ev
        (if Nat.ltb (length (buf s)) 5 then Done s []
         else
           match buf s with
           | c :: l1 :: l2 :: l3 :: l4 :: rest =>
               let s' := mkSt rest true (negb (ascii_eqb c zero)) (N_of_be32 l1 l2 l3 l4) in
               (* bottom of the loop: state is readingMessageData here *)
               if is_nil rest && negb (exit_between_messages_only v)
               then Done s' []
               else loop v e es f s'
           | _ => Done s []   (* unreachable: the buffer holds >= 5 bytes *)
           end)
  end.

Definition fuel_for (n : nat) : nat := 2 * n + 4.

(* adapter.Data on an enabled stream *)
Definition adapter_data (v : variant) (e : enc) (s : st) (data : bytes) (es : bool) : res :=
  let s1 := mkSt (buf s ++ data) (rd_data s) (cflag s) (mlen s) in
  loop v e es (fuel_for (length (buf s1))) s1.

(* emitter.Message: what reaches the sink's Data *)
Definition emit (v : variant) (e : enc) (x : ev) : bytes * bool :=
  match x with
  | EvMsg c d es =>
      match d with
      | None =>
          if es && nil_eos_as_empty_frame v then ([], true)
          else (frame_msg c (if c then compress e [] else []), es)
      | Some b => (frame_msg c (if c then compress e b else b), es)
      end
  end.

(* A list of DATA frames through one adapter; stops at the first error. *)
Fixpoint run_frames (v : variant) (e : enc) (s : st) (fs : list (bytes * bool)) : res :=
  match fs with
  | [] => Done s []
  | (d, es) :: fs' =>
      match adapter_data v e s d es with
      | Done s1 evs => app_ev evs (run_frames v e s1 fs')
      | r => r
      end
  end.

(* ------------------------------------------------------------------ *)
(* Specification side                                                  *)
(* ------------------------------------------------------------------ *)

Record msg := mkMsg { mflag : bool; mpayload : bytes }.

Definition wire1 (m : msg) : bytes := frame_msg (mflag m) (mpayload m).
Definition wire (ms : list msg) : bytes := flat_map wire1 ms.

(* the message a processor must be shown *)
Definition decode (e : enc) (m : msg) : option bytes :=
  if mflag m then decompress e (mpayload m) else Some (mpayload m).

(* the message the pass-through emitter puts back on the wire *)
Definition reenc (e : enc) (m : msg) : msg :=
  match decode e m with
  | Some p => mkMsg (mflag m) (if mflag m then compress e p else p)
  | None => m
  end.

Definition len32 (b : bytes) : bool := N.ltb (N.of_nat (length b)) 4294967296.

(* Strict parser of a length-prefixed stream: flag byte 0 or 1, complete
   messages only.  [None] = not a sequence of gRPC messages. *)
Fixpoint parse_wire (fuel : nat) (b : bytes) : option (list msg) :=
  match fuel with
  | O => None
  | S f =>
      match b with
      | [] => Some []
      | c :: l1 :: l2 :: l3 :: l4 :: rest =>
          let n := N_of_be32 l1 l2 l3 l4 in
          if (ascii_eqb c zero || ascii_eqb c one) && N.leb n (N.of_nat (length rest)) then
            match parse_wire f (skipn (N.to_nat n) rest) with
            | Some ms => Some (mkMsg (negb (ascii_eqb c zero)) (firstn (N.to_nat n) rest) :: ms)
            | None => None
            end
          else None
      | _ => None
      end
  end.

Definition parse_stream (b : bytes) : option (list msg) := parse_wire (S (length b)) b.

(* ------------------------------------------------------------------ *)
(* Oracle: evaluated on what the REAL code showed the processor and     *)
(* delivered to the sink, for one direction of one stream.             *)
(* ------------------------------------------------------------------ *)

Fixpoint list_eqb {A} (eqb : A -> A -> bool) (a b : list A) : bool :=
  match a, b with
  | [], [] => true
  | x :: a', y :: b' => eqb x y && list_eqb eqb a' b'
  | _, _ => false
  end.

Definition obytes_eqb (a b : option bytes) : bool :=
  match a, b with
  | Some x, Some y => bytes_eqb x y
  | None, None => true
  | _, _ => false
  end.

(* the messages among the Message calls: nil data = "no message" *)
Definition shown (calls : list (option bytes * bool)) : list bytes :=
  flat_map (fun c => match fst c with Some b => [b] | None => [] end) calls.

(* end-of-stream exactly once and on the last call when [esl], never otherwise *)
Definition eos_ok (esl : bool) (flags : list bool) : bool :=
  match rev flags with
  | [] => negb esl
  | last :: before => Bool.eqb last esl && forallb negb before
  end.

Definition proc_msgs_ok (e : enc) (ms : list msg) (calls : list (option bytes * bool)) : bool :=
  list_eqb obytes_eqb (map (decode e) ms) (map Some (shown calls)).

Definition proc_eos_ok (esl : bool) (calls : list (option bytes * bool)) : bool :=
  eos_ok esl (map snd calls).

Definition sink_bytes (datas : list (bytes * bool)) : bytes := flat_map fst datas.

(* same flag and, decoded with the SAME decoder, the same message *)
Definition same_msg (e : enc) (m m' : msg) : bool :=
  Bool.eqb (mflag m) (mflag m') &&
  match decode e m with
  | Some p => obytes_eqb (decode e m') (Some p)
  | None => false
  end.

Definition sink_msgs_ok (e : enc) (ms : list msg) (datas : list (bytes * bool)) : bool :=
  match parse_stream (sink_bytes datas) with
  | Some ms' => list_eqb (same_msg e) ms ms'
  | None => false
  end.

Definition sink_eos_ok (esl : bool) (datas : list (bytes * bool)) : bool :=
  eos_ok esl (map snd datas).

(* [esl]: the DATA frames carried END_STREAM (on the last frame). *)
Definition c11_ok (e : enc) (ms : list msg) (esl : bool)
           (calls : list (option bytes * bool)) (datas : list (bytes * bool)) : bool :=
  proc_msgs_ok e ms calls && proc_eos_ok esl calls &&
  sink_msgs_ok e ms datas && sink_eos_ok esl datas.

(* finer diagnosis of a sink failure, for the reports *)
Definition sink_msg_count (datas : list (bytes * bool)) : option nat :=
  match parse_stream (sink_bytes datas) with
  | Some ms' => Some (length ms')
  | None => None
  end.

Definition sink_flags_lens_ok (ms : list msg) (datas : list (bytes * bool)) : bool :=
  match parse_stream (sink_bytes datas) with
  | Some ms' => list_eqb Bool.eqb (map mflag ms) (map mflag ms')
  | None => false
  end.

(* the script is a well-formed instance of the property's hypothesis *)
Definition decodable (e : enc) (ms : list msg) : bool :=
  forallb (fun m => match decode e m with Some _ => true | None => false end) ms.

Definition lens_ok (e : enc) (ms : list msg) : bool :=
  forallb (fun m => len32 (mpayload m) && len32 (mpayload (reenc e m))) ms.

Definition es_only_last (fs : list (bytes * bool)) : bool :=
  forallb (fun f => negb (snd f)) (removelast fs).

Definition last_es (fs : list (bytes * bool)) : bool :=
  match rev fs with f :: _ => snd f | [] => false end.

Definition is_partition (ms : list msg) (fs : list (bytes * bool)) : bool :=
  bytes_eqb (flat_map fst fs) (wire ms).

(* views of the model's own events, in the oracle's vocabulary *)
Definition calls_of (evs : list ev) : list (option bytes * bool) :=
  map (fun x => (ev_data x, ev_es x)) evs.

Definition datas_of (v : variant) (e : enc) (evs : list ev) : list (bytes * bool) :=
  map (emit v e) evs.

(* ------------------------------------------------------------------ *)
(* Both directions of one stream: HEADERS and DATA scripts             *)
(* ------------------------------------------------------------------ *)

Inductive dir := CtoS | StoC.

Definition hfield := (bytes * bytes)%type.

Inductive op :=
| OpHeader (d : dir) (hs : list hfield) (es : bool)
| OpData (d : dir) (data : bytes) (es : bool).

Inductive errkind := ErrEncoding | ErrDecompress.

(* calls observed at the recording processor / sink *)
Inductive oev :=
| PHeader (d : dir) (hs : list hfield) (es : bool)   (* processor shown Header(hs, es) *)
| SHeader (d : dir) (hs : list hfield) (es : bool)   (* sink received Header(hs, es) *)
| PMsg (d : dir) (data : option bytes) (es : bool)
| SData (d : dir) (data : bytes) (es : bool)
| OErr (k : errkind).

Record pair := mkPair
  { enabled : bool;      (* shared by the two adapters *)
    encC : enc; encS : enc;
    adC : st; adS : st;
    (* factory configuration: which directions the ProcessorFactory returned
       a (non-nil) processor for.  A direction without one has no adapter:
       h2 (h2.go, "Bypasses any nil processors") sends its frames straight
       to the sink. *)
    procC : bool; procS : bool }.

(* Header names/values and the `switch h.Value` table are not hand-copied:
   Gen_GrpcEnc.v is regenerated from h2/grpc/grpc.go on every run. *)
Definition s_content_type : bytes := list_ascii_of_string gen_content_type_header.
Definition s_application_grpc : bytes := list_ascii_of_string gen_grpc_content_type.
Definition s_grpc_encoding : bytes := list_ascii_of_string gen_encoding_header.

(* Go constant name -> model constructor; an unknown name (a new Encoding
   constant in the source) makes the value unrecognised here, which the
   correspondence run then reports *)
Definition enc_of_const (c : bytes) : option enc :=
  if bytes_eqb c (list_ascii_of_string "Identity"%string) then Some Identity
  else if bytes_eqb c (list_ascii_of_string "Gzip"%string) then Some Gzip
  else if bytes_eqb c (list_ascii_of_string "Deflate"%string) then Some Deflate
  else if bytes_eqb c (list_ascii_of_string "Snappy"%string) then Some Snappy
  else None.

Fixpoint lookup_enc (v : bytes) (tbl : list (string * string)) : option enc :=
  match tbl with
  | [] => None
  | (n, c) :: tbl' =>
      if bytes_eqb v (list_ascii_of_string n) then enc_of_const (list_ascii_of_string c)
      else lookup_enc v tbl'
  end.

(* the `switch h.Value` of adapter.Header *)
Definition enc_of_name (v : bytes) : option enc := lookup_enc v gen_encodings.

(* the zero value of the adapter's `encoding` field: the first constant *)
Definition default_enc : enc :=
  match gen_encoding_consts with
  | c :: _ => match enc_of_const (list_ascii_of_string c) with Some e => e | None => Identity end
  | [] => Identity
  end.

Definition pair_cfg (hc hs : bool) : pair := mkPair false default_enc default_enc st0 st0 hc hs.
Definition pair0 : pair := pair_cfg true true.

Definition is_grpc (hs : list hfield) : bool :=
  existsb (fun h => bytes_eqb (fst h) s_content_type && bytes_eqb (snd h) s_application_grpc) hs.

(* [None] = `unrecognized grpc-encoding` *)
Fixpoint select_enc (cur : enc) (hs : list hfield) : option enc :=
  match hs with
  | [] => Some cur
  | h :: hs' =>
      if bytes_eqb (fst h) s_grpc_encoding then
        match enc_of_name (snd h) with
        | Some e => select_enc e hs'
        | None => None
        end
      else select_enc cur hs'
  end.

(* The rules the oracle pins, written out by hand and independent of the
   regenerated Gen_GrpcEnc.v: a stream is gRPC iff some HEADERS field is
   content-type: application/grpc (exactly), and grpc-encoding values name
   the codecs of the gRPC specification.  Proofs.v shows the regenerated
   tables compute exactly these. *)
Definition std_is_grpc (hs : list hfield) : bool :=
  existsb (fun h => bytes_eqb (fst h) (list_ascii_of_string "content-type"%string) &&
                    bytes_eqb (snd h) (list_ascii_of_string "application/grpc"%string)) hs.

Definition std_enc_of_name (v : bytes) : option enc :=
  if bytes_eqb v (list_ascii_of_string "identity"%string) then Some Identity
  else if bytes_eqb v (list_ascii_of_string "gzip"%string) then Some Gzip
  else if bytes_eqb v (list_ascii_of_string "deflate"%string) then Some Deflate
  else if bytes_eqb v (list_ascii_of_string "snappy"%string) then Some Snappy
  else None.

(* the last grpc-encoding value a header list announces, if any *)
Fixpoint announced (cur : option bytes) (hs : list hfield) : option bytes :=
  match hs with
  | [] => cur
  | h :: hs' =>
      if bytes_eqb (fst h) (list_ascii_of_string "grpc-encoding"%string)
      then announced (Some (snd h)) hs' else announced cur hs'
  end.

(* a header list that the gRPC specification's table rejects: some
   grpc-encoding value is not one of identity / gzip / deflate / snappy
   (exact, lower case, no surrounding whitespace) *)
Definition std_rejects (hs : list hfield) : bool :=
  existsb (fun h => bytes_eqb (fst h) (list_ascii_of_string "grpc-encoding"%string) &&
                    match std_enc_of_name (snd h) with None => true | Some _ => false end) hs.

(* oracle for a stream that is not gRPC: the processor is shown nothing and
   the sink receives exactly the DATA frames that were sent *)
Definition frame_eqb (a b : bytes * bool) : bool :=
  bytes_eqb (fst a) (fst b) && Bool.eqb (snd a) (snd b).

Definition untouched_ok (frames : list (bytes * bool))
           (calls : list (option bytes * bool)) (datas : list (bytes * bool)) : bool :=
  is_nil calls && list_eqb frame_eqb datas frames.

Definition get_enc (d : dir) (p : pair) : enc := match d with CtoS => encC p | StoC => encS p end.
Definition get_ad (d : dir) (p : pair) : st := match d with CtoS => adC p | StoC => adS p end.
Definition set_enc (d : dir) (e : enc) (p : pair) : pair :=
  match d with
  | CtoS => mkPair (enabled p) e (encS p) (adC p) (adS p) (procC p) (procS p)
  | StoC => mkPair (enabled p) (encC p) e (adC p) (adS p) (procC p) (procS p)
  end.
Definition set_ad (d : dir) (s : st) (p : pair) : pair :=
  match d with
  | CtoS => mkPair (enabled p) (encC p) (encS p) s (adS p) (procC p) (procS p)
  | StoC => mkPair (enabled p) (encC p) (encS p) (adC p) s (procC p) (procS p)
  end.
Definition set_enabled (p : pair) : pair := mkPair true (encC p) (encS p) (adC p) (adS p) (procC p) (procS p).
Definition has_proc (d : dir) (p : pair) : bool := match d with CtoS => procC p | StoC => procS p end.

Definition through (v : variant) (d : dir) (e : enc) (evs : list ev) : list oev :=
  flat_map (fun x => [PMsg d (ev_data x) (ev_es x); SData d (fst (emit v e x)) (snd (emit v e x))]) evs.

(* one op on a direction that HAS an adapter: new state, calls it caused, and
   whether the script goes on *)
Definition adapter_step (v : variant) (p : pair) (o : op) : option (pair * list oev * bool) :=
  match o with
  | OpHeader d hs es =>
      let p1 := if enabled p then p else if is_grpc hs then set_enabled p else p in
      if enabled p1 then
        match select_enc (get_enc d p1) hs with
        | None => Some (p1, [OErr ErrEncoding], false)
        | Some e => Some (set_enc d e p1, [PHeader d hs es; SHeader d hs es], true)
        end
      else Some (p1, [SHeader d hs es], true)
  | OpData d data es =>
      if enabled p then
        match adapter_data v (get_enc d p) (get_ad d p) data es with
        | Done s evs => Some (set_ad d s p, through v d (get_enc d p) evs, true)
        | DecErr s evs => Some (set_ad d s p, through v d (get_enc d p) evs ++ [OErr ErrDecompress], false)
        | OutOfFuel => None
        end
      else Some (p, [SData d data es], true)
  end.

Definition op_dir (o : op) : dir :=
  match o with OpHeader d _ _ => d | OpData d _ _ => d end.

(* one op: a direction for which the factory returned no processor has no
   adapter (its HEADERS are not even looked at for gRPC detection) and its
   frames go to the sink as they are *)
Definition op_step (v : variant) (p : pair) (o : op) : option (pair * list oev * bool) :=
  if has_proc (op_dir o) p then adapter_step v p o
  else
    match o with
    | OpHeader d hs es => Some (p, [SHeader d hs es], true)
    | OpData d data es => Some (p, [SData d data es], true)
    end.

(* which streams are gRPC, written out independently: some HEADERS seen by
   an existing adapter carried content-type: application/grpc *)
Definition std_stream_is_grpc (hc hs : bool) (ops : list op) : bool :=
  existsb (fun o => match o with
                    | OpHeader d h false => (match d with CtoS => hc | StoC => hs end) && std_is_grpc h
                    | _ => false
                    end) ops.

(* per executed op the calls it caused; [None] = out of fuel *)
Fixpoint run_ops (v : variant) (p : pair) (ops : list op) : option (list (list oev)) :=
  match ops with
  | [] => Some []
  | o :: ops' =>
      match op_step v p o with
      | None => None
      | Some (p1, out, true) =>
          match run_ops v p1 ops' with
          | Some outs => Some (out :: outs)
          | None => None
          end
      | Some (_, out, false) => Some [out]
      end
  end.

(* state of the pair after the header ops only (what the driver needs to
   know to pick the encoding the oracle is evaluated under) *)
Fixpoint pair_after (v : variant) (p : pair) (ops : list op) : option pair :=
  match ops with
  | [] => Some p
  | o :: ops' =>
      match op_step v p o with
      | Some (p1, _, true) => pair_after v p1 ops'
      | Some (p1, _, false) => Some p1
      | None => None
      end
  end.


(* ------------------------------------------------------------------ *)
(* A session: several streams created by ONE factory value             *)
(* ------------------------------------------------------------------ *)

(* AsStreamProcessorFactory returns a closure that h2 calls once per stream
   (h2.go: streamProcessors.create); everything the adapters keep -- the
   [enabled] flag, the encodings, the reassembly state -- is allocated inside
   that closure, so each stream has its own [pair].  A session state maps a
   stream index to its pair and whether that stream's script has stopped on
   an error.  Ops of different streams arrive interleaved. *)
Definition sess := nat -> pair * bool.

Definition sess_cfg (hc hs : bool) : sess := fun _ => (pair_cfg hc hs, false).
Definition sess0 : sess := sess_cfg true true.

Definition upd (k : nat) (x : pair * bool) (ss : sess) : sess :=
  fun j => if Nat.eqb j k then x else ss j.

(* per executed op: the stream it belongs to and the calls it caused *)
Fixpoint run_session (v : variant) (ss : sess) (sops : list (nat * op))
  : option (list (nat * list oev)) :=
  match sops with
  | [] => Some []
  | (k, o) :: r =>
      if snd (ss k) then run_session v ss r
      else
        match op_step v (fst (ss k)) o with
        | None => None
        | Some (p1, out, cont) =>
            match run_session v (upd k (p1, negb cont) ss) r with
            | Some outs => Some ((k, out) :: outs)
            | None => None
            end
        end
  end.

Definition ops_of (i : nat) (sops : list (nat * op)) : list op :=
  map snd (filter (fun x => Nat.eqb (fst x) i) sops).

Definition outs_of (i : nat) (outs : list (nat * list oev)) : list (list oev) :=
  map snd (filter (fun x => Nat.eqb (fst x) i) outs).

End Codec.
