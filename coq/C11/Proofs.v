(* C11 — from the frame-list invariant to the property clauses: what the
   processor is shown, what the pass-through emitter puts on the wire,
   end-of-stream accounting, the oracle, non-gRPC streams, fuel. *)
From Coq Require Import List NArith Bool Arith Ascii Lia.
From Martian.C11 Require Import Model Proofs_Base Proofs_Loop.
Import ListNotations.

(* ---------------- small list facts ---------------- *)

Definition somes (l : list (option bytes)) : list bytes :=
  flat_map (fun o => match o with Some b => [b] | None => [] end) l.

Lemma shown_somes calls : shown calls = somes (map fst calls).
Proof. unfold shown, somes. induction calls as [|c r IH]; [reflexivity|]. cbn. now rewrite IH. Qed.

Lemma somes_app a b : somes (a ++ b) = somes a ++ somes b.
Proof. unfold somes. apply flat_map_app. Qed.

Lemma somes_all l : Forall (fun o => exists p : bytes, o = Some p) l -> map Some (somes l) = l.
Proof.
  induction 1 as [|o l [p ->] _ IH]; [reflexivity|]. cbn. f_equal. exact IH.
Qed.

Lemma forallb_rev {A} (f : A -> bool) l : forallb f (rev l) = forallb f l.
Proof.
  induction l as [|x l IH]; [reflexivity|]. cbn. rewrite forallb_app, IH. cbn.
  rewrite andb_true_r. apply andb_comm.
Qed.

Lemma eos_ok_snoc esl init b :
  forallb negb init = true -> eos_ok esl (init ++ [b]) = Bool.eqb b esl.
Proof.
  intros H. unfold eos_ok. rewrite rev_app_distr. cbn. now rewrite forallb_rev, H, andb_true_r.
Qed.

Lemma eos_ok_all_false l : forallb negb l = true -> eos_ok false l = true.
Proof.
  intros H. unfold eos_ok. destruct (rev l) as [|x r] eqn:Hr; [reflexivity|].
  rewrite <- forallb_rev, Hr in H. cbn in H. apply andb_true_iff in H. destruct H as [Hx Hr'].
  rewrite Hr'. destruct x; [discriminate|reflexivity].
Qed.

(* end-of-stream exactly once and last, as a proposition *)
Definition eos_once_last (esl : bool) (flags : list bool) : Prop :=
  (flags = [] /\ esl = false) \/
  (exists init, flags = init ++ [esl] /\ Forall (fun b => b = false) init).

Lemma eos_ok_iff esl flags : eos_ok esl flags = true <-> eos_once_last esl flags.
Proof.
  unfold eos_ok, eos_once_last. split.
  - destruct (rev flags) as [|x r] eqn:Hr.
    + intros H. left. split; [|now destruct esl].
      rewrite <- (rev_involutive flags), Hr. reflexivity.
    + intros H. apply andb_true_iff in H. destruct H as [Hx Hb]. right.
      exists (rev r). split.
      * rewrite <- (rev_involutive flags), Hr. cbn. f_equal. f_equal. now apply bool_eqb_eq.
      * rewrite forallb_forall in Hb. apply Forall_forall. intros b Hin.
        apply in_rev in Hin. specialize (Hb b Hin). now destruct b.
  - intros [[-> ->]|[init [-> Hall]]]; [reflexivity|].
    rewrite rev_app_distr. cbn. apply andb_true_iff. split; [now destruct esl|].
    apply forallb_forall. intros b Hin. apply in_rev in Hin.
    rewrite Forall_forall in Hall. now rewrite (Hall b Hin).
Qed.

Section Props.

Variable decomp : enc -> bytes -> option bytes.
Variable comp : enc -> bytes -> bytes.
Variable e : enc.

Notation wf := (wf decomp e).
Notation evs_of := (evs_of decomp e).
Notation ev_of := (ev_of decomp e).
Notation expected := (expected decomp e).
Notation decode := (decode decomp e).
Notation reenc := (reenc decomp comp e).

(* ---------------- what the processor is shown ---------------- *)

Lemma data_evs_of b ms : map ev_data (evs_of b ms) = map decode ms.
Proof.
  induction ms as [|m [|m' r] IH]; try reflexivity.
  change (evs_of b (m :: m' :: r)) with (ev_of m false :: evs_of b (m' :: r)).
  cbn [map]. rewrite IH. reflexivity.
Qed.

Lemma map_fst_calls_of evs : map fst (calls_of evs) = map ev_data evs.
Proof. unfold calls_of. rewrite map_map. reflexivity. Qed.

Lemma map_snd_calls_of evs : map snd (calls_of evs) = map ev_es evs.
Proof. unfold calls_of. rewrite map_map. reflexivity. Qed.

Lemma wf_decodes ms : wf ms -> Forall (fun o => exists p : bytes, o = Some p) (map decode ms).
Proof.
  induction 1 as [|m ms [_ [p Hp]] _ IH]; cbn; constructor; auto. now exists p.
Qed.

Lemma shown_expected ms dl esl c :
  wf ms -> map decode ms = map Some (shown (calls_of (expected ms dl esl c))).
Proof.
  intros Hwf. rewrite shown_somes, map_fst_calls_of. unfold expected.
  destruct (is_nil dl).
  - rewrite map_app, somes_app, data_evs_of.
    replace (somes (map ev_data (if esl then [EvMsg c None true] else []))) with (@nil bytes)
      by (now destruct esl).
    rewrite app_nil_r. symmetry. apply somes_all, wf_decodes, Hwf.
  - rewrite data_evs_of. symmetry. apply somes_all, wf_decodes, Hwf.
Qed.

(* ---------------- end-of-stream flags ---------------- *)

Lemma es_evs_of_false ms : forallb negb (map ev_es (evs_of false ms)) = true.
Proof.
  rewrite evs_of_false, map_map. cbn. induction ms; [reflexivity|exact IHms].
Qed.

Lemma es_evs_of b ms :
  ms <> [] -> exists init, map ev_es (evs_of b ms) = init ++ [b] /\ forallb negb init = true.
Proof.
  induction ms as [|m [|m' r] IH]; intros Hne; [congruence| |].
  - exists []. split; reflexivity.
  - destruct IH as [init [Hi Hf]]; [discriminate|].
    exists (false :: init). split; [|exact Hf].
    change (evs_of b (m :: m' :: r)) with (ev_of m false :: evs_of b (m' :: r)).
    cbn [map ev_es ev_of Proofs_Loop.ev_of]. now rewrite Hi.
Qed.

Lemma eos_expected ms dl esl c :
  (dl <> [] -> ms <> []) -> eos_ok esl (map ev_es (expected ms dl esl c)) = true.
Proof.
  intros Hne. unfold expected. destruct (is_nil dl) eqn:Hdl.
  - rewrite map_app. destruct esl.
    + cbn [map ev_es]. rewrite eos_ok_snoc; [reflexivity|apply es_evs_of_false].
    + cbn [map]. rewrite app_nil_r. apply eos_ok_all_false, es_evs_of_false.
  - apply is_nil_false in Hdl. destruct (es_evs_of esl ms (Hne Hdl)) as [init [Hi Hf]].
    rewrite Hi, eos_ok_snoc by exact Hf. now destruct esl.
Qed.

(* ---------------- what the pass-through emitter sends ---------------- *)

Lemma emit_ev_of m b p :
  decode m = Some p -> emit comp repaired e (ev_of m b) = (wire1 (reenc m), b).
Proof.
  intros Hp. unfold ev_of, Proofs_Loop.ev_of, emit, reenc, Model.reenc, wire1. rewrite Hp.
  cbn [mflag mpayload]. reflexivity.
Qed.

Lemma emit_es x : snd (emit comp repaired e x) = ev_es x.
Proof.
  destruct x as [c [b|] es]; cbn; [reflexivity|].
  rewrite andb_true_r. now destruct es.
Qed.

Lemma sink_evs_of b ms :
  wf ms -> sink_bytes (datas_of comp repaired e (evs_of b ms)) = wire (map reenc ms).
Proof.
  unfold sink_bytes, datas_of.
  induction ms as [|m [|m' r] IH]; intros Hwf; [reflexivity| |].
  - apply wf_cons_inv in Hwf. destruct Hwf as [[_ [p Hp]] _].
    cbn [Proofs_Loop.evs_of map flat_map]. rewrite (emit_ev_of _ _ _ Hp). cbn [fst wire flat_map]. reflexivity.
  - apply wf_cons_inv in Hwf. destruct Hwf as [[_ [p Hp]] Hwf].
    change (evs_of b (m :: m' :: r)) with (ev_of m false :: evs_of b (m' :: r)).
    cbn [map flat_map]. rewrite (emit_ev_of _ _ _ Hp). cbn [fst].
    rewrite (IH Hwf). reflexivity.
Qed.

Lemma sink_datas_app a b :
  sink_bytes (datas_of comp repaired e (a ++ b)) =
  sink_bytes (datas_of comp repaired e a) ++ sink_bytes (datas_of comp repaired e b).
Proof. unfold sink_bytes, datas_of. now rewrite map_app, flat_map_app. Qed.

Lemma sink_expected ms dl esl c :
  wf ms -> sink_bytes (datas_of comp repaired e (expected ms dl esl c)) = wire (map reenc ms).
Proof.
  intros Hwf. unfold expected. destruct (is_nil dl).
  - rewrite sink_datas_app, (sink_evs_of false ms Hwf). destruct esl; cbn; now rewrite app_nil_r.
  - apply sink_evs_of, Hwf.
Qed.

Lemma map_snd_datas_of evs : map snd (datas_of comp repaired e evs) = map ev_es evs.
Proof. unfold datas_of. rewrite map_map. apply map_ext, emit_es. Qed.

(* ---------------- same container ---------------- *)

Hypothesis roundtrip : forall e' b, decomp e' (comp e' b) = Some b.

Lemma decompress_compress b : decompress decomp e (compress comp e b) = Some b.
Proof. unfold decompress, compress. destruct e; auto. Qed.

Lemma decode_reenc m p : decode m = Some p -> decode (reenc m) = Some p.
Proof.
  intros Hp. unfold reenc, Model.reenc. rewrite Hp. unfold decode, Model.decode. cbn [mflag mpayload].
  destruct (mflag m); [apply decompress_compress|reflexivity].
Qed.

Lemma mflag_reenc m : mflag (reenc m) = mflag m.
Proof. unfold reenc, Model.reenc. destruct (decode m); reflexivity. Qed.

Lemma same_msg_reenc m : wf_msg decomp e m -> same_msg decomp e m (reenc m) = true.
Proof.
  intros [_ [p Hp]]. unfold same_msg. rewrite mflag_reenc, Hp, (decode_reenc m p Hp).
  apply andb_true_iff. split; [now destruct (mflag m)|]. apply obytes_eqb_eq. reflexivity.
Qed.

Lemma same_msgs_reenc ms : wf ms -> list_eqb (same_msg decomp e) ms (map reenc ms) = true.
Proof.
  induction 1 as [|m ms Hm _ IH]; [reflexivity|]. cbn. now rewrite (same_msg_reenc m Hm), IH.
Qed.

Definition lens_fit (ms : list msg) : Prop :=
  Forall (fun m => len32 (mpayload m) = true) (map reenc ms).

Lemma sink_msgs_expected ms dl esl c :
  wf ms -> lens_fit ms ->
  sink_msgs_ok decomp e ms (datas_of comp repaired e (expected ms dl esl c)) = true.
Proof.
  intros Hwf Hl. unfold sink_msgs_ok. rewrite (sink_expected ms dl esl c Hwf).
  replace (parse_stream (wire (map reenc ms))) with (Some (map reenc ms))
    by (symmetry; apply parse_stream_iff; auto).
  apply same_msgs_reenc, Hwf.
Qed.

(* ---------------- the model satisfies the oracle ---------------- *)

Lemma oracle_expected ms dl esl c :
  wf ms -> lens_fit ms -> (dl <> [] -> ms <> []) ->
  c11_ok decomp e ms esl (calls_of (expected ms dl esl c)) (datas_of comp repaired e (expected ms dl esl c)) = true.
Proof.
  intros Hwf Hl Hne. unfold c11_ok, proc_msgs_ok, proc_eos_ok, sink_eos_ok.
  rewrite <- (shown_expected ms dl esl c Hwf).
  rewrite map_snd_calls_of, map_snd_datas_of, (eos_expected ms dl esl c Hne).
  rewrite (sink_msgs_expected ms dl esl c Hwf Hl).
  rewrite andb_true_r. rewrite !andb_true_r.
  apply list_eqb_eq; [apply obytes_eqb_eq|reflexivity].
Qed.

End Props.

(* ---------------- the oracle is the property ---------------- *)

Section Oracle.

Variable decomp : enc -> bytes -> option bytes.
Variable e : enc.

(* same flag and, under the same decoder, the same (decodable) message *)
Definition same_msg_prop (m m' : msg) : Prop :=
  mflag m = mflag m' /\ exists p, decode decomp e m = Some p /\ decode decomp e m' = Some p.

Definition C11_spec (ms : list msg) (esl : bool)
           (calls : list (option bytes * bool)) (datas : list (bytes * bool)) : Prop :=
  (* the processor is shown exactly the decompressed messages ... *)
  map (decode decomp e) ms = map Some (shown calls) /\
  (* ... with end-of-stream exactly once, on the last call, iff the DATA frames carried it *)
  eos_once_last esl (map snd calls) /\
  (* the destination receives a well-formed gRPC stream of the same messages,
     same compressed-flags, decodable by the same decoder to the same bytes *)
  (exists ms', sink_bytes datas = wire ms' /\
               Forall (fun m => len32 (mpayload m) = true) ms' /\
               Forall2 same_msg_prop ms ms') /\
  (* ... and end-of-stream exactly once, on the last DATA *)
  eos_once_last esl (map snd datas).

Lemma same_msg_iff m m' : same_msg decomp e m m' = true <-> same_msg_prop m m'.
Proof.
  unfold same_msg, same_msg_prop. rewrite andb_true_iff, bool_eqb_eq.
  destruct (decode decomp e m) as [p|].
  - rewrite obytes_eqb_eq. split.
    + intros [H1 H2]. split; [exact H1|]. now exists p.
    + intros [H1 [q [H2 H3]]]. split; [exact H1|]. now rewrite H3, H2.
  - split; [intros [_ H]; discriminate|]. intros [_ [q [H _]]]. discriminate.
Qed.

Lemma same_msgs_iff ms ms' :
  list_eqb (same_msg decomp e) ms ms' = true <-> Forall2 same_msg_prop ms ms'.
Proof.
  revert ms'. induction ms as [|m ms IH]; destruct ms' as [|m' ms']; cbn.
  - split; auto.
  - split; [discriminate|]. intros H; inversion H.
  - split; [discriminate|]. intros H; inversion H.
  - rewrite andb_true_iff, same_msg_iff, IH. split.
    + intros [H1 H2]. now constructor.
    + intros H. inversion H; subst. auto.
Qed.

Theorem c11_ok_iff ms esl calls datas :
  c11_ok decomp e ms esl calls datas = true <-> C11_spec ms esl calls datas.
Proof.
  unfold c11_ok, C11_spec, proc_msgs_ok, proc_eos_ok, sink_msgs_ok, sink_eos_ok.
  rewrite !andb_true_iff, !eos_ok_iff.
  rewrite (list_eqb_eq obytes_eqb _ _ obytes_eqb_eq).
  split.
  - intros [[[H1 H2] H3] H4]. repeat split; auto.
    destruct (parse_stream (sink_bytes datas)) as [ms'|] eqn:Hp; [|discriminate].
    apply parse_stream_iff in Hp. destruct Hp as [Hw Hl].
    exists ms'. repeat split; auto. now apply same_msgs_iff.
  - intros [H1 [H2 [[ms' [Hw [Hl Hs]]] H4]]]. repeat split; auto.
    replace (parse_stream (sink_bytes datas)) with (Some ms')
      by (symmetry; apply parse_stream_iff; auto).
    now apply same_msgs_iff.
Qed.

End Oracle.

(* ---------------- streams that are not gRPC ---------------- *)

Definition untouched (o : op) : list oev :=
  match o with
  | OpHeader d hs es => [SHeader d hs es]
  | OpData d b es => [SData d b es]
  end.

Definition header_is_grpc (o : op) : bool :=
  match o with OpHeader _ hs _ => is_grpc hs | OpData _ _ _ => false end.

Lemma non_grpc_untouched decomp comp v : forall ops p,
  enabled p = false -> forallb (fun o => negb (header_is_grpc o)) ops = true ->
  run_ops decomp comp v p ops = Some (map untouched ops).
Proof.
  induction ops as [|o ops IH]; intros p Hp Hall; [reflexivity|].
  cbn [forallb] in Hall. apply andb_true_iff in Hall. destruct Hall as [Ho Hall].
  cbn [run_ops map]. unfold op_step.
  destruct o as [d hs es|d b es]; cbn [op_dir adapter_step header_is_grpc untouched] in *.
  - destruct (has_proc d p).
    + rewrite Hp. apply negb_true_iff in Ho. rewrite Ho, Hp. now rewrite (IH p Hp Hall).
    + now rewrite (IH p Hp Hall).
  - destruct (has_proc d p); [rewrite Hp|]; now rewrite (IH p Hp Hall).
Qed.

(* ---------------- fuel: the loop never runs out, whatever the bytes ---------------- *)

Lemma cons_ev_fuel x r : r <> OutOfFuel -> cons_ev x r <> OutOfFuel.
Proof. destruct r; cbn; congruence. Qed.

Lemma app_ev_fuel xs r : r <> OutOfFuel -> app_ev xs r <> OutOfFuel.
Proof. destruct r; cbn; congruence. Qed.

Lemma loop_fuel decomp v e es : forall fuel s,
  length (buf s) + (if rd_data s then 4 else 3) <= fuel ->
  loop decomp v e es fuel s <> OutOfFuel.
Proof.
  induction fuel as [|f IH]; intros s Hf; [destruct (rd_data s); lia|].
  cbn [loop]. destruct (rd_data s) eqn:Hr.
  - destruct (N.of_nat (length (buf s)) <? mlen s)%N; [discriminate|].
    destruct (if cflag s then decompress decomp e (firstn (N.to_nat (mlen s)) (buf s))
              else Some (firstn (N.to_nat (mlen s)) (buf s))); [|discriminate].
    apply cons_ev_fuel. destruct (is_nil (skipn (N.to_nat (mlen s)) (buf s))); [discriminate|].
    apply IH. cbn [buf rd_data]. rewrite skipn_length. lia.
  - apply app_ev_fuel. destruct (length (buf s) <? 5); [discriminate|].
    destruct (buf s) as [|c [|l1 [|l2 [|l3 [|l4 rest]]]]] eqn:Hb; try discriminate.
    destruct (is_nil rest && negb (exit_between_messages_only v)); [discriminate|].
    apply IH. cbn [buf rd_data length] in *. lia.
Qed.

Lemma adapter_data_fuel decomp v e s d es : adapter_data decomp v e s d es <> OutOfFuel.
Proof.
  unfold adapter_data. apply loop_fuel. unfold fuel_for. cbn [buf rd_data].
  destruct (rd_data s); lia.
Qed.

(* ---------------- assembled statements (all messages, all partitions) ---------------- *)

Section Final.

Variable decomp : enc -> bytes -> option bytes.
Variable comp : enc -> bytes -> bytes.
Variable e : enc.

(* frames = any partition of [wire ms]: arbitrary non-final frames [ds]
   (empty ones allowed), then a last frame [dl] (possibly empty) that
   carries END_STREAM iff [esl] *)
Definition frames_of (ds : list bytes) (dl : bytes) (esl : bool) : list (bytes * bool) :=
  map no_es ds ++ [(dl, esl)].

Lemma run_wf ms ds dl esl :
  wf decomp e ms -> concat ds ++ dl = wire ms ->
  exists s' c,
    run_frames decomp repaired e st0 (frames_of ds dl esl) = Done s' (expected decomp e ms dl esl c)
    /\ buf s' = [] /\ rd_data s' = false /\ (dl <> [] -> ms <> []).
Proof.
  intros Hwf Hp. destruct (st0_stuck) as [H1 [H2 H3]].
  destruct (frames_inv decomp e ds st0 ms dl esl H1 H2 Hwf) as [s' [c [Hrun [Hraw _]]]].
  { now rewrite H3. }
  exists s', c. apply raw_nil_inv in Hraw. destruct Hraw as [Hr Hb].
  repeat split; auto.
  intros Hdl ->. cbn in Hp. apply app_eq_nil in Hp. tauto.
Qed.

Lemma fragmentation_invariance ms ds dl esl :
  wf decomp e ms -> concat ds ++ dl = wire ms ->
  exists s' evs,
    run_frames decomp repaired e st0 (frames_of ds dl esl) = Done s' evs /\
    map (decode decomp e) ms = map Some (shown (calls_of evs)) /\
    eos_once_last esl (map snd (calls_of evs)) /\
    buf s' = [] /\ rd_data s' = false.
Proof.
  intros Hwf Hp. destruct (run_wf ms ds dl esl Hwf Hp) as [s' [c [Hrun [Hb [Hr Hne]]]]].
  exists s', (expected decomp e ms dl esl c). repeat split; auto.
  - apply shown_expected, Hwf.
  - apply eos_ok_iff. rewrite map_snd_calls_of. apply eos_expected, Hne.
Qed.

Lemma passthrough_bytes ms ds dl esl :
  wf decomp e ms -> concat ds ++ dl = wire ms ->
  exists s' evs,
    run_frames decomp repaired e st0 (frames_of ds dl esl) = Done s' evs /\
    sink_bytes (datas_of comp repaired e evs) = wire (map (reenc decomp comp e) ms) /\
    eos_once_last esl (map snd (datas_of comp repaired e evs)).
Proof.
  intros Hwf Hp. destruct (run_wf ms ds dl esl Hwf Hp) as [s' [c [Hrun [Hb [Hr Hne]]]]].
  exists s', (expected decomp e ms dl esl c). repeat split; auto.
  - apply sink_expected, Hwf.
  - apply eos_ok_iff. rewrite map_snd_datas_of. apply eos_expected, Hne.
Qed.

(* the separate empty END_STREAM frame: same calls plus one nil call, same
   DATA at the sink plus one empty END_STREAM DATA, hence the same bytes *)
Lemma empty_eos_adds_nothing ms ds :
  wf decomp e ms -> concat ds = wire ms ->
  exists s1 s2 evs c,
    run_frames decomp repaired e st0 (frames_of ds [] false) = Done s1 evs /\
    run_frames decomp repaired e st0 (frames_of ds [] true) = Done s2 (evs ++ [EvMsg c None true]) /\
    shown (calls_of (evs ++ [EvMsg c None true])) = shown (calls_of evs) /\
    datas_of comp repaired e (evs ++ [EvMsg c None true]) = datas_of comp repaired e evs ++ [([], true)] /\
    sink_bytes (datas_of comp repaired e (evs ++ [EvMsg c None true])) = sink_bytes (datas_of comp repaired e evs).
Proof.
  intros Hwf Hp.
  assert (Hp' : concat ds ++ [] = wire ms) by (now rewrite app_nil_r).
  destruct (run_wf ms ds [] false Hwf Hp') as [s1 [c1 [Hrun1 _]]].
  destruct (run_wf ms ds [] true Hwf Hp') as [s2 [c2 [Hrun2 _]]].
  unfold expected in *. cbn [is_nil] in *. rewrite app_nil_r in Hrun1.
  exists s1, s2, (evs_of decomp e false ms), c2. repeat split; auto.
  - rewrite !shown_somes, !map_fst_calls_of, map_app, somes_app. cbn. now rewrite app_nil_r.
  - unfold datas_of. rewrite map_app. reflexivity.
  - rewrite sink_datas_app. cbn. now rewrite app_nil_r.
Qed.

(* with the round-trip law every forwarded payload decodes, with the decoder
   that accepted the input, to the message that was received *)
Lemma same_container ms :
  (forall e' b, decomp e' (comp e' b) = Some b) ->
  wf decomp e ms ->
  Forall (fun m => mflag (reenc decomp comp e m) = mflag m /\
                   decode decomp e (reenc decomp comp e m) = decode decomp e m) ms.
Proof.
  intros Hlaw Hwf. induction Hwf as [|m ms [_ [p Hp]] _ IH]; constructor; auto.
  split; [apply mflag_reenc|]. rewrite Hp. now apply decode_reenc.
Qed.

Lemma model_satisfies_oracle ms ds dl esl :
  (forall e' b, decomp e' (comp e' b) = Some b) ->
  wf decomp e ms -> lens_fit decomp comp e ms -> concat ds ++ dl = wire ms ->
  exists s' evs,
    run_frames decomp repaired e st0 (frames_of ds dl esl) = Done s' evs /\
    c11_ok decomp e ms esl (calls_of evs) (datas_of comp repaired e evs) = true.
Proof.
  intros Hlaw Hwf Hl Hp. destruct (run_wf ms ds dl esl Hwf Hp) as [s' [c [Hrun [_ [_ Hne]]]]].
  exists s', (expected decomp e ms dl esl c). split; [exact Hrun|].
  now apply oracle_expected.
Qed.

End Final.

(* ---------------- sessions: streams of one factory are independent ---------------- *)

Section Session.

Variable decomp : enc -> bytes -> option bytes.
Variable comp : enc -> bytes -> bytes.
Variable v : variant.

Lemma op_step_total p o : op_step decomp comp v p o <> None.
Proof.
  unfold op_step. destruct (has_proc (op_dir o) p); [|destruct o; discriminate].
  destruct o as [d hs es|d b es]; cbn [adapter_step].
  - destruct (enabled (if enabled p then p else if is_grpc hs then set_enabled p else p)); [|discriminate].
    destruct (select_enc _ hs); discriminate.
  - destruct (enabled p); [|discriminate].
    destruct (adapter_data decomp v (get_enc d p) (get_ad d p) b es) eqn:H; try discriminate.
    exfalso. exact (adapter_data_fuel _ _ _ _ _ _ H).
Qed.

Lemma upd_same k x ss : upd k x ss k = x.
Proof. unfold upd. now rewrite Nat.eqb_refl. Qed.

Lemma upd_other k x ss j : j <> k -> upd k x ss j = ss j.
Proof. intros H. unfold upd. apply Nat.eqb_neq in H. now rewrite H. Qed.

Lemma outs_of_cons_other i k out outs : k <> i -> outs_of i ((k, out) :: outs) = outs_of i outs.
Proof. intros H. unfold outs_of. cbn [filter fst]. apply Nat.eqb_neq in H. now rewrite H. Qed.

Lemma ops_of_cons_other i k o r : k <> i -> ops_of i ((k, o) :: r) = ops_of i r.
Proof. intros H. unfold ops_of. cbn [filter fst]. apply Nat.eqb_neq in H. now rewrite H. Qed.

Lemma outs_of_cons_same i out outs : outs_of i ((i, out) :: outs) = out :: outs_of i outs.
Proof. unfold outs_of. cbn [filter fst]. now rewrite Nat.eqb_refl. Qed.

Lemma ops_of_cons_same i o r : ops_of i ((i, o) :: r) = o :: ops_of i r.
Proof. unfold ops_of. cbn [filter fst]. now rewrite Nat.eqb_refl. Qed.

Lemma session_total : forall sops ss, run_session decomp comp v ss sops <> None.
Proof.
  induction sops as [|[k o] r IH]; intros ss; cbn [run_session]; [discriminate|].
  destruct (snd (ss k)); [apply IH|].
  destruct (op_step decomp comp v (fst (ss k)) o) as [[[p1 out] cont]|] eqn:Hs;
    [|exfalso; exact (op_step_total _ _ Hs)].
  specialize (IH (upd k (p1, negb cont) ss)).
  destruct (run_session decomp comp v (upd k (p1, negb cont) ss) r); [discriminate|congruence].
Qed.

Lemma stopped_no_outs : forall sops ss outs i,
  snd (ss i) = true -> run_session decomp comp v ss sops = Some outs -> outs_of i outs = [].
Proof.
  induction sops as [|[k o] r IH]; intros ss outs i Hi Hrun; cbn [run_session] in Hrun.
  - now injection Hrun as <-.
  - destruct (snd (ss k)) eqn:Hk; [exact (IH ss outs i Hi Hrun)|].
    destruct (op_step decomp comp v (fst (ss k)) o) as [[[p1 out] cont]|]; [|discriminate].
    destruct (run_session decomp comp v (upd k (p1, negb cont) ss) r) as [outs'|] eqn:Hr; [|discriminate].
    injection Hrun as <-.
    assert (Hne : k <> i) by (intros ->; congruence).
    rewrite outs_of_cons_other by exact Hne.
    apply (IH _ _ i) in Hr; [exact Hr|]. rewrite upd_other by congruence. exact Hi.
Qed.

(* What stream [i] experiences inside any interleaving is exactly the run of
   its own ops alone. *)
Theorem session_projection : forall sops ss outs i,
  snd (ss i) = false -> run_session decomp comp v ss sops = Some outs ->
  run_ops decomp comp v (fst (ss i)) (ops_of i sops) = Some (outs_of i outs).
Proof.
  induction sops as [|[k o] r IH]; intros ss outs i Hi Hrun; cbn [run_session] in Hrun.
  - injection Hrun as <-. reflexivity.
  - destruct (snd (ss k)) eqn:Hk.
    + assert (Hne : k <> i) by (intros ->; congruence).
      rewrite ops_of_cons_other by exact Hne. exact (IH ss outs i Hi Hrun).
    + destruct (op_step decomp comp v (fst (ss k)) o) as [[[p1 out] cont]|] eqn:Hs; [|discriminate].
      destruct (run_session decomp comp v (upd k (p1, negb cont) ss) r) as [outs'|] eqn:Hr; [|discriminate].
      injection Hrun as <-.
      destruct (Nat.eq_dec k i) as [->|Hne].
      * rewrite ops_of_cons_same, outs_of_cons_same. cbn [run_ops]. rewrite Hs.
        destruct cont; cbn [negb] in Hr.
        -- pose proof (IH (upd i (p1, false) ss) outs' i) as IH'.
           rewrite upd_same in IH'. cbn [fst snd] in IH'. now rewrite IH'.
        -- pose proof (stopped_no_outs r (upd i (p1, true) ss) outs' i) as Hno.
           rewrite upd_same in Hno. cbn [snd] in Hno. now rewrite Hno.
      * rewrite ops_of_cons_other, outs_of_cons_other by exact Hne.
        specialize (IH (upd k (p1, negb cont) ss) outs' i).
        rewrite upd_other in IH by congruence. now apply IH.
Qed.

(* Non-interference: two sessions that agree on stream [i]'s own HEADERS and
   DATA show stream [i] the same calls, whatever the other streams do and
   however the frames are interleaved. *)
Theorem streams_independent hc hs sops sops' outs outs' i :
  run_session decomp comp v (sess_cfg hc hs) sops = Some outs ->
  run_session decomp comp v (sess_cfg hc hs) sops' = Some outs' ->
  ops_of i sops = ops_of i sops' -> outs_of i outs = outs_of i outs'.
Proof.
  intros H1 H2 Heq.
  apply (session_projection _ _ _ i) in H1; [|reflexivity].
  apply (session_projection _ _ _ i) in H2; [|reflexivity].
  rewrite Heq in H1. congruence.
Qed.

End Session.
