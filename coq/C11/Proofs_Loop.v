(* C11 — the reassembly loop of the REPAIRED adapter: one-iteration
   unfoldings, the invariant of Appendix A4 ("what has not been parsed yet,
   re-serialised, followed by the frames still to come, is the wire form of
   the messages not yet delivered"), and its consequence for any list of
   DATA frames. *)
From Coq Require Import List NArith Bool Arith Ascii Lia.
From Martian.C11 Require Import Model Proofs_Base.
Import ListNotations.

Section Loop.

Variable decomp : enc -> bytes -> option bytes.
Variable e : enc.

Notation LOOP := (loop decomp repaired e).

(* the event of a delivered message *)
Definition ev_of (m : msg) (es : bool) : ev := EvMsg (mflag m) (decode decomp e m) es.

(* events for a batch of messages delivered by one Data call: only the last
   one can carry end-of-stream *)
Fixpoint evs_of (b : bool) (ms : list msg) : list ev :=
  match ms with
  | [] => []
  | [m] => [ev_of m b]
  | m :: r => ev_of m false :: evs_of b r
  end.

Definition wf_msg (m : msg) : Prop :=
  len32 (mpayload m) = true /\ exists p, decode decomp e m = Some p.

Definition wf := Forall wf_msg.

(* the bytes the adapter still holds, re-serialised *)
Definition raw (s : st) : bytes :=
  if rd_data s then flag_byte (cflag s) :: be32 (mlen s) ++ buf s else buf s.

(* nothing more can be parsed without new bytes *)
Definition stuck (s : st) : Prop :=
  if rd_data s then (N.of_nat (length (buf s)) < mlen s)%N else length (buf s) < 5.

Definition mlen_ok (s : st) : Prop := rd_data s = true -> (mlen s < 4294967296)%N.

Definition nil_ev (es : bool) (s : st) : list ev :=
  if es && is_nil (raw s) then [EvMsg (cflag s) None true] else [].

Lemma app_ev_nil r : app_ev [] r = r.
Proof. now destruct r. Qed.

Lemma evs_of_false ms : evs_of false ms = map (fun m => ev_of m false) ms.
Proof.
  induction ms as [|m [|m' r] IH]; try reflexivity.
  cbn [evs_of map] in *. now rewrite IH.
Qed.

Lemma evs_of_cons b m r : r <> [] -> evs_of b (m :: r) = ev_of m false :: evs_of b r.
Proof. destruct r; [congruence|reflexivity]. Qed.

Lemma evs_of_app b a r : r <> [] -> evs_of b (a ++ r) = evs_of false a ++ evs_of b r.
Proof.
  intros Hr. induction a as [|m a IH]; [reflexivity|].
  cbn [app]. rewrite evs_of_cons by (destruct a; [exact Hr|discriminate]).
  rewrite IH. destruct a as [|m' a]; [reflexivity|].
  rewrite (evs_of_cons false m) by discriminate. reflexivity.
Qed.

(* ---------------- one iteration ---------------- *)

Lemma loop_data_short es f s :
  rd_data s = true -> (N.of_nat (length (buf s)) < mlen s)%N -> LOOP es (S f) s = Done s [].
Proof.
  intros Hr Hlt. cbn [loop]. rewrite Hr.
  apply N.ltb_lt in Hlt. now rewrite Hlt.
Qed.

Lemma loop_data_msg es f (c : bool) p x d :
  (if c then decompress decomp e p else Some p) = Some d ->
  LOOP es (S f) (mkSt (p ++ x) true c (N.of_nat (length p))) =
  cons_ev (EvMsg c (Some d) (es && is_nil x))
    (if is_nil x then Done (mkSt x false c (N.of_nat (length p))) []
     else LOOP es f (mkSt x false c (N.of_nat (length p)))).
Proof.
  intros Hd. cbn [loop rd_data buf mlen cflag].
  replace (N.of_nat (length (p ++ x)) <? N.of_nat (length p))%N with false
    by (symmetry; apply N.ltb_ge; rewrite app_length; lia).
  rewrite Nat2N.id, firstn_length_app, skipn_length_app.
  destruct c; [rewrite Hd; reflexivity|]. injection Hd as ->. reflexivity.
Qed.

Lemma loop_meta_short es f s :
  rd_data s = false -> length (buf s) < 5 -> LOOP es (S f) s = Done s (nil_ev es s).
Proof.
  intros Hr Hlt. cbn [loop]. rewrite Hr.
  apply Nat.ltb_lt in Hlt. rewrite Hlt. unfold nil_ev, raw. rewrite Hr.
  destruct (es && is_nil (buf s)); reflexivity.
Qed.

Lemma loop_meta_prefix es f c n y c0 n0 :
  (n < 4294967296)%N ->
  LOOP es (S f) (mkSt (flag_byte c :: be32 n ++ y) false c0 n0) = LOOP es f (mkSt y true c n).
Proof.
  intros Hn. unfold be32. cbn [loop rd_data buf app length is_nil andb].
  rewrite andb_false_r. cbn [app_ev Nat.ltb Nat.leb].
  rewrite flag_of_flag_byte, (N_of_be32_be32 n Hn). cbn [exit_between_messages_only repaired negb].
  rewrite andb_false_r. destruct (LOOP es f (mkSt y true c n)); reflexivity.
Qed.

(* a complete message at the head of the buffer, from the metadata state *)
Lemma loop_meta_msg es f m x c0 n0 d :
  len32 (mpayload m) = true -> decode decomp e m = Some d ->
  LOOP es (S (S f)) (mkSt (wire1 m ++ x) false c0 n0) =
  cons_ev (EvMsg (mflag m) (Some d) (es && is_nil x))
    (if is_nil x then Done (mkSt x false (mflag m) (N.of_nat (length (mpayload m)))) []
     else LOOP es f (mkSt x false (mflag m) (N.of_nat (length (mpayload m))))).
Proof.
  intros Hl Hd. apply len32_true in Hl.
  unfold wire1, frame_msg. cbn [app]. rewrite <- app_assoc.
  rewrite loop_meta_prefix by exact Hl.
  apply loop_data_msg. exact Hd.
Qed.

Lemma prefix_split c n b c' n' b' :
  flag_byte c :: be32 n ++ b = flag_byte c' :: be32 n' ++ b' ->
  (n < 4294967296)%N -> (n' < 4294967296)%N -> c = c' /\ n = n' /\ b = b'.
Proof.
  intros H Hn Hn'.
  change ((flag_byte c :: be32 n) ++ b = (flag_byte c' :: be32 n') ++ b') in H.
  apply app_inv_length in H; [|reflexivity]. destruct H as [H1 H2].
  pose proof (f_equal (@tl ascii) H1) as Ht. cbn [tl] in Ht.
  pose proof (f_equal (hd zero) H1) as Hh. cbn [hd] in Hh.
  apply flag_byte_inj in Hh. apply be32_inj in Ht; auto.
Qed.

(* ---------------- the invariant ---------------- *)

Lemma raw_meta b c n : raw (mkSt b false c n) = b.
Proof. reflexivity. Qed.

Lemma raw_nil_inv s : raw s = [] -> rd_data s = false /\ buf s = [].
Proof. unfold raw. destruct (rd_data s); [discriminate|auto]. Qed.

Lemma wf_cons_inv m ms : wf (m :: ms) -> wf_msg m /\ wf ms.
Proof. intros H. inversion H; auto. Qed.

(* A stuck adapter holds no complete message. *)
Lemma stuck_wire s rest :
  stuck s -> mlen_ok s -> wf rest -> raw s = wire rest -> rest = [] /\ raw s = [].
Proof.
  intros Hs Hm Hwf Hr. destruct rest as [|m rest]; [now rewrite Hr|exfalso].
  apply wf_cons_inv in Hwf. destruct Hwf as [[Hl _] _]. apply len32_true in Hl.
  rewrite wire_cons in Hr. unfold stuck, raw, mlen_ok in *.
  destruct (rd_data s).
  - unfold wire1, frame_msg in Hr. cbn [app] in Hr. rewrite <- app_assoc in Hr.
    apply prefix_split in Hr; [|auto|exact Hl]. destruct Hr as [_ [Hb Hr]].
    rewrite Hb, Hr, app_length in Hs. lia.
  - rewrite Hr, app_length, wire1_length in Hs. lia.
Qed.

(* Main invariant step: run the loop from any state whose unparsed bytes,
   followed by [y], are the wire form of [ms]. *)
Lemma loop_inv es : forall ms t y fuel,
  wf ms -> mlen_ok t -> raw t ++ y = wire ms ->
  length (buf t) + (if rd_data t then 4 else 3) <= fuel ->
  exists done rest t',
    ms = done ++ rest /\ stuck t' /\ mlen_ok t' /\ raw t' ++ y = wire rest /\
    (done = [] -> raw t' = raw t) /\
    LOOP es fuel t =
      Done t' (match done with [] => nil_ev es t | _ => evs_of (es && is_nil (raw t')) done end).
Proof.
  induction ms as [|m ms IH]; intros t y fuel Hwf Hm Hraw Hfuel.
  - (* nothing left on the wire *)
    cbn in Hraw. apply app_eq_nil in Hraw. destruct Hraw as [Hraw ->].
    destruct (raw_nil_inv _ Hraw) as [Hr Hb].
    rewrite Hr in Hfuel. exists [], [], t. destruct fuel as [|f]; [lia|].
    repeat split; auto.
    + unfold stuck. rewrite Hr, Hb. cbn. lia.
    + now rewrite Hraw.
    + apply loop_meta_short; [exact Hr|rewrite Hb; cbn; lia].
  - apply wf_cons_inv in Hwf. destruct Hwf as [[Hl [p Hp]] Hwf].
    pose proof Hl as Hl'. apply len32_true in Hl'.
    rewrite wire_cons in Hraw.
    destruct (le_lt_dec (length (wire1 m)) (length (raw t))) as [Hge|Hlt].
    + (* the head message is complete *)
      symmetry in Hraw.
      destruct (app_eq_app_shorter _ _ _ _ Hraw Hge) as [x [Hx Hy]].
      (* in both parser states: deliver m, continue on x *)
      assert (Hstep : exists f, length x + 3 <= f /\
                LOOP es fuel t =
                cons_ev (EvMsg (mflag m) (Some p) (es && is_nil x))
                  (if is_nil x then Done (mkSt x false (mflag m) (N.of_nat (length (mpayload m)))) []
                   else LOOP es f (mkSt x false (mflag m) (N.of_nat (length (mpayload m)))))).
      { unfold raw in Hx. destruct t as [b r c n]. cbn [rd_data buf cflag mlen] in *.
        destruct r.
        - unfold wire1, frame_msg in Hx. cbn [app] in Hx. rewrite <- app_assoc in Hx.
          apply prefix_split in Hx; [|apply Hm; reflexivity|exact Hl']. destruct Hx as [Hc [Hn Hb]].
          subst c n b.
          destruct fuel as [|f]; [lia|]. exists f.
          rewrite app_length in Hfuel. split; [lia|].
          apply loop_data_msg. unfold decode in Hp. exact Hp.
        - subst b. destruct fuel as [|[|f]]; try lia.
          exists f. rewrite app_length, wire1_length in Hfuel. split; [lia|].
          apply loop_meta_msg; assumption. }
      destruct Hstep as [f [Hf Hloop]].
      destruct (is_nil x) eqn:Hnil.
      * apply is_nil_true in Hnil. subst x. cbn [app] in Hy.
        exists [m], ms, (mkSt [] false (mflag m) (N.of_nat (length (mpayload m)))).
        repeat split.
        -- unfold stuck. cbn. lia.
        -- intros H; discriminate H.
        -- cbn [raw rd_data buf app]. now rewrite Hy.
        -- intros H; discriminate H.
        -- rewrite Hloop. cbn [cons_ev evs_of raw rd_data buf is_nil]. unfold ev_of. now rewrite Hp.
      * assert (Hx0 : x <> []) by (now apply is_nil_false).
        destruct (IH (mkSt x false (mflag m) (N.of_nat (length (mpayload m)))) y f Hwf)
          as [done' [rest' [t' [Hms [Hst [Hml [Hr' [Hd0 Hl2]]]]]]]].
        -- intros H; discriminate H.
        -- cbn [raw rd_data buf]. now rewrite Hy.
        -- cbn [buf]. exact Hf.
        -- exists (m :: done'), rest', t'. repeat split; auto.
           ++ cbn [app]. now rewrite Hms.
           ++ intros H; discriminate H.
           ++ rewrite Hloop, Hl2, andb_false_r. cbn [cons_ev]. f_equal.
              destruct done' as [|m' r].
              ** rewrite (Hd0 eq_refl). cbn [raw rd_data buf].
                 unfold nil_ev. cbn [raw rd_data buf].
                 apply is_nil_false in Hx0. rewrite Hx0, !andb_false_r.
                 cbn [evs_of]. unfold ev_of. now rewrite Hp.
              ** change (evs_of (es && is_nil (raw t')) (m :: m' :: r)) with
                   (ev_of m false :: evs_of (es && is_nil (raw t')) (m' :: r)).
                 unfold ev_of at 1. now rewrite Hp.
    + (* the head message is still incomplete: nothing is delivered *)
      assert (Hle : length (raw t) <= length (wire1 m)) by lia.
      destruct (app_eq_app_shorter _ _ _ _ Hraw Hle) as [z [Hz Hy]].
      assert (Hnn : forall s, raw s <> [] -> nil_ev es s = []).
      { intros s Hs. unfold nil_ev. apply is_nil_false in Hs. now rewrite Hs, andb_false_r. }
      unfold raw in Hz, Hlt. destruct t as [b r c n]. cbn [rd_data buf cflag mlen] in *.
      destruct r.
      * unfold wire1, frame_msg in Hz. cbn [app] in Hz. rewrite <- app_assoc in Hz.
        apply prefix_split in Hz; [|exact Hl'|apply Hm; reflexivity]. destruct Hz as [Hc [Hn Hb]].
        symmetry in Hn.
        rewrite wire1_length in Hlt. cbn [length] in Hlt. rewrite app_length, be32_length in Hlt.
        assert (Hshort : (N.of_nat (length b) < n)%N) by (subst n; lia).
        exists [], (m :: ms), (mkSt b true c n). destruct fuel as [|f]; [lia|].
        repeat split; auto.
        rewrite Hnn by (unfold raw; cbn; discriminate).
        apply loop_data_short; [reflexivity|exact Hshort].
      * destruct (lt_dec (length b) 5) as [H5|H5].
        -- exists [], (m :: ms), (mkSt b false c n). destruct fuel as [|f]; [lia|].
           repeat split; auto.
           apply loop_meta_short; [reflexivity|exact H5].
        -- unfold wire1, frame_msg, be32 in Hz. cbn [app] in Hz.
           destruct b as [|b0 [|b1 [|b2 [|b3 [|b4 b']]]]]; cbn [length] in H5; try lia.
           cbn [app] in Hz. injection Hz as H0 H1 H2 H3 H4 Hpay.
           rewrite wire1_length in Hlt. cbn [length] in Hlt.
           assert (Hshort : (N.of_nat (length b') < N.of_nat (length (mpayload m)))%N) by lia.
           exists [], (m :: ms), (mkSt b' true (mflag m) (N.of_nat (length (mpayload m)))).
           destruct fuel as [|[|f]]; cbn [buf length] in Hfuel; try lia.
           assert (Hb : b0 :: b1 :: b2 :: b3 :: b4 :: b' =
                        flag_byte (mflag m) :: be32 (N.of_nat (length (mpayload m))) ++ b').
           { unfold be32. cbn [app]. now rewrite H0, H1, H2, H3, H4. }
           repeat split.
           ++ exact Hshort.
           ++ intros _. exact Hl'.
           ++ unfold raw. cbn [rd_data cflag mlen buf]. rewrite <- Hb. exact Hraw.
           ++ intros _. unfold raw. cbn [rd_data cflag mlen buf]. now rewrite <- Hb.
           ++ rewrite Hnn by (unfold raw; cbn; discriminate).
              rewrite Hb, loop_meta_prefix by exact Hl'.
              apply loop_data_short; [reflexivity|exact Hshort].
Qed.

(* ---------------- one DATA frame ---------------- *)

Definition feed (s : st) (d : bytes) : st := mkSt (buf s ++ d) (rd_data s) (cflag s) (mlen s).

Lemma raw_feed s d : raw (feed s d) = raw s ++ d.
Proof.
  unfold raw, feed. cbn [rd_data buf cflag mlen]. destruct (rd_data s); [|reflexivity].
  cbn [app]. now rewrite app_assoc.
Qed.

Lemma data_inv es ms s d y :
  wf ms -> mlen_ok s -> raw s ++ d ++ y = wire ms ->
  exists done rest s',
    ms = done ++ rest /\ stuck s' /\ mlen_ok s' /\ raw s' ++ y = wire rest /\
    (done = [] -> raw s' = raw s ++ d) /\
    adapter_data decomp repaired e s d es =
      Done s' (match done with [] => nil_ev es (feed s d) | _ => evs_of (es && is_nil (raw s')) done end).
Proof.
  intros Hwf Hm Hraw.
  destruct (loop_inv es ms (feed s d) y (fuel_for (length (buf s ++ d))) Hwf)
    as [done [rest [s' [H1 [H2 [H3 [H4 [H5 H6]]]]]]]].
  - exact Hm.
  - now rewrite raw_feed, <- app_assoc.
  - unfold feed, fuel_for. cbn [buf rd_data]. destruct (rd_data s); lia.
  - exists done, rest, s'. rewrite raw_feed in H5. repeat split; auto.
Qed.

(* ---------------- any list of DATA frames ---------------- *)

(* What the processor is shown for the messages [ms] when the bytes of the
   last frame are [dl] and that frame carries END_STREAM iff [esl]. *)
Definition expected (ms : list msg) (dl : bytes) (esl : bool) (c : bool) : list ev :=
  if is_nil dl then evs_of false ms ++ (if esl then [EvMsg c None true] else [])
  else evs_of esl ms.

Definition no_es (d : bytes) : bytes * bool := (d, false).

Theorem frames_inv : forall ds s ms dl esl,
  stuck s -> mlen_ok s -> wf ms -> raw s ++ concat ds ++ dl = wire ms ->
  exists s' c,
    run_frames decomp repaired e s (map no_es ds ++ [(dl, esl)]) = Done s' (expected ms dl esl c)
    /\ raw s' = [] /\ stuck s'.
Proof.
  induction ds as [|d ds IH]; intros s ms dl esl Hst Hm Hwf Hraw.
  - cbn [concat app] in Hraw. cbn [map app run_frames].
    destruct (data_inv esl ms s dl [] Hwf Hm) as [done [rest [s' [H1 [H2 [H3 [H4 [H5 H6]]]]]]]].
    { now rewrite app_nil_r. }
    rewrite app_nil_r in H4.
    assert (Hwfr : wf rest).
    { subst ms. unfold wf in *. apply Forall_app in Hwf. tauto. }
    destruct (stuck_wire s' rest H2 H3 Hwfr H4) as [-> Hr0]. rewrite app_nil_r in H1. subst done.
    rewrite H6. cbn [app_ev]. rewrite app_nil_r.
    exists s', (cflag s). split; [|auto]. f_equal. unfold expected.
    destruct (is_nil dl) eqn:Hdl.
    + apply is_nil_true in Hdl. subst dl. rewrite app_nil_r in Hraw.
      destruct (stuck_wire s ms Hst Hm Hwf Hraw) as [-> Hs0].
      cbn [evs_of app]. unfold nil_ev. rewrite raw_feed, Hs0. cbn [app is_nil feed cflag].
      now rewrite andb_true_r.
    + destruct ms as [|m ms].
      * exfalso. apply is_nil_false in Hdl. cbn in Hraw. apply app_eq_nil in Hraw. tauto.
      * now rewrite Hr0, andb_true_r.
  - cbn [concat] in Hraw. rewrite <- app_assoc in Hraw.
    cbn [map app run_frames]. unfold no_es at 1.
    destruct (data_inv false ms s d (concat ds ++ dl) Hwf Hm Hraw)
      as [done [rest [s1 [H1 [H2 [H3 [H4 [H5 H6]]]]]]]].
    assert (Hwfr : wf rest).
    { subst ms. unfold wf in *. apply Forall_app in Hwf. tauto. }
    destruct (IH s1 rest dl esl H2 H3 Hwfr H4) as [s' [c [Hrun [Hr0 Hs']]]].
    rewrite H6, Hrun. cbn [app_ev]. exists s', c. split; [|auto]. f_equal.
    assert (HE : (match done with [] => nil_ev false (feed s d) | _ => evs_of (false && is_nil (raw s1)) done end)
                 = evs_of false done).
    { destruct done; [reflexivity|]. reflexivity. }
    rewrite HE. subst ms. unfold expected. destruct (is_nil dl) eqn:Hdl.
    + rewrite app_assoc. f_equal. rewrite !evs_of_false. now rewrite map_app.
    + symmetry. apply evs_of_app. intros ->. cbn in H4.
      apply app_eq_nil in H4. destruct H4 as [_ H4]. apply app_eq_nil in H4.
      apply is_nil_false in Hdl. tauto.
Qed.

Lemma st0_stuck : stuck st0 /\ mlen_ok st0 /\ raw st0 = [].
Proof. unfold stuck, mlen_ok, raw. cbn. repeat split; try lia. Qed.

End Loop.
