(* C12 — proofs: the compiled modifier lists built by the transcription of
   parse / fifo / priority / filter mean exactly what the tree says. *)
From Coq Require Import List NArith ZArith Bool Arith Lia Permutation Sorted.
From Martian.C12 Require Import Model.
Import ListNotations.

(* ------------------------------------------------------------------ *)
(* Nested induction principle (tree is nested through list, prod, option) *)
(* ------------------------------------------------------------------ *)

Definition opt_holds (P : tree -> Prop) (e : option tree) : Prop :=
  match e with Some e' => P e' | None => True end.

Section tree_ind'.
  Variable P : tree -> Prop.
  Hypothesis HLeaf : forall id sc cq cs eq es, P (Leaf id sc cq cs eq es).
  Hypothesis HFifo : forall sc agg cs, Forall P cs -> P (Fifo sc agg cs).
  Hypothesis HPrio : forall sc cs, Forall (fun pc => P (snd pc)) cs -> P (Prio sc cs).
  Hypothesis HFilt : forall c sc m e, P m -> opt_holds P e -> P (Filt c sc m e).
  Hypothesis HBad : forall w, P (Bad w).

  Fixpoint tree_ind' (t : tree) : P t :=
    match t with
    | Leaf id sc cq cs eq es => HLeaf id sc cq cs eq es
    | Fifo sc agg cs =>
        HFifo sc agg cs
          ((fix go (l : list tree) : Forall P l :=
              match l with
              | [] => Forall_nil P
              | x :: r => Forall_cons x (tree_ind' x) (go r)
              end) cs)
    | Prio sc cs =>
        HPrio sc cs
          ((fix go (l : list (Z * tree)) : Forall (fun pc => P (snd pc)) l :=
              match l with
              | [] => Forall_nil _
              | x :: r => Forall_cons x (tree_ind' (snd x)) (go r)
              end) cs)
    | Filt c sc m e =>
        HFilt c sc m e (tree_ind' m)
          (match e as e0 return opt_holds P e0 with
           | Some e' => tree_ind' e'
           | None => I
           end)
    | Bad w => HBad w
    end.
End tree_ind'.

(* ------------------------------------------------------------------ *)
(* parse.NewResult                                                     *)
(* ------------------------------------------------------------------ *)

Definition is_some {A : Type} (o : option A) : bool :=
  match o with Some _ => true | None => false end.

Lemma scope_loop_spec : forall req res l acc,
  scope_loop req res l acc =
  if existsb (tok_bad (is_some req) (is_some res)) l then None
  else Some (mkRes (if existsb (tok_is KReq) l then req else rq acc)
                   (if existsb (tok_is KRes) l then res else rs acc)).
Proof.
  intros req res l. induction l as [|s l IH]; intros acc.
  - destruct acc; reflexivity.
  - destruct s.
    + destruct req as [a|]; cbn [scope_loop existsb tok_bad tok_is is_some negb orb]; [|reflexivity].
      rewrite IH. cbn [rq rs is_some].
      destruct (existsb _ l); [reflexivity|].
      destruct (existsb (tok_is KReq) l); reflexivity.
    + destruct res as [a|]; cbn [scope_loop existsb tok_bad tok_is is_some negb orb]; [|reflexivity].
      rewrite IH. cbn [rq rs is_some].
      destruct (existsb _ l); [reflexivity|].
      destruct (existsb (tok_is KRes) l); reflexivity.
    + reflexivity.
Qed.

Lemma new_result_spec : forall req res sc,
  new_result req res sc =
  if scope_bad (is_some req) (is_some res) sc then None
  else Some (mkRes (if acts KReq (is_some req) (is_some res) sc then req else None)
                   (if acts KRes (is_some req) (is_some res) sc then res else None)).
Proof.
  intros req res [l|]; cbn [new_result scope_bad acts sel].
  - rewrite scope_loop_spec. reflexivity.
  - destruct req, res; reflexivity.
Qed.

(* a supported scope never selects a kind the node type cannot act on *)
Lemma acts_supported : forall k cq cs sc,
  scope_bad cq cs sc = false -> acts k cq cs sc = true -> sel k cq cs = true.
Proof.
  intros k cq cs [l|]; cbn [scope_bad acts]; [|auto].
  induction l as [|s l IH]; cbn [existsb]; intros Hb Ha; [discriminate|].
  apply orb_false_iff in Hb as [Hb1 Hb2].
  apply orb_true_iff in Ha as [Ha|Ha]; [|auto].
  destruct k, s; cbn in *; try discriminate; now apply negb_false_iff in Hb1.
Qed.

(* NewResult for an object implementing both interfaces *)
Lemma new_result_both : forall a b sc,
  new_result (Some a) (Some b) sc =
  if scope_bad true true sc then None
  else Some (mkRes (if acts KReq true true sc then Some a else None)
                   (if acts KRes true true sc then Some b else None)).
Proof. intros. rewrite new_result_spec. reflexivity. Qed.

Lemma sel_if : forall (k : kind) (A : Type) (b1 b2 : bool) (x y : A) (z : A),
  sel k (if b1 then x else z) (if b2 then y else z) = if sel k b1 b2 then sel k x y else z.
Proof. intros [] *; reflexivity. Qed.

Lemma finish_both : forall a b sc,
  match new_result (Some a) (Some b) sc with
  | None => scope_bad true true sc = true
  | Some r => scope_bad true true sc = false /\
      forall k cond, run_opt cond (sel k (rq r) (rs r)) =
                     if acts k true true sc then run cond (sel k a b) else eff0
  end.
Proof.
  intros. rewrite new_result_both.
  destruct (scope_bad true true sc); [reflexivity|]. split; [reflexivity|].
  intros [] cond; cbn [sel rq rs];
    match goal with |- context [acts ?k true true sc] => destruct (acts k true true sc) end;
    reflexivity.
Qed.

(* ------------------------------------------------------------------ *)
(* The modifier loop is the sequencing of effects                      *)
(* ------------------------------------------------------------------ *)

Lemma mod_loop_gen : forall agg rs tr merr,
  (agg = false -> merr = []) ->
  mod_loop agg rs tr merr = (tr ++ fst (seq_eff agg rs), merr ++ snd (seq_eff agg rs)).
Proof.
  intros agg rs. induction rs as [|[t e] rest IH]; intros tr merr Hm.
  - cbn. now rewrite !app_nil_r.
  - cbn [mod_loop seq_eff]. destruct e as [|x e0].
    + rewrite IH by assumption. destruct (seq_eff agg rest) as [t' e'].
      cbn [fst snd]. now rewrite app_assoc.
    + destruct agg.
      * rewrite IH by discriminate. destruct (seq_eff true rest) as [t' e'].
        cbn [fst snd]. now rewrite <- !app_assoc.
      * rewrite (Hm eq_refl). reflexivity.
Qed.

Lemma mod_loop_seq : forall agg rs, mod_loop agg rs [] [] = seq_eff agg rs.
Proof.
  intros. rewrite mod_loop_gen by reflexivity. cbn. now destruct (seq_eff agg rs).
Qed.

Lemma seq_eff_cons0 : forall agg l, seq_eff agg (eff0 :: l) = seq_eff agg l.
Proof. intros. cbn. now destruct (seq_eff agg l). Qed.

Lemma seq_eff_app_congr : forall agg L a b,
  seq_eff agg a = seq_eff agg b -> seq_eff agg (L ++ a) = seq_eff agg (L ++ b).
Proof.
  intros agg L a b H. induction L as [|[t e] L IH]; [exact H|].
  cbn [app seq_eff]. now rewrite IH.
Qed.

Lemma seq_eff_skip : forall agg L rest,
  seq_eff agg (L ++ eff0 :: rest) = seq_eff agg (L ++ rest).
Proof. intros. apply seq_eff_app_congr, seq_eff_cons0. Qed.

(* ------------------------------------------------------------------ *)
(* Priority insertion                                                  *)
(* ------------------------------------------------------------------ *)

Definition ins {A : Type} (acc : list (Z * A)) (x : Z * A) := go_insert (fst x) (snd x) acc.
Definition go_order {A : Type} (l : list (Z * A)) : list (Z * A) := fold_left ins l [].

(* The two insertion steps commute, whatever the list. *)
Lemma ins_desc_go_insert_comm : forall (A : Type) (y : Z * A) p (a : A) acc,
  ins_desc y (go_insert p a acc) = go_insert p a (ins_desc y acc).
Proof.
  intros A [py b] p a acc. induction acc as [|[q z] acc IH].
  - cbn. destruct (p <? py)%Z eqn:E1, (p >=? py)%Z eqn:E2; try reflexivity; lia.
  - cbn [go_insert ins_desc fst].
    destruct (p >=? q)%Z eqn:Epq; destruct (q <? py)%Z eqn:Eqy;
      cbn [go_insert ins_desc fst]; rewrite ?Epq, ?Eqy;
      destruct (p <? py)%Z eqn:E1; destruct (p >=? py)%Z eqn:E2;
      cbn [go_insert ins_desc fst]; rewrite ?Epq, ?Eqy, ?IH; try reflexivity; lia.
Qed.

Lemma fold_ins_desc_go_insert : forall (A : Type) (l : list (Z * A)) p a acc,
  fold_left (fun acc x => ins_desc x acc) l (go_insert p a acc) =
  go_insert p a (fold_left (fun acc x => ins_desc x acc) l acc).
Proof.
  intros A l. induction l as [|y l IH]; intros; [reflexivity|].
  cbn [fold_left]. now rewrite ins_desc_go_insert_comm, IH.
Qed.

(* KEY LEMMA: priority.Group's insertion loop, run over the children in
   listed order, yields the stable descending sort of the reversed list:
   descending priority, later-listed first among equals. *)
Lemma go_order_is_prio_order : forall (A : Type) (l : list (Z * A)),
  go_order l = prio_order l.
Proof.
  intros A l. unfold go_order, prio_order, stable_sort_desc.
  induction l as [|x l IH] using rev_ind; [reflexivity|].
  rewrite fold_left_app. cbn [fold_left]. rewrite IH.
  rewrite rev_app_distr. cbn [rev app fold_left].
  unfold ins at 1. destruct x as [p a]. cbn [fst snd].
  change (ins_desc (p, a) []) with (go_insert p a (@nil (Z * A))).
  now rewrite fold_ins_desc_go_insert.
Qed.

(* go_insert only depends on priorities: it commutes with any payload map *)
Lemma go_insert_map : forall (A B : Type) (f : A -> B) p a l,
  map (fun x => (fst x, f (snd x))) (go_insert p a l) =
  go_insert p (f a) (map (fun x => (fst x, f (snd x))) l).
Proof.
  intros. induction l as [|[q z] l IH]; [reflexivity|].
  cbn [go_insert map fst snd]. destruct (p >=? q)%Z; [reflexivity|].
  cbn [map fst snd]. now rewrite IH.
Qed.

Lemma go_insert_split : forall (A : Type) p (a : A) l,
  exists l1 l2, l = l1 ++ l2 /\ go_insert p a l = l1 ++ (p, a) :: l2
    /\ Forall (fun y => (fst y > p)%Z) l1
    /\ match l2 with [] => True | y :: _ => (fst y <= p)%Z end.
Proof.
  intros. induction l as [|[q z] l IH].
  - exists [], []. cbn. auto.
  - cbn [go_insert]. destruct (p >=? q)%Z eqn:E.
    + exists [], ((q, z) :: l). cbn. repeat split; auto. lia.
    + destruct IH as (l1 & l2 & -> & -> & HF & Hh).
      exists ((q, z) :: l1), l2. repeat split; auto.
      constructor; [cbn; lia|assumption].
Qed.

Lemma go_insert_perm : forall (A : Type) p (a : A) l,
  Permutation (go_insert p a l) ((p, a) :: l).
Proof.
  intros. destruct (go_insert_split A p a l) as (l1 & l2 & -> & -> & _).
  symmetry. apply Permutation_middle.
Qed.

Lemma go_order_perm : forall (A : Type) (l : list (Z * A)), Permutation (go_order l) l.
Proof.
  intros A l. unfold go_order.
  assert (H : forall acc, Permutation (fold_left ins l acc) (acc ++ l)).
  { induction l as [|x l IH]; intros acc; cbn [fold_left].
    - now rewrite app_nil_r.
    - rewrite IH. unfold ins. destruct x as [p a]. cbn [fst snd].
      rewrite go_insert_perm. cbn [app]. apply Permutation_middle. }
  exact (H []).
Qed.

(* descending (non-strict) by priority *)
Definition desc {A : Type} (l : list (Z * A)) : Prop :=
  StronglySorted (fun x y => (fst x >= fst y)%Z) l.

Lemma go_insert_desc : forall (A : Type) p (a : A) l, desc l -> desc (go_insert p a l).
Proof.
  intros A p a l. unfold desc. induction l as [|[q z] l IH]; intros Hs.
  - cbn. repeat constructor.
  - cbn [go_insert]. inversion Hs as [|? ? Hs' Hall]; subst.
    destruct (p >=? q)%Z eqn:E.
    + constructor; [assumption|]. constructor; [cbn; lia|].
      eapply Forall_impl; [|exact Hall]. cbn. intros; lia.
    + constructor; [auto|].
      destruct (go_insert_split A p a l) as (l1 & l2 & El & -> & _).
      subst l. apply Forall_app in Hall as [H1 H2].
      apply Forall_app. split; [assumption|]. constructor; [cbn; lia|assumption].
Qed.

Lemma go_order_desc : forall (A : Type) (l : list (Z * A)), desc (go_order l).
Proof.
  intros A l. unfold go_order.
  assert (H : forall acc, desc acc -> desc (fold_left ins l acc)).
  { induction l as [|x l IH]; intros acc Ha; [exact Ha|].
    cbn [fold_left]. apply IH. now apply go_insert_desc. }
  apply H. constructor.
Qed.

(* Characterisation with listing positions: number the children; the loop
   output is strictly sorted by (priority descending, position descending). *)
Definition number {A : Type} (start : nat) (l : list (Z * A)) : list (Z * (nat * A)) :=
  map (fun ix => (fst (snd ix), (fst ix, snd (snd ix)))) (combine (seq start (length l)) l).

Definition before {A : Type} (x y : Z * (nat * A)) : Prop :=
  (fst x > fst y)%Z \/ (fst x = fst y /\ fst (snd x) > fst (snd y)).

Lemma go_insert_before : forall (A : Type) p n (a : A) l,
  StronglySorted before l -> Forall (fun y => fst (snd y) < n) l ->
  StronglySorted before (go_insert p (n, a) l).
Proof.
  intros A p n a l. induction l as [|[q [i z]] l IH]; intros Hs Hn.
  - cbn. repeat constructor.
  - cbn [go_insert]. inversion Hs as [|? ? Hs' Hall]; subst.
    inversion Hn as [|? ? Hi Hn']; subst. cbn in Hi.
    destruct (p >=? q)%Z eqn:E.
    + constructor; [assumption|]. constructor.
      * unfold before; cbn. lia.
      * rewrite Forall_forall in *. intros y Hy. specialize (Hall y Hy). specialize (Hn' y Hy).
        unfold before in *; cbn in *. lia.
    + constructor; [auto|].
      destruct (go_insert_split _ p (n, a) l) as (l1 & l2 & El & -> & _).
      subst l. apply Forall_app in Hall as [H1 H2].
      apply Forall_app. split; [assumption|]. constructor; [|assumption].
      unfold before; cbn. lia.
Qed.

Lemma go_order_numbered_sorted : forall (A : Type) (l : list (Z * A)),
  StronglySorted before (go_order (number 0 l)).
Proof.
  intros A l. unfold go_order.
  assert (H : forall l start acc,
             StronglySorted before acc -> Forall (fun y => fst (snd y) < start) acc ->
             StronglySorted (@before A) (fold_left ins (number start l) acc)).
  { clear l. induction l as [|[p a] l IH]; intros start acc Hs Hn; [exact Hs|].
    unfold number. cbn [length seq combine map fold_left fst snd].
    apply (IH (S start)).
    - unfold ins. cbn [fst snd]. now apply go_insert_before.
    - unfold ins. cbn [fst snd].
      destruct (go_insert_split _ p (start, a) acc) as (l1 & l2 & El & -> & _). subst acc.
      apply Forall_app in Hn as [H1 H2]. apply Forall_app. split.
      + eapply Forall_impl; [|exact H1]. cbn. lia.
      + constructor; [cbn; lia|]. eapply Forall_impl; [|exact H2]. cbn. lia. }
  apply H; constructor.
Qed.

(* erasing the numbers gives back the loop's output on the plain list *)
Lemma go_order_numbered_erase : forall (A : Type) (l : list (Z * A)),
  map (fun x => (fst x, snd (snd x))) (go_order (number 0 l)) = go_order l.
Proof.
  intros A l. unfold go_order.
  assert (H : forall l start acc,
     map (fun x : Z * (nat * A) => (fst x, snd (snd x))) (fold_left ins (number start l) acc)
     = fold_left ins l (map (fun x => (fst x, snd (snd x))) acc)).
  { clear l. induction l as [|[p a] l IH]; intros start acc; [reflexivity|].
    unfold number. cbn [length seq combine map fold_left fst snd].
    rewrite (IH (S start)). f_equal. unfold ins. cbn [fst snd].
    apply (go_insert_map _ _ (@snd nat A)). }
  apply (H l 0 []).
Qed.

(* strict sortedness by a total order on distinct keys determines the list *)
Lemma before_irrefl : forall (A : Type) (x : Z * (nat * A)), ~ before x x.
Proof. unfold before. intros. lia. Qed.

Lemma before_trans : forall (A : Type) (x y z : Z * (nat * A)), before x y -> before y z -> before x z.
Proof. unfold before. intros. lia. Qed.

Lemma sorted_perm_unique : forall (A : Type) (l1 l2 : list (Z * (nat * A))),
  StronglySorted before l1 -> StronglySorted before l2 -> Permutation l1 l2 -> l1 = l2.
Proof.
  intros A l1. induction l1 as [|x l1 IH]; intros l2 H1 H2 HP.
  - apply Permutation_nil in HP. now subst.
  - destruct l2 as [|y l2]; [apply Permutation_sym, Permutation_nil in HP; discriminate|].
    inversion H1 as [|? ? H1' Hx]; inversion H2 as [|? ? H2' Hy]; subst.
    assert (x = y) as ->.
    { assert (Hin1 : In x (y :: l2)) by (eapply Permutation_in; [exact HP|now left]).
      assert (Hin2 : In y (x :: l1)) by (eapply Permutation_in; [symmetry; exact HP|now left]).
      destruct Hin1 as [->|Hin1]; [reflexivity|].
      destruct Hin2 as [->|Hin2]; [reflexivity|].
      rewrite Forall_forall in Hx, Hy.
      exfalso. apply (before_irrefl A x). eapply before_trans; [apply Hx, Hin2|apply Hy, Hin1]. }
    f_equal. apply IH; auto. eapply Permutation_cons_inv; exact HP.
Qed.

(* ------------------------------------------------------------------ *)
(* compile is correct                                                  *)
(* ------------------------------------------------------------------ *)

(* [good t]: compile fails exactly when some node is bad; otherwise running
   the compiled modifier for kind k has the tree's meaning. *)
Definition good (t : tree) : Prop :=
  match compile t with
  | None => has_bad t = true
  | Some r => has_bad t = false /\
      forall k cond, run_opt cond (sel k (rq r) (rs r)) = eval k cond t
  end.

Definition proj (k : kind) (r : result) : option cmod := sel k (rq r) (rs r).

(* one-sided versions of the two group loops *)
Fixpoint fifo_add1 (pr : result -> option cmod) (rl : list (option result)) (acc : list cmod)
  : option (list cmod) :=
  match rl with
  | [] => Some acc
  | None :: _ => None
  | Some r :: rest => fifo_add1 pr rest (push (pr r) acc)
  end.

Lemma fifo_add_split : forall rl qa sa,
  fifo_add rl qa sa =
  match fifo_add1 rq rl qa, fifo_add1 rs rl sa with
  | Some a, Some b => Some (a, b)
  | _, _ => None
  end.
Proof.
  induction rl as [|[r|] rl IH]; intros; cbn [fifo_add fifo_add1]; auto.
Qed.

Lemma fifo_add1_sel : forall k rl qa sa,
  fifo_add1 (proj k) rl (sel k qa sa) =
  sel k (fifo_add1 rq rl qa) (fifo_add1 rs rl sa).
Proof. intros []; reflexivity. Qed.

Lemma fifo1_good : forall k cs, Forall good cs -> forall acc,
  match fifo_add1 (proj k) (map compile cs) acc with
  | None => existsb has_bad cs = true
  | Some acc' => existsb has_bad cs = false /\
      forall cond agg,
        seq_eff agg (map (run cond) acc') =
        seq_eff agg (map (run cond) acc ++ map (eval k cond) cs)
  end.
Proof.
  intros k cs HF. induction HF as [|c cs Hc HF IH]; intros acc.
  - cbn. split; [reflexivity|]. intros. now rewrite app_nil_r.
  - cbn [map fifo_add1 existsb]. unfold good in Hc.
    destruct (compile c) as [r|]; [|now rewrite Hc].
    destruct Hc as [Hb Hr]. rewrite Hb. cbn [orb].
    specialize (IH (push (proj k r) acc)).
    destruct (fifo_add1 (proj k) (map compile cs) (push (proj k r) acc)) as [acc'|]; [|exact IH].
    destruct IH as [Hbs IH]. split; [exact Hbs|]. intros cond agg.
    rewrite IH. specialize (Hr k cond). unfold proj.
    destruct (sel k (rq r) (rs r)) as [m|]; cbn [push run_opt] in *.
    + rewrite map_app, <- app_assoc. cbn [map app]. now rewrite Hr.
    + rewrite <- Hr. now rewrite seq_eff_skip.
Qed.

(* priority *)
Fixpoint prio_add1 (pr : result -> option cmod) (rl : list (Z * option result))
  (acc : list (Z * cmod)) : option (list (Z * cmod)) :=
  match rl with
  | [] => Some acc
  | (_, None) :: _ => None
  | (p, Some r) :: rest => prio_add1 pr rest (pinsert p (pr r) acc)
  end.

Lemma prio_add_split : forall rl qa sa,
  prio_add rl qa sa =
  match prio_add1 rq rl qa, prio_add1 rs rl sa with
  | Some a, Some b => Some (a, b)
  | _, _ => None
  end.
Proof.
  induction rl as [|[p [r|]] rl IH]; intros; cbn [prio_add prio_add1]; auto.
Qed.

(* the entries that carry a modifier *)
Fixpoint somes (l : list (Z * option cmod)) : list (Z * cmod) :=
  match l with
  | [] => []
  | (p, Some m) :: l' => (p, m) :: somes l'
  | (_, None) :: l' => somes l'
  end.

Lemma somes_head_le : forall l p,
  desc l -> match l with [] => True | y :: _ => (fst y <= p)%Z end ->
  match somes l with [] => True | y :: _ => (fst y <= p)%Z end.
Proof.
  induction l as [|[q [m|]] l IH]; intros p Hs Hh; cbn [somes]; auto.
  inversion Hs as [|? ? Hs' Hall]; subst. apply IH; [assumption|].
  destruct l as [|y l]; [trivial|]. inversion Hall; subst. cbn in *. lia.
Qed.

Lemma go_insert_head : forall (A : Type) p (a : A) l,
  match l with [] => True | y :: _ => (fst y <= p)%Z end -> go_insert p a l = (p, a) :: l.
Proof.
  intros A p a [|[q z] l] H; [reflexivity|]. cbn in *.
  destruct (p >=? q)%Z eqn:E; [reflexivity|lia].
Qed.

Lemma somes_insert : forall p o l, desc l ->
  somes (go_insert p o l) = pinsert p o (somes l).
Proof.
  intros p o l. induction l as [|[q z] l IH]; intros Hs.
  - destruct o; reflexivity.
  - cbn [go_insert]. inversion Hs as [|? ? Hs' Hall]; subst.
    destruct (p >=? q)%Z eqn:E.
    + destruct o as [m|]; cbn [pinsert]; [|reflexivity].
      change (somes ((p, Some m) :: (q, z) :: l)) with ((p, m) :: somes ((q, z) :: l)).
      symmetry. apply go_insert_head. apply somes_head_le; [exact Hs|]. cbn. lia.
    + destruct z as [mz|]; cbn [somes]; rewrite IH by assumption.
      * destruct o as [m|]; cbn [pinsert go_insert]; [now rewrite E|reflexivity].
      * reflexivity.
Qed.

Definition orun (cond : N -> bool) (x : Z * option cmod) : Z * eff :=
  (fst x, run_opt cond (snd x)).

Lemma orun_insert : forall cond p o l,
  map (orun cond) (go_insert p o l) = go_insert p (run_opt cond o) (map (orun cond) l).
Proof. intros. apply (go_insert_map _ _ (run_opt cond)). Qed.

Lemma somes_seq : forall cond agg l,
  seq_eff agg (map (fun pm => run cond (snd pm)) (somes l)) =
  seq_eff agg (map snd (map (orun cond) l)).
Proof.
  intros cond agg l. induction l as [|[p [m|]] l IH]; [reflexivity| |].
  - cbn [somes map orun fst snd run_opt]. cbn [seq_eff]. now rewrite IH.
  - cbn [somes map orun fst snd run_opt]. now rewrite seq_eff_cons0.
Qed.

Definition evs (k : kind) (cond : N -> bool) (cs : list (Z * tree)) : list (Z * eff) :=
  map (fun pc => (fst pc, eval k cond (snd pc))) cs.

Lemma prio1_good : forall k cs, Forall (fun pc => good (snd pc)) cs ->
  forall full, desc full ->
  match prio_add1 (proj k) (map (fun pc => (fst pc, compile (snd pc))) cs) (somes full) with
  | None => existsb (fun pc => has_bad (snd pc)) cs = true
  | Some acc' => existsb (fun pc => has_bad (snd pc)) cs = false /\
      exists full', desc full' /\ acc' = somes full' /\
        forall cond, map (orun cond) full' = fold_left ins (evs k cond cs) (map (orun cond) full)
  end.
Proof.
  intros k cs HF. induction HF as [|[p c] cs Hc HF IH]; intros full Hd.
  - cbn. split; [reflexivity|]. exists full. auto.
  - cbn [map prio_add1 existsb fst snd] in *. unfold good in Hc.
    destruct (compile c) as [r|]; [|now rewrite Hc].
    destruct Hc as [Hb Hr]. rewrite Hb. cbn [orb].
    rewrite <- somes_insert by assumption.
    specialize (IH (go_insert p (proj k r) full) (go_insert_desc _ _ _ _ Hd)).
    destruct (prio_add1 (proj k) (map (fun pc => (fst pc, compile (snd pc))) cs)
                (somes (go_insert p (proj k r) full))) as [acc'|]; [|exact IH].
    destruct IH as [Hbs (full' & Hd' & -> & Hm)]. split; [exact Hbs|].
    exists full'. repeat split; auto. intros cond.
    rewrite Hm, orun_insert. unfold evs. cbn [map fold_left fst snd].
    unfold ins at 2. cbn [fst snd]. unfold proj. now rewrite Hr.
Qed.

Lemma sel_push : forall k (a b : option cmod) qa sa,
  sel k (push a qa) (push b sa) = push (sel k a b) (sel k qa sa).
Proof. intros []; reflexivity. Qed.

Theorem compile_good : forall t, good t.
Proof.
  induction t as [id sc cq cs eq es|sc agg cs IH|sc cs IH|c sc m e IHm IHe|w] using tree_ind';
    unfold good; cbn [compile has_bad].
  - (* Leaf *)
    rewrite new_result_spec.
    assert (Eq : is_some (if cq then Some (CLeaf id eq) else None) = cq) by now destruct cq.
    assert (Es : is_some (if cs then Some (CLeaf id es) else None) = cs) by now destruct cs.
    rewrite Eq, Es. destruct (scope_bad cq cs sc) eqn:Hb; [reflexivity|]. split; [reflexivity|].
    intros k cond. cbn [eval].
    pose proof (acts_supported k cq cs sc Hb) as Hsup.
    destruct k; cbn [sel rq rs] in *.
    + destruct (acts KReq cq cs sc); [|reflexivity]. rewrite (Hsup eq_refl). reflexivity.
    + destruct (acts KRes cq cs sc); [|reflexivity]. rewrite (Hsup eq_refl). reflexivity.
  - (* Fifo *)
    rewrite fifo_add_split.
    pose proof (fifo1_good KReq cs IH []) as Hq. pose proof (fifo1_good KRes cs IH []) as Hs.
    unfold proj in Hq, Hs. cbn [sel] in Hq, Hs.
    change (fun r => rq r) with rq in Hq. change (fun r => rs r) with rs in Hs.
    destruct (fifo_add1 rq (map compile cs) []) as [qa|]; [|now rewrite Hq].
    destruct (fifo_add1 rs (map compile cs) []) as [sa|]; [|now rewrite Hs].
    destruct Hq as [Hb Hq], Hs as [_ Hs]. rewrite Hb. cbn [orb].
    pose proof (finish_both (CFifo agg qa) (CFifo agg sa) sc) as Hf.
    destruct (new_result (Some (CFifo agg qa)) (Some (CFifo agg sa)) sc) as [r|]; [|exact Hf].
    destruct Hf as [Hsb Hf]. split; [exact Hsb|]. intros k cond. rewrite Hf. cbn [eval].
    destruct (acts k true true sc); [|reflexivity].
    destruct k; cbn [sel run]; rewrite mod_loop_seq.
    + now rewrite Hq.
    + now rewrite Hs.
  - (* Prio *)
    rewrite prio_add_split.
    pose proof (prio1_good KReq cs IH [] (SSorted_nil _)) as Hq.
    pose proof (prio1_good KRes cs IH [] (SSorted_nil _)) as Hs.
    unfold proj in Hq, Hs. cbn [sel somes] in Hq, Hs.
    change (fun r => rq r) with rq in Hq. change (fun r => rs r) with rs in Hs.
    destruct (prio_add1 rq (map (fun pc => (fst pc, compile (snd pc))) cs) []) as [qa|]; [|now rewrite Hq].
    destruct (prio_add1 rs (map (fun pc => (fst pc, compile (snd pc))) cs) []) as [sa|]; [|now rewrite Hs].
    destruct Hq as [Hb (fq & _ & -> & Hq)], Hs as [_ (fs & _ & -> & Hs)]. rewrite Hb. cbn [orb].
    pose proof (finish_both (CPrio (somes fq)) (CPrio (somes fs)) sc) as Hf.
    destruct (new_result (Some (CPrio (somes fq))) (Some (CPrio (somes fs))) sc) as [r|]; [|exact Hf].
    destruct Hf as [Hsb Hf]. split; [exact Hsb|]. intros k cond. rewrite Hf. cbn [eval].
    destruct (acts k true true sc); [|reflexivity].
    fold (evs k cond cs). rewrite <- go_order_is_prio_order. unfold go_order.
    destruct k; cbn [sel run]; rewrite mod_loop_seq, somes_seq.
    + now rewrite Hq.
    + now rewrite Hs.
  - (* Filt *)
    unfold good in IHm. destruct (compile m) as [rm|]; [|now rewrite IHm].
    destruct IHm as [Hbm Hrm]. rewrite Hbm. cbn [orb].
    assert (Hnoop : forall cond o, run cond (or_noop o) = run_opt cond o) by (intros ? []; reflexivity).
    destruct e as [e'|].
    + cbn [opt_holds] in IHe. unfold good in IHe. destruct (compile e') as [re|]; [|now rewrite IHe].
      destruct IHe as [Hbe Hre]. rewrite Hbe. cbn [orb].
      match goal with |- match new_result (Some ?a) (Some ?b) sc with _ => _ end =>
        pose proof (finish_both a b sc) as Hf; destruct (new_result (Some a) (Some b) sc) as [r|] end;
        [|exact Hf].
      destruct Hf as [Hsb Hf]. split; [exact Hsb|]. intros k cond. rewrite Hf. cbn [eval].
      destruct (acts k true true sc); [|reflexivity].
      destruct k; cbn [sel run]; rewrite !Hnoop;
        [rewrite <- (Hrm KReq cond), <- (Hre KReq cond)|rewrite <- (Hrm KRes cond), <- (Hre KRes cond)];
        reflexivity.
    + match goal with |- match new_result (Some ?a) (Some ?b) sc with _ => _ end =>
        pose proof (finish_both a b sc) as Hf; destruct (new_result (Some a) (Some b) sc) as [r|] end;
        [|exact Hf].
      destruct Hf as [Hsb Hf]. split; [exact Hsb|]. intros k cond. rewrite Hf. cbn [eval].
      destruct (acts k true true sc); [|reflexivity].
      destruct k; cbn [sel run]; rewrite !Hnoop;
        [rewrite <- (Hrm KReq cond)|rewrite <- (Hrm KRes cond)]; reflexivity.
  - reflexivity.
Qed.

Theorem rejects_whole : forall t, compile t = None <-> has_bad t = true.
Proof.
  intros t. pose proof (compile_good t) as H. unfold good in H.
  destruct (compile t) as [r|].
  - destruct H as [H _]. split; [discriminate|]. rewrite H. discriminate.
  - split; auto.
Qed.

Theorem compile_correct : forall t k cond, impl_outcome k cond t = spec_outcome k cond t.
Proof.
  intros t k cond. unfold impl_outcome, spec_outcome.
  pose proof (compile_good t) as H. unfold good in H.
  destruct (compile t) as [r|].
  - destruct H as [-> H]. now rewrite H.
  - now rewrite H.
Qed.

(* accepted configurations: run of the compiled halves = meaning of the tree *)
Theorem compile_runs_eval : forall t r, compile t = Some r ->
  has_bad t = false /\ forall k cond, run_opt cond (sel k (rq r) (rs r)) = eval k cond t.
Proof.
  intros t r E. pose proof (compile_good t) as H. unfold good in H. now rewrite E in H.
Qed.

(* ------------------------------------------------------------------ *)
(* Every error is reported exactly once                                *)
(* ------------------------------------------------------------------ *)

(* [f] tells which probe ids return an error on messages of kind k; the tree
   is consistent with it (ids identify leaves' behaviour). *)
Fixpoint consistent (k : kind) (f : N -> bool) (t : tree) : Prop :=
  match t with
  | Leaf id _ _ _ eq es => f id = sel k eq es
  | Fifo _ _ cs => (fix all (l : list tree) : Prop :=
                      match l with [] => True | x :: r => consistent k f x /\ all r end) cs
  | Prio _ cs => (fix all (l : list (Z * tree)) : Prop :=
                    match l with [] => True | x :: r => consistent k f (snd x) /\ all r end) cs
  | Filt _ _ m e => consistent k f m /\ match e with Some e' => consistent k f e' | None => True end
  | Bad _ => True
  end.

Definition once (f : N -> bool) (x : eff) : Prop := snd x = filter f (fst x).

Lemma seq_eff_once : forall f agg rs, Forall (once f) rs -> once f (seq_eff agg rs).
Proof.
  intros f agg rs H. induction H as [|[t e] rs Hx H IH]; [reflexivity|].
  unfold once in *. cbn [seq_eff fst snd] in *.
  destruct (seq_eff agg rs) as [t' e']. cbn [fst snd] in *.
  destruct e as [|x e0].
  - cbn [fst snd]. rewrite filter_app, <- Hx, IH. reflexivity.
  - destruct agg; cbn [fst snd].
    + rewrite filter_app, <- Hx, IH. reflexivity.
    + exact Hx.
Qed.

Lemma go_insert_forall : forall (A : Type) (P : Z * A -> Prop) p a l,
  P (p, a) -> Forall P l -> Forall P (go_insert p a l).
Proof.
  intros. destruct (go_insert_split A p a l) as (l1 & l2 & -> & -> & _).
  apply Forall_app in H0 as [H1 H2]. apply Forall_app. split; auto.
Qed.

Theorem errors_once : forall k f cond t, consistent k f t -> once f (eval k cond t).
Proof.
  intros k f cond. induction t as [id sc cq cs eq es|sc agg cs IH|sc cs IH|c sc m e IHm IHe|w] using tree_ind';
    intros Hc; cbn [eval].
  - cbn in Hc. destruct (acts k cq cs sc); [|reflexivity]. unfold once. cbn. rewrite Hc.
    destruct (sel k eq es); reflexivity.
  - destruct (acts k true true sc); [|reflexivity]. apply seq_eff_once.
    cbn in Hc. induction IH as [|x cs Hx IH IH']; [constructor|].
    destruct Hc as [Hc1 Hc2]. cbn [map]. constructor; auto.
  - destruct (acts k true true sc); [|reflexivity]. apply seq_eff_once.
    rewrite <- go_order_is_prio_order. apply Forall_map.
    assert (HF : Forall (fun x : Z * eff => once f (snd x))
                   (map (fun pc => (fst pc, eval k cond (snd pc))) cs)).
    { cbn in Hc. induction IH as [|x cs Hx IH IH']; [constructor|].
      destruct Hc as [Hc1 Hc2]. cbn [map]. constructor; cbn [snd]; auto. }
    unfold go_order. generalize (@nil (Z * eff)) (Forall_nil (fun x : Z * eff => once f (snd x))).
    induction HF as [|x l Hx HF IHl]; intros acc Hacc; [exact Hacc|].
    cbn [fold_left]. apply IHl. unfold ins. apply go_insert_forall; [|assumption].
    destruct x; exact Hx.
  - destruct (acts k true true sc); [|reflexivity]. cbn in Hc. destruct Hc as [Hm He].
    destruct (cond c); [auto|]. destruct e as [e'|]; [auto|reflexivity].
  - reflexivity.
Qed.

(* ------------------------------------------------------------------ *)
(* Reconfiguration                                                     *)
(* ------------------------------------------------------------------ *)

Lemma run_or_noop : forall cond o, run cond (or_noop o) = run_opt cond o.
Proof. intros ? []; reflexivity. Qed.

Theorem reject_keeps_active : forall n a t,
  has_bad t = true ->
  post n a t = (a, false).
Proof.
  intros n a t H. unfold post. apply rejects_whole in H. now rewrite H.
Qed.

Theorem accept_replaces : forall n a t,
  has_bad t = false ->
  snd (post n a t) = true /\
  acfg (fst (post n a t)) = Some n /\
  forall k cond, serve (fst (post n a t)) k cond = eval k cond t.
Proof.
  intros n a t H. unfold post.
  destruct (compile t) as [r|] eqn:E.
  - apply compile_runs_eval in E as [_ Hr]. cbn [fst snd acfg]. repeat split.
    intros k cond. unfold serve. cbn [areq ares].
    rewrite <- Hr. destruct k; cbn [sel]; apply run_or_noop.
  - apply rejects_whole in E. congruence.
Qed.

(* Whatever the command - a POST whose body read failed after any number of
   bytes (even a complete valid configuration), a malformed or unknown
   configuration, a wrong method, GET, probe traffic -: unless the answer is
   200 to a POST, config text, request half and response half are untouched. *)
Definition is_setter (c : cmd) : bool :=
  match c with SetReq _ | SetRes _ => true | _ => false end.

Theorem only_200_changes_active : forall n a c,
  is_setter c = false ->
  snd (impl_step n a c) <> OStatus true -> fst (impl_step n a c) = a.
Proof.
  intros n a c Hs H. destruct c as [t|k cond| |t| |o|o]; cbn [impl_step] in *; try reflexivity; try discriminate.
  unfold post in *. destruct (compile t) as [r|]; cbn [fst snd] in *; [congruence|reflexivity].
Qed.

(* an accepted POST installs the freshly parsed tree whatever was there: the
   resulting state does not depend on the previous one (in particular POSTing
   the configuration that is already active is not a no-op: overrides made
   through the setters are gone, the tree instance is new) *)
Theorem accepted_post_ignores_previous_state : forall n a a' t,
  has_bad t = false -> fst (post n a t) = fst (post n a' t) /\ snd (post n a t) = true
  /\ oreq (fst (post n a t)) = n /\ ores (fst (post n a t)) = n.
Proof.
  intros n a a' t H. unfold post. destruct (compile t) as [r|] eqn:E.
  - cbn. auto.
  - apply rejects_whole in E. congruence.
Qed.

(* what the Modifier does = what the last accepted tree means *)
Definition rel (a : active) (cur : option (nat * tree)) : Prop :=
  acfg a = match cur with Some (i, _) => Some i | None => None end /\
  forall k cond, serve a k cond = match cur with Some (_, t) => eval k cond t | None => eff0 end.

Lemma rel_init : rel init_active None.
Proof. split; [reflexivity|]. intros [] cond; reflexivity. Qed.

(* the Modifier against the specification state of reconfiguration scripts *)
Definition srel (a : active) (st : sstate) : Prop :=
  acfg a = s_cfg st /\ oreq a = s_oreq st /\ ores a = s_ores st /\
  forall cond, serve a KReq cond = s_req st cond /\ serve a KRes cond = s_res st cond.

Lemma srel_init : srel init_active s_init.
Proof. repeat split. Qed.

Lemma srel_sel : forall a st k cond, srel a st -> serve a k cond = sel k (s_req st) (s_res st) cond.
Proof. intros a st k cond (_ & _ & _ & H). destruct (H cond). now destruct k. Qed.

Lemma srel_origin : forall a st k, srel a st -> sel k (oreq a) (ores a) = sel k (s_oreq st) (s_ores st).
Proof. intros a st k (_ & H1 & H2 & _). now destruct k. Qed.

Lemma step_refines : forall n a st c, srel a st ->
  snd (impl_step n a c) = snd (spec_step n st c) /\
  srel (fst (impl_step n a c)) (fst (spec_step n st c)).
Proof.
  intros n a st c Hr. destruct c as [t|k cond| |t| |o|o]; cbn [impl_step spec_step];
    try (cbn [fst snd]; split; [reflexivity|exact Hr]).
  - destruct (has_bad t) eqn:Hb.
    + rewrite (reject_keeps_active n a t Hb). cbn. split; [reflexivity|exact Hr].
    + destruct (accept_replaces n a t Hb) as (H1 & H2 & H3).
      destruct (accepted_post_ignores_previous_state n a a t Hb) as (_ & _ & H4 & H5).
      destruct (post n a t) as [a' ok]. cbn [fst snd] in *. subst ok.
      split; [reflexivity|]. unfold srel, s_of_tree. cbn [s_cfg s_oreq s_ores s_req s_res].
      repeat split; auto.
  - cbn [fst snd]. rewrite (srel_sel a st k cond Hr), (srel_origin a st k Hr). split; [reflexivity|exact Hr].
  - cbn [fst snd]. pose proof Hr as (Hc & _). rewrite Hc. split; [reflexivity|exact Hr].
  - cbn [fst snd]. split; [reflexivity|]. destruct Hr as (Hc & H1 & H2 & H).
    repeat split; cbn; auto; try (destruct (H cond); assumption). destruct o; reflexivity.
  - cbn [fst snd]. split; [reflexivity|]. destruct Hr as (Hc & H1 & H2 & H).
    repeat split; cbn; auto; try (destruct (H cond); assumption). destruct o; reflexivity.
Qed.

Theorem script_refines : forall cs n a st, srel a st ->
  impl_script n a cs = spec_script n st cs.
Proof.
  induction cs as [|c cs IH]; intros n a st Hr; [reflexivity|].
  cbn [impl_script spec_script].
  destruct (step_refines n a st c Hr) as [Ho Hr'].
  destruct (impl_step n a c) as [a' o]. destruct (spec_step n st c) as [st' o'].
  cbn [fst snd] in *. subst o'. f_equal. now apply IH.
Qed.

Theorem reconfiguration : forall cs, impl_script 0 init_active cs = spec_script 0 s_init cs.
Proof. intros. apply script_refines, srel_init. Qed.

(* ------------------------------------------------------------------ *)
(* Oracles                                                             *)
(* ------------------------------------------------------------------ *)

Lemma list_eqb_eq : forall (A : Type) (eqb : A -> A -> bool),
  (forall x y, eqb x y = true <-> x = y) ->
  forall a b, list_eqb eqb a b = true <-> a = b.
Proof.
  intros A eqb H. induction a as [|x a IH]; destruct b as [|y b]; cbn; try (split; congruence).
  rewrite andb_true_iff, H, IH. split; [intros [-> ->]; reflexivity|intros E; inversion E; auto].
Qed.

Lemma nlist_eqb_eq : forall a b, list_eqb N.eqb a b = true <-> a = b.
Proof. apply list_eqb_eq. exact N.eqb_eq. Qed.

Lemma outcome_eqb_eq : forall a b, outcome_eqb a b = true <-> a = b.
Proof.
  intros [|t1 e1] [|t2 e2]; cbn; try (split; congruence).
  rewrite andb_true_iff, !nlist_eqb_eq. split; [intros [-> ->]; reflexivity|intros E; inversion E; auto].
Qed.

Lemma natlist_eqb_eq : forall a b, list_eqb Nat.eqb a b = true <-> a = b.
Proof. apply list_eqb_eq. exact Nat.eqb_eq. Qed.

Lemma obs_eqb_eq : forall a b, obs_eqb a b = true <-> a = b.
Proof.
  intros [x|t1 e1 o1| |x|x] [y|t2 e2 o2| |y|y]; cbn; try (split; congruence).
  - rewrite eqb_true_iff. split; congruence.
  - rewrite !andb_true_iff, !nlist_eqb_eq, natlist_eqb_eq.
    split; [intros [[-> ->] ->]; reflexivity|intros E; inversion E; auto].
  - destruct x as [x|], y as [y|]; cbn; try (split; congruence).
    rewrite Nat.eqb_eq. split; congruence.
  - rewrite N.eqb_eq. split; congruence.
Qed.

Theorem c12_ok_iff : forall k cond t o,
  c12_ok k cond t o = true <-> o = spec_outcome k cond t.
Proof. intros. apply outcome_eqb_eq. Qed.

Theorem c12_script_ok_iff : forall cs observed,
  c12_script_ok cs observed = true <-> observed = spec_script 0 s_init cs.
Proof. intros. apply list_eqb_eq. exact obs_eqb_eq. Qed.

Theorem impl_agrees_iff : forall k cond t o,
  impl_agrees k cond t o = true <-> c12_ok k cond t o = true.
Proof.
  intros. unfold impl_agrees, c12_ok. now rewrite compile_correct.
Qed.

Theorem impl_script_agrees_iff : forall cs observed,
  impl_script_agrees cs observed = true <-> c12_script_ok cs observed = true.
Proof.
  intros. unfold impl_script_agrees, c12_script_ok. now rewrite reconfiguration.
Qed.

(* ------------------------------------------------------------------ *)
(* Probes concurrent with reconfiguration                              *)
(* ------------------------------------------------------------------ *)

Lemma eff_eqb_eq : forall a b, eff_eqb a b = true <-> a = b.
Proof.
  intros [t1 e1] [t2 e2]. unfold eff_eqb. cbn [fst snd].
  rewrite andb_true_iff, !nlist_eqb_eq. split; [intros [-> ->]; reflexivity|intros E; inversion E; auto].
Qed.

(* declarative reading of [explained] *)
Inductive explains : list eff -> list eff -> Prop :=
| ex_nil : forall ms, explains ms []
| ex_stay : forall m ms obs, explains (m :: ms) obs -> explains (m :: ms) (m :: obs)
| ex_adv : forall m ms obs, explains ms obs -> explains (m :: ms) obs.

Lemma explains_app : forall l1 l obs, explains l obs -> explains (l1 ++ l) obs.
Proof. induction l1 as [|x l1 IH]; intros; [assumption|]. cbn. now apply ex_adv, IH. Qed.

Lemma explains_inv : forall ms o obs, explains ms (o :: obs) ->
  exists l1 l2, ms = l1 ++ o :: l2 /\ explains (o :: l2) obs.
Proof.
  intros ms o obs H. remember (o :: obs) as oo eqn:E. revert o obs E.
  induction H as [ms|m ms obs' H IH|m ms obs' H IH]; intros o obs E; [discriminate| |].
  - inversion E; subst. exists [], ms. split; [reflexivity|assumption].
  - destruct (IH o obs E) as (l1 & l2 & -> & H2). exists (m :: l1), l2. split; [reflexivity|assumption].
Qed.

Lemma explained_unfold : forall o obs m l,
  explained (m :: l) (o :: obs) = if eff_eqb o m then explained (m :: l) obs else explained l (o :: obs).
Proof. intros. cbn. destruct (eff_eqb o m); reflexivity. Qed.

Lemma explained_sound : forall obs ms, explained ms obs = true -> explains ms obs.
Proof.
  induction obs as [|o obs IH]; intros ms H; [constructor|].
  induction ms as [|m l IHl]; [discriminate|].
  rewrite explained_unfold in H. destruct (eff_eqb o m) eqn:E.
  - apply eff_eqb_eq in E. subst m. apply ex_stay. now apply IH.
  - apply ex_adv. now apply IHl.
Qed.

Lemma explained_complete : forall obs ms, explains ms obs -> explained ms obs = true.
Proof.
  induction obs as [|o obs IH]; intros ms H; [reflexivity|].
  destruct (explains_inv ms o obs H) as (l1 & l2 & -> & H2). clear H.
  induction l1 as [|x l1 IHl]; cbn [app].
  - rewrite explained_unfold. assert (E : eff_eqb o o = true) by now apply eff_eqb_eq.
    rewrite E. now apply IH.
  - rewrite explained_unfold. destruct (eff_eqb o x) eqn:E.
    + apply IH. apply eff_eqb_eq in E. subst x.
      change (o :: l1 ++ o :: l2) with ((o :: l1) ++ o :: l2). now apply explains_app.
    + exact IHl.
Qed.

Theorem explained_iff : forall ms obs, explained ms obs = true <-> explains ms obs.
Proof. split; [apply explained_sound|apply explained_complete]. Qed.

(* an interleaving of the POSTing thread and a thread repeating one probe
   message, every Modifier method being atomic *)
Fixpoint posts (cs : list cmd) : list tree :=
  match cs with
  | [] => []
  | Post t :: cs' => t :: posts cs'
  | _ :: cs' => posts cs'
  end.

Fixpoint probe_obs (os : list obs) : list eff :=
  match os with
  | [] => []
  | OOut t e _ :: os' => (t, e) :: probe_obs os'
  | _ :: os' => probe_obs os'
  end.

(* scripts of the POSTing thread and one probing thread; the public setters
   are not part of this scenario *)
Definition same_probe (k : kind) (cond : N -> bool) (c : cmd) : Prop :=
  match c with
  | Probe k' cond' => k' = k /\ cond' = cond
  | SetReq _ | SetRes _ => False
  | _ => True
  end.

Definition meaning_of (k : kind) (cond : N -> bool) (st : sstate) : eff :=
  sel k (s_req st) (s_res st) cond.

Lemma interleaving_spec : forall k cond cs n st,
  Forall (same_probe k cond) cs ->
  explains (meaning_of k cond st :: map (eval k cond) (filter (fun t => negb (has_bad t)) (posts cs)))
           (probe_obs (spec_script n st cs)).
Proof.
  intros k cond cs. induction cs as [|c cs IH]; intros n st HF; [constructor|].
  inversion HF as [|? ? Hc HF']; subst.
  destruct c as [t|k' cond'| |t| |o|o]; cbn [spec_script spec_step posts probe_obs];
    try (apply IH; assumption); try contradiction.
  - destruct (has_bad t) eqn:Hb; cbn [probe_obs filter negb].
    + rewrite Hb. cbn [negb]. apply IH; assumption.
    + rewrite Hb. cbn [negb map]. apply ex_adv.
      replace (eval k cond t) with (meaning_of k cond (s_of_tree n t)) by (destruct k; reflexivity).
      exact (IH (S n) (s_of_tree n t) HF').
  - destruct Hc as [-> ->]. cbn [probe_obs]. fold (meaning_of k cond st).
    rewrite <- surjective_pairing. apply ex_stay. exact (IH (S n) st HF').
Qed.

(* For EVERY interleaving: the probe thread's observations walk forward
   through (nothing, accepted tree 1, accepted tree 2, ...), never see a
   rejected or half-installed configuration, never go back. *)
Theorem concurrent_probes : forall k cond cs,
  Forall (same_probe k cond) cs ->
  explains (accepted_meanings k cond (posts cs))
           (probe_obs (impl_script 0 init_active cs)).
Proof.
  intros. rewrite reconfiguration. pose proof (interleaving_spec k cond cs 0 s_init H) as H0.
  replace (meaning_of k cond s_init) with eff0 in H0 by (destruct k; reflexivity). exact H0.
Qed.
