From Coq Require Import ExtrOcamlBasic ExtrOcamlString.
From Martian.Common Require Import ExtractBase.
From Martian.C12 Require Import Model.
Extraction Language OCaml.
Extraction "model.ml" base_anchor has_bad eval spec_outcome impl_outcome
  spec_script impl_script c12_ok c12_script_ok impl_agrees impl_script_agrees
  first_diff c12_conc_ok accepted_meanings explained
  cond_holds cond_of c12_bits_ok c12_stress_ok cfg_states explained_by pmatch sp_atomic s_init.
