(* C12 — the model's [post] replaces config text, request modifier and response
   modifier in ONE atomic step.  That is justified by the lock shape of
   Modifier.servePOST, regenerated from the source on every run
   (Gen_ServePost.v): no state other than "all old" / "all new" is ever
   visible to another goroutine. *)
From Coq Require Import List Bool.
From Martian.C12 Require Import Model Gen_ServePost.
Import ListNotations.

Lemma sp_atomic_spec : forall evs, sp_atomic evs = true ->
  forall st, In st (sp_visible evs false (false, false, false)) ->
  st = (false, false, false) \/ st = (true, true, true).
Proof.
  intros evs H st Hin. unfold sp_atomic in H. apply andb_true_iff in H as [H _].
  rewrite forallb_forall in H. specialize (H st Hin).
  destruct st as [[[] []] []]; cbn in H; try discriminate; auto.
Qed.

Theorem servePOST_is_atomic : sp_atomic servePOST_events = true.
Proof. vm_compute. reflexivity. Qed.

Theorem servePOST_visible_states : forall st,
  In st (sp_visible servePOST_events false (false, false, false)) ->
  st = (false, false, false) \/ st = (true, true, true).
Proof. exact (sp_atomic_spec servePOST_events servePOST_is_atomic). Qed.
