(* C12 — a JSON modifier configuration means what its tree says.

   Definitions only (no proofs), so that the model still extracts and runs
   when a proof breaks.

   Three layers:
   - [eval], [has_bad], [spec_outcome], [spec_script]: the PROPERTY.  A
     denotational, depth-first reading of a configuration tree: FIFO groups in
     listed order, priority groups in descending priority with the later-listed
     child first among equals ([prio_order] = stable insertion sort of the
     reversed child list), filters by their condition, every node restricted
     to the message kinds in its scope, first error stops a group unless it
     aggregates.  A tree with a bad node anywhere is rejected as a whole.
   - [compile], [run], [impl_outcome], [impl_script]: a transcription of the Go
     code: parse.NewResult's scope loop, fifo.groupFromJSON's append loop,
     priority.Group.Add{Request,Response}Modifier's insertion loop
     ([go_insert], literally "before the first element whose priority is <=
     the new one"), filter.Filter's true/false branches with the noop default,
     martianhttp.Modifier.servePOST (parse fully, then swap both modifiers).
   - oracles [c12_ok], [c12_script_ok] run by the driver on the real outputs.

   Messages are abstracted to what the property needs: which filter conditions
   hold for the message ([cond : N -> bool], one key per filter node, supplied
   by the harness from a direct call to the real matcher) and an append-only
   trace of the probe leaves that acted on it.  An error value is abstracted
   to the flattened list of leaf errors it carries (martian.MultiError.Add
   keeps depth <= 1; nil = []).  *)

From Coq Require Import List NArith ZArith Bool Arith Ascii String.
Import ListNotations.
Local Open Scope list_scope.

(* ------------------------------------------------------------------ *)
(* Configuration trees                                                 *)
(* ------------------------------------------------------------------ *)

(* One element of a "scope" array: "request", "response", anything else. *)
Inductive stok := SReq | SRes | SOther.

(* "scope" absent or null = None (Go: nil slice); [] is Some []. *)
Definition scope := option (list stok).

Inductive kind := KReq | KRes.

Inductive tree :=
| Leaf (id : N) (sc : scope) (creq cres : bool) (ereq eres : bool)
    (* probe modifier: implements RequestModifier iff creq, ResponseModifier
       iff cres; appends id to the trace; returns error id on requests iff
       ereq, on responses iff eres *)
| Fifo (sc : scope) (agg : bool) (cs : list tree)
| Prio (sc : scope) (cs : list (Z * tree))
| Filt (c : N) (sc : scope) (m : tree) (e : option tree)
    (* c = key of the condition in the per-message oracle *)
| Bad (why : N).
    (* unknown modifier name, not exactly one key, malformed JSON *)

Definition sel {A : Type} (k : kind) (a b : A) : A :=
  match k with KReq => a | KRes => b end.

Definition tok_is (k : kind) (s : stok) : bool :=
  match k, s with
  | KReq, SReq => true
  | KRes, SRes => true
  | _, _ => false
  end.

(* Does a node whose type can act on requests iff cq / responses iff cs, with
   scope sc, act on messages of kind k? *)
Definition acts (k : kind) (cq cs : bool) (sc : scope) : bool :=
  match sc with
  | None => sel k cq cs
  | Some l => existsb (tok_is k) l
  end.

(* Unsupported scope: names something that is not a kind, or a kind the node
   type cannot act on. *)
Definition tok_bad (cq cs : bool) (s : stok) : bool :=
  match s with SReq => negb cq | SRes => negb cs | SOther => true end.

Definition scope_bad (cq cs : bool) (sc : scope) : bool :=
  match sc with None => false | Some l => existsb (tok_bad cq cs) l end.

Fixpoint has_bad (t : tree) : bool :=
  match t with
  | Leaf _ sc cq cs _ _ => scope_bad cq cs sc
  | Fifo sc _ cs => existsb has_bad cs || scope_bad true true sc
  | Prio sc cs => existsb (fun pc => has_bad (snd pc)) cs || scope_bad true true sc
  | Filt _ sc m e =>
      has_bad m || match e with Some e' => has_bad e' | None => false end
      || scope_bad true true sc
  | Bad _ => true
  end.

(* ------------------------------------------------------------------ *)
(* Denotational semantics (the property)                               *)
(* ------------------------------------------------------------------ *)

(* effect of a (sub)configuration on one message: probe ids appended to the
   trace, flattened error list *)
Definition eff := (list N * list N)%type.
Definition eff0 : eff := ([], []).

(* Sequencing of children effects: first error stops unless aggregating, then
   all children run and all errors are collected. *)
Fixpoint seq_eff (agg : bool) (rs : list eff) : eff :=
  match rs with
  | [] => eff0
  | (t, e) :: rest =>
      match e with
      | [] => let '(t', e') := seq_eff agg rest in (t ++ t', e')
      | _ :: _ =>
          if agg then let '(t', e') := seq_eff agg rest in (t ++ t', e ++ e')
          else (t, e)
      end
  end.

(* Stable insertion sort, descending by priority: x goes after every element
   with priority >= its own (before the first strictly smaller one). *)
Fixpoint ins_desc {A : Type} (x : Z * A) (l : list (Z * A)) : list (Z * A) :=
  match l with
  | [] => [x]
  | y :: l' => if (fst y <? fst x)%Z then x :: y :: l' else y :: ins_desc x l'
  end.

Definition stable_sort_desc {A : Type} (l : list (Z * A)) : list (Z * A) :=
  fold_left (fun acc x => ins_desc x acc) l [].

(* Descending priority, later-listed first among equals. *)
Definition prio_order {A : Type} (l : list (Z * A)) : list (Z * A) :=
  stable_sort_desc (rev l).

Fixpoint eval (k : kind) (cond : N -> bool) (t : tree) : eff :=
  match t with
  | Leaf id sc cq cs eq es =>
      if acts k cq cs sc then ([id], if sel k eq es then [id] else []) else eff0
  | Fifo sc agg cs =>
      if acts k true true sc then seq_eff agg (map (eval k cond) cs) else eff0
  | Prio sc cs =>
      if acts k true true sc
      then seq_eff false (map snd (prio_order
             (map (fun pc => (fst pc, eval k cond (snd pc))) cs)))
      else eff0
  | Filt c sc m e =>
      if acts k true true sc
      then if cond c then eval k cond m
           else match e with Some e' => eval k cond e' | None => eff0 end
      else eff0
  | Bad _ => eff0
  end.

Inductive outcome :=
| Rejected
| Ran (tr : list N) (er : list N).

Definition ran (x : eff) : outcome := Ran (fst x) (snd x).

Definition spec_outcome (k : kind) (cond : N -> bool) (t : tree) : outcome :=
  if has_bad t then Rejected else ran (eval k cond t).

(* ------------------------------------------------------------------ *)
(* Operational model (the Go code)                                     *)
(* ------------------------------------------------------------------ *)

(* A compiled modifier for ONE message kind (the Go objects implement both
   interfaces; the model keeps the two halves apart, as parse.Result does). *)
Inductive cmod :=
| CLeaf (id : N) (err : bool)
| CFifo (agg : bool) (ms : list cmod)
| CPrio (ms : list (Z * cmod))
| CFilt (c : N) (tm fm : cmod)
| CNoop.

(* parse.Result: nil interface = None *)
Record result := mkRes { rq : option cmod; rs : option cmod }.

(* parse.NewResult, the loop over a non-nil scope.  [req]/[res] = the result
   of the type assertions mod.(RequestModifier) / mod.(ResponseModifier). *)
Fixpoint scope_loop (req res : option cmod) (l : list stok) (acc : result) : option result :=
  match l with
  | [] => Some acc
  | SReq :: l' =>
      match req with
      | None => None
      | Some _ => scope_loop req res l' (mkRes req (rs acc))
      end
  | SRes :: l' =>
      match res with
      | None => None
      | Some _ => scope_loop req res l' (mkRes (rq acc) res)
      end
  | SOther :: _ => None
  end.

Definition new_result (req res : option cmod) (sc : scope) : option result :=
  match sc with
  | None => Some (mkRes req res)
  | Some l => scope_loop req res l (mkRes None None)
  end.

(* fifo.Group.Add*Modifier guarded by "if mod != nil" *)
Definition push (o : option cmod) (l : list cmod) : list cmod :=
  match o with Some m => l ++ [m] | None => l end.

(* fifo.groupFromJSON's loop over the children (already parsed: parsing is
   pure, the first failing child aborts the whole group). *)
Fixpoint fifo_add (rl : list (option result)) (qa sa : list cmod)
  : option (list cmod * list cmod) :=
  match rl with
  | [] => Some (qa, sa)
  | None :: _ => None
  | Some r :: rest => fifo_add rest (push (rq r) qa) (push (rs r) sa)
  end.

(* priority.Group.AddRequestModifier / AddResponseModifier:
     for i, m := range mods { if new.priority >= m.priority { insert at i; return } }
     append *)
Fixpoint go_insert {A : Type} (p : Z) (a : A) (l : list (Z * A)) : list (Z * A) :=
  match l with
  | [] => [(p, a)]
  | (q, x) :: l' =>
      if (p >=? q)%Z then (p, a) :: (q, x) :: l' else (q, x) :: go_insert p a l'
  end.

Definition pinsert (p : Z) (o : option cmod) (l : list (Z * cmod)) : list (Z * cmod) :=
  match o with Some m => go_insert p m l | None => l end.

Fixpoint prio_add (rl : list (Z * option result)) (qa sa : list (Z * cmod))
  : option (list (Z * cmod) * list (Z * cmod)) :=
  match rl with
  | [] => Some (qa, sa)
  | (_, None) :: _ => None
  | (p, Some r) :: rest => prio_add rest (pinsert p (rq r) qa) (pinsert p (rs r) sa)
  end.

(* filter.Filter.RequestWhenTrue etc.: nil -> noop *)
Definition or_noop (o : option cmod) : cmod :=
  match o with Some m => m | None => CNoop end.

Fixpoint compile (t : tree) : option result :=
  match t with
  | Leaf id sc cq cs eq es =>
      new_result (if cq then Some (CLeaf id eq) else None)
                 (if cs then Some (CLeaf id es) else None) sc
  | Fifo sc agg cs =>
      match fifo_add (map compile cs) [] [] with
      | None => None
      | Some (qa, sa) => new_result (Some (CFifo agg qa)) (Some (CFifo agg sa)) sc
      end
  | Prio sc cs =>
      match prio_add (map (fun pc => (fst pc, compile (snd pc))) cs) [] [] with
      | None => None
      | Some (qa, sa) => new_result (Some (CPrio qa)) (Some (CPrio sa)) sc
      end
  | Filt c sc m e =>
      match compile m with
      | None => None
      | Some rm =>
          match e with
          | None =>
              new_result (Some (CFilt c (or_noop (rq rm)) CNoop))
                         (Some (CFilt c (or_noop (rs rm)) CNoop)) sc
          | Some e' =>
              match compile e' with
              | None => None
              | Some re =>
                  new_result (Some (CFilt c (or_noop (rq rm)) (or_noop (rq re))))
                             (Some (CFilt c (or_noop (rs rm)) (or_noop (rs re)))) sc
              end
          end
      end
  | Bad _ => None
  end.

(* fifo.Group.ModifyRequest / priority.Group.ModifyRequest: the loop, with the
   message (trace so far) and the MultiError as accumulators. *)
Fixpoint mod_loop (agg : bool) (rs : list eff) (tr : list N) (merr : list N) : eff :=
  match rs with
  | [] => (tr, merr)
  | (t, e) :: rest =>
      match e with
      | [] => mod_loop agg rest (tr ++ t) merr
      | _ :: _ =>
          if agg then mod_loop agg rest (tr ++ t) (merr ++ e)
          else (tr ++ t, e)
      end
  end.

Fixpoint run (cond : N -> bool) (m : cmod) : eff :=
  match m with
  | CLeaf id err => ([id], if err then [id] else [])
  | CFifo agg ms => mod_loop agg (map (run cond) ms) [] []
  | CPrio ms => mod_loop false (map (fun pm => run cond (snd pm)) ms) [] []
  | CFilt c tm fm => if cond c then run cond tm else run cond fm
  | CNoop => eff0
  end.

Definition run_opt (cond : N -> bool) (o : option cmod) : eff :=
  match o with Some m => run cond m | None => eff0 end.

(* parse.FromJSON, then Result.RequestModifier()/ResponseModifier() (a nil
   modifier is not run), on one message. *)
Definition impl_outcome (k : kind) (cond : N -> bool) (t : tree) : outcome :=
  match compile t with
  | None => Rejected
  | Some r => ran (run_opt cond (sel k (rq r) (rs r)))
  end.

(* ------------------------------------------------------------------ *)
(* Reconfiguration (martianhttp.Modifier)                              *)
(* ------------------------------------------------------------------ *)

Inductive cmd :=
| Post (t : tree)                      (* POST whose body was read completely: it denotes t *)
| Probe (k : kind) (cond : N -> bool)
| Get
| PostErr (t : tree)                   (* POST whose body read failed; the bytes received before
                                          the failure denote t (possibly a complete valid config) *)
| BadMethod                            (* any method other than POST / GET *)
| SetReq (o : option N)                (* public SetRequestModifier: a probe with this id, or nil *)
| SetRes (o : option N).               (* public SetResponseModifier *)

Inductive obs :=
| OStatus (accepted : bool)          (* POST: 200 / 400 *)
| OOut (tr : list N) (er : list N) (org : list nat)
    (* probe traffic through the Modifier: trace, errors, and the positions of
       the commands that CREATED the modifier instances that ran (a stale
       instance left over from an earlier POST shows here) *)
| OSet                               (* SetRequestModifier / SetResponseModifier returned *)
| OCfg (i : option nat)              (* GET: which POST's body is returned *)
| ORefused (code : N).               (* 500 body read error / 405 method not allowed *)

(* martianhttp.Modifier: reqmod, resmod (noop when nil), config; ghost: the
   position of the command that created each installed modifier *)
Record active := mkActive { areq : cmod; ares : cmod; acfg : option nat; oreq : nat; ores : nat }.

Definition init_active : active := mkActive CNoop CNoop None 0 0.

(* servePOST: parse.FromJSON(body); on error 400 and return; else under the
   lock config, reqmod, resmod are all replaced - by the freshly parsed tree,
   whatever was there.  n = index of this command. *)
Definition post (n : nat) (a : active) (t : tree) : active * bool :=
  match compile t with
  | None => (a, false)
  | Some r => (mkActive (or_noop (rq r)) (or_noop (rs r)) (Some n) n n, true)
  end.

Definition serve (a : active) (k : kind) (cond : N -> bool) : eff :=
  run cond (sel k (areq a) (ares a)).

(* the instances that ran were created by command o; nothing ran: nothing to see *)
Definition origin_of (tr : list N) (o : nat) : list nat :=
  match tr with [] => [] | _ :: _ => [o] end.

(* SetRequestModifier(mod): nil -> noop *)
Definition override (o : option N) : cmod :=
  match o with Some id => CLeaf id false | None => CNoop end.

Definition impl_step (n : nat) (a : active) (c : cmd) : active * obs :=
  match c with
  | Post t => let '(a', ok) := post n a t in (a', OStatus ok)
  | Probe k cond =>
      let x := serve a k cond in
      (a, OOut (fst x) (snd x) (origin_of (fst x) (sel k (oreq a) (ores a))))
  | Get => (a, OCfg (acfg a))
  (* servePOST: body, err := ioutil.ReadAll(req.Body); if err != nil { 500; return }
     - whatever was read is dropped *)
  | PostErr _ => (a, ORefused 500)
  (* ServeHTTP default branch: Allow header, 405 *)
  | BadMethod => (a, ORefused 405)
  (* the config text is not touched by the setters *)
  | SetReq o => (mkActive (override o) (ares a) (acfg a) n (ores a), OSet)
  | SetRes o => (mkActive (areq a) (override o) (acfg a) (oreq a) n, OSet)
  end.

Fixpoint impl_script (n : nat) (a : active) (cs : list cmd) : list obs :=
  match cs with
  | [] => []
  | c :: cs' => let '(a', o) := impl_step n a c in o :: impl_script (S n) a' cs'
  end.

(* The property for reconfiguration.  What is in force: the config text of the
   last accepted POST; for each half, the meaning of what was installed last -
   the last accepted tree or a later SetRequestModifier/SetResponseModifier
   override - and which command installed it.  An accepted POST replaces ALL of
   it, whatever the state was (also when the same configuration is POSTed
   again): the new state does not depend on the old one. *)
Record sstate := mkS {
  s_cfg : option nat;
  s_req : (N -> bool) -> eff;
  s_res : (N -> bool) -> eff;
  s_oreq : nat;
  s_ores : nat
}.

Definition s_init : sstate := mkS None (fun _ => eff0) (fun _ => eff0) 0 0.

Definition s_of_tree (n : nat) (t : tree) : sstate :=
  mkS (Some n) (fun cond => eval KReq cond t) (fun cond => eval KRes cond t) n n.

Definition override_meaning (o : option N) : (N -> bool) -> eff :=
  fun _ => match o with Some id => ([id], []) | None => eff0 end.

Definition spec_step (n : nat) (st : sstate) (c : cmd) : sstate * obs :=
  match c with
  | Post t => if has_bad t then (st, OStatus false) else (s_of_tree n t, OStatus true)
  | Probe k cond =>
      let x := sel k (s_req st) (s_res st) cond in
      (st, OOut (fst x) (snd x) (origin_of (fst x) (sel k (s_oreq st) (s_ores st))))
  | Get => (st, OCfg (s_cfg st))
  | PostErr _ => (st, ORefused 500)
  | BadMethod => (st, ORefused 405)
  | SetReq o => (mkS (s_cfg st) (override_meaning o) (s_res st) n (s_ores st), OSet)
  | SetRes o => (mkS (s_cfg st) (s_req st) (override_meaning o) (s_oreq st) n, OSet)
  end.

Fixpoint spec_script (n : nat) (st : sstate) (cs : list cmd) : list obs :=
  match cs with
  | [] => []
  | c :: cs' => let '(st', o) := spec_step n st c in o :: spec_script (S n) st' cs'
  end.

(* ------------------------------------------------------------------ *)
(* Oracles                                                             *)
(* ------------------------------------------------------------------ *)

Fixpoint list_eqb {A : Type} (eqb : A -> A -> bool) (a b : list A) : bool :=
  match a, b with
  | [], [] => true
  | x :: a', y :: b' => eqb x y && list_eqb eqb a' b'
  | _, _ => false
  end.

Definition outcome_eqb (a b : outcome) : bool :=
  match a, b with
  | Rejected, Rejected => true
  | Ran t1 e1, Ran t2 e2 => list_eqb N.eqb t1 t2 && list_eqb N.eqb e1 e2
  | _, _ => false
  end.

Definition optnat_eqb (a b : option nat) : bool :=
  match a, b with
  | None, None => true
  | Some x, Some y => Nat.eqb x y
  | _, _ => false
  end.

Definition obs_eqb (a b : obs) : bool :=
  match a, b with
  | OStatus x, OStatus y => Bool.eqb x y
  | OOut t1 e1 o1, OOut t2 e2 o2 =>
      list_eqb N.eqb t1 t2 && list_eqb N.eqb e1 e2 && list_eqb Nat.eqb o1 o2
  | OSet, OSet => true
  | OCfg x, OCfg y => optnat_eqb x y
  | ORefused x, ORefused y => N.eqb x y
  | _, _ => false
  end.

(* one tree, one message: the observed outcome is the tree's meaning *)
Definition c12_ok (k : kind) (cond : N -> bool) (t : tree) (observed : outcome) : bool :=
  outcome_eqb observed (spec_outcome k cond t).

(* a reconfiguration script: every observation is that of "last accepted tree" *)
Definition c12_script_ok (cs : list cmd) (observed : list obs) : bool :=
  list_eqb obs_eqb observed (spec_script 0 s_init cs).

(* model predictions, for the correspondence comparison *)
Definition impl_agrees (k : kind) (cond : N -> bool) (t : tree) (observed : outcome) : bool :=
  outcome_eqb observed (impl_outcome k cond t).

Definition impl_script_agrees (cs : list cmd) (observed : list obs) : bool :=
  list_eqb obs_eqb observed (impl_script 0 init_active cs).

(* ------------------------------------------------------------------ *)
(* Probe traffic concurrent with reconfiguration                       *)
(* ------------------------------------------------------------------ *)

Definition eff_eqb (a b : eff) : bool :=
  list_eqb N.eqb (fst a) (fst b) && list_eqb N.eqb (snd a) (snd b).

(* [explained ms obs]: the observations can be explained by walking forward
   (never back) through the successive configurations' meanings [ms],
   staying any number of probes on each.  Greedy: stay when possible. *)
Fixpoint explained (ms obs : list eff) {struct obs} : bool :=
  match obs with
  | [] => true
  | o :: obs' =>
      (fix adv (l : list eff) : bool :=
         match l with
         | [] => false
         | m :: l' => if eff_eqb o m then explained l obs' else adv l'
         end) ms
  end.

(* meanings of the configurations successively in force while the trees [ts]
   are POSTed in order: nothing, then each accepted tree *)
Definition accepted_meanings (k : kind) (cond : N -> bool) (ts : list tree) : list eff :=
  eff0 :: map (eval k cond) (filter (fun t => negb (has_bad t)) ts).

(* one thread POSTs [ts] in order, another sends the same probe message over
   and over (at least once after the last POST returned): statuses are those
   of the property, the probe observations walk forward through the accepted
   configurations and end on the last one *)
Definition c12_conc_ok (k : kind) (cond : N -> bool) (ts : list tree)
  (statuses : list bool) (obs : list eff) : bool :=
  list_eqb Bool.eqb statuses (map (fun t => negb (has_bad t)) ts)
  && explained (accepted_meanings k cond ts) obs
  && match obs with
     | [] => false
     | _ :: _ => eff_eqb (last obs eff0) (last (accepted_meanings k cond ts) eff0)
     end.

(* ------------------------------------------------------------------ *)
(* Independent specification of the five filter conditions             *)
(* ------------------------------------------------------------------ *)

(* What a condition may look at.  For a response, [m_headers]/[m_cookies] are
   the response's header lines / Set-Cookie cookies, and method / URL / query
   are those of the request it answers.  Header names are canonical
   (net/http stores them so); query pairs are decoded, in order of appearance. *)
Record msg := mkMsg {
  m_method : string;
  m_scheme : string;
  m_host : string;
  m_path : string;
  m_rawquery : string;
  m_headers : list (string * string);
  m_query : list (string * string);
  m_cookies : list (string * string)
}.

Inductive fcond :=
| FHeader (name value : string)            (* header.Filter: name, value *)
| FUrl (scheme host path query : string)   (* url.Filter: every non-empty component *)
| FQuery (name value : string)             (* querystring.Filter: value "" = any *)
| FMethod (meth : string)                  (* method.Filter *)
| FCookie (name value : string).           (* cookie.Filter: value "" = any *)

Definition is_lower (c : ascii) : bool :=
  let n := nat_of_ascii c in (97 <=? n) && (n <=? 122).
Definition is_upper (c : ascii) : bool :=
  let n := nat_of_ascii c in (65 <=? n) && (n <=? 90).
Definition to_upper (c : ascii) : ascii :=
  if is_lower c then ascii_of_nat (nat_of_ascii c - 32) else c.
Definition to_lower (c : ascii) : ascii :=
  if is_upper c then ascii_of_nat (nat_of_ascii c + 32) else c.

(* canonical MIME header key, for names made of letters, digits and '-' *)
Fixpoint canon (up : bool) (s : string) : string :=
  match s with
  | EmptyString => EmptyString
  | String c r => String (if up then to_upper c else to_lower c) (canon (Ascii.eqb c "-") r)
  end.
Definition canon_header (s : string) : string := canon true s.

Fixpoint lower (s : string) : string :=
  match s with EmptyString => EmptyString | String c r => String (to_lower c) (lower r) end.

(* "a.b.c" -> ["a"; "b"; "c"] *)
Fixpoint labels (s : string) : list string :=
  match s with
  | EmptyString => [EmptyString]
  | String c r =>
      if Ascii.eqb c "." then EmptyString :: labels r
      else match labels r with
           | l :: ls => String c l :: ls
           | [] => [String c EmptyString]
           end
  end.

Fixpoint labels_match (h p : list string) : bool :=
  match h, p with
  | [], [] => true
  | x :: h', y :: p' => (String.eqb y "*" || String.eqb x y) && labels_match h' p'
  | _, _ => false
  end.

(* host pattern: equal, or label by label with "*" standing for one label *)
Definition host_match (host pat : string) : bool :=
  negb (String.eqb host "") && (String.eqb host pat || labels_match (labels host) (labels pat)).

Definition opt_eq (want have : string) : bool := String.eqb want "" || String.eqb want have.

Definition cond_holds (f : fcond) (m : msg) : bool :=
  match f with
  | FHeader n v =>
      existsb (fun nv => String.eqb (fst nv) (canon_header n) && String.eqb (snd nv) v) (m_headers m)
  | FUrl sc h p q =>
      opt_eq sc (m_scheme m) && (String.eqb h "" || host_match (m_host m) h)
      && opt_eq p (m_path m) && opt_eq q (m_rawquery m)
  | FQuery n v =>
      existsb (fun nv => String.eqb (fst nv) n && opt_eq v (snd nv)) (m_query m)
  | FMethod x => String.eqb (lower x) (lower (m_method m))
  | FCookie n v =>
      existsb (fun nv => String.eqb (fst nv) n && opt_eq v (snd nv)) (m_cookies m)
  end.

(* condition valuation of a message, given which filter each key denotes *)
Fixpoint lookup_cond (c : N) (tbl : list (N * fcond)) : option fcond :=
  match tbl with
  | [] => None
  | (k, f) :: r => if N.eqb k c then Some f else lookup_cond c r
  end.

Definition cond_of (tbl : list (N * fcond)) (m : msg) (c : N) : bool :=
  match lookup_cond c tbl with Some f => cond_holds f m | None => false end.

(* the real matchers' verdicts (one per filter key) are those of the spec *)
Definition c12_bits_ok (tbl : list (N * fcond)) (m : msg) (bits : list (N * bool)) : bool :=
  forallb (fun kb =>
    match lookup_cond (fst kb) tbl with
    | Some f => Bool.eqb (snd kb) (cond_holds f m)
    | None => false          (* a verdict for a filter the table does not know is never accepted *)
    end) bits.

(* ------------------------------------------------------------------ *)
(* Atomic replacement seen by concurrent exchanges                     *)
(* ------------------------------------------------------------------ *)

(* generic form of [explained]: [mt o c] = observation o is what state c shows *)
Fixpoint explained_by {O C : Type} (mt : O -> C -> bool) (ms : list C) (obs : list O)
  {struct obs} : bool :=
  match obs with
  | [] => true
  | o :: obs' =>
      (fix adv (l : list C) : bool :=
         match l with
         | [] => false
         | m :: l' => if mt o m then explained_by mt l obs' else adv l'
         end) ms
  end.

(* the configuration in force: none, or (ordinal of the POST, its tree) *)
Definition cfgstate := option (nat * tree).

Definition meaning (k : kind) (cond : N -> bool) (cur : cfgstate) : eff :=
  match cur with Some (_, t) => eval k cond t | None => eff0 end.

(* one observation by a thread: the request half acted, the response half
   acted, or GET reported a configuration *)
Inductive pobs :=
| PReq (tr er : list N)
| PRes (tr er : list N)
| PCfg (i : option nat).

Definition pmatch (cq cs : N -> bool) (o : pobs) (st : cfgstate) : bool :=
  match o with
  | PReq tr er => eff_eqb (tr, er) (meaning KReq cq st)
  | PRes tr er => eff_eqb (tr, er) (meaning KRes cs st)
  | PCfg i => optnat_eqb i (match st with Some (j, _) => Some j | None => None end)
  end.

Fixpoint states_from (n : nat) (ts : list tree) : list cfgstate :=
  match ts with
  | [] => []
  | t :: r => if has_bad t then states_from (S n) r else Some (n, t) :: states_from (S n) r
  end.

Definition cfg_states (ts : list tree) : list cfgstate := None :: states_from 0 ts.

(* One thread POSTs [ts]; every other thread records, in its own program
   order, what it saw (request half, response half of the same exchange, GET).
   Atomic replacement permits exactly: each thread's observations walk forward
   through the accepted configurations - so within one exchange the response
   half is never older than the request half, and a GET is never ahead of or
   behind a modifier observed around it - and end on the last one. *)
Definition c12_stress_ok (cq cs : N -> bool) (ts : list tree)
  (statuses : list bool) (threads : list (list pobs)) : bool :=
  list_eqb Bool.eqb statuses (map (fun t => negb (has_bad t)) ts)
  && forallb (fun obs =>
       explained_by (pmatch cq cs) (cfg_states ts) obs
       && match obs with
          | [] => true
          | o :: _ => pmatch cq cs (last obs o) (last (cfg_states ts) None)
          end) threads.

(* interleaved steps of the model: a POST, or an observation of one component *)
Inductive comp := WReq | WRes | WCfg.
Inductive cstep := SPost (t : tree) | SObs (w : comp).

Definition impl_observe (cq cs : N -> bool) (a : active) (w : comp) : pobs :=
  match w with
  | WReq => let x := serve a KReq cq in PReq (fst x) (snd x)
  | WRes => let x := serve a KRes cs in PRes (fst x) (snd x)
  | WCfg => PCfg (acfg a)
  end.

Fixpoint impl_steps (cq cs : N -> bool) (n : nat) (a : active) (ss : list cstep) : list pobs :=
  match ss with
  | [] => []
  | SPost t :: r => impl_steps cq cs (S n) (fst (post n a t)) r
  | SObs w :: r => impl_observe cq cs a w :: impl_steps cq cs n a r
  end.

Fixpoint sposts (ss : list cstep) : list tree :=
  match ss with
  | [] => []
  | SPost t :: r => t :: sposts r
  | SObs _ :: r => sposts r
  end.

(* the same with several observing threads: a global interleaving of POSTs and
   observations tagged with the observing thread *)
Inductive tstep := TPost (t : tree) | TObs (th : nat) (w : comp).

Fixpoint impl_tsteps (cq cs : N -> bool) (n : nat) (a : active) (ss : list tstep)
  : list (nat * pobs) :=
  match ss with
  | [] => []
  | TPost t :: r => impl_tsteps cq cs (S n) (fst (post n a t)) r
  | TObs th w :: r => (th, impl_observe cq cs a w) :: impl_tsteps cq cs n a r
  end.

Fixpoint impl_tstatuses (n : nat) (a : active) (ss : list tstep) : list bool :=
  match ss with
  | [] => []
  | TPost t :: r => snd (post n a t) :: impl_tstatuses (S n) (fst (post n a t)) r
  | TObs _ _ :: r => impl_tstatuses n a r
  end.

Fixpoint tposts (ss : list tstep) : list tree :=
  match ss with
  | [] => []
  | TPost t :: r => t :: tposts r
  | TObs _ _ :: r => tposts r
  end.

Definition thread_view (th : nat) (l : list (nat * pobs)) : list pobs :=
  map snd (filter (fun x => Nat.eqb (fst x) th) l).

(* ------------------------------------------------------------------ *)
(* Lock shape of servePOST (instantiated from the source by gen_c12)   *)
(* ------------------------------------------------------------------ *)

Inductive sp_event := SpLock | SpUnlock | SpSetCfg | SpSetReq | SpSetRes.

(* which of (config text, request modifier, response modifier) already hold
   the new value *)
Definition sp_state := (bool * bool * bool)%type.

Definition sp_write (e : sp_event) (st : sp_state) : sp_state :=
  let '(c, q, s) := st in
  match e with
  | SpSetCfg => (true, q, s)
  | SpSetReq => (c, true, s)
  | SpSetRes => (c, q, true)
  | _ => st
  end.

(* the states another goroutine can observe while the events run: a write
   outside the lock is visible at once, writes under the lock at the unlock *)
Fixpoint sp_visible (evs : list sp_event) (locked : bool) (st : sp_state) : list sp_state :=
  match evs with
  | [] => []
  | SpLock :: r => sp_visible r true st
  | SpUnlock :: r => st :: sp_visible r false st
  | e :: r =>
      let st' := sp_write e st in
      if locked then sp_visible r locked st' else st' :: sp_visible r locked st'
  end.

Definition sp_all (b : bool) (st : sp_state) : bool :=
  let '(c, q, s) := st in Bool.eqb c b && Bool.eqb q b && Bool.eqb s b.

(* nothing but "all old" or "all new" is ever visible, and at the end all new *)
Definition sp_atomic (evs : list sp_event) : bool :=
  let vs := sp_visible evs false (false, false, false) in
  forallb (fun st => sp_all false st || sp_all true st) vs
  && match rev vs with st :: _ => sp_all true st | [] => false end.

Fixpoint first_diff (n : nat) (a b : list obs) : option nat :=
  match a, b with
  | [], [] => None
  | x :: a', y :: b' => if obs_eqb x y then first_diff (S n) a' b' else Some n
  | _, _ => Some n
  end.
