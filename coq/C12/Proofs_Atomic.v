(* C12 — atomic replacement as seen by concurrent observers; filter-condition
   oracle equivalence. *)
From Coq Require Import List NArith ZArith Bool Arith Lia.
From Martian.C12 Require Import Model Proofs.
Import ListNotations.

Section ExplainedBy.
  Variables O C : Type.
  Variable mt : O -> C -> bool.

  Inductive explains_by : list C -> list O -> Prop :=
  | eb_nil : forall ms, explains_by ms []
  | eb_stay : forall o m ms obs, mt o m = true -> explains_by (m :: ms) obs -> explains_by (m :: ms) (o :: obs)
  | eb_adv : forall m ms obs, explains_by ms obs -> explains_by (m :: ms) obs.

  Lemma explains_by_app : forall l1 l obs, explains_by l obs -> explains_by (l1 ++ l) obs.
  Proof. induction l1 as [|x l1 IH]; intros; [assumption|]. cbn. now apply eb_adv, IH. Qed.

  Lemma explains_by_inv : forall ms o obs, explains_by ms (o :: obs) ->
    exists l1 m l2, ms = l1 ++ m :: l2 /\ mt o m = true /\ explains_by (m :: l2) obs.
  Proof.
    intros ms o obs H. remember (o :: obs) as oo eqn:E. revert o obs E.
    induction H as [ms|o' m ms obs' Hm H IH|m ms obs' H IH]; intros o obs E; [discriminate| |].
    - inversion E; subst. exists [], m, ms. auto.
    - destruct (IH o obs E) as (l1 & m' & l2 & -> & Hm & H2). exists (m :: l1), m', l2. auto.
  Qed.

  Lemma explained_by_unfold : forall o obs m l,
    explained_by mt (m :: l) (o :: obs) =
    if mt o m then explained_by mt (m :: l) obs else explained_by mt l (o :: obs).
  Proof. intros. cbn. destruct (mt o m); reflexivity. Qed.

  Lemma explained_by_sound : forall obs ms, explained_by mt ms obs = true -> explains_by ms obs.
  Proof.
    induction obs as [|o obs IH]; intros ms H; [constructor|].
    induction ms as [|m l IHl]; [discriminate|].
    rewrite explained_by_unfold in H. destruct (mt o m) eqn:E.
    - apply eb_stay; [exact E|]. now apply IH.
    - apply eb_adv. now apply IHl.
  Qed.

  Lemma explained_by_complete : forall obs ms, explains_by ms obs -> explained_by mt ms obs = true.
  Proof.
    induction obs as [|o obs IH]; intros ms H; [reflexivity|].
    destruct (explains_by_inv ms o obs H) as (l1 & m & l2 & -> & Hm & H2). clear H.
    induction l1 as [|x l1 IHl]; cbn [app].
    - rewrite explained_by_unfold, Hm. now apply IH.
    - rewrite explained_by_unfold. destruct (mt o x) eqn:E.
      + apply IH. change (x :: l1 ++ m :: l2) with ((x :: l1) ++ m :: l2). now apply explains_by_app.
      + exact IHl.
  Qed.

  Theorem explained_by_iff : forall ms obs, explained_by mt ms obs = true <-> explains_by ms obs.
  Proof. split; [apply explained_by_sound|apply explained_by_complete]. Qed.
End ExplainedBy.

Arguments explains_by {O C} mt ms obs.

Lemma optnat_eqb_refl : forall x, optnat_eqb x x = true.
Proof. intros [x|]; cbn; [apply Nat.eqb_refl|reflexivity]. Qed.

Lemma eff_eqb_refl : forall x, eff_eqb x x = true.
Proof. intros. now apply eff_eqb_eq. Qed.

Lemma rel_meaning : forall a cur k cond, rel a cur -> serve a k cond = meaning k cond cur.
Proof. intros a cur k cond [_ H]. rewrite H. reflexivity. Qed.

Lemma observe_matches : forall cq cs a cur w, rel a cur ->
  pmatch cq cs (impl_observe cq cs a w) cur = true.
Proof.
  intros cq cs a cur w Hr. destruct w; cbn [impl_observe pmatch].
  - rewrite <- surjective_pairing, (rel_meaning a cur KReq cq Hr). apply eff_eqb_refl.
  - rewrite <- surjective_pairing, (rel_meaning a cur KRes cs Hr). apply eff_eqb_refl.
  - destruct Hr as [-> _]. apply optnat_eqb_refl.
Qed.

Lemma steps_explained : forall cq cs ss n a cur, rel a cur ->
  explains_by (pmatch cq cs) (cur :: states_from n (sposts ss)) (impl_steps cq cs n a ss).
Proof.
  intros cq cs ss. induction ss as [|[t|w] ss IH]; intros n a cur Hr; cbn [impl_steps sposts states_from].
  - constructor.
  - destruct (has_bad t) eqn:Hb.
    + rewrite (reject_keeps_active n a t Hb). cbn [fst]. now apply IH.
    + destruct (accept_replaces n a t Hb) as (_ & H2 & H3).
      apply eb_adv. apply IH. split; [exact H2|exact H3].
  - apply eb_stay; [now apply observe_matches|]. now apply IH.
Qed.

(* For EVERY interleaving of POSTs with one thread's observations of the
   request half, the response half and GET (each method atomic): the
   observations walk forward through the accepted configurations. *)
Theorem atomic_replacement : forall cq cs ss,
  explains_by (pmatch cq cs) (cfg_states (sposts ss)) (impl_steps cq cs 0 init_active ss).
Proof. intros. apply steps_explained, rel_init. Qed.

(* consequence spelled out for one exchange: if the request half showed
   configuration i and the response half of the same exchange (observed later)
   configuration j, both taken from the walk, then the walk went forward:
   stated on the declarative relation *)
Lemma explains_by_two : forall (O C : Type) (mt : O -> C -> bool) ms o1 o2,
  explains_by mt ms [o1; o2] ->
  exists l1 m1 l2 m2 l3, (ms = l1 ++ m1 :: l2 ++ m2 :: l3 \/ (ms = l1 ++ m1 :: l3 /\ m2 = m1 /\ l2 = []))
    /\ mt o1 m1 = true /\ mt o2 m2 = true.
Proof.
  intros O C mt ms o1 o2 H.
  destruct (explains_by_inv O C mt ms o1 [o2] H) as (l1 & m1 & r & -> & Hm1 & H1).
  destruct (explains_by_inv O C mt (m1 :: r) o2 [] H1) as (l2 & m2 & l3 & E & Hm2 & _).
  destruct l2 as [|x l2]; cbn [app] in E; inversion E; subst.
  - exists l1, m2, [], m2, l3. split; [right; auto|auto].
  - exists l1, x, l2, m2, l3. split; [left; reflexivity|auto].
Qed.

(* filter-condition oracle *)
Theorem bits_ok_iff : forall tbl m bits,
  c12_bits_ok tbl m bits = true <->
  forall k b, In (k, b) bits -> exists f, lookup_cond k tbl = Some f /\ b = cond_holds f m.
Proof.
  intros. unfold c12_bits_ok. rewrite forallb_forall. split.
  - intros H k b Hin. specialize (H (k, b) Hin). cbn [fst snd] in H.
    destruct (lookup_cond k tbl) as [f|]; [|discriminate]. exists f. split; [reflexivity|].
    now apply eqb_prop in H.
  - intros H [k b] Hin. cbn [fst snd]. destruct (H k b Hin) as (f & -> & ->). apply eqb_reflx.
Qed.

Theorem stress_ok_iff : forall cq cs ts statuses threads,
  c12_stress_ok cq cs ts statuses threads = true <->
  statuses = map (fun t => negb (has_bad t)) ts /\
  forall obs, In obs threads ->
    explains_by (pmatch cq cs) (cfg_states ts) obs /\
    match obs with [] => True | o :: _ => pmatch cq cs (last obs o) (last (cfg_states ts) None) = true end.
Proof.
  intros. unfold c12_stress_ok. rewrite andb_true_iff, forallb_forall.
  rewrite (list_eqb_eq bool Bool.eqb eqb_true_iff).
  split; intros [H1 H2]; (split; [exact H1|]); intros obs Hin; specialize (H2 obs Hin).
  - apply andb_true_iff in H2 as [Ha Hb]. split; [now apply explained_by_iff|].
    destruct obs; [trivial|exact Hb].
  - destruct H2 as [Ha Hb]. apply andb_true_iff. split; [now apply explained_by_iff|].
    destruct obs; [reflexivity|exact Hb].
Qed.
