(* C12 — property theorems.  Nothing but statements closed by [exact] and
   Print Assumptions, so a weakened statement is visible in review.

   [eval] / [has_bad] / [spec_script] (Model.v) are the property text written
   as functions: depth-first, FIFO in listed order, priority descending with
   later-listed first among equals, filter branches, scopes, error policy,
   whole-config rejection, last-accepted configuration.  [compile] / [run] /
   [post] transcribe the Go code. *)
From Coq Require Import List NArith ZArith Bool Arith Permutation Sorted.
From Martian.C12 Require Import Model Proofs Proofs_Atomic Gen_ServePost Proofs_Lock Proofs_Audit.
Import ListNotations.

(* For EVERY tree, kind of message and condition valuation: parsing with the
   transcribed parse/fifo/priority/filter code and running the resulting
   modifier gives exactly the tree's meaning, or a rejection exactly when the
   property demands one. *)
Theorem C12_compile_correct : forall t k cond,
  impl_outcome k cond t = spec_outcome k cond t.
Proof. exact compile_correct. Qed.
Print Assumptions C12_compile_correct.

(* The same, spelled out for accepted configurations. *)
Theorem C12_accepted_config_means_its_tree : forall t r,
  compile t = Some r ->
  has_bad t = false /\
  forall k cond, run_opt cond (sel k (rq r) (rs r)) = eval k cond t.
Proof. exact compile_runs_eval. Qed.
Print Assumptions C12_accepted_config_means_its_tree.

(* Unknown modifier / unsupported scope / malformed JSON anywhere in the tree:
   the configuration is rejected as a whole, and nothing else is. *)
Theorem C12_rejects_whole : forall t, compile t = None <-> has_bad t = true.
Proof. exact rejects_whole. Qed.
Print Assumptions C12_rejects_whole.

(* Key lemma: priority.Group's insertion loop ("before the first element whose
   priority is <= the new one"), run over the children in listed order, is the
   stable descending sort of the reversed child list. *)
Theorem C12_priority_insertion_loop_is_stable_sort : forall (A : Type) (l : list (Z * A)),
  fold_left (fun acc x => go_insert (fst x) (snd x) acc) l [] = stable_sort_desc (rev l).
Proof. exact go_order_is_prio_order. Qed.
Print Assumptions C12_priority_insertion_loop_is_stable_sort.

(* ... and that order is THE arrangement "descending priority, later-listed
   first among equals": number the children by listing position; the loop's
   output is a permutation of them, strictly sorted by (priority descending,
   position descending), and any list with these two properties is equal to it. *)
Theorem C12_priority_order_characterised : forall (A : Type) (l : list (Z * A)),
  let out := go_order (number 0 l) in
  Permutation out (number 0 l) /\
  StronglySorted before out /\
  map (fun x => (fst x, snd (snd x))) out = prio_order l /\
  forall out', Permutation out' (number 0 l) -> StronglySorted before out' -> out' = out.
Proof.
  intros A l out. split; [exact (go_order_perm _ _)|].
  split; [exact (go_order_numbered_sorted A l)|].
  split; [exact (eq_trans (go_order_numbered_erase A l) (go_order_is_prio_order A l))|].
  intros out' HP HS.
  exact (sorted_perm_unique A out' out HS (go_order_numbered_sorted A l)
           (Permutation_trans HP (Permutation_sym (go_order_perm _ _)))).
Qed.
Print Assumptions C12_priority_order_characterised.

(* Every error is reported exactly once, in the order the probes ran: the
   error list is the trace restricted to the erroring probes — whatever mix of
   aggregating / non-aggregating / priority groups and filters. *)
Theorem C12_every_error_reported_once : forall k f cond t,
  consistent k f t -> snd (eval k cond t) = filter f (fst (eval k cond t)).
Proof. exact errors_once. Qed.
Print Assumptions C12_every_error_reported_once.

(* A rejected reconfiguration leaves the active configuration untouched. *)
Theorem C12_reject_keeps_active : forall n a t,
  has_bad t = true -> post n a t = (a, false).
Proof. exact reject_keeps_active. Qed.
Print Assumptions C12_reject_keeps_active.

(* Every way of not answering 200: body read error after any prefix (even one
   that is a complete valid configuration), rejected configuration, method
   other than POST - and GET / probe traffic - leaves config text, request
   half and response half exactly as they were. *)
Theorem C12_only_a_200_changes_the_active_configuration : forall n a c,
  is_setter c = false ->      (* anything but the public SetRequestModifier / SetResponseModifier *)
  snd (impl_step n a c) <> OStatus true -> fst (impl_step n a c) = a.
Proof. exact only_200_changes_active. Qed.
Print Assumptions C12_only_a_200_changes_the_active_configuration.

(* "Replaces completely" includes: whatever was there.  The state after an
   accepted POST does not depend on the state before it - not on overrides
   installed through SetRequestModifier / SetResponseModifier, not on the same
   configuration being active already (POST A; ...; POST A = POST A): a fresh
   tree is installed by THIS command on both halves. *)
Theorem C12_accepted_post_ignores_previous_state : forall n a a' t,
  has_bad t = false ->
  fst (post n a t) = fst (post n a' t) /\ snd (post n a t) = true /\
  oreq (fst (post n a t)) = n /\ ores (fst (post n a t)) = n.
Proof. exact accepted_post_ignores_previous_state. Qed.
Print Assumptions C12_accepted_post_ignores_previous_state.

(* An accepted one replaces it completely: afterwards the Modifier's behaviour
   on every message is the new tree's meaning, independent of what was active. *)
Theorem C12_accept_replaces : forall n a t,
  has_bad t = false ->
  snd (post n a t) = true /\
  acfg (fst (post n a t)) = Some n /\
  forall k cond, serve (fst (post n a t)) k cond = eval k cond t.
Proof. exact accept_replaces. Qed.
Print Assumptions C12_accept_replaces.

(* Over any history of POSTs, probe traffic and GETs, the Modifier behaves as
   "the last accepted tree is in force". *)
Theorem C12_reconfiguration : forall cs,
  impl_script 0 init_active cs = spec_script 0 s_init cs.
Proof. exact reconfiguration. Qed.
Print Assumptions C12_reconfiguration.

(* The executable oracles evaluated on the real implementation's outputs are
   the statements above. *)
Theorem C12_oracle_is_the_property : forall k cond t o,
  c12_ok k cond t o = true <-> o = spec_outcome k cond t.
Proof. exact c12_ok_iff. Qed.
Print Assumptions C12_oracle_is_the_property.

Theorem C12_script_oracle_is_the_property : forall cs observed,
  c12_script_ok cs observed = true <-> observed = spec_script 0 s_init cs.
Proof. exact c12_script_ok_iff. Qed.
Print Assumptions C12_script_oracle_is_the_property.

(* the model prediction compared by the driver coincides with the oracle *)
Theorem C12_model_prediction_is_oracle : forall k cond t o,
  impl_agrees k cond t o = true <-> c12_ok k cond t o = true.
Proof. exact impl_agrees_iff. Qed.
Print Assumptions C12_model_prediction_is_oracle.

Theorem C12_script_model_prediction_is_oracle : forall cs observed,
  impl_script_agrees cs observed = true <-> c12_script_ok cs observed = true.
Proof. exact impl_script_agrees_iff. Qed.
Print Assumptions C12_script_model_prediction_is_oracle.

(* Probe traffic concurrent with reconfiguration, every Modifier method being
   atomic: for EVERY interleaving of a thread that POSTs and a thread that
   repeats one probe message, the probe observations walk forward through
   (nothing, accepted tree 1, accepted tree 2, ...): never a rejected or a
   half-installed configuration, never back to an earlier one. *)
Theorem C12_concurrent_probes_see_accepted_configs_in_order : forall k cond cs,
  Forall (same_probe k cond) cs ->
  explains (accepted_meanings k cond (posts cs))
           (probe_obs (impl_script 0 init_active cs)).
Proof. exact concurrent_probes. Qed.
Print Assumptions C12_concurrent_probes_see_accepted_configs_in_order.

(* the executable check used on concurrent runs is that statement *)
Theorem C12_concurrent_oracle_is_the_property : forall ms obs,
  explained ms obs = true <-> explains ms obs.
Proof. exact explained_iff. Qed.
Print Assumptions C12_concurrent_oracle_is_the_property.

Example C12_example_concurrent :
  let ts := [Leaf 1 None true true false false; Bad 0; Leaf 2 None true true true false]%N in
  c12_conc_ok KReq (fun _ => false) ts [true; false; true]
     [([], []); ([1], []); ([1], []); ([2], [2])]%N = true
  /\ c12_conc_ok KReq (fun _ => false) ts [true; false; true]
     [([1], []); ([], []); ([2], [2])]%N = false
  /\ c12_conc_ok KReq (fun _ => false) ts [true; false; true]
     [([], []); ([1], [])]%N = false.
Proof. vm_compute. repeat split. Qed.

(* Atomic replacement, as seen by any thread concurrent with the POSTs: for
   EVERY interleaving of POSTs with one thread's observations (request half
   acted / response half acted / GET), each method atomic, the observations
   walk forward through (nothing, accepted tree 1, accepted tree 2, ...).  In
   particular within one exchange the response half is never that of an older
   configuration than the request half, and a GET never reports a
   configuration other than one in force between the observations around it.
   Other observing threads do not change the state, so this holds for each. *)
Theorem C12_atomic_replacement_seen_by_concurrent_exchanges : forall cq cs ss,
  explains_by (pmatch cq cs) (cfg_states (sposts ss)) (impl_steps cq cs 0 init_active ss).
Proof. exact atomic_replacement. Qed.
Print Assumptions C12_atomic_replacement_seen_by_concurrent_exchanges.

(* "each POST is one atomic step" is the lock shape of servePOST in the source
   (Gen_ServePost.v, regenerated on every run): config text, request modifier
   and response modifier change inside one critical section; no mixed state is
   ever visible. *)
Theorem C12_servePOST_replaces_all_three_in_one_critical_section :
  sp_atomic servePOST_events = true /\
  forall st, In st (sp_visible servePOST_events false (false, false, false)) ->
    st = (false, false, false) \/ st = (true, true, true).
Proof. exact (conj servePOST_is_atomic servePOST_visible_states). Qed.
Print Assumptions C12_servePOST_replaces_all_three_in_one_critical_section.

Theorem C12_stress_oracle_is_the_property : forall cq cs ts statuses threads,
  c12_stress_ok cq cs ts statuses threads = true <->
  statuses = map (fun t => negb (has_bad t)) ts /\
  forall obs, In obs threads ->
    explains_by (pmatch cq cs) (cfg_states ts) obs /\
    match obs with [] => True | o :: _ => pmatch cq cs (last obs o) (last (cfg_states ts) None) = true end.
Proof. exact stress_ok_iff. Qed.
Print Assumptions C12_stress_oracle_is_the_property.

(* The conditions of the five filters have their own specification
   ([cond_holds]); the real matchers' verdicts are compared with it. *)
Theorem C12_condition_oracle_is_the_property : forall tbl m bits,
  c12_bits_ok tbl m bits = true <->
  forall k b, In (k, b) bits -> exists f, lookup_cond k tbl = Some f /\ b = cond_holds f m.
Proof. exact bits_ok_iff. Qed.
Print Assumptions C12_condition_oracle_is_the_property.

(* three separately locked steps are NOT atomic for the shape check *)
Example C12_example_split_lock_not_atomic :
  sp_atomic [SpLock; SpSetCfg; SpUnlock; SpLock; SpSetReq; SpUnlock; SpLock; SpSetRes; SpUnlock] = false
  /\ sp_atomic [SpSetCfg; SpLock; SpSetReq; SpSetRes; SpUnlock] = false
  /\ sp_atomic [SpLock; SpSetRes; SpSetCfg; SpSetReq; SpUnlock] = true.
Proof. vm_compute. repeat split. Qed.

(* an exchange that saw request half 2 then response half 1 is not explained *)
Example C12_example_stress :
  let ts := [Leaf 1 None true true false false; Bad 0; Leaf 2 None true true false false]%N in
  c12_stress_ok (fun _ => false) (fun _ => false) ts [true; false; true]
    [[PReq [] []; PRes [1] []; PCfg (Some 0%nat); PReq [1] []; PRes [2] []; PCfg (Some 2%nat)]%N] = true
  /\ c12_stress_ok (fun _ => false) (fun _ => false) ts [true; false; true]
    [[PReq [2] []; PRes [1] []; PReq [2] []; PRes [2] []]%N] = false
  /\ c12_stress_ok (fun _ => false) (fun _ => false) ts [true; false; true]
    [[PCfg (Some 2%nat); PReq [1] []; PRes [2] []]%N] = false.
Proof. vm_compute. repeat split. Qed.

From Coq Require Import String.
Open Scope string_scope.
Example C12_example_conditions :
  let m := mkMsg "get" "http" "www.example.com" "/a" "tag=red&tag=blue"
             [("X-Cond-1", "no"); ("X-Cond-1", "yes")] [("tag", "red"); ("tag", "blue")]
             [("c1", "w"); ("c1", "v")] in
  cond_holds (FQuery "tag" "blue") m = true /\ cond_holds (FQuery "tag" "green") m = false
  /\ cond_holds (FQuery "tag" "") m = true /\ cond_holds (FHeader "x-cond-1" "yes") m = true
  /\ cond_holds (FCookie "c1" "v") m = true /\ cond_holds (FCookie "c2" "") m = false
  /\ cond_holds (FMethod "GET") m = true /\ cond_holds (FUrl "" "*.example.com" "/a" "") m = true
  /\ cond_holds (FUrl "" "example.com" "" "") m = false /\ cond_holds (FUrl "https" "" "" "") m = false.
Proof. vm_compute. repeat split. Qed.
Close Scope string_scope.
Open Scope list_scope.

(* ------------------------------------------------------------------ *)
(* Theorem audit: the clauses of the statement, one by one, on [eval]   *)
(* ------------------------------------------------------------------ *)

(* "each node acts only on the message kinds named in its scope": a node that
   does not act on kind k leaves the message alone - no trace, no error -
   whatever is below it. *)
Theorem C12_out_of_scope_node_is_inert : forall k cond t,
  node_acts k t = false -> eval k cond t = eff0.
Proof. exact out_of_scope_inert. Qed.
Print Assumptions C12_out_of_scope_node_is_inert.

(* ... and the effective scope is the intersection along the path: a probe
   can only appear in the trace if it and every ancestor act on kind k. *)
Theorem C12_trace_within_effective_scope : forall k cond t x,
  In x (fst (eval k cond t)) -> In x (live k t).
Proof. exact trace_within_scope. Qed.
Print Assumptions C12_trace_within_effective_scope.

Theorem C12_leaf_semantics : forall k cond id sc cq cs eq es,
  node_acts k (Leaf id sc cq cs eq es) = true ->
  eval k cond (Leaf id sc cq cs eq es) = ([id], if sel k eq es then [id] else []).
Proof. exact eval_leaf. Qed.
Print Assumptions C12_leaf_semantics.

(* "a FIFO group applies its children in listed order ... the first error
   stops a group unless it aggregates errors, in which case all children run
   and every error is reported once" *)
Theorem C12_fifo_group_semantics : forall k cond sc agg cs,
  node_acts k (Fifo sc agg cs) = true ->
  let rs := map (eval k cond) cs in
  (Forall clean rs -> eval k cond (Fifo sc agg cs) = (List.concat (map fst rs), [])) /\
  (agg = true -> eval k cond (Fifo sc agg cs) = (List.concat (map fst rs), List.concat (map snd rs))) /\
  (agg = false -> forall pre r post, rs = pre ++ r :: post -> Forall clean pre -> snd r <> [] ->
     eval k cond (Fifo sc agg cs) = (List.concat (map fst pre) ++ fst r, snd r)).
Proof. exact fifo_group_clause. Qed.
Print Assumptions C12_fifo_group_semantics.

(* "a priority group in descending priority with the later-listed first among
   equals" ([prio_order], characterised by C12_priority_order_characterised),
   first error stops *)
Theorem C12_priority_group_semantics : forall k cond sc cs,
  node_acts k (Prio sc cs) = true ->
  eval k cond (Prio sc cs) =
  seq_eff false (map snd (prio_order (map (fun pc => (fst pc, eval k cond (snd pc))) cs))).
Proof. exact eval_prio. Qed.
Print Assumptions C12_priority_group_semantics.

Theorem C12_first_error_stops_a_sequence : forall pre r post,
  Forall clean pre -> snd r <> [] ->
  seq_eff false (pre ++ r :: post) = (List.concat (map fst pre) ++ fst r, snd r).
Proof. exact seq_eff_stops. Qed.
Print Assumptions C12_first_error_stops_a_sequence.

(* "a filter applies its modifier when its condition holds for the message and
   its else-branch otherwise" *)
Theorem C12_filter_semantics : forall k cond c sc m e,
  node_acts k (Filt c sc m e) = true ->
  eval k cond (Filt c sc m e) =
  if cond c then eval k cond m else match e with Some e' => eval k cond e' | None => eff0 end.
Proof. exact eval_filter. Qed.
Print Assumptions C12_filter_semantics.

(* oracle verdicts of the DIRECT cases *)
Theorem C12_oracle_on_a_rejection : forall k cond t,
  c12_ok k cond t Rejected = true <-> has_bad t = true.
Proof. exact ok_rejected_iff. Qed.
Print Assumptions C12_oracle_on_a_rejection.

Theorem C12_oracle_on_a_run : forall k cond t tr er,
  c12_ok k cond t (Ran tr er) = true <-> has_bad t = false /\ eval k cond t = (tr, er).
Proof. exact ok_ran_iff. Qed.
Print Assumptions C12_oracle_on_a_run.

(* the position the driver names in a failing script is the first command whose
   observation differs *)
Theorem C12_first_diff_is_first_difference : forall a b,
  (first_diff 0 a b = None <-> a = b) /\
  forall k, first_diff 0 a b = Some k ->
    firstn k a = firstn k b /\ nth_error a k <> nth_error b k.
Proof.
  intros a b. split; [exact (first_diff_none_iff a b 0)|].
  intros k H. destruct (first_diff_some a b 0 k H) as (_ & H1 & H2).
  rewrite Nat.sub_0_r in *. auto.
Qed.
Print Assumptions C12_first_diff_is_first_difference.

Theorem C12_concurrent_case_oracle_is_the_property : forall k cond ts statuses obs,
  c12_conc_ok k cond ts statuses obs = true <->
  statuses = map (fun t => negb (has_bad t)) ts /\
  explains (accepted_meanings k cond ts) obs /\
  obs <> [] /\ last obs eff0 = last (accepted_meanings k cond ts) eff0.
Proof. exact conc_ok_iff. Qed.
Print Assumptions C12_concurrent_case_oracle_is_the_property.

(* the search used for concurrent runs is exactly the existential walk *)
Theorem C12_walk_search_is_the_existential : forall (O C : Type) (mt : O -> C -> bool) ms obs,
  explained_by mt ms obs = true <-> explains_by mt ms obs.
Proof. exact explained_by_iff. Qed.
Print Assumptions C12_walk_search_is_the_existential.

(* any number of observing threads, any interleaving *)
Theorem C12_atomic_replacement_for_every_thread : forall cq cs ss th,
  explains_by (pmatch cq cs) (cfg_states (tposts ss))
              (thread_view th (impl_tsteps cq cs 0 init_active ss)).
Proof. exact atomic_replacement_threads. Qed.
Print Assumptions C12_atomic_replacement_for_every_thread.

(* Every execution of the model under the atomicity assumption (each POST /
   ModifyRequest / ModifyResponse / GET is one step of [impl_tsteps]; for POST
   that is C12_servePOST_replaces_all_three_in_one_critical_section) in which
   every listed thread observes once more after the last POST is accepted by
   the stress oracle: PROPFAIL atomic_replacement is never a scheduling
   artefact. *)
Theorem C12_every_atomic_execution_is_accepted_by_the_stress_oracle : forall cq cs ss1 tail ths,
  Forall no_post tail ->
  (forall th, In th ths -> exists w, In (TObs th w) tail) ->
  let ss := ss1 ++ tail in
  c12_stress_ok cq cs (tposts ss) (impl_tstatuses 0 init_active ss)
    (map (fun th => thread_view th (impl_tsteps cq cs 0 init_active ss)) ths) = true.
Proof. exact stress_impl_accepted. Qed.
Print Assumptions C12_every_atomic_execution_is_accepted_by_the_stress_oracle.

(* totalisation: defaults that no theorem leans on *)
Theorem C12_totalisation_guards :
  (forall k cond ts, accepted_meanings k cond ts <> []) /\
  (forall ts, cfg_states ts <> []) /\
  (forall s, labels s <> []) /\
  (forall k cond t, has_bad t = true -> spec_outcome k cond t = Rejected) /\
  (forall tbl m k b bits, lookup_cond k tbl = None -> In (k, b) bits -> c12_bits_ok tbl m bits = false).
Proof.
  exact (conj accepted_meanings_nonempty (conj cfg_states_nonempty (conj labels_nonempty
          (conj bad_tree_never_runs bits_unknown_key_rejected)))).
Qed.
Print Assumptions C12_totalisation_guards.

(* Non-vacuity. *)

Definition ex_tree : tree :=
  Fifo None true
    [ Leaf 1 None true true false false;
      Prio (Some [SReq; SRes])
        [ (0, Leaf 2 None true true true false);
          (5, Leaf 3 (Some [SReq]) true false false false);
          (0, Filt 7 None (Leaf 4 None true true false false)
                          (Some (Fifo (Some [SRes]) false [Leaf 5 None true true false true])));
          (5, Leaf 6 None true true false false) ]%Z;
      Leaf 8 (Some [SRes]) true true false true;
      Fifo (Some []) false [Leaf 9 None true true true true] ]%N.

(* request, condition 7 true: priority 5 children later-listed first (6 then
   3), then priority 0 later-listed first (filter -> 4, then 2 which errors and
   stops the priority group); the aggregating parent carries on with the rest;
   8 is response-only, 9 is inside a group scoped to nothing. *)
Example C12_example_request :
  spec_outcome KReq (fun c => N.eqb c 7) ex_tree = Ran [1; 6; 3; 4; 2]%N [2]%N
  /\ impl_outcome KReq (fun c => N.eqb c 7) ex_tree = Ran [1; 6; 3; 4; 2]%N [2]%N.
Proof. vm_compute. split; reflexivity. Qed.

(* response, condition 7 false: 3 is request-only; else-branch group runs 5
   which errors: that stops the priority group (2 never runs); the aggregating
   parent runs 8, which errors too: both reported once, in order. *)
Example C12_example_response :
  spec_outcome KRes (fun _ => false) ex_tree = Ran [1; 6; 5; 8]%N [5; 8]%N
  /\ impl_outcome KRes (fun _ => false) ex_tree = Ran [1; 6; 5; 8]%N [5; 8]%N.
Proof. vm_compute. split; reflexivity. Qed.

(* the hypothesis of C12_every_error_reported_once is satisfiable *)
Example C12_example_consistent :
  consistent KRes (fun i => N.eqb i 5 || N.eqb i 8 || N.eqb i 9) ex_tree.
Proof. vm_compute. repeat split. Qed.

(* one unsupported scope deep inside (request scope on a response-only probe)
   rejects the whole configuration *)
Example C12_example_rejected :
  let t := Fifo None false [ex_tree; Filt 1 None (Leaf 10 (Some [SReq]) false true false false) None]%N in
  has_bad t = true /\ compile t = None /\ spec_outcome KReq (fun _ => true) t = Rejected.
Proof. vm_compute. repeat split. Qed.

(* reconfiguration: accept, reject (old one stays in force), accept (replaced
   completely: the new one has no response half) *)
Example C12_example_script :
  spec_script 0 s_init
    [ Get; Probe KReq (fun _ => true);
      Post (Leaf 1 None true true false false); Probe KRes (fun _ => true);
      Post (Fifo None false [Leaf 2 None true true false false; Bad 0]); Probe KRes (fun _ => true); Get;
      Post (Leaf 3 (Some [SReq]) true true true false); Probe KRes (fun _ => true);
      Probe KReq (fun _ => true); Get;
      PostErr (Leaf 4 None true true false false); Probe KReq (fun _ => true); BadMethod; Get;
      (* override the request half; then POST the SAME configuration again: the
         override is gone, and the instance that runs is the one created by the
         second POST (position 18), not the one from position 7 *)
      SetReq (Some 9); Probe KReq (fun _ => true); Get;
      Post (Leaf 3 (Some [SReq]) true true true false); Probe KReq (fun _ => true); Get ]%N
  = [ OCfg None; OOut [] [] [];
      OStatus true; OOut [1] [] [2%nat];
      OStatus false; OOut [1] [] [2%nat]; OCfg (Some 2%nat);
      OStatus true; OOut [] [] [];
      OOut [3] [3] [7%nat]; OCfg (Some 7%nat);
      ORefused 500; OOut [3] [3] [7%nat]; ORefused 405; OCfg (Some 7%nat);
      OSet; OOut [9] [] [15%nat]; OCfg (Some 7%nat);
      OStatus true; OOut [3] [3] [18%nat]; OCfg (Some 18%nat) ]%N.
Proof. vm_compute. reflexivity. Qed.

(* hypotheses of the audit theorems are satisfiable *)
Example C12_example_hypotheses :
  (exists r, compile ex_tree = Some r) /\ has_bad ex_tree = false
  /\ node_acts KReq (Leaf 8 (Some [SRes]) true true false true) = false
  /\ node_acts KRes ex_tree = true
  /\ live KReq ex_tree = [1; 2; 3; 4; 6]%N
  /\ is_setter (PostErr ex_tree) = false /\ snd (impl_step 3 init_active (PostErr ex_tree)) <> OStatus true
  /\ Forall (same_probe KReq (fun _ => true))
       [Post ex_tree; Probe KReq (fun _ => true); Get; PostErr ex_tree; Probe KReq (fun _ => true)].
Proof.
  repeat split; try (vm_compute; reflexivity); try discriminate.
  - eexists. vm_compute. reflexivity.
  - repeat constructor.
Qed.

(* a FIFO group whose second child errors, with the decomposition the stop
   clause asks for; and the aggregating variant *)
Example C12_example_fifo_clause :
  let cs := [Leaf 1 None true true false false; Leaf 2 None true true true true;
             Leaf 3 None true true true true]%N in
  let rs := map (eval KReq (fun _ => false)) cs in
  rs = ([([1], [])] ++ ([2], [2]) :: [([3], [3])])%N
  /\ Forall clean [([1], [])]%N /\ snd ([2], [2])%N <> (@nil N)
  /\ eval KReq (fun _ => false) (Fifo None false cs) = ([1; 2], [2])%N
  /\ eval KReq (fun _ => false) (Fifo None true cs) = ([1; 2; 3], [2; 3])%N.
Proof. vm_compute. repeat split; try discriminate. repeat constructor. Qed.

(* a two-thread execution with a final round: accepted; hypotheses hold *)
Example C12_example_threads :
  let ss1 := [TObs 0 WReq; TPost (Leaf 1 None true true false false); TObs 1 WCfg; TObs 0 WRes;
              TPost (Bad 0); TPost (Leaf 2 None true true false false); TObs 1 WReq]%N in
  let tail := [TObs 0 WReq; TObs 1 WCfg; TObs 0 WRes] in
  Forall no_post tail /\ (forall th, In th [0; 1] -> exists w, In (TObs th w) tail)
  /\ thread_view 0 (impl_tsteps (fun _ => false) (fun _ => false) 0 init_active (ss1 ++ tail))
     = [PReq [] []; PRes [1] []; PReq [2] []; PRes [2] []]%N
  /\ c12_stress_ok (fun _ => false) (fun _ => false) (tposts (ss1 ++ tail))
       (impl_tstatuses 0 init_active (ss1 ++ tail))
       (map (fun th => thread_view th (impl_tsteps (fun _ => false) (fun _ => false) 0 init_active (ss1 ++ tail))) [0; 1]) = true.
Proof.
  repeat split; try (vm_compute; reflexivity).
  - repeat constructor.
  - intros th [<-|[<-|[]]]; [exists WReq|exists WCfg]; cbn; auto.
Qed.
