(* C12 — theorem audit: the clauses of the property stated one by one on
   [eval]; remaining oracle equivalences; multi-thread interleavings and
   acceptance of every model execution by the stress oracle; totalisation. *)
From Coq Require Import List NArith ZArith Bool Arith Lia Permutation.
From Martian.C12 Require Import Model Proofs Proofs_Atomic.
Import ListNotations.

(* ------------------------------------------------------------------ *)
(* Sequencing: listed order, first error stops, aggregation             *)
(* ------------------------------------------------------------------ *)

Definition clean (r : eff) : Prop := snd r = [].

(* no child errors: all run, in the given order *)
Lemma seq_eff_clean : forall agg rs, Forall clean rs ->
  seq_eff agg rs = (concat (map fst rs), []).
Proof.
  intros agg rs H. induction H as [|[t e] rs Hc H IH]; [reflexivity|].
  unfold clean in Hc. cbn in Hc. subst e. cbn [seq_eff map concat fst]. now rewrite IH.
Qed.

(* aggregating: ALL children run, every error is reported once, in order *)
Lemma seq_eff_aggregates : forall rs,
  seq_eff true rs = (concat (map fst rs), concat (map snd rs)).
Proof.
  induction rs as [|[t e] rs IH]; [reflexivity|].
  cbn [seq_eff map concat fst snd]. rewrite IH. destruct e; reflexivity.
Qed.

(* not aggregating: the first erroring child is the last one to run and its
   error is the result; nothing after it runs *)
Lemma seq_eff_stops : forall pre r post, Forall clean pre -> snd r <> [] ->
  seq_eff false (pre ++ r :: post) = (concat (map fst pre) ++ fst r, snd r).
Proof.
  intros pre r post H Hr. induction H as [|[t e] pre Hc H IH].
  - destruct r as [t e]. cbn in *. destruct e; [congruence|reflexivity].
  - unfold clean in Hc. cbn in Hc. subst e. cbn [app seq_eff map concat fst].
    rewrite IH. cbn [fst snd]. now rewrite app_assoc.
Qed.

(* what runs is always a prefix-respecting selection of what the children do *)
Lemma seq_eff_fst_in : forall agg rs x, In x (fst (seq_eff agg rs)) ->
  exists r, In r rs /\ In x (fst r).
Proof.
  intros agg rs x. induction rs as [|[t e] rs IH]; [contradiction|].
  cbn [seq_eff]. destruct (seq_eff agg rs) as [t' e'] eqn:E. cbn [fst] in IH.
  assert (Hcase : In x (t ++ t') -> exists r, In r ((t, e) :: rs) /\ In x (fst r)).
  { intros H. apply in_app_or in H as [H|H].
    - exists (t, e). split; [now left|exact H].
    - destruct (IH H) as (r & Hr & Hx). exists r. split; [now right|exact Hx]. }
  destruct e as [|y e0]; cbn [fst]; [exact Hcase|].
  destruct agg; cbn [fst]; [exact Hcase|].
  intros H. exists (t, y :: e0). split; [now left|exact H].
Qed.

(* ------------------------------------------------------------------ *)
(* The clauses, node by node                                           *)
(* ------------------------------------------------------------------ *)

(* does the node itself act on messages of kind k? *)
Definition node_acts (k : kind) (t : tree) : bool :=
  match t with
  | Leaf _ sc cq cs _ _ => acts k cq cs sc
  | Fifo sc _ _ | Prio sc _ | Filt _ sc _ _ => acts k true true sc
  | Bad _ => false
  end.

Theorem out_of_scope_inert : forall k cond t, node_acts k t = false -> eval k cond t = eff0.
Proof. intros k cond [] H; cbn in *; rewrite ?H; reflexivity. Qed.

Theorem eval_leaf : forall k cond id sc cq cs eq es,
  node_acts k (Leaf id sc cq cs eq es) = true ->
  eval k cond (Leaf id sc cq cs eq es) = ([id], if sel k eq es then [id] else []).
Proof. intros. cbn in *. now rewrite H. Qed.

Theorem eval_fifo : forall k cond sc agg cs,
  node_acts k (Fifo sc agg cs) = true ->
  eval k cond (Fifo sc agg cs) = seq_eff agg (map (eval k cond) cs).
Proof. intros. cbn in *. now rewrite H. Qed.

Theorem eval_prio : forall k cond sc cs,
  node_acts k (Prio sc cs) = true ->
  eval k cond (Prio sc cs) =
  seq_eff false (map snd (prio_order (map (fun pc => (fst pc, eval k cond (snd pc))) cs))).
Proof. intros. cbn in *. now rewrite H. Qed.

Theorem eval_filter : forall k cond c sc m e,
  node_acts k (Filt c sc m e) = true ->
  eval k cond (Filt c sc m e) =
  if cond c then eval k cond m else match e with Some e' => eval k cond e' | None => eff0 end.
Proof. intros. cbn in *. now rewrite H. Qed.

(* FIFO group, spelled out with the three lemmas above *)
Theorem fifo_group_clause : forall k cond sc agg cs,
  node_acts k (Fifo sc agg cs) = true ->
  let rs := map (eval k cond) cs in
  (Forall clean rs -> eval k cond (Fifo sc agg cs) = (concat (map fst rs), [])) /\
  (agg = true -> eval k cond (Fifo sc agg cs) = (concat (map fst rs), concat (map snd rs))) /\
  (agg = false -> forall pre r post, rs = pre ++ r :: post -> Forall clean pre -> snd r <> [] ->
     eval k cond (Fifo sc agg cs) = (concat (map fst pre) ++ fst r, snd r)).
Proof.
  intros k cond sc agg cs H rs. rewrite (eval_fifo _ _ _ _ _ H). fold rs. repeat split.
  - apply seq_eff_clean.
  - intros ->. apply seq_eff_aggregates.
  - intros -> pre r post -> Hp Hr. now apply seq_eff_stops.
Qed.

(* effective scope = intersection along the path: only probes all of whose
   ancestors (and themselves) act on kind k can appear in the trace *)
Fixpoint live (k : kind) (t : tree) : list N :=
  if node_acts k t then
    match t with
    | Leaf id _ _ _ _ _ => [id]
    | Fifo _ _ cs => flat_map (live k) cs
    | Prio _ cs => flat_map (fun pc => live k (snd pc)) cs
    | Filt _ _ m e => live k m ++ match e with Some e' => live k e' | None => [] end
    | Bad _ => []
    end
  else [].

Theorem trace_within_scope : forall k cond t x, In x (fst (eval k cond t)) -> In x (live k t).
Proof.
  intros k cond. induction t as [id sc cq cs eq es|sc agg cs IH|sc cs IH|c sc m e IHm IHe|w] using tree_ind';
    intros x Hx.
  - cbn [eval live node_acts] in *. destruct (acts k cq cs sc); [exact Hx|contradiction].
  - cbn [eval live node_acts] in *. destruct (acts k true true sc); [|contradiction].
    apply seq_eff_fst_in in Hx as (r & Hr & Hx). apply in_map_iff in Hr as (c & <- & Hc).
    apply in_flat_map. exists c. split; [exact Hc|]. rewrite Forall_forall in IH. now apply IH.
  - cbn [eval live node_acts] in *. destruct (acts k true true sc); [|contradiction].
    apply seq_eff_fst_in in Hx as (r & Hr & Hx). apply in_map_iff in Hr as (pr & E & Hr).
    subst r. rewrite <- go_order_is_prio_order in Hr.
    apply (Permutation_in _ (go_order_perm _ _)) in Hr.
    apply in_map_iff in Hr as (pc & E & Hc). subst pr. cbn [snd] in Hx.
    apply in_flat_map. exists pc. split; [exact Hc|]. rewrite Forall_forall in IH.
    exact (IH pc Hc x Hx).
  - cbn [eval live node_acts] in *. destruct (acts k true true sc); [|contradiction].
    apply in_or_app. destruct (cond c); [left; now apply IHm|].
    destruct e as [e'|]; [right; now apply IHe|contradiction].
  - contradiction.
Qed.

(* ------------------------------------------------------------------ *)
(* Remaining oracle statements                                         *)
(* ------------------------------------------------------------------ *)

Theorem ok_rejected_iff : forall k cond t, c12_ok k cond t Rejected = true <-> has_bad t = true.
Proof.
  intros. rewrite c12_ok_iff. unfold spec_outcome. destruct (has_bad t); split; intros; try reflexivity; try discriminate.
Qed.

Theorem ok_ran_iff : forall k cond t tr er,
  c12_ok k cond t (Ran tr er) = true <-> has_bad t = false /\ eval k cond t = (tr, er).
Proof.
  intros. rewrite c12_ok_iff. unfold spec_outcome, ran. destruct (has_bad t).
  - split; [discriminate|intros [H _]; discriminate].
  - destruct (eval k cond t) as [t' e']. cbn. split.
    + intros H. inversion H. auto.
    + intros [_ H]. inversion H. reflexivity.
Qed.

(* the driver's "first differing command" *)
Theorem first_diff_none_iff : forall a b n, first_diff n a b = None <-> a = b.
Proof.
  induction a as [|x a IH]; destruct b as [|y b]; intros n; cbn; try (split; congruence).
  destruct (obs_eqb x y) eqn:E.
  - apply obs_eqb_eq in E. subst y. rewrite IH. split; congruence.
  - split; [discriminate|]. intros H. inversion H; subst. 
    assert (obs_eqb y y = true) by now apply obs_eqb_eq. congruence.
Qed.

Theorem first_diff_some : forall a b n k, first_diff n a b = Some k ->
  n <= k /\ firstn (k - n) a = firstn (k - n) b /\ nth_error a (k - n) <> nth_error b (k - n).
Proof.
  induction a as [|x a IH]; destruct b as [|y b]; intros n k H; cbn in H; try discriminate.
  - inversion H; subst. rewrite Nat.sub_diag. cbn. repeat split; auto; discriminate.
  - inversion H; subst. rewrite Nat.sub_diag. cbn. repeat split; auto; discriminate.
  - destruct (obs_eqb x y) eqn:E.
    + apply obs_eqb_eq in E. subst y. destruct (IH b (S n) k H) as (Hle & Hf & Hn).
      replace (k - n) with (S (k - S n)) by lia. cbn. repeat split; [lia|now rewrite Hf|exact Hn].
    + inversion H; subst. rewrite Nat.sub_diag. cbn. repeat split; auto.
      intros Heq. inversion Heq; subst. assert (obs_eqb y y = true) by now apply obs_eqb_eq. congruence.
Qed.

Lemma accepted_meanings_nonempty : forall k cond ts, accepted_meanings k cond ts <> [].
Proof. intros. unfold accepted_meanings. discriminate. Qed.

Theorem conc_ok_iff : forall k cond ts statuses obs,
  c12_conc_ok k cond ts statuses obs = true <->
  statuses = map (fun t => negb (has_bad t)) ts /\
  explains (accepted_meanings k cond ts) obs /\
  obs <> [] /\ last obs eff0 = last (accepted_meanings k cond ts) eff0.
Proof.
  intros. unfold c12_conc_ok. rewrite !andb_true_iff.
  rewrite (list_eqb_eq bool Bool.eqb eqb_true_iff), explained_iff.
  destruct obs as [|o obs].
  - split; [intros [_ H]; discriminate|intros (_ & _ & H & _); congruence].
  - rewrite eff_eqb_eq. split.
    + intros [[H1 H2] H3]. repeat split; auto. discriminate.
    + intros (H1 & H2 & _ & H3). auto.
Qed.

(* ------------------------------------------------------------------ *)
(* Several observing threads                                           *)
(* ------------------------------------------------------------------ *)

Lemma tsteps_explained : forall cq cs th ss n a cur, rel a cur ->
  explains_by (pmatch cq cs) (cur :: states_from n (tposts ss))
              (thread_view th (impl_tsteps cq cs n a ss)).
Proof.
  intros cq cs th ss. induction ss as [|[t|th' w] ss IH]; intros n a cur Hr;
    cbn [impl_tsteps tposts states_from].
  - constructor.
  - destruct (has_bad t) eqn:Hb.
    + rewrite (reject_keeps_active n a t Hb). cbn [fst]. now apply IH.
    + destruct (accept_replaces n a t Hb) as (_ & H2 & H3).
      apply eb_adv. apply IH. split; [exact H2|exact H3].
  - unfold thread_view. cbn [filter fst]. destruct (Nat.eqb th' th).
    + cbn [map snd]. apply eb_stay; [now apply observe_matches|]. now apply IH.
    + now apply IH.
Qed.

(* For EVERY interleaving of POSTs with the observations of ANY number of
   threads, each thread's own observations walk forward through the accepted
   configurations. *)
Theorem atomic_replacement_threads : forall cq cs ss th,
  explains_by (pmatch cq cs) (cfg_states (tposts ss))
              (thread_view th (impl_tsteps cq cs 0 init_active ss)).
Proof. intros. apply tsteps_explained, rel_init. Qed.

Lemma post_status : forall n a t, snd (post n a t) = negb (has_bad t).
Proof.
  intros. destruct (has_bad t) eqn:Hb.
  - now rewrite (reject_keeps_active n a t Hb).
  - now destruct (accept_replaces n a t Hb) as (-> & _).
Qed.

Lemma tstatuses_spec : forall ss n a,
  impl_tstatuses n a ss = map (fun t => negb (has_bad t)) (tposts ss).
Proof.
  induction ss as [|[t|th w] ss IH]; intros; cbn [impl_tstatuses tposts map]; auto.
  now rewrite post_status, IH.
Qed.

(* state reached after a prefix of the interleaving *)
Fixpoint impl_tfinal (n : nat) (a : active) (ss : list tstep) : nat * active :=
  match ss with
  | [] => (n, a)
  | TPost t :: r => impl_tfinal (S n) (fst (post n a t)) r
  | TObs _ _ :: r => impl_tfinal n a r
  end.

Lemma tsteps_app : forall cq cs s1 s2 n a,
  impl_tsteps cq cs n a (s1 ++ s2) =
  impl_tsteps cq cs n a s1 ++
  impl_tsteps cq cs (fst (impl_tfinal n a s1)) (snd (impl_tfinal n a s1)) s2.
Proof.
  intros cq cs s1. induction s1 as [|[t|th w] s1 IH]; intros; cbn [app impl_tsteps impl_tfinal fst snd]; auto.
  now rewrite IH.
Qed.

Lemma last_cons : forall (A : Type) (x : A) l d, last (x :: l) d = last l x.
Proof. intros A x l. revert x. induction l as [|y l IH]; intros; [reflexivity|]. cbn [last] in *. destruct l; [reflexivity|]. apply IH. Qed.

Lemma tfinal_rel : forall s1 n a cur, rel a cur ->
  rel (snd (impl_tfinal n a s1)) (last (states_from n (tposts s1)) cur).
Proof.
  induction s1 as [|[t|th w] s1 IH]; intros n a cur Hr; cbn [impl_tfinal tposts states_from]; auto.
  destruct (has_bad t) eqn:Hb.
  - rewrite (reject_keeps_active n a t Hb). cbn [fst]. now apply IH.
  - destruct (accept_replaces n a t Hb) as (_ & H2 & H3).
    rewrite last_cons. apply IH. split; [exact H2|exact H3].
Qed.

Definition no_post (s : tstep) : Prop := match s with TPost _ => False | TObs _ _ => True end.

Lemma tposts_app_nopost : forall s1 tail, Forall no_post tail -> tposts (s1 ++ tail) = tposts s1.
Proof.
  induction s1 as [|[t|th w] s1 IH]; intros tail H; cbn [app tposts].
  - induction H as [|[t|th w] tail Hs H IH]; [reflexivity|contradiction|exact IH].
  - now rewrite IH.
  - now apply IH.
Qed.

Lemma tail_view_matches : forall cq cs tail n a cur, rel a cur -> Forall no_post tail ->
  forall th, Forall (fun o => pmatch cq cs o cur = true) (thread_view th (impl_tsteps cq cs n a tail)).
Proof.
  intros cq cs tail n a cur Hr H th. induction H as [|[t|th' w] tail Hs H IH]; [constructor|contradiction|].
  cbn [impl_tsteps]. unfold thread_view. cbn [filter fst]. destruct (Nat.eqb th' th); [|exact IH].
  cbn [map snd]. constructor; [now apply observe_matches|exact IH].
Qed.

Lemma tail_view_nonempty : forall cq cs tail n a th w, Forall no_post tail -> In (TObs th w) tail ->
  thread_view th (impl_tsteps cq cs n a tail) <> [].
Proof.
  intros cq cs tail n a th w H Hin. induction H as [|[t|th' w'] tail Hs H IH]; [contradiction|contradiction|].
  cbn [impl_tsteps]. unfold thread_view. cbn [filter fst]. destruct Hin as [E|Hin].
  - inversion E; subst. rewrite Nat.eqb_refl. discriminate.
  - destruct (Nat.eqb th' th); [discriminate|]. now apply IH.
Qed.

Lemma last_default : forall (A : Type) (l : list A) d1 d2, l <> [] -> last l d1 = last l d2.
Proof.
  intros A l d1 d2 H. induction l as [|x l IH]; [congruence|].
  destruct l as [|y l]; [reflexivity|]. cbn [last] in *. apply IH. discriminate.
Qed.

Lemma last_app_nonempty : forall (A : Type) (l1 l2 : list A) d, l2 <> [] -> last (l1 ++ l2) d = last l2 d.
Proof.
  intros A l1 l2 d H. revert d. induction l1 as [|x l1 IH]; intros d; [reflexivity|].
  cbn [app]. rewrite last_cons, IH. now apply last_default.
Qed.

Lemma last_in_forall : forall (A : Type) (P : A -> Prop) l d, l <> [] -> Forall P l -> P (last l d).
Proof.
  intros A P l d Hn H. induction H as [|x l Hx H IH]; [congruence|].
  destruct l as [|y l]; [exact Hx|]. cbn [last]. apply IH. discriminate.
Qed.

(* EVERY execution of the model - any interleaving [ss1] of POSTs and
   observations, followed by a tail without POSTs in which each of the listed
   threads observes at least once (the harness's "one more round after the last
   POST returned") - is ACCEPTED by the stress oracle.  So a PROPFAIL
   atomic_replacement cannot be produced by a schedule of an implementation
   whose methods are atomic. *)
Theorem stress_impl_accepted : forall cq cs ss1 tail ths,
  Forall no_post tail ->
  (forall th, In th ths -> exists w, In (TObs th w) tail) ->
  let ss := ss1 ++ tail in
  c12_stress_ok cq cs (tposts ss) (impl_tstatuses 0 init_active ss)
    (map (fun th => thread_view th (impl_tsteps cq cs 0 init_active ss)) ths) = true.
Proof.
  intros cq cs ss1 tail ths Hnp Hobs ss. apply stress_ok_iff. split; [apply tstatuses_spec|].
  intros obs Hin. apply in_map_iff in Hin as (th & <- & Hth). split; [apply atomic_replacement_threads|].
  destruct (Hobs th Hth) as [w Hw].
  unfold ss. rewrite tsteps_app. unfold thread_view at 1 2. rewrite filter_app, map_app.
  fold (thread_view th (impl_tsteps cq cs 0 init_active ss1)).
  fold (thread_view th (impl_tsteps cq cs (fst (impl_tfinal 0 init_active ss1)) (snd (impl_tfinal 0 init_active ss1)) tail)).
  set (v1 := thread_view th (impl_tsteps cq cs 0 init_active ss1)).
  set (v2 := thread_view th (impl_tsteps cq cs (fst (impl_tfinal 0 init_active ss1)) (snd (impl_tfinal 0 init_active ss1)) tail)).
  assert (Hne : v2 <> []) by (eapply tail_view_nonempty; eauto).
  destruct (v1 ++ v2) as [|o l] eqn:E; [trivial|]. rewrite <- E.
  rewrite (last_app_nonempty _ v1 v2 o Hne).
  rewrite (tposts_app_nopost ss1 tail Hnp). unfold cfg_states. rewrite last_cons.
  apply last_in_forall; [exact Hne|].
  apply tail_view_matches; [|exact Hnp]. apply tfinal_rel, rel_init.
Qed.

(* ------------------------------------------------------------------ *)
(* Totalisation audit                                                  *)
(* ------------------------------------------------------------------ *)

Lemma cfg_states_nonempty : forall ts, cfg_states ts <> [].
Proof. intros. unfold cfg_states. discriminate. Qed.

Lemma labels_nonempty : forall s, labels s <> [].
Proof.
  induction s as [|c s IH]; cbn; [discriminate|].
  destruct (Ascii.eqb _ _); [discriminate|]. destruct (labels s); [congruence|discriminate].
Qed.

(* eval's value on a tree with a bad node ([Bad] => eff0) is never what the
   specification answers: such a tree is Rejected *)
Lemma bad_tree_never_runs : forall k cond t, has_bad t = true -> spec_outcome k cond t = Rejected.
Proof. intros. unfold spec_outcome. now rewrite H. Qed.

(* a filter key missing from the table is not silently "false" in the oracle *)
Lemma bits_unknown_key_rejected : forall tbl m k b bits,
  lookup_cond k tbl = None -> In (k, b) bits -> c12_bits_ok tbl m bits = false.
Proof.
  intros tbl m k b bits Hl Hin. destruct (c12_bits_ok tbl m bits) eqn:E; [|reflexivity].
  destruct (proj1 (bits_ok_iff tbl m bits) E k b Hin) as (f & Hf & _). congruence.
Qed.
