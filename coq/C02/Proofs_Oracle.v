(* C02 — the clause checkers run by the driver are the property clauses:
   each boolean checker is equivalent to a statement in Prop, and the oracle
   [c02_ok] to their conjunction. *)
From Coq Require Import List Bool Arith Lia.
From Martian.C02 Require Import Model Proofs_Clauses.
Import ListNotations.

(* ---------------- equality deciders ---------------- *)

Lemma list_eqb_eq {A} (eqb : A -> A -> bool) :
  (forall x y, eqb x y = true <-> x = y) ->
  forall a b, list_eqb eqb a b = true <-> a = b.
Proof.
  intros H. induction a as [|x a IH]; destruct b as [|y b]; cbn; try (split; congruence).
  rewrite andb_true_iff, H, IH. split; [intros [-> ->]; reflexivity|intros E; inversion E; auto].
Qed.

Lemma nl_eqb_eq a b : nl_eqb a b = true <-> a = b.
Proof. apply list_eqb_eq. apply Nat.eqb_eq. Qed.

Lemma event_eqb_eq a b : event_eqb a b = true <-> a = b.
Proof.
  destruct a, b; cbn; try (split; [discriminate|congruence]);
    rewrite ?andb_true_iff, ?Nat.eqb_eq, ?eqb_true_iff, ?nl_eqb_eq;
    try (split; [intuition congruence|intros E; inversion E; intuition]).
  all: split; auto.
Qed.

Lemma trace_eqb_eq a b : trace_eqb a b = true <-> a = b.
Proof. apply list_eqb_eq, event_eqb_eq. Qed.

Lemma traces_eqb_eq a b : traces_eqb a b = true <-> a = b.
Proof. apply list_eqb_eq, trace_eqb_eq. Qed.

(* ---------------- clause statements ---------------- *)

(* C8 *)
Definition P_hijack (T : list event) : Prop :=
  forall pre r post, T = pre ++ HijackRet r :: post -> post = [SockClose].

Lemma P_hijack_cons e T : is_hijackret e = false -> (P_hijack (e :: T) <-> P_hijack T).
Proof.
  unfold P_hijack. intros He. split.
  - intros H pre r0 post E. apply (H (e :: pre) r0 post). cbn. rewrite E. reflexivity.
  - intros H pre r0 post E. destruct pre as [|x pre].
    + inversion E; subst. discriminate He.
    + inversion E; subst. eapply H; reflexivity.
Qed.

Lemma cl_hijack_cons e T : is_hijackret e = false -> cl_hijack (e :: T) = cl_hijack T.
Proof. destruct e; intros H; try discriminate H; reflexivity. Qed.

Lemma cl_hijack_iff T : cl_hijack T = true <-> P_hijack T.
Proof.
  induction T as [|e T IH].
  - split; [|reflexivity]. intros _ pre r post E. destruct pre; discriminate E.
  - destruct (is_hijackret e) eqn:He.
    + destruct e; try discriminate He. cbn [cl_hijack]. rewrite trace_eqb_eq.
      unfold P_hijack. split.
      * intros -> pre r0 post E. destruct pre as [|x pre].
        -- inversion E. reflexivity.
        -- inversion E as [[Hx Hp]]. destruct pre as [|y pre]; [discriminate Hp|].
           inversion Hp as [[Hy Hp']]. destruct pre; discriminate Hp'.
      * intros H. apply (H [] r T). reflexivity.
    + rewrite (cl_hijack_cons e T He), (P_hijack_cons e T He). exact IH.
Qed.

(* C1 *)
Definition P_reqmod_ex (E : list event) : Prop :=
  E = [] \/
  exists r c s L tl, E = ReqMod r c s L :: tl /\
    (forall e, In e tl -> is_reqmod e = false) /\
    (forall r' sm w m, In (Upstream r' sm w m) tl -> sm = true /\ m = 1).

Lemma contact_wf_iff tl :
  forallb contact_wf tl = true <->
  (forall r' sm w m, In (Upstream r' sm w m) tl -> sm = true /\ m = 1).
Proof.
  rewrite forallb_forall. split.
  - intros H r' sm w m Hin. specialize (H _ Hin). cbn in H.
    apply andb_true_iff in H. destruct H as [H1 H2]. apply Nat.eqb_eq in H2. auto.
  - intros H e Hin. destruct e; try reflexivity. cbn.
    destruct (H _ _ _ _ Hin) as [-> ->]. reflexivity.
Qed.

Lemma not_exists_iff (p : event -> bool) tl :
  negb (existsb p tl) = true <-> (forall e, In e tl -> p e = false).
Proof.
  rewrite negb_true_iff. split.
  - intros H e Hin. destruct (p e) eqn:E; [|reflexivity].
    assert (existsb p tl = true) by (apply existsb_exists; eauto). congruence.
  - intros H. destruct (existsb p tl) eqn:E; [|reflexivity].
    apply existsb_exists in E. destruct E as [e [Hin Hp]]. rewrite (H e Hin) in Hp. discriminate.
Qed.

Lemma cl_reqmod_ex_iff E : cl_reqmod_ex E = true <-> P_reqmod_ex E.
Proof.
  unfold P_reqmod_ex. destruct E as [|e tl]; [split; auto|].
  destruct e; cbn [cl_reqmod_ex];
    try (split; [discriminate|intros [H|[? [? [? [? [? [H _]]]]]]]; discriminate H]).
  rewrite andb_true_iff, not_exists_iff, contact_wf_iff. split.
  - intros [H1 H2]. right. do 5 eexists. split; [reflexivity|auto].
  - intros [H|[r0 [c0 [s0 [L0 [tl0 [H [H1 H2]]]]]]]]; [discriminate H|].
    inversion H; subst. auto.
Qed.

(* C2 *)
Definition NCAR (E : list event) : Prop :=
  forall pre e post e', E = pre ++ e :: post -> is_resmod e = true -> In e' post -> is_contact e' = false.

Lemma ncar_iff : forall E seen,
  no_contact_after_resmod seen E = true <->
  ((seen = true -> forall e, In e E -> is_contact e = false) /\ NCAR E).
Proof.
  unfold NCAR. induction E as [|e E IH]; intros seen; cbn [no_contact_after_resmod].
  - split; [|reflexivity]. intros _. split; [intros _ e []|].
    intros pre e post e' H. destruct pre; discriminate H.
  - rewrite andb_true_iff, IH, negb_true_iff. split.
    + intros [H1 [H2 H3]]. split.
      * intros -> x [<-|Hin]; [exact H1|]. apply H2; [reflexivity|exact Hin].
      * intros pre e0 post e' Heq Hr Hin. destruct pre as [|x pre]; inversion Heq; subst.
        -- apply H2; [rewrite Hr; apply orb_true_r|exact Hin].
        -- eapply H3; eauto.
    + intros [H1 H2]. split; [|split].
      * destruct seen; [|reflexivity]. cbn. apply H1; [reflexivity|left; reflexivity].
      * intros Hs x Hin. apply orb_true_iff in Hs. destruct Hs as [->|Hr].
        -- apply H1; [reflexivity|right; exact Hin].
        -- apply (H2 [] e E x); auto.
      * intros pre e0 post e' Heq Hr Hin. apply (H2 (e :: pre) e0 post e'); auto.
        cbn. rewrite Heq. reflexivity.
Qed.

Definition P_resmod_ex (q : req) (E : list event) : Prop :=
  E = [] \/
  exists r c s L tl, E = ReqMod r c s L :: tl /\
    count is_resmod tl = (if is_qhijack q then 0 else 1) /\
    (forall r' sm c' s' st w qw L', In (ResMod r' sm c' s' st w qw L') tl -> sm = true /\ c' = c /\ s' = s) /\
    NCAR tl.

Lemma resmod_wf_iff c s tl :
  forallb (resmod_wf c s) tl = true <->
  (forall r' sm c' s' st w qw L', In (ResMod r' sm c' s' st w qw L') tl -> sm = true /\ c' = c /\ s' = s).
Proof.
  rewrite forallb_forall. split.
  - intros H r' sm c' s' st w qw L' Hin. specialize (H _ Hin). cbn in H.
    apply andb_true_iff in H. destruct H as [H H3]. apply andb_true_iff in H. destruct H as [H1 H2].
    apply Nat.eqb_eq in H2, H3. auto.
  - intros H e Hin. destruct e; try reflexivity. cbn.
    destruct (H _ _ _ _ _ _ _ _ Hin) as [-> [-> ->]]. rewrite !Nat.eqb_refl. reflexivity.
Qed.

Lemma cl_resmod_ex_iff q E : cl_resmod_ex q E = true <-> P_resmod_ex q E.
Proof.
  unfold P_resmod_ex. destruct E as [|e tl]; [split; auto|].
  destruct e; cbn [cl_resmod_ex];
    try (split; [discriminate|intros [H|[? [? [? [? [? [H _]]]]]]]; discriminate H]).
  rewrite !andb_true_iff, Nat.eqb_eq, resmod_wf_iff, ncar_iff. split.
  - intros [[H1 H2] [_ H3]]. right. do 5 eexists. split; [reflexivity|auto].
  - intros [H|[r0 [c0 [s0 [L0 [tl0 [H [H1 [H2 H3]]]]]]]]]; [discriminate H|].
    inversion H; subst. split; [split; [exact H1|exact H2]|split; [discriminate|exact H3]].
Qed.

(* C5 / C4 / scope *)
Definition P_linked (T : list event) : Prop :=
  forall e, In e T ->
    match e with
    | ReqMod r _ _ L => L = [r]
    | ResMod r _ _ _ _ _ _ L => L = [r]
    | _ => True
    end.

Lemma cl_linked_iff T : cl_linked T = true <-> P_linked T.
Proof.
  unfold cl_linked, P_linked. rewrite forallb_forall. split; intros H e Hin; specialize (H e Hin).
  - destruct e; auto; cbn in H; apply nl_eqb_eq in H; exact H.
  - destruct e; auto; cbn; apply nl_eqb_eq; exact H.
Qed.

Definition P_session (k : nat) (T : list event) : Prop :=
  forall e, In e T ->
    match e with
    | ReqMod _ _ s _ => s = k
    | ResMod _ _ _ s _ _ _ _ => s = k
    | _ => True
    end.

Lemma cl_session_iff k T : cl_session k T = true <-> P_session k T.
Proof.
  unfold cl_session, P_session. rewrite forallb_forall. split; intros H e Hin; specialize (H e Hin).
  - destruct e; auto; cbn in H; apply Nat.eqb_eq in H; exact H.
  - destruct e; auto; cbn; apply Nat.eqb_eq; exact H.
Qed.

Definition P_scope (b n : nat) (T : list event) : Prop :=
  forall e r, In e T -> ev_req e = Some r -> b <= r < b + n.

Lemma scope_iff b n T : forallb (in_range b n) T = true <-> P_scope b n T.
Proof.
  unfold P_scope. rewrite forallb_forall. split.
  - intros H e r Hin He. specialize (H e Hin). unfold in_range in H. rewrite He in H.
    apply andb_true_iff in H. destruct H as [H1 H2].
    apply Nat.leb_le in H1. apply Nat.ltb_lt in H2. lia.
  - intros H e Hin. unfold in_range. destruct (ev_req e) eqn:He; [|reflexivity].
    destruct (H e n0 Hin He). apply andb_true_iff. split; [apply Nat.leb_le|apply Nat.ltb_lt]; lia.
Qed.

(* C6 *)
Definition P_error_ex (q : req) (E : list event) : Prop :=
  E = [] \/
  ((forall r st w cl m, In (Write r st w cl m) E ->
      exists st' w', find_resmod E = Some (st', w') /\ st = st' /\ w = w' + b2n (is_serr q) /\ m = 1) /\
   (forall r sm w m, In (Upstream r sm w m) E -> w = b2n (is_qerr q)) /\
   (forall r sm c s st w qw L, In (ResMod r sm c s st w qw L) E -> qw = b2n (is_qerr q)) /\
   count is_write E = (if is_qhijack q || is_shijack q then 0 else 1)).

Lemma write_wf_iff q o E :
  forallb (write_wf q o) E = true <->
  ((forall r st w cl m, In (Write r st w cl m) E ->
      exists st' w', o = Some (st', w') /\ st = st' /\ w = w' + b2n (is_serr q) /\ m = 1) /\
   (forall r sm w m, In (Upstream r sm w m) E -> w = b2n (is_qerr q)) /\
   (forall r sm c s st w qw L, In (ResMod r sm c s st w qw L) E -> qw = b2n (is_qerr q))).
Proof.
  rewrite forallb_forall. split.
  - intros H. split; [|split].
    + intros r st w cl m Hin. specialize (H _ Hin). cbn in H.
      destruct o as [[st' w']|]; [|discriminate H].
      apply andb_true_iff in H. destruct H as [H H3]. apply andb_true_iff in H. destruct H as [H1 H2].
      apply Nat.eqb_eq in H1, H2, H3. eauto 6.
    + intros r sm w m Hin. specialize (H _ Hin). cbn in H. apply Nat.eqb_eq in H. exact H.
    + intros r sm c s st w qw L Hin. specialize (H _ Hin). cbn in H. apply Nat.eqb_eq in H. exact H.
  - intros [H1 [H2 H3]] e Hin. destruct e; try reflexivity; cbn.
    + apply Nat.eqb_eq. eapply H2; eauto.
    + apply Nat.eqb_eq. eapply H3; eauto.
    + destruct (H1 _ _ _ _ _ Hin) as [st' [w' [-> [-> [-> ->]]]]].
      rewrite !Nat.eqb_refl. reflexivity.
Qed.

Lemma cl_error_ex_iff q E : cl_error_ex q E = true <-> P_error_ex q E.
Proof.
  unfold P_error_ex. destruct E as [|e0 E0]; [split; auto|].
  remember (e0 :: E0) as E eqn:HE.
  assert (Hc : cl_error_ex q E =
               (forallb (write_wf q (find_resmod E)) E
                && (if is_qhijack q || is_shijack q then Nat.eqb (count is_write E) 0
                    else Nat.eqb (count is_write E) 1))).
  { subst E. reflexivity. }
  rewrite Hc, andb_true_iff, write_wf_iff. split.
  - intros [[H1 [H2 H2']] H3]. right. split; [exact H1|]. split; [exact H2|]. split; [exact H2'|].
    destruct (is_qhijack q || is_shijack q); apply Nat.eqb_eq in H3; exact H3.
  - intros [H|[H1 [H2 [H2' H3]]]]; [subst E; discriminate H|].
    split; [split; [exact H1|split; [exact H2|exact H2']]|].
    rewrite H3. destruct (is_qhijack q || is_shijack q); reflexivity.
Qed.

(* C7 *)
Definition P_skip_ex (q : req) (E : list event) : Prop :=
  E = [] \/
  (is_qskip q = true ->
   (forall e, In e E -> is_contact e = false) /\
   (is_qhijack q = true \/ find_resmod E = Some (200, 0))).

Lemma cl_skip_ex_iff q E : cl_skip_ex q E = true <-> P_skip_ex q E.
Proof.
  unfold P_skip_ex. destruct E as [|e0 E0]; [split; auto|].
  remember (e0 :: E0) as E eqn:HE.
  assert (Hc : cl_skip_ex q E =
               (if is_qskip q
                then negb (existsb is_contact E)
                     && (is_qhijack q
                         || match find_resmod E with Some (st, w) => Nat.eqb st 200 && Nat.eqb w 0 | None => false end)
                else true)).
  { subst E. reflexivity. }
  rewrite Hc. destruct (is_qskip q).
  - rewrite andb_true_iff, not_exists_iff, orb_true_iff. split.
    + intros [H1 H2]. right. intros _. split; [exact H1|].
      destruct H2 as [H2|H2]; [left; exact H2|right].
      destruct (find_resmod E) as [[st w]|]; [|discriminate H2].
      apply andb_true_iff in H2. destruct H2 as [Ha Hb]. apply Nat.eqb_eq in Ha, Hb. subst. reflexivity.
    + intros [H|H]; [subst E; discriminate H|]. destruct (H eq_refl) as [H1 H2].
      split; [exact H1|]. destruct H2 as [H2|H2]; [left; exact H2|right]. rewrite H2. reflexivity.
  - split; [intros _; right; discriminate|reflexivity].
Qed.

(* C9 *)
Definition P_relay_ex (q : req) (E : list event) : Prop :=
  E = [] \/
  (if is_qhijack q then count is_contact E = 0
   else count is_contact E = want_contacts q /\ find_resmod E = Some (want_status q)).

Lemma cl_relay_ex_iff q E : cl_relay_ex q E = true <-> P_relay_ex q E.
Proof.
  unfold P_relay_ex. destruct E as [|e0 E0]; [split; auto|].
  remember (e0 :: E0) as E eqn:HE.
  assert (Hc : cl_relay_ex q E =
               (if is_qhijack q then Nat.eqb (count is_contact E) 0
                else Nat.eqb (count is_contact E) (want_contacts q)
                     && match find_resmod E with
                        | Some (st, w) => Nat.eqb st (fst (want_status q)) && Nat.eqb w (snd (want_status q))
                        | None => false
                        end)).
  { subst E. reflexivity. }
  rewrite Hc. destruct (is_qhijack q).
  - rewrite Nat.eqb_eq. split; [auto|]. intros [H|H]; [subst E; discriminate H|exact H].
  - rewrite andb_true_iff, Nat.eqb_eq. split.
    + intros [H1 H2]. right. split; [exact H1|].
      destruct (find_resmod E) as [[st w]|]; [|discriminate H2].
      apply andb_true_iff in H2. destruct H2 as [Ha Hb]. apply Nat.eqb_eq in Ha, Hb.
      destruct (want_status q) as [a b]. cbn in Ha, Hb. subst. reflexivity.
    + intros [H|[H1 H2]]; [subst E; discriminate H|]. split; [exact H1|].
      rewrite H2. destruct (want_status q) as [a b]. cbn. rewrite !Nat.eqb_refl. reflexivity.
Qed.

(* per-request lifting *)
Lemma per_req_iff f : forall reqs b T,
  per_req f b reqs T = true <->
  (forall i q, nth_error reqs i = Some q -> f q (ex (b + i) T) = true).
Proof.
  induction reqs as [|q0 rest IH]; intros b T; cbn [per_req].
  - split; [|reflexivity]. intros _ i q H. destruct i; discriminate H.
  - rewrite andb_true_iff, IH. split.
    + intros [H0 Hr] i q Hn. destruct i as [|i]; cbn in Hn.
      * inversion Hn; subst. rewrite Nat.add_0_r. exact H0.
      * replace (b + S i) with (S b + i) by lia. apply Hr, Hn.
    + intros H. split.
      * specialize (H 0 q0 eq_refl). rewrite Nat.add_0_r in H. exact H.
      * intros i q Hn. replace (S b + i) with (b + S i) by lia. apply H. exact Hn.
Qed.

(* ---------------- one connection, whole case ---------------- *)

Record conn_good (k b : nat) (reqs : list req) (T : list event) : Prop := mkGood
  { g_scope : P_scope b (length reqs) T;
    g_hijack : P_hijack T;
    g_reqmod : forall i q, nth_error reqs i = Some q -> P_reqmod_ex (ex (b + i) T);
    g_resmod : forall i q, nth_error reqs i = Some q -> P_resmod_ex q (ex (b + i) T);
    g_session : P_session k T;
    g_linked : P_linked T;
    g_error : forall i q, nth_error reqs i = Some q -> P_error_ex q (ex (b + i) T);
    g_skip : forall i q, nth_error reqs i = Some q -> P_skip_ex q (ex (b + i) T);
    g_relay : forall i q, nth_error reqs i = Some q -> P_relay_ex q (ex (b + i) T);
    g_presented : count is_reqmod T = nread reqs }.

Lemma negb_if_none {A} (c : bool) (x : A) (y : option A) :
  (if negb c then Some x else y) = None <-> c = true /\ y = None.
Proof. destruct c; cbn; split; try tauto; try discriminate. intros [H _]. discriminate H. Qed.

Lemma conn_fail_iff k b reqs T : conn_fail k b reqs T = None <-> conn_good k b reqs T.
Proof.
  unfold conn_fail. rewrite !negb_if_none.
  rewrite scope_iff, cl_hijack_iff, cl_session_iff, cl_linked_iff.
  unfold cl_reqmod, cl_resmod, cl_error, cl_skip, cl_relay, cl_presented. rewrite !per_req_iff, Nat.eqb_eq.
  split.
  - intros [H1 [H2 [H3 [H4 [H5 [H6 [H7 [H8 [H9 [H10 _]]]]]]]]]].
    constructor; auto; intros i q Hn.
    + apply cl_reqmod_ex_iff. exact (H3 i q Hn).
    + apply cl_resmod_ex_iff, H4, Hn.
    + apply cl_error_ex_iff, H7, Hn.
    + apply cl_skip_ex_iff, H8, Hn.
    + apply cl_relay_ex_iff, H9, Hn.
  - intros [H1 H2 H3 H4 H5 H6 H7 H8 H9 H10].
    refine (conj H1 (conj H2 (conj _ (conj _ (conj H5 (conj H6 (conj _ (conj _ (conj _ (conj H10 eq_refl))))))))));
      intros i q Hn.
    + apply cl_reqmod_ex_iff. exact (H3 i q Hn).
    + apply cl_resmod_ex_iff, H4, Hn.
    + apply cl_error_ex_iff, H7, Hn.
    + apply cl_skip_ex_iff, H8, Hn.
    + apply cl_relay_ex_iff, H9, Hn.
Qed.

Fixpoint conns_good (k b : nat) (conns : list (list req)) (Ts : list (list event)) : Prop :=
  match conns, Ts with
  | [], [] => True
  | reqs :: cs, T :: Ts' =>
      conn_good k b reqs T /\
      conns_good (match reqs with [] => k | _ => S k end) (b + length reqs) cs Ts'
  | _, _ => False
  end.

Lemma conns_fail_iff : forall conns Ts k b,
  conns_fail k b conns Ts = None <-> conns_good k b conns Ts.
Proof.
  induction conns as [|reqs cs IH]; intros Ts k b; destruct Ts as [|T Ts]; cbn [conns_fail conns_good].
  - tauto.
  - split; [discriminate|tauto].
  - split; [discriminate|tauto].
  - rewrite <- IH, <- conn_fail_iff.
    destruct (conn_fail k b reqs T); split; try tauto; try discriminate.
Qed.

(* The property, as a statement about what was observed of one case:
   [conns] the scripts played, [Ts] one observed trace per connection,
   [live] / [ret] the number of contexts still retrievable afterwards. *)
Definition C02_good (conns : list (list req)) (Ts : list (list event)) (live ret : nat) : Prop :=
  conns_good 0 0 conns Ts /\ NoDup (flat_map ctxs Ts) /\ live = 0 /\ ret = 0.

Theorem c02_ok_iff conns Ts live ret :
  c02_ok conns Ts live ret = true <-> C02_good conns Ts live ret.
Proof.
  unfold c02_ok, c02_fail, C02_good. rewrite <- conns_fail_iff, <- nodupb_iff.
  destruct (conns_fail 0 0 conns Ts); [split; [discriminate|intros [H _]; discriminate H]|].
  destruct (nodupb (flat_map ctxs Ts)); cbn; [|split; [discriminate|intros [_ [H _]]; discriminate H]].
  destruct (Nat.eqb live 0) eqn:E1; destruct (Nat.eqb ret 0) eqn:E2; cbn;
    rewrite ?Nat.eqb_eq, ?Nat.eqb_neq in *; split; try discriminate; try tauto; intuition.
Qed.
