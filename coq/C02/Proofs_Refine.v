(* C02 — the implementation model of the repaired code refines the
   per-exchange specification, for every request list. *)
From Coq Require Import List Bool Arith Lia.
From Martian.C02 Require Import Model.
Import ListNotations.

(* armed flag of [obs_of] after a trace *)
Fixpoint arm (a : bool) (T : list event) : bool :=
  match T with
  | [] => a
  | e :: T' =>
      match e with
      | Link _ _ | Unlink _ => arm a T'
      | SockRead | SockWrite | SockClose => arm false T'
      | HijackRet _ => arm true T'
      | _ => arm a T'
      end
  end.

Lemma obs_of_app a T1 T2 :
  obs_of a (T1 ++ T2) = obs_of a T1 ++ obs_of (arm a T1) T2.
Proof.
  revert a. induction T1 as [|e T1 IH]; intros a; [reflexivity|].
  destruct e; cbn [app obs_of arm]; try (rewrite IH; reflexivity).
  - destruct a; cbn [app]; rewrite IH; reflexivity.
  - destruct a; cbn [app]; rewrite IH; reflexivity.
Qed.

Lemma arm_app a T1 T2 : arm a (T1 ++ T2) = arm (arm a T1) T2.
Proof.
  revert a. induction T1 as [|e T1 IH]; intros a; [reflexivity|].
  destruct e; cbn [app arm]; apply IH.
Qed.

Lemma unlink_single r c : unlink r [(r, c)] = [].
Proof. unfold unlink. cbn. rewrite Nat.eqb_refl. reflexivity. Qed.

(* What one call of handle contributes, relative to the specification. *)
Definition handle_ok (s r c : nat) (reqs : list req)
           (out : list event * state * list req * result) : Prop :=
  let '(ev, st', rest, res) := out in
  linked st' = [] /\
  arm false ev = hijacked st' /\
  exists n, next_ctx st' = c + n /\
    match res, hijacked st' with
    | RNil, false =>
        length rest < length reqs /\
        spec_conn s r c reqs =
          (let '(T, n') := spec_conn s (next_req st') (next_ctx st') rest in
           (obs_of false ev ++ T, n + n'))
    | _, _ => spec_conn s r c reqs = (obs_of false ev ++ [SockClose], n)
    end.

Ltac case_req q :=
  destruct q as [md qh qe qs rt sh se cl]; destruct md, qh, qe, qs, rt, sh, se, cl.

Lemma handle_refines : forall reqs s r c,
  handle_ok s r c reqs (handle fixed s (mkSt r c [] false) reqs).
Proof.
  induction reqs as [|q rest IH]; intros s r c.
  - cbn. repeat split. exists 0. split; [lia|reflexivity].
  - destruct (r_mode q) eqn:Hm.
    + (* Plain: no recursion *)
      case_req q; try discriminate Hm; clear Hm IH;
        cbn; rewrite ?Nat.eqb_refl; cbn;
        repeat split; exists 1; (split; [lia|]);
        try (split; [lia|]);
        try reflexivity;
        destruct (spec_conn s (S r) (S c) rest) as [T n']; reflexivity.
    + (* ConnectBlind: no recursion *)
      case_req q; try discriminate Hm; clear Hm IH;
        cbn; rewrite ?Nat.eqb_refl; cbn;
        repeat split; exists 1; (split; [lia|]);
        try (split; [lia|]);
        try reflexivity;
        destruct (spec_conn s (S r) (S c) rest) as [T n']; reflexivity.
    + (* ConnectDown: no recursion *)
      case_req q; try discriminate Hm; clear Hm IH;
        cbn; rewrite ?Nat.eqb_refl; cbn;
        repeat split; exists 1; (split; [lia|]);
        try (split; [lia|]);
        try reflexivity;
        destruct (spec_conn s (S r) (S c) rest) as [T n']; reflexivity.
    + (* ConnectMitm *)
      destruct (is_qhijack q) eqn:Hq; [|destruct (is_shijack q) eqn:Hs].
      * case_req q; try discriminate Hm; try discriminate Hq; clear IH;
          cbn; rewrite ?Nat.eqb_refl; cbn;
          repeat split; exists 1; (split; [lia|]); reflexivity.
      * case_req q; try discriminate Hm; try discriminate Hq; try discriminate Hs; clear IH;
          cbn; rewrite ?Nat.eqb_refl; cbn;
          repeat split; exists 1; (split; [lia|]); reflexivity.
      * (* the tunnel is served by the nested call *)
        specialize (IH s (S r) (S c)).
        cbn [handle]. rewrite Hm.
        cbn [hijacked orb]. rewrite Hq, Hs.
        cbn [fixed v_unlink_connect linked next_req next_ctx app map fst].
        rewrite unlink_single.
        destruct (handle fixed s (mkSt (S r) (S c) [] false) rest)
          as [[[ev2 st2] rest2] res2] eqn:Hh.
        unfold handle_ok in IH.
        destruct IH as [Hl [Ha [n [Hn Hspec]]]].
        unfold handle_ok.
        cbn [linked hijacked next_ctx next_req].
        rewrite Hl. split; [reflexivity|].
        rewrite app_nil_r.
        split; [cbn [arm]; exact Ha|].
        exists (S n). split; [lia|].
        assert (Hblk : block r c s q =
                       ([ReqMod r c s [r]; ResMod r true c s 200 0 (b2n (is_qerr q)) [r];
                         Write r 200 (b2n (is_serr q)) (r_close q) 1], Continue)).
        { unfold block. rewrite Hq, Hm, Hs. reflexivity. }
        cbn [spec_conn]. rewrite Hblk. cbn [obs_of app].
        destruct res2; destruct (hijacked st2) eqn:Hhj.
        -- rewrite Hspec. reflexivity.
        -- destruct Hspec as [Hlen Hspec]. split; [cbn [length]; lia|].
           rewrite Hspec.
           destruct (spec_conn s (next_req st2) (next_ctx st2) rest2) as [T n'].
           reflexivity.
        -- rewrite Hspec. reflexivity.
        -- rewrite Hspec. reflexivity.
Qed.

Lemma loop_refines : forall fuel reqs s r c,
  length reqs < fuel ->
  exists ev st',
    loop fixed fuel s (mkSt r c [] false) reqs = Some (ev, st') /\
    linked st' = [] /\
    spec_conn s r c reqs = (obs_of false ev, next_ctx st' - c) /\
    c <= next_ctx st'.
Proof.
  induction fuel as [|f IH]; intros reqs s r c Hf; [lia|].
  cbn [loop].
  pose proof (handle_refines reqs s r c) as H.
  destruct (handle fixed s (mkSt r c [] false) reqs) as [[[ev st1] rest] res] eqn:Hh.
  unfold handle_ok in H. destruct H as [Hl [Ha [n [Hn Hspec]]]].
  assert (Hc : obs_of false (ev ++ [SockClose]) = obs_of false ev ++ [SockClose]).
  { rewrite obs_of_app. reflexivity. }
  destruct res.
  - (* RNil *)
    cbn [fixed v_exit_on_hijack andb].
    destruct (hijacked st1) eqn:Hhj.
    + exists (ev ++ [SockClose]), st1. split; [reflexivity|]. split; [exact Hl|].
      rewrite Hspec. rewrite Hc.
      split; [f_equal; lia|lia].
    + destruct Hspec as [Hlen Hspec].
      destruct st1 as [r1 c1 l1 h1]. cbn in Hl, Hhj, Hn. subst l1 h1.
      destruct (IH rest s r1 c1 ltac:(lia)) as [ev2 [st2 [Hloop [Hl2 [Hs2 Hle]]]]].
      rewrite Hloop. exists (ev ++ ev2), st2. split; [reflexivity|].
      split; [exact Hl2|].
      rewrite Hspec. cbn [next_req next_ctx]. rewrite Hs2.
      rewrite obs_of_app. cbn in Ha. rewrite Ha.
      split; [f_equal; lia|lia].
  - (* RClose *)
    exists (ev ++ [SockClose]), st1. split; [reflexivity|]. split; [exact Hl|].
    assert (Hs' : spec_conn s r c reqs = (obs_of false ev ++ [SockClose], n)).
    { destruct (hijacked st1); exact Hspec. }
    rewrite Hs'. rewrite Hc.
    split; [f_equal; lia|lia].
Qed.

Lemma run_refines : forall conns k r c,
  exists st',
    run fixed k (mkSt r c [] false) conns = Some (spec_run k r c conns, st') /\
    linked st' = [].
Proof.
  induction conns as [|reqs cs IH]; intros k r c.
  - eexists. split; reflexivity.
  - cbn [run spec_run next_req next_ctx linked].
    unfold conn_model.
    destruct (loop_refines (S (length reqs)) reqs k r c ltac:(lia))
      as [ev [st1 [Hloop [Hl [Hs Hle]]]]].
    rewrite Hloop. rewrite Hs. rewrite Hl.
    replace (c + (next_ctx st1 - c)) with (next_ctx st1) by lia.
    destruct (IH (match reqs with [] => k | _ => S k end) (r + length reqs) (next_ctx st1))
      as [st' [Hrun Hl']].
    rewrite Hrun. exists st'. split; [reflexivity|exact Hl'].
Qed.

(* The model never runs out of fuel, ends with an empty request->context
   table, and its observable traces are exactly the specification's. *)
Theorem model_refines_spec : forall conns,
  model_obs fixed conns = Some (spec_obs conns, 0).
Proof.
  intros conns. unfold model_obs, init, spec_obs.
  destruct (run_refines conns 0 0 0) as [st' [Hrun Hl]].
  rewrite Hrun, Hl. reflexivity.
Qed.
