(* C02 — each exchange runs request then response modifiers exactly once with
   one context.

   Definitions only.  Three layers:

   - [handle] / [loop] / [run] : the implementation model, a deterministic
     event generator that follows proxy.go's handleLoop / handle /
     handleConnectRequest statement by statement (including the recursive
     call of handle from the MITM branch, the deferred unlink and "return nil
     => the loop iterates again").  It is parameterised by a [variant] that
     says which of the two proposed repairs are present; [fixed] is the
     repaired code (fixes/C02-1, fixes/C02-2), [asis] the pinned commit.
   - [block] / [spec_conn] / [spec_run] : the abstract description of what
     must be observable, exchange by exchange, with no state at all.
   - clause checkers [cl_*] and the oracle [c02_ok] evaluated on what the
     harness observed of the real proxy. *)

From Coq Require Import List Bool Arith NArith.
Import ListNotations.

(* ------------------------------------------------------------------ *)
(* Inputs                                                              *)
(* ------------------------------------------------------------------ *)

(* ConnectDown = a CONNECT tunnelled blindly through a configured downstream
   proxy (SetDownstreamProxy), to which the CONNECT request is forwarded *)
Inductive mode := Plain | ConnectBlind | ConnectDown | ConnectMitm.
(* what the round tripper / dialer does: answers with res.Request set to the
   request it was given, to a copy of it, to nil; or fails *)
Inductive rtb := RtOk | RtClone | RtNil | RtFail.

(* Modifier behaviours are independent flags of one call: the request
   modifier may hijack the session, return an error, ask to skip the round
   trip, in any combination (it always mutates the request); the response
   modifier may hijack and / or return an error. *)
Record req := mkReq
  { r_mode : mode;
    q_hij : bool; q_err : bool; q_skip : bool;
    r_rt : rtb;
    s_hij : bool; s_err : bool;
    r_close : bool }.

Definition is_qhijack (q : req) : bool := q_hij q.
Definition is_qerr (q : req) : bool := q_err q.
Definition is_qskip (q : req) : bool := q_skip q.
Definition is_shijack (q : req) : bool := s_hij q.
Definition is_serr (q : req) : bool := s_err q.
Definition rt_fails (q : req) : bool := match r_rt q with RtFail => true | _ => false end.
Definition is_blind (q : req) : bool :=
  match r_mode q with ConnectBlind | ConnectDown => true | _ => false end.
Definition is_plain (q : req) : bool := match r_mode q with Plain => true | _ => false end.
Definition b2n (b : bool) : nat := if b then 1 else 0.

(* ------------------------------------------------------------------ *)
(* Events                                                              *)
(* ------------------------------------------------------------------ *)

(* r = position of the request in the case; c, s = context / session
   identifiers; L = requests whose context is retrievable at that moment;
   warn = number of Warning header values, each of the form
   warn-code SP warn-agent SP quoted-string [SP quoted-string] without
   control characters (a value not of that form is observed as 100);
   qwarn = the same count on res.Request.Header, i.e. on the request the
   request modifier ran on, as the response modifier finds it. *)
Inductive event :=
| Link (r c : nat)
| Unlink (r : nat)
| ReqMod (r c s : nat) (L : list nat)
| Upstream (r : nat) (same : bool) (warn m : nat)
| Dial (r : nat)
| ResMod (r : nat) (same : bool) (c s status warn qwarn : nat) (L : list nat)
| Write (r status warn : nat) (close : bool) (m : nat)
| Tunnel (r : nat)
| HijackRet (r : nat)
| SockRead
| SockWrite
| SockClose.

(* ------------------------------------------------------------------ *)
(* Implementation model                                                *)
(* ------------------------------------------------------------------ *)

Record variant := mkVar
  { v_exit_on_hijack : bool;    (* fixes/C02-1: handleLoop returns once the session is hijacked *)
    v_unlink_connect : bool }.  (* fixes/C02-2: the CONNECT request is unlinked before its tunnel is served *)

Definition fixed : variant := mkVar true true.
Definition asis : variant := mkVar false false.

Record state := mkSt
  { next_req : nat;                 (* position of the next request on the wire *)
    next_ctx : nat;                 (* contexts handed out so far (withSession) *)
    linked : list (nat * nat);      (* the request -> context table, context.go:52-55 *)
    hijacked : bool }.              (* session.hijacked *)

Definition unlink (r : nat) (l : list (nat * nat)) : list (nat * nat) :=
  filter (fun p => negb (Nat.eqb (fst p) r)) l.

Inductive result := RNil | RClose.   (* handle returned nil / a closeable error *)

(* proxy.go handle (442-585) + handleConnectRequest (298-440).
   [reqs] = the requests the client still sends on this connection;
   reading from an exhausted list is EOF => errClose. *)
Fixpoint handle (v : variant) (s : nat) (st : state) (reqs : list req)
  : list event * state * list req * result :=
  match reqs with
  | [] => ([SockRead], st, [], RClose)                       (* 445-448 readRequest fails *)
  | q :: rest =>
      let r := next_req st in
      let c := next_ctx st in                                 (* 452 withSession *)
      let l1 := linked st ++ [(r, c)] in                      (* 458 link *)
      let L := map fst l1 in
      let head := [SockRead; Link r c; ReqMod r c s L] in     (* 299 / 494 reqmod *)
      let hij := hijacked st || is_qhijack q in               (* 303 / 498 session.Hijacked() *)
      let hret := if is_qhijack q then [HijackRet r] else [] in
      let st' h := mkSt (S r) (S c) (unlink r l1) h in         (* 459 deferred unlink *)
      let se := b2n (is_serr q) in
      let wq := b2n (is_qerr q) in                            (* 301 / 496 Warning on the request *)
      (* the CONNECT request as the downstream proxy receives it *)
      let fwd := match r_mode q with ConnectDown => [Upstream r true wq 1] | _ => [] end in
      if hij then (head ++ hret ++ [Unlink r], st' true, rest, RNil)
      else
      match r_mode q with
      | Plain =>
          let up := if is_qskip q then [] else [Upstream r true wq 1] in   (* 503 / 600 *)
          let '(status, w0) :=
            if is_qskip q then (200, 0)
            else if rt_fails q then (502, 1) else (203, 0) in  (* 506-507; 513 res.Request = req *)
          let rm := ResMod r true c s status w0 wq L in          (* 513-515 *)
          if is_shijack q
          then (head ++ up ++ [rm; HijackRet r; Unlink r], st' true, rest, RNil)   (* 519-522 *)
          else (head ++ up ++ [rm; Write r status (w0 + se) (r_close q) 1; Unlink r],
                st' false, rest, if r_close q then RClose else RNil)      (* 525-584 *)
      | ConnectBlind | ConnectDown =>
          (* p.connect: [Dial r] is the one dial it performs in either branch: the
             target itself, or the configured downstream proxy, to which it then
             writes the CONNECT request and whose answer it reads with
             http.ReadResponse(pbr, req), i.e. res.Request is req.  A dial or read
             failure is the 502 path; handleConnectRequest never re-assigns
             res.Request, so "same request" rests on connect() in both branches. *)
          if rt_fails q
          then                                                 (* 374-396 *)
              let rm := ResMod r true c s 502 1 wq L in
              if is_shijack q
              then (head ++ [Dial r; rm; HijackRet r; Unlink r], st' true, rest, RNil)
              else (head ++ [Dial r; rm; Write r 502 (1 + se) (r_close q) 1; Unlink r],
                    st' false, rest, RNil)
          else                                                 (* 397-439 *)
              let rm := ResMod r true c s 200 0 wq L in
              if is_shijack q
              then (head ++ [Dial r] ++ fwd ++ [rm; HijackRet r; Unlink r], st' true, rest, RNil)
              else (head ++ [Dial r] ++ fwd ++ [rm; Write r 200 se true 1; Tunnel r; Unlink r],
                    st' false, rest, RClose)
      | ConnectMitm =>                                         (* 308-370 *)
          let rm := ResMod r true c s 200 0 wq L in
          if is_shijack q
          then (head ++ [rm; HijackRet r; Unlink r], st' true, rest, RNil)
          else
            let early := v_unlink_connect v in
            let st1 := mkSt (S r) (S c) (if early then unlink r l1 else l1) false in
            let '(ev, st2, rest2, res) := handle v s st1 rest in          (* 364 / 369 *)
            (head ++ [rm; Write r 200 se (r_close q) 1]
                  ++ (if early then [Unlink r] else [])
                  ++ ev
                  ++ (if early then [] else [Unlink r]),
             mkSt (next_req st2) (next_ctx st2) (unlink r (linked st2)) (hijacked st2),
             rest2, res)
      end
  end.

(* handleLoop 256-264.  [None] = out of fuel (excluded by theorem). *)
Fixpoint loop (v : variant) (fuel : nat) (s : nat) (st : state) (reqs : list req)
  : option (list event * state) :=
  match fuel with
  | 0 => None
  | S f =>
      let '(ev, st1, rest, res) := handle v s st reqs in
      match res with
      | RClose => Some (ev ++ [SockClose], st1)               (* isCloseable => return; defer conn.Close() *)
      | RNil =>
          if v_exit_on_hijack v && hijacked st1
          then Some (ev ++ [SockClose], st1)
          else match loop v f s st1 rest with
               | None => None
               | Some (ev2, st2) => Some (ev ++ ev2, st2)
               end
      end
  end.

Definition conn_model (v : variant) (s : nat) (st : state) (reqs : list req)
  : option (list event * state) :=
  loop v (S (length reqs)) s st reqs.

(* What the harness can see of a trace: Link/Unlink are visible only through
   the L fields; socket reads/writes only as the first socket action after a
   hijacking modifier returned. *)
Fixpoint obs_of (armed : bool) (T : list event) : list event :=
  match T with
  | [] => []
  | e :: T' =>
      match e with
      | Link _ _ | Unlink _ => obs_of armed T'
      | SockRead | SockWrite => if armed then e :: obs_of false T' else obs_of false T'
      | SockClose => e :: obs_of false T'
      | HijackRet _ => e :: obs_of true T'
      | _ => e :: obs_of armed T'
      end
  end.

(* Connections are played one after the other; the k-th one that sends a
   request has session k; contexts are numbered in order of creation. *)
Fixpoint run (v : variant) (k : nat) (st : state) (conns : list (list req))
  : option (list (list event) * state) :=
  match conns with
  | [] => Some ([], st)
  | reqs :: cs =>
      match conn_model v k (mkSt (next_req st) (next_ctx st) (linked st) false) reqs with
      | None => None
      | Some (ev, st1) =>
          let st2 := mkSt (next_req st + length reqs) (next_ctx st1) (linked st1) false in
          match run v (match reqs with [] => k | _ => S k end) st2 cs with
          | None => None
          | Some (evs, st3) => Some (obs_of false ev :: evs, st3)
          end
      end
  end.

Definition init : state := mkSt 0 0 [] false.

Definition model_obs (v : variant) (conns : list (list req)) : option (list (list event) * nat) :=
  match run v 0 init conns with
  | None => None
  | Some (evs, st) => Some (evs, length (linked st))
  end.

(* ------------------------------------------------------------------ *)
(* Abstract specification: one block per exchange                      *)
(* ------------------------------------------------------------------ *)

Inductive outcome := Continue | Stop.

Definition block (r c s : nat) (q : req) : list event * outcome :=
  let L := [r] in
  let se := b2n (is_serr q) in
  let wq := b2n (is_qerr q) in
  let fwd := match r_mode q with ConnectDown => [Upstream r true wq 1] | _ => [] end in
  if is_qhijack q then ([ReqMod r c s L; HijackRet r], Stop)
  else
  match r_mode q with
  | Plain =>
      let up := if is_qskip q then [] else [Upstream r true wq 1] in
      let '(status, w0) :=
        if is_qskip q then (200, 0)
        else if rt_fails q then (502, 1) else (203, 0) in
      if is_shijack q
      then (ReqMod r c s L :: up ++ [ResMod r true c s status w0 wq L; HijackRet r], Stop)
      else (ReqMod r c s L :: up ++ [ResMod r true c s status w0 wq L; Write r status (w0 + se) (r_close q) 1],
            if r_close q then Stop else Continue)
  | ConnectBlind | ConnectDown =>
      if rt_fails q
      then
          if is_shijack q
          then ([ReqMod r c s L; Dial r; ResMod r true c s 502 1 wq L; HijackRet r], Stop)
          else ([ReqMod r c s L; Dial r; ResMod r true c s 502 1 wq L; Write r 502 (1 + se) (r_close q) 1], Continue)
      else
          if is_shijack q
          then (ReqMod r c s L :: Dial r :: fwd ++ [ResMod r true c s 200 0 wq L; HijackRet r], Stop)
          else (ReqMod r c s L :: Dial r :: fwd ++ [ResMod r true c s 200 0 wq L; Write r 200 se true 1; Tunnel r], Stop)
  | ConnectMitm =>
      if is_shijack q
      then ([ReqMod r c s L; ResMod r true c s 200 0 wq L; HijackRet r], Stop)
      else ([ReqMod r c s L; ResMod r true c s 200 0 wq L; Write r 200 se (r_close q) 1], Continue)
  end.

(* Returns the observable trace and the number of exchanges that took place. *)
Fixpoint spec_conn (s r c : nat) (reqs : list req) : list event * nat :=
  match reqs with
  | [] => ([SockClose], 0)
  | q :: rest =>
      let '(evs, oc) := block r c s q in
      match oc with
      | Stop => (evs ++ [SockClose], 1)
      | Continue => let '(T, n) := spec_conn s (S r) (S c) rest in (evs ++ T, S n)
      end
  end.

Fixpoint spec_run (k r c : nat) (conns : list (list req)) : list (list event) :=
  match conns with
  | [] => []
  | reqs :: cs =>
      let '(T, n) := spec_conn k r c reqs in
      T :: spec_run (match reqs with [] => k | _ => S k end) (r + length reqs) (c + n) cs
  end.

Definition spec_obs (conns : list (list req)) : list (list event) := spec_run 0 0 0 conns.

(* ------------------------------------------------------------------ *)
(* Equality deciders                                                   *)
(* ------------------------------------------------------------------ *)

Fixpoint list_eqb {A} (eqb : A -> A -> bool) (a b : list A) : bool :=
  match a, b with
  | [], [] => true
  | x :: a', y :: b' => eqb x y && list_eqb eqb a' b'
  | _, _ => false
  end.

Definition nl_eqb := list_eqb Nat.eqb.

Definition event_eqb (a b : event) : bool :=
  match a, b with
  | Link r c, Link r' c' => Nat.eqb r r' && Nat.eqb c c'
  | Unlink r, Unlink r' => Nat.eqb r r'
  | ReqMod r c s L, ReqMod r' c' s' L' => Nat.eqb r r' && Nat.eqb c c' && Nat.eqb s s' && nl_eqb L L'
  | Upstream r sm w m, Upstream r' sm' w' m' => Nat.eqb r r' && Bool.eqb sm sm' && Nat.eqb w w' && Nat.eqb m m'
  | Dial r, Dial r' => Nat.eqb r r'
  | ResMod r sm c s st w qw L, ResMod r' sm' c' s' st' w' qw' L' =>
      Nat.eqb r r' && Bool.eqb sm sm' && Nat.eqb c c' && Nat.eqb s s' && Nat.eqb st st' && Nat.eqb w w'
      && Nat.eqb qw qw' && nl_eqb L L'
  | Write r st w cl m, Write r' st' w' cl' m' =>
      Nat.eqb r r' && Nat.eqb st st' && Nat.eqb w w' && Bool.eqb cl cl' && Nat.eqb m m'
  | Tunnel r, Tunnel r' => Nat.eqb r r'
  | HijackRet r, HijackRet r' => Nat.eqb r r'
  | SockRead, SockRead => true
  | SockWrite, SockWrite => true
  | SockClose, SockClose => true
  | _, _ => false
  end.

Definition trace_eqb := list_eqb event_eqb.
Definition traces_eqb := list_eqb trace_eqb.

(* ------------------------------------------------------------------ *)
(* Clause checkers over an observed trace                              *)
(* ------------------------------------------------------------------ *)

Definition ev_req (e : event) : option nat :=
  match e with
  | Link r _ | Unlink r | ReqMod r _ _ _ | Upstream r _ _ _ | Dial r
  | ResMod r _ _ _ _ _ _ _ | Write r _ _ _ _ | Tunnel r | HijackRet r => Some r
  | SockRead | SockWrite | SockClose => None
  end.

Definition about (r : nat) (e : event) : bool :=
  match ev_req e with Some r' => Nat.eqb r' r | None => false end.

(* the sub-trace of exchange r *)
Definition ex (r : nat) (T : list event) : list event := filter (about r) T.

Definition is_reqmod (e : event) : bool := match e with ReqMod _ _ _ _ => true | _ => false end.
Definition is_resmod (e : event) : bool := match e with ResMod _ _ _ _ _ _ _ _ => true | _ => false end.
Definition is_contact (e : event) : bool := match e with Upstream _ _ _ _ | Dial _ => true | _ => false end.
Definition is_write (e : event) : bool := match e with Write _ _ _ _ _ => true | _ => false end.
Definition count (p : event -> bool) (T : list event) : nat := length (filter p T).

(* C1: the request modifier ran exactly once, first, on the request object
   that is then sent upstream carrying the modifier's effect once. *)
Definition contact_wf (e : event) : bool :=
  match e with Upstream _ sm _ m => sm && Nat.eqb m 1 | _ => true end.

Definition cl_reqmod_ex (E : list event) : bool :=
  match E with
  | [] => true
  | ReqMod _ _ _ _ :: tl => negb (existsb is_reqmod tl) && forallb contact_wf tl
  | _ :: _ => false
  end.

(* C2: the response modifier ran exactly once (never if the request modifier
   hijacked), after every upstream contact, on a response whose Request is
   the same object, with the same context and session. *)
Fixpoint no_contact_after_resmod (seen : bool) (E : list event) : bool :=
  match E with
  | [] => true
  | e :: E' => negb (seen && is_contact e) && no_contact_after_resmod (seen || is_resmod e) E'
  end.

Definition resmod_wf (c s : nat) (e : event) : bool :=
  match e with ResMod _ sm c' s' _ _ _ _ => sm && Nat.eqb c' c && Nat.eqb s' s | _ => true end.

Definition cl_resmod_ex (q : req) (E : list event) : bool :=
  match E with
  | [] => true
  | ReqMod _ c s _ :: tl =>
      Nat.eqb (count is_resmod tl) (if is_qhijack q then 0 else 1)
      && forallb (resmod_wf c s) tl && no_contact_after_resmod false tl
  | _ :: _ => false
  end.

(* C5 (per event): only the current exchange's context is retrievable. *)
Definition linked_wf (e : event) : bool :=
  match e with
  | ReqMod r _ _ L => nl_eqb L [r]
  | ResMod r _ _ _ _ _ _ L => nl_eqb L [r]
  | _ => true
  end.

(* C6: a modifier error is a Warning and nothing else changes: unless a
   modifier hijacks, the exchange is answered once, with the status the
   response modifier saw and its warnings plus one iff it failed; the
   forwarded request (also a CONNECT forwarded to a downstream proxy) and
   the request as the response modifier finds it in res.Request carry one
   warning iff the request modifier failed. *)
Definition find_resmod (E : list event) : option (nat * nat) :=
  match filter is_resmod E with ResMod _ _ _ _ st w _ _ :: _ => Some (st, w) | _ => None end.

Definition write_wf (q : req) (stw : option (nat * nat)) (e : event) : bool :=
  match e with
  | Write _ st w _ m =>
      match stw with
      | Some (st', w') => Nat.eqb st st' && Nat.eqb w (w' + b2n (is_serr q)) && Nat.eqb m 1
      | None => false
      end
  | Upstream _ _ w _ => Nat.eqb w (b2n (is_qerr q))
  | ResMod _ _ _ _ _ _ qw _ => Nat.eqb qw (b2n (is_qerr q))
  | _ => true
  end.

Definition cl_error_ex (q : req) (E : list event) : bool :=
  match E with
  | [] => true
  | _ =>
      forallb (write_wf q (find_resmod E)) E
      && (if is_qhijack q || is_shijack q then Nat.eqb (count is_write E) 0
          else Nat.eqb (count is_write E) 1)
  end.

(* C7: skip => no upstream contact and, unless the same call hijacked the
   session, a 200 without warnings reaches the response modifier. *)
Definition cl_skip_ex (q : req) (E : list event) : bool :=
  match E with
  | [] => true
  | _ =>
      if is_qskip q
      then negb (existsb is_contact E)
           && (is_qhijack q
               || match find_resmod E with Some (st, w) => Nat.eqb st 200 && Nat.eqb w 0 | None => false end)
      else true
  end.

(* C9: upstream is contacted exactly as often as the mode prescribes (once
   for a plain request that is not skipped and for a blind CONNECT, never
   after the request modifier hijacked) and the response modifier is given
   the origin's answer: the origin's status without warnings, or the 502
   with one warning that stands for a failed round trip / dial. *)
Definition want_contacts (q : req) : nat :=
  match r_mode q with
  | Plain => if is_qskip q then 0 else 1
  | ConnectBlind => 1
  | ConnectDown => if rt_fails q then 1 else 2      (* the dial, then the CONNECT forwarded *)
  | ConnectMitm => 0
  end.

Definition want_status (q : req) : nat * nat :=
  match r_mode q with
  | Plain => if is_qskip q then (200, 0) else if rt_fails q then (502, 1) else (203, 0)
  | ConnectBlind | ConnectDown => if rt_fails q then (502, 1) else (200, 0)
  | ConnectMitm => (200, 0)
  end.

Definition cl_relay_ex (q : req) (E : list event) : bool :=
  match E with
  | [] => true
  | _ =>
      if is_qhijack q then Nat.eqb (count is_contact E) 0
      else Nat.eqb (count is_contact E) (want_contacts q)
           && match find_resmod E with
              | Some (st, w) => Nat.eqb st (fst (want_status q)) && Nat.eqb w (snd (want_status q))
              | None => false
              end
  end.

(* C8: after the hijacking modifier returns the only thing that happens is
   the close. *)
Fixpoint cl_hijack (T : list event) : bool :=
  match T with
  | [] => true
  | HijackRet _ :: post => trace_eqb post [SockClose]
  | _ :: T' => cl_hijack T'
  end.

(* C4: every modifier call of this connection sees session k. *)
Definition sess_wf (k : nat) (e : event) : bool :=
  match e with
  | ReqMod _ _ s _ => Nat.eqb s k
  | ResMod _ _ _ s _ _ _ _ => Nat.eqb s k
  | _ => true
  end.

(* C3: context identifiers handed to request modifiers, over the whole case. *)
Definition ctx_of (e : event) : list nat := match e with ReqMod _ c _ _ => [c] | _ => [] end.
Definition ctxs (T : list event) : list nat := flat_map ctx_of T.

Fixpoint nodupb (l : list nat) : bool :=
  match l with
  | [] => true
  | x :: l' => negb (existsb (Nat.eqb x) l') && nodupb l'
  end.

(* per-connection clauses; [b] = position of the connection's first request *)
Fixpoint per_req (f : req -> list event -> bool) (b : nat) (reqs : list req) (T : list event) : bool :=
  match reqs with
  | [] => true
  | q :: rest => f q (ex b T) && per_req f (S b) rest T
  end.

Definition cl_reqmod (b : nat) (reqs : list req) (T : list event) : bool :=
  per_req (fun _ => cl_reqmod_ex) b reqs T.
Definition cl_resmod (b : nat) (reqs : list req) (T : list event) : bool :=
  per_req cl_resmod_ex b reqs T.
Definition cl_error (b : nat) (reqs : list req) (T : list event) : bool :=
  per_req cl_error_ex b reqs T.
Definition cl_skip (b : nat) (reqs : list req) (T : list event) : bool :=
  per_req cl_skip_ex b reqs T.
Definition cl_relay (b : nat) (reqs : list req) (T : list event) : bool :=
  per_req cl_relay_ex b reqs T.
Definition cl_linked (T : list event) : bool := forallb linked_wf T.
Definition cl_session (k : nat) (T : list event) : bool := forallb (sess_wf k) T.

(* every event belongs to a request of this connection (no modifier call for
   anything the client did not send on it) *)
Definition in_range (b n : nat) (e : event) : bool :=
  match ev_req e with Some r => Nat.leb b r && Nat.ltb r (b + n) | None => true end.

(* C10: every request the client sends before one that ends the connection
   (hijack, "Connection: close", an established blind tunnel) is read and
   runs the request modifier: as many request-modifier calls as that. *)
Definition ends (q : req) : bool :=
  match snd (block 0 0 0 q) with Stop => true | Continue => false end.

Fixpoint nread (reqs : list req) : nat :=
  match reqs with
  | [] => 0
  | q :: rest => if ends q then 1 else S (nread rest)
  end.

Definition cl_presented (reqs : list req) (T : list event) : bool :=
  Nat.eqb (count is_reqmod T) (nread reqs).

Inductive clause :=
| CPresented
| CHijack | CReqmod | CResmod | CCtxFresh | CSession | CNoContext | CError | CSkip | CScope | CRelay.

(* First failing clause of one connection. *)
Definition conn_fail (k b : nat) (reqs : list req) (T : list event) : option clause :=
  if negb (forallb (in_range b (length reqs)) T) then Some CScope
  else if negb (cl_hijack T) then Some CHijack
  else if negb (cl_reqmod b reqs T) then Some CReqmod
  else if negb (cl_resmod b reqs T) then Some CResmod
  else if negb (cl_session k T) then Some CSession
  else if negb (cl_linked T) then Some CNoContext
  else if negb (cl_error b reqs T) then Some CError
  else if negb (cl_skip b reqs T) then Some CSkip
  else if negb (cl_relay b reqs T) then Some CRelay
  else if negb (cl_presented reqs T) then Some CPresented
  else None.

Fixpoint conns_fail (k b : nat) (conns : list (list req)) (Ts : list (list event)) : option clause :=
  match conns, Ts with
  | [], [] => None
  | reqs :: cs, T :: Ts' =>
      match conn_fail k b reqs T with
      | Some c => Some c
      | None => conns_fail (match reqs with [] => k | _ => S k end) (b + length reqs) cs Ts'
      end
  | _, _ => Some CScope
  end.

(* [live] = VerifLiveContexts() after everything, [ret] = retained requests
   that still have a context. *)
Definition c02_fail (conns : list (list req)) (Ts : list (list event)) (live ret : nat) : option clause :=
  match conns_fail 0 0 conns Ts with
  | Some c => Some c
  | None =>
      if negb (nodupb (flat_map ctxs Ts)) then Some CCtxFresh
      else if negb (Nat.eqb live 0 && Nat.eqb ret 0) then Some CNoContext
      else None
  end.

Definition c02_ok (conns : list (list req)) (Ts : list (list event)) (live ret : nat) : bool :=
  match c02_fail conns Ts live ret with None => true | Some _ => false end.

(* Correspondence: the observation is exactly what the variant predicts. *)
Definition agrees (v : variant) (conns : list (list req)) (Ts : list (list event)) (live : nat) : bool :=
  match model_obs v conns with
  | None => false
  | Some (Ms, n) => traces_eqb Ms Ts && Nat.eqb n live
  end.

(* ------------------------------------------------------------------ *)
(* Concurrent connections: identifiers                                  *)
(* ------------------------------------------------------------------ *)

(* One exchange of a batch of connections served concurrently, as the
   modifiers observe it: (connection, context ID, session ID).  Binary
   numbers: a run has tens of thousands of exchanges. *)
Definition cobs := (N * N * N)%type.
Definition co_conn (o : cobs) : N := fst (fst o).
Definition co_ctx (o : cobs) : N := snd (fst o).
Definition co_sess (o : cobs) : N := snd o.

(* A schedule says which connection performs the next exchange.  withSession
   (context.go 301-312) draws a fresh identifier for every exchange, newSession
   one per connection; drawing is atomic (newID reads crypto/rand into a slice
   of its own), so in the model the j-th draw of the run gets identifier
   [next + j] whatever the schedule, and connection k keeps session k. *)
Fixpoint conc_run (next : N) (sched : list N) : list cobs :=
  match sched with
  | [] => []
  | k :: rest => (k, next, k) :: conc_run (N.succ next) rest
  end.

Fixpoint nodupN (l : list N) : bool :=
  match l with
  | [] => true
  | x :: l' => negb (existsb (N.eqb x) l') && nodupN l'
  end.

(* oracle for a concurrent batch: context IDs pairwise distinct over ALL
   exchanges of the run; two exchanges have the same session exactly when
   they belong to the same connection *)
Definition conc_ok (obs : list cobs) : bool :=
  nodupN (map co_ctx obs)
  && forallb (fun a => forallb (fun b =>
       Bool.eqb (N.eqb (co_conn a) (co_conn b)) (N.eqb (co_sess a) (co_sess b))) obs) obs.
