From Coq Require Import List Bool Arith.
From Martian.C02 Require Import Model Proofs.
Import ListNotations.
