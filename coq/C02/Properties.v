(* C02 — property theorems.  Statements closed by [exact] only.

   [model_obs fixed conns = Some (Ts, n)]: running the model of the repaired
   proxy (fixes/C02-1, fixes/C02-2) on the connection scripts [conns] yields
   one observable trace per connection ([Ts]) and [n] contexts still linked
   at the end.  [all_conns P 0 0 conns Ts] says P of every connection
   (k = its session number, b = position of its first request, its script,
   its trace); [ex r T] is the sub-trace of the exchange of request r. *)
From Coq Require Import List Bool Arith NArith.
From Martian.C02 Require Import Model Proofs_Refine Proofs_Clauses Proofs_Oracle Proofs_Main Proofs_Conc.
Import ListNotations.

(* The model is total (never out of fuel), ends with an empty
   request->context table and is observably the per-exchange specification. *)
Theorem C02_model_refines_spec : forall conns,
  model_obs fixed conns = Some (spec_obs conns, 0).
Proof. exact model_refines_spec. Qed.
Print Assumptions C02_model_refines_spec.

(* reqmod runs exactly once per request read, before anything else of that
   exchange (hence before any upstream contact), and what goes upstream is
   the same request object carrying the modifier's effect exactly once. *)
Theorem C02_reqmod_once_before_upstream : forall conns Ts n,
  model_obs fixed conns = Some (Ts, n) ->
  all_conns (fun k b reqs T =>
    forall i q, nth_error reqs i = Some q ->
      ex (b + i) T = [] \/
      exists r c s L tl, ex (b + i) T = ReqMod r c s L :: tl /\
        (forall e, In e tl -> is_reqmod e = false) /\
        (forall r' sm w m, In (Upstream r' sm w m) tl -> sm = true /\ m = 1))
    0 0 conns Ts.
Proof. exact m_reqmod. Qed.
Print Assumptions C02_reqmod_once_before_upstream.

(* resmod runs exactly once (not at all iff the request modifier hijacked),
   after every upstream contact, on a response whose Request is that same
   request, and sees the context and session the request modifier saw. *)
Theorem C02_resmod_once_same_request_same_ctx : forall conns Ts n,
  model_obs fixed conns = Some (Ts, n) ->
  all_conns (fun k b reqs T =>
    forall i q, nth_error reqs i = Some q ->
      ex (b + i) T = [] \/
      exists r c s L tl, ex (b + i) T = ReqMod r c s L :: tl /\
        count is_resmod tl = (if is_qhijack q then 0 else 1) /\
        (forall r' sm c' s' st w qw L', In (ResMod r' sm c' s' st w qw L') tl -> sm = true /\ c' = c /\ s' = s) /\
        (forall pre e post e', tl = pre ++ e :: post -> is_resmod e = true -> In e' post -> is_contact e' = false))
    0 0 conns Ts.
Proof. exact m_resmod. Qed.
Print Assumptions C02_resmod_once_same_request_same_ctx.

(* context identifiers are pairwise distinct over all exchanges of all
   connections (in the model's counter; real IDs are 64 random bits). *)
Theorem C02_ctx_fresh : forall conns Ts n,
  model_obs fixed conns = Some (Ts, n) -> NoDup (flat_map ctxs Ts).
Proof. exact m_ctx_fresh. Qed.
Print Assumptions C02_ctx_fresh.

(* every modifier call of the k-th connection sees session k: shared by all
   exchanges of one connection and by no other. *)
Theorem C02_session_shared_per_connection : forall conns Ts n,
  model_obs fixed conns = Some (Ts, n) ->
  all_conns (fun k b reqs T =>
    forall e, In e T ->
      match e with
      | ReqMod _ _ s _ => s = k
      | ResMod _ _ _ s _ _ _ _ => s = k
      | _ => True
      end) 0 0 conns Ts.
Proof. exact m_session. Qed.
Print Assumptions C02_session_shared_per_connection.

(* ... and by no other: modifier calls of two different connections never
   see the same session. *)
Theorem C02_session_by_no_other_connection : forall conns Ts n,
  model_obs fixed conns = Some (Ts, n) ->
  forall i j T1 T2 e1 e2 s1 s2, i <> j ->
    nth_error Ts i = Some T1 -> nth_error Ts j = Some T2 ->
    In e1 T1 -> In e2 T2 -> ev_sess e1 = Some s1 -> ev_sess e2 = Some s2 -> s1 <> s2.
Proof. exact m_session_by_no_other. Qed.
Print Assumptions C02_session_by_no_other_connection.

(* Connections served CONCURRENTLY, under every schedule (which connection
   performs the next exchange): context IDs are pairwise distinct over all
   exchanges of the run and two exchanges share a session exactly when they
   are on the same connection.  Assumption, stated in the model: drawing an
   identifier (context.go newID: crypto/rand into a slice of its own) is
   atomic, i.e. no two draws share state. *)
Theorem C02_ids_unique_under_every_schedule : forall sched next,
  NoDup (map co_ctx (conc_run next sched)) /\
  forall a b, In a (conc_run next sched) -> In b (conc_run next sched) ->
    (co_conn a = co_conn b <-> co_sess a = co_sess b).
Proof. exact conc_model_good. Qed.
Print Assumptions C02_ids_unique_under_every_schedule.

(* the oracle evaluated on a concurrent batch of the real proxy is that statement *)
Theorem C02_concurrent_oracle_is_the_property : forall obs,
  conc_ok obs = true <->
  (NoDup (map co_ctx obs) /\
   forall a b, In a obs -> In b obs -> (co_conn a = co_conn b <-> co_sess a = co_sess b)).
Proof. exact conc_ok_iff. Qed.
Print Assumptions C02_concurrent_oracle_is_the_property.

(* whenever a modifier runs, the only retrievable context is that of the
   exchange it runs for; nothing is retrievable when everything has ended. *)
Theorem C02_no_context_after_exchange : forall conns Ts n,
  model_obs fixed conns = Some (Ts, n) ->
  all_conns (fun k b reqs T =>
    forall e, In e T ->
      match e with
      | ReqMod r _ _ L => L = [r]
      | ResMod r _ _ _ _ _ _ L => L = [r]
      | _ => True
      end) 0 0 conns Ts
  /\ n = 0.
Proof. exact m_linked. Qed.
Print Assumptions C02_no_context_after_exchange.

(* a modifier error only adds a Warning: unless a modifier hijacks, the
   exchange is answered exactly once, with the status the response modifier
   saw and its warnings plus one iff the response modifier failed; what goes
   upstream (a plain request, or a CONNECT forwarded to a downstream proxy)
   and the request the response modifier finds in res.Request carry one
   warning iff the request modifier failed - in every mode. *)
Theorem C02_error_is_warning_and_continues : forall conns Ts n,
  model_obs fixed conns = Some (Ts, n) ->
  all_conns (fun k b reqs T =>
    forall i q, nth_error reqs i = Some q ->
      let E := ex (b + i) T in
      E = [] \/
      ((forall r st w cl m, In (Write r st w cl m) E ->
          exists st' w', find_resmod E = Some (st', w') /\ st = st' /\ w = w' + b2n (is_serr q) /\ m = 1) /\
       (forall r sm w m, In (Upstream r sm w m) E -> w = b2n (is_qerr q)) /\
       (forall r sm c s st w qw L, In (ResMod r sm c s st w qw L) E -> qw = b2n (is_qerr q)) /\
       count is_write E = (if is_qhijack q || is_shijack q then 0 else 1)))
    0 0 conns Ts.
Proof. exact m_error. Qed.
Print Assumptions C02_error_is_warning_and_continues.

(* processing continues whatever the modifiers' errors are: upstream is
   contacted exactly as the mode prescribes (once for a plain request that
   is not skipped, once for a blind CONNECT, not at all after a hijack by
   the request modifier) and the response modifier is handed the origin's
   answer: its status (203 in the harness, 200 for an established tunnel /
   skip / MITM) without warnings, or the 502 + one warning of a failed round
   trip or dial, whatever kind of error that was. *)
Theorem C02_upstream_contacted_and_status_is_origins : forall conns Ts n,
  model_obs fixed conns = Some (Ts, n) ->
  all_conns (fun k b reqs T =>
    forall i q, nth_error reqs i = Some q ->
      let E := ex (b + i) T in
      E = [] \/
      (if is_qhijack q then count is_contact E = 0
       else count is_contact E = want_contacts q /\ find_resmod E = Some (want_status q)))
    0 0 conns Ts.
Proof. exact m_relay. Qed.
Print Assumptions C02_upstream_contacted_and_status_is_origins.

(* every request sent before one that ends the connection (hijack,
   "Connection: close", an established blind tunnel) - plain, CONNECT, or
   decrypted inside a MITM tunnel - is read and runs the request modifier:
   there are exactly [nread reqs] request-modifier calls (each for a different
   request of the connection, by the theorems above). *)
Theorem C02_every_request_sent_is_read : forall conns Ts n,
  model_obs fixed conns = Some (Ts, n) ->
  all_conns (fun k b reqs T => count is_reqmod T = nread reqs) 0 0 conns Ts.
Proof. exact m_presented. Qed.
Print Assumptions C02_every_request_sent_is_read.

(* skip round trip: no upstream contact and, unless the same call hijacked
   the session, a warning-free 200 reaches the response modifier (and, by
   the previous theorem, the client) — for plain
   requests and MITM'd CONNECTs.  Guard: no request is a blindly tunnelled
   CONNECT whose request modifier asked to skip. *)
Theorem C02_skip_means_no_upstream_and_200_through_resmod_partial : forall conns Ts n,
  model_obs fixed conns = Some (Ts, n) ->
  forallb (forallb (fun q => negb (is_blind q && is_qskip q))) conns = true ->
  all_conns (fun k b reqs T =>
    forall i q, nth_error reqs i = Some q ->
      let E := ex (b + i) T in
      E = [] \/
      (is_qskip q = true ->
       (forall e, In e E -> is_contact e = false) /\
       (is_qhijack q = true \/ find_resmod E = Some (200, 0))))
    0 0 conns Ts.
Proof. exact m_skip. Qed.
Print Assumptions C02_skip_means_no_upstream_and_200_through_resmod_partial.

(* ... and it is false for exactly that case: handleConnectRequest dials the
   target although the request modifier asked to skip (known finding C02-K1). *)
Theorem C02_skip_means_no_upstream_and_200_through_resmod_refuted :
  exists Ts n, model_obs fixed w_skip = Some (Ts, n) /\ c02_fail w_skip Ts n 0 = Some CSkip.
Proof. exact fixed_skip_blind_fails. Qed.
Print Assumptions C02_skip_means_no_upstream_and_200_through_resmod_refuted.

(* once the hijacking modifier has returned nothing happens on the
   connection but its close. *)
Theorem C02_hijack_no_more_io_then_close : forall conns Ts n,
  model_obs fixed conns = Some (Ts, n) ->
  all_conns (fun k b reqs T =>
    forall pre r post, T = pre ++ HijackRet r :: post -> post = [SockClose]) 0 0 conns Ts.
Proof. exact m_hijack. Qed.
Print Assumptions C02_hijack_no_more_io_then_close.

(* modifiers are only ever called for requests the client sent on that
   connection. *)
Theorem C02_modifiers_only_for_requests_read : forall conns Ts n,
  model_obs fixed conns = Some (Ts, n) ->
  all_conns (fun k b reqs T =>
    forall e r, In e T -> ev_req e = Some r -> b <= r < b + length reqs) 0 0 conns Ts.
Proof. exact m_scope. Qed.
Print Assumptions C02_modifiers_only_for_requests_read.

(* The oracle the driver evaluates on the real proxy's observations is the
   conjunction of the clauses above ([C02_good] unfolds to them). *)
Theorem C02_oracle_is_the_property : forall conns Ts live ret,
  c02_ok conns Ts live ret = true <-> C02_good conns Ts live ret.
Proof. exact c02_ok_iff. Qed.
Print Assumptions C02_oracle_is_the_property.

(* A PROPFAIL names a clause that does fail: whenever the per-connection
   checker returns clause c, the Prop-level statement of c is false of that
   connection's observation ([clause_prop] lists the statements). *)
Theorem C02_propfail_names_a_failing_clause : forall k b reqs T c,
  conn_fail k b reqs T = Some c -> ~ clause_prop c k b reqs T.
Proof. exact conn_fail_names_failing_clause. Qed.
Print Assumptions C02_propfail_names_a_failing_clause.

Theorem C02_propfail_is_a_violation : forall conns Ts live ret c,
  c02_fail conns Ts live ret = Some c -> ~ C02_good conns Ts live ret.
Proof. exact not_good_of_fail. Qed.
Print Assumptions C02_propfail_is_a_violation.

Theorem C02_model_satisfies_oracle : forall conns Ts n,
  model_obs fixed conns = Some (Ts, n) ->
  forallb (forallb (fun q => negb (is_blind q && is_qskip q))) conns = true ->
  C02_good conns Ts n 0.
Proof. exact m_good. Qed.
Print Assumptions C02_model_satisfies_oracle.

(* The pinned commit, modelled by variant [asis], violates two clauses. *)
Theorem C02_pinned_commit_hijack_refuted :
  exists Ts n, model_obs asis w_hijack = Some (Ts, n) /\ ~ C02_good w_hijack Ts n 0.
Proof. exact asis_hijack_refuted. Qed.
Print Assumptions C02_pinned_commit_hijack_refuted.

Theorem C02_pinned_commit_connect_context_refuted :
  exists Ts n, model_obs asis w_connect = Some (Ts, n) /\ ~ C02_good w_connect Ts n 0.
Proof. exact asis_connect_refuted. Qed.
Print Assumptions C02_pinned_commit_connect_context_refuted.

(* Non-vacuity: an erroring request and response modifier, a skip combined
   with an error, a failed round trip with "Connection: close"; a second
   connection with a MITM'd CONNECT whose response modifier fails, an inner
   request answered by a round tripper that returns a foreign res.Request,
   and a response modifier that hijacks AND returns an error. *)
Example C02_example :
  model_obs fixed
    [[mkReq Plain false true false RtOk false true false; mkReq Plain false true true RtOk false false false;
      mkReq Plain false false false RtFail false false true; mkReq Plain false false false RtOk false false false];
     [mkReq ConnectMitm false false false RtOk false true false; mkReq Plain false false false RtClone false false false;
      mkReq Plain false false false RtNil true true false; mkReq Plain false false false RtOk false false false]]
  = Some
    ([[ReqMod 0 0 0 [0]; Upstream 0 true 1 1; ResMod 0 true 0 0 203 0 1 [0]; Write 0 203 1 false 1;
       ReqMod 1 1 0 [1]; ResMod 1 true 1 0 200 0 1 [1]; Write 1 200 0 false 1;
       ReqMod 2 2 0 [2]; Upstream 2 true 0 1; ResMod 2 true 2 0 502 1 0 [2]; Write 2 502 1 true 1;
       SockClose];
      [ReqMod 4 3 1 [4]; ResMod 4 true 3 1 200 0 0 [4]; Write 4 200 1 false 1;
       ReqMod 5 4 1 [5]; Upstream 5 true 0 1; ResMod 5 true 4 1 203 0 0 [5]; Write 5 203 0 false 1;
       ReqMod 6 5 1 [6]; Upstream 6 true 0 1; ResMod 6 true 5 1 203 0 0 [6]; HijackRet 6;
       SockClose]], 0).
Proof. vm_compute. reflexivity. Qed.

(* concurrent clause: a schedule interleaving three connections *)
Example C02_example_schedule :
  (conc_run 0 [0; 1; 0; 2; 1; 0] = [(0, 0, 0); (1, 1, 1); (0, 2, 0); (2, 3, 2); (1, 4, 1); (0, 5, 0)]
  /\ conc_ok (conc_run 0 [0; 1; 0; 2; 1; 0]) = true
  /\ conc_ok [(0, 0, 0); (1, 0, 1)] = false          (* a repeated context ID *)
  /\ conc_ok [(0, 0, 0); (1, 1, 0)] = false)%N.      (* two connections, one session *)
Proof. repeat split; reflexivity. Qed.

(* clause attribution: the hypothesis is met by the pinned commit's hijack trace *)
Example C02_example_propfail :
  conn_fail 0 0 [mkReq Plain true false false RtOk false false false]
            [ReqMod 0 0 0 [0]; HijackRet 0; SockRead; SockClose] = Some CHijack.
Proof. reflexivity. Qed.

Example C02_example_guard_met :
  forallb (forallb (fun q => negb (is_blind q && is_qskip q)))
    [[mkReq Plain false false true RtOk false false false];
     [mkReq ConnectMitm true true true RtOk false false false]] = true.
Proof. reflexivity. Qed.
