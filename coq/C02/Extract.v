From Coq Require Import ExtrOcamlBasic ExtrOcamlString.
From Martian.Common Require Import ExtractBase.
From Martian.C02 Require Import Model.
Extraction Language OCaml.
Extraction "model.ml" base_anchor fixed asis model_obs spec_obs c02_fail c02_ok agrees
  conn_fail traces_eqb
  ex cl_skip_ex cl_error_ex cl_resmod_ex cl_reqmod_ex cl_relay_ex conc_ok conc_run.
